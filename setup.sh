#!/bin/sh
# MANIFEST.setup_cmd: build the framework offline from files on disk, for every property claimed in MANIFEST.json.
#   1. full .vo build (coq_makefile + make, never -vos) of each claimed property's Props/<ID>.vo and all it depends on
#   2. extraction of each claimed model + ocamlfind ocamlopt of its driver into /verif/build
set -e
cd /verif
mkdir -p build evidence replays
IDS=$(python3 -c "import json;print(' '.join(c['property_id'] for c in json.load(open('/verif/MANIFEST.json'))['checks']))")
/verif/harness/pyenv.sh - $IDS <<'PY'
import sys
sys.path.insert(0, '/verif/harness')
import vlib
bad = 0
ids = sys.argv[1:]
ok, log = vlib.coq_make(jobs=16, target=' '.join(f'Props/{i}.vo' for i in ids).split())
print('coq build ok' if ok else log[-4000:])
sys.exit(0 if ok else 1)
PY
fail=0
for ID in $IDS; do
  id=$(echo $ID | tr A-Z a-z)
  ( /verif/ocaml/build_driver.sh "$id" > build/$id.build.log 2>&1 && echo "driver $id ok" ) || { echo "driver $id FAILED"; tail -30 build/$id.build.log; } &
done
wait
for ID in $IDS; do
  id=$(echo $ID | tr A-Z a-z)
  [ -x build/${id}_driver ] || { echo "missing build/${id}_driver"; fail=1; }
done
exit $fail
