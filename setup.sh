#!/bin/sh
# MANIFEST.setup_cmd: build the whole framework offline from files on disk.
#   1. full .vo build of /verif/coq (coq_makefile + make, never -vos)
#   2. extraction of every model + ocamlfind ocamlopt of every driver into /verif/build
set -e
cd /verif
mkdir -p build evidence replays
/verif/harness/pyenv.sh - <<'PY'
import sys
sys.path.insert(0, '/verif/harness')
import vlib
ok, log = vlib.coq_make(jobs=16)
print(log[-3000:] if not ok else 'coq build ok')
sys.exit(0 if ok else 1)
PY
fail=0
for f in coq/Extract/C*.v; do
  [ -e "$f" ] || continue
  id=$(basename "$f" .v | tr A-Z a-z)
  ( /verif/ocaml/build_driver.sh "$id" > build/$id.build.log 2>&1 && echo "driver $id ok" ) || { echo "driver $id FAILED"; cat build/$id.build.log; fail=1; } &
done
wait
for f in coq/Extract/C*.v; do
  [ -e "$f" ] || continue
  id=$(basename "$f" .v | tr A-Z a-z)
  [ -x build/${id}_driver ] || { echo "missing build/${id}_driver"; fail=1; }
done
exit $fail
