#!/bin/sh
# Runs every confirmed seeded change against its property's quick check (in throw-away worktrees, via VERIF_REPO) and
# writes /verif/seeded/RESULTS.md. Usage: tools/seed_matrix.sh [ID ...]   (default: all)
cd /verif
OUT=/verif/seeded/RESULTS.md
IDS="$@"
[ -z "$IDS" ] && IDS=$(ls seeded | grep -E '^C[0-9]+-[0-9]+$' | sed 's/-.*//' | sort -u)
TMP=$(mktemp)
for ID in $IDS; do
  for d in seeded/$ID-*; do
    s=$(basename $d)
    tools/try_seed.sh $ID /verif/$d/patch.diff > /tmp/seed_matrix_$s.log 2>&1
    rc=$(grep -o 'exit=[0-9]*' /tmp/seed_matrix_$s.log | tail -1)
    kind="MISSED"
    if grep -q '^VIOLATION' /tmp/seed_matrix_$s.log; then
      if grep '^VIOLATION' /tmp/seed_matrix_$s.log | grep -vq 'no-failing-input-found'; then kind="caught: failing input"; else kind="caught: correspondence only (no-failing-input-found)"; fi
    fi
    what=$(grep '  replay:' /tmp/seed_matrix_$s.log | head -1 | cut -c11-260 | tr '|' '/')
    summary=$(python3 -c "import json;print(json.load(open('/verif/$d/meta.json')).get('summary','')[:160].replace('|','/').replace('\n',' '))")
    echo "| $s | $summary | $kind | $what |" >> $TMP
    echo "$s $kind"
  done
done
python3 - "$TMP" "$OUT" <<'PY'
import sys, re, os
new = {l.split('|')[1].strip(): l for l in open(sys.argv[1]) if l.strip()}
rows = {}
if os.path.exists(sys.argv[2]):
    for l in open(sys.argv[2]):
        m = re.match(r'\| (C\d+-\d+) \|', l)
        if m: rows[m.group(1)] = l
rows.update(new)
with open(sys.argv[2], 'w') as f:
    f.write('# Seeded changes vs checks (quick tier, default seed)\n\nEach change was written by an independent sub-agent that saw only the property text, confirmed by tools/confirm_seed.sh\n(demo passes on the clean tree, fails with the patch, pinned suite still 39 passed), then run through tools/try_seed.sh.\n\n| change | what was changed | result | first report |\n|---|---|---|---|\n')
    for k in sorted(rows, key=lambda s: (int(s[1:3]), int(s.split('-')[1]))):
        f.write(rows[k] if rows[k].endswith('\n') else rows[k] + '\n')
PY
rm -f $TMP
