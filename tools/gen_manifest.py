#!/usr/bin/env python3
"""Regenerates /verif/MANIFEST.json from the per-property table below; a property is claimed only when its
Props file, harness module and extraction entry exist."""
import json
import os

V = '/verif'
META = {
    # id: (technique, level text, level note, design ref)
}
DEFAULT_TECH = 'Rocq (Coq 8.16) theorems over a hand-written executable model + extracted-model/implementation correspondence on generated cases'


def meta(pid):
    p = os.path.join(V, 'harness', 'props', pid.lower() + '.meta.json')
    if os.path.exists(p):
        return json.load(open(p))
    return {}


def main():
    props = [json.loads(l) for l in open(os.path.join(V, 'properties.jsonl'))]
    checks, na = [], []
    for pr in props:
        pid = pr['id']
        ready = set(open(os.path.join(V, 'tools', 'ready.txt')).read().split())
        have = pid in ready and all(os.path.exists(os.path.join(V, p)) for p in (
            f'coq/Props/{pid}.v', f'harness/props/{pid.lower()}.py'))
        m = meta(pid)
        if have and not m.get('disabled'):
            checks.append({
                'property_id': pid,
                'quick_cmd': f'./check {pid} --tier quick',
                'thorough_cmd': f'./check {pid} --tier thorough',
                'evidence_file': f'/verif/evidence/{pid}.json',
                'replay_cmd_template': f'./check {pid} --replay {{path}}',
                'engine': 'rocq-model-correspondence',
                'level_claimed': {
                    'category': 'proof',
                    'text': m.get('level_text', 'Machine-checked theorems (Props/%s.v) about an executable Gallina model, for all inputs/histories the property quantifies over; the model is tied to /repo by running the extracted model and the real code on the same generated cases on every run.' % pid),
                    'design_ref': m.get('design_ref', f'DESIGN.md section 8, {pid}'),
                },
                'level_note': m.get('level_note', 'Trusted: Coq kernel, extraction (ExtrOcamlBasic only), OCaml driver, the Python correspondence harness and its oracles; the model is hand-written, so assurance about the code is bounded by the correspondence run (see evidence file).'),
                'technique': m.get('technique', DEFAULT_TECH),
            })
        else:
            na.append({'property_id': pid, 'reason': m.get('na_reason', 'check not built yet in this session (planned: Rocq model + correspondence, DESIGN.md section 8)')})
    man = {
        'version': 1,
        'setup_cmd': './setup.sh',
        'hooks': {
            'guard': 'LBRYIO_LBRY_SDK_VERIF',
            'enable': 'no source hooks are needed: checks import /repo unmodified under harness/pyenv.sh (which also exports LBRYIO_LBRY_SDK_VERIF=1, unused by /repo)',
            'baseline_off_cmd': 'cd /repo && /venv/bin/python -m pytest -ra -q -p no:cacheprovider --timeout=900 --continue-on-collection-errors --junitxml=/tmp/verif_baseline.junit.xml',
            'source_commits': [],
            'add_only': True,
        },
        'engines': [{
            'name': 'rocq-model-correspondence',
            'path': '/verif/check',
            'serves_properties': [c['property_id'] for c in checks],
            'kind_free_text': 'Coq 8.16.1 development under /verif/coq (Lib, Model, Proofs, Props), models extracted to OCaml (ExtrOcamlBasic) and run against the real lbry code by a Python harness; static audit for Admitted/Axiom; Print Assumptions parsed on every run',
        }],
        'checks': checks,
        'notes': 'fix: commits made in /repo are listed in known_findings.jsonl as fixed entries. See DESIGN.md.',
        'not_applicable': na,
    }
    json.dump(man, open(os.path.join(V, 'MANIFEST.json'), 'w'), indent=1)
    print(len(checks), 'claimed;', len(na), 'not claimed')


if __name__ == '__main__':
    main()
