#!/bin/sh
# runs every claimed check at the given tier, N at a time; prints one line per check
T="${1:-quick}"; N="${2:-4}"
cd /verif
python3 -c "import json;print('\n'.join(c['property_id'] for c in json.load(open('MANIFEST.json'))['checks']))" | \
  xargs -P $N -I{} sh -c "./check {} --tier $T > /tmp/run_all_{}_$T.log 2>&1; echo \"{} exit=\$? \$(tail -1 /tmp/run_all_{}_$T.log | cut -c1-220)\""
