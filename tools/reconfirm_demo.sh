#!/bin/sh
# usage: tools/reconfirm_demo.sh C08-6  -- re-runs the seeded change's demo on /repo HEAD without and with its patch
# (scratch worktree, removed afterwards); prints "<id> clean=<rc> patched=<rc>". A seed stays valid iff clean=0 and patched!=0.
s="$1"; D=/verif/seeded/$s; W=/tmp/reconf_$s.$$
git -C /repo worktree add -q --detach "$W" HEAD || exit 2
run() { env PYTHONPATH="$W:/verif/harness/stubs" PROTOCOL_BUFFERS_PYTHON_IMPLEMENTATION=python PYTHONHASHSEED=0 PYTHONDONTWRITEBYTECODE=1 timeout 900 /venv/bin/python -W ignore "$D/demo.py" "$W" > /dev/null 2>&1; }
run; c=$?
if ( cd "$W" && git apply "$D/patch.diff" 2>/dev/null ); then run; p=$?; else p=NOAPPLY; fi
git -C /repo worktree remove --force "$W"
echo "$s clean=$c patched=$p"
