#!/bin/sh
# runs every claimed check (quick by default) and validates evidence; summary at the end
T="${1:-quick}"
cd /verif
for id in $(python3 -c "import json;print(' '.join(c['property_id'] for c in json.load(open('MANIFEST.json'))['checks']))"); do
  /usr/bin/time -f "$id %es" ./check $id --tier $T > /tmp/run_all_$id.log 2>&1; echo "$id exit=$? $(tail -2 /tmp/run_all_$id.log | tr '\n' ' ')"
done
python3-vt - <<'PY'
import json, jsonschema, glob
sch = json.load(open('/root/.vp/EVIDENCE.schema.json'))
for c in json.load(open('/verif/MANIFEST.json'))['checks']:
    try:
        jsonschema.validate(json.load(open(c['evidence_file'])), sch); 
    except Exception as e:
        print('EVIDENCE INVALID', c['property_id'], str(e)[:200])
print('evidence validated')
PY
