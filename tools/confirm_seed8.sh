#!/bin/sh
# usage: tools/confirm_seed.sh c19 1   -- confirms /tmp/seed_c19_out/{patch1.diff,demo1.py,meta1.json} in a scratch worktree and,
# if everything holds, stores it as /verif/seeded/C19-1/{patch.diff,demo.py,meta.json}
id="$1"; k="$2"; ID=$(echo $id | tr a-z A-Z)
O=/tmp/seed8_${id}_out; W=/tmp/confirm_${id}_$k.$$
run() { env PYTHONPATH="$W:/verif/harness/stubs" PROTOCOL_BUFFERS_PYTHON_IMPLEMENTATION=python PYTHONHASHSEED=0 PYTHONDONTWRITEBYTECODE=1 timeout 900 /venv/bin/python -W ignore "$O/demo$k.py" "$W" > /tmp/confirm_${id}_$k.log 2>&1; }
git -C /repo worktree add -q --detach "$W" HEAD || exit 2
run; c=$?
( cd "$W" && git apply "$O/patch$k.diff" ) || { echo "$ID-$k: patch does not apply to HEAD"; git -C /repo worktree remove --force "$W"; exit 1; }
run; p=$?
t=$(cd "$W" && /venv/bin/python -m pytest -ra -q -p no:cacheprovider --timeout=900 --continue-on-collection-errors 2>&1 | tail -1)
git -C /repo worktree remove --force "$W"
echo "$ID-$((k+20)): demo clean exit=$c, patched exit=$p, tests: $t"
case "$t" in *"39 passed"*) tests_ok=1;; *) tests_ok=0;; esac
if [ "$c" = 0 ] && [ "$p" != 0 ] && [ "$tests_ok" = 1 ]; then
  D=/verif/seeded/$ID-$((k+20)); mkdir -p $D; cp "$O/patch$k.diff" $D/patch.diff; cp "$O/demo$k.py" $D/demo.py
  python3 - "$O/meta$k.json" "$D/meta.json" "$c" "$p" "$t" <<'PY'
import json, sys
m = json.load(open(sys.argv[1]))
m['confirmed'] = {'demo_exit_clean': int(sys.argv[3]), 'demo_exit_patched': int(sys.argv[4]), 'baseline_tests_with_patch': sys.argv[5],
                  'how': 'tools/confirm_seed.sh: scratch worktree of /repo HEAD, demo before/after git apply, full pinned test command'}
json.dump(m, open(sys.argv[2], 'w'), indent=1)
PY
  echo "  kept as $D"
else
  echo "  NOT kept"
fi
