#!/bin/sh
# usage: tools/try_seed.sh <ID> <patch.diff> [tier]
# Applies the patch in a throw-away worktree of /repo (so concurrent checks of /repo are not disturbed), runs the
# check against it via VERIF_REPO, removes the worktree. NOTE: rewrites evidence/<ID>.json from the patched tree;
# re-run ./check <ID> on /repo before committing evidence.
ID="$1"; P="$2"; T="${3:-quick}"
W=/tmp/try_seed_$ID.$$
git -C /repo worktree add -q --detach "$W" HEAD || exit 2
( cd "$W" && git apply "$P" ) || { echo "patch does not apply"; git -C /repo worktree remove --force "$W"; exit 2; }
cd /verif
VERIF_REPO="$W" ./check "$ID" --tier "$T" > /tmp/try_seed_$ID.log 2>&1; rc=$?
git -C /repo worktree remove --force "$W"
grep -E "VIOLATION|KNOWN|^\[" /tmp/try_seed_$ID.log | head -8
for r in $(grep -o 'replay=[^ ]*' /tmp/try_seed_$ID.log | head -1 | cut -d= -f2); do python3 -c "
import json,sys; b=json.load(open('$r')); print('  replay:', json.dumps(b.get('what') or b.get('unchecked'))[:600])"; done
echo "exit=$rc"
rm -f /verif/replays/${ID}-*
exit 0
