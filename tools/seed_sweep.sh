#!/bin/sh
# false-alarm sweep: every claimed check, quick tier, on /repo, for several VERIF_SEED values (IDs in parallel per seed)
cd /verif
SEEDS="${@:-1 2 3 4 5}"
IDS=$(python3 -c "import json;print(' '.join(c['property_id'] for c in json.load(open('MANIFEST.json'))['checks']))")
for s in $SEEDS; do
  for id in $IDS; do
    ( VERIF_SEED=$s ./check $id --tier quick > /tmp/sweep_${id}_$s.log 2>&1; echo "seed=$s $id exit=$? $(tail -1 /tmp/sweep_${id}_$s.log | cut -c1-200)" ) &
  done
  wait
done
rm -f /verif/replays/*
