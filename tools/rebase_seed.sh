#!/bin/sh
# usage: tools/rebase_seed.sh C17-1 -- tries to re-apply a seeded patch whose context moved (git apply -C1, patch -F3; never -C0: it
# places hunks without any context and produced syntactically broken trees once; changed files are byte-compiled) on /repo HEAD,
# re-confirms it (demo 0 on clean, non-zero patched, 39 tests) and, if all holds, replaces seeded/<id>/patch.diff by the regenerated diff.
s="$1"; D=/verif/seeded/$s; W=/tmp/rebase_$s.$$
git -C /repo worktree add -q --detach "$W" HEAD || exit 2
run() { env PYTHONPATH="$W:/verif/harness/stubs" PROTOCOL_BUFFERS_PYTHON_IMPLEMENTATION=python PYTHONHASHSEED=0 PYTHONDONTWRITEBYTECODE=1 timeout 900 /venv/bin/python -W ignore "$D/demo.py" "$W" > /dev/null 2>&1; }
run; c=$?
cd "$W"
if git apply "$D/patch.diff" 2>/dev/null; then how=plain
elif git apply -C1 "$D/patch.diff" 2>/dev/null; then how=C1
elif patch -p1 -s -F3 --no-backup-if-mismatch < "$D/patch.diff" >/dev/null 2>&1; then how=fuzz; find . -name '*.rej' -o -name '*.orig' | xargs rm -f
else how=FAILED; git checkout -q -- .; find . -name '*.rej' -o -name '*.orig' | xargs rm -f
fi
if [ "$how" != FAILED ]; then
  git diff > /tmp/rebase_$s.diff
  for f in $(git diff --name-only); do /venv/bin/python -m py_compile "$f" 2>/dev/null || how=SYNTAX; done
  run; p=$?
  t=$(/venv/bin/python -m pytest -q -p no:cacheprovider --timeout=900 --continue-on-collection-errors 2>&1 | tail -1)
  case "$t" in *"39 passed"*) ok=1;; *) ok=0;; esac
  if [ "$how" != SYNTAX ] && [ "$c" = 0 ] && [ "$p" != 0 ] && [ "$ok" = 1 ]; then cp /tmp/rebase_$s.diff "$D/patch.diff"; res=REBASED; else res="NOT-OK(clean=$c patched=$p tests=$ok)"; fi
else res="clean=$c"; fi
cd /verif; git -C /repo worktree remove --force "$W"
echo "$s $how $res"
