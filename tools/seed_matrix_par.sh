#!/bin/sh
# parallel version of seed_matrix.sh: properties in parallel, seeds of one property sequentially
cd /verif
IDS="$@"
[ -z "$IDS" ] && IDS=$(ls seeded | grep -E '^C[0-9]+-[0-9]+$' | sed 's/-.*//' | sort -u)
mkdir -p /tmp/seedmat
for ID in $IDS; do
  (
    for d in seeded/$ID-*; do
      s=$(basename $d)
      k=${s##*-}
      [ "$k" -lt "${SEED_MIN:-1}" ] && continue
      tools/try_seed.sh $ID /verif/$d/patch.diff > /tmp/seedmat/$s.log 2>&1
    done
  ) &
done
wait
python3 - $IDS <<'PY'
import sys, re, os, json, glob
ids = sys.argv[1:]
out = '/verif/seeded/RESULTS.md'
rows = {}
if os.path.exists(out):
    for l in open(out):
        m = re.match(r'\| (C\d+-\d+) \|', l)
        if m: rows[m.group(1)] = l.rstrip('\n')
for ID in ids:
    for d in sorted(glob.glob(f'/verif/seeded/{ID}-*')):
        s = os.path.basename(d)
        if int(s.split('-')[1]) < int(os.environ.get('SEED_MIN', '1')):
            continue
        log = open(f'/tmp/seedmat/{s}.log').read() if os.path.exists(f'/tmp/seedmat/{s}.log') else ''
        viol = [l for l in log.split('\n') if l.startswith('VIOLATION')]
        if 'patch does not apply' in log:
            kind = 'PATCH DOES NOT APPLY'
        elif not viol:
            kind = 'MISSED'
        elif any('no-failing-input-found' not in l for l in viol):
            kind = 'caught: failing input'
        else:
            kind = 'caught: correspondence only (no-failing-input-found)'
        m = re.search(r'  replay: (.*)', log)
        what = (m.group(1)[:220] if m else '').replace('|', '/')
        summ = json.load(open(d + '/meta.json')).get('summary', '')[:170].replace('|', '/').replace('\n', ' ')
        rows[s] = f'| {s} | {summ} | {kind} | {what} |'
        print(s, kind)
with open(out, 'w') as f:
    f.write('# Seeded changes vs checks (quick tier, default seed)\n\nEach change was written by an independent sub-agent that saw only the property text (round 2, ids -3..-5, also saw the list of round-1 changes to avoid), confirmed by tools/confirm_seed*.sh\n(demo passes on the clean tree, fails with the patch, pinned suite still 39 passed), then run through tools/try_seed.sh.\n\n| change | what was changed | result | first report |\n|---|---|---|---|\n')
    for k in sorted(rows, key=lambda s: (int(s[1:3]), int(s.split('-')[1]))):
        f.write(rows[k] + '\n')
PY
