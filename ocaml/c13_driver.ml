(* C13 driver: appended after c13_model.ml and proto.ml.  Stateful: "init" creates a machine state,
   "step" applies one wallet operation and returns the outcome with a snapshot of the observable state. *)

(* ---------- primitives answered by the harness ---------- *)
let tag_split (r : byte list) : int * byte list =
  match r with
  | t :: rest -> (int_of_byte t, rest)
  | [] -> raise (Model_error "oracle: empty tagged answer")

let nbytes (x : n) : byte list = bytes_of_string (string_of_n x)

let prims : prims = {
  kdf = (fun pw -> oracle1 "kdf" pw);
  e = (fun k iv p -> oracle3 "E" k iv p);
  d = (fun k iv c -> match tag_split (oracle3 "D" k iv c) with
                     | (0, p) -> DOk p | (1, _) -> DBadPad | _ -> DBadLen);
  b64e = (fun x -> oracle1 "b64e" x);
  b64d = (fun x -> match tag_split (oracle1 "b64d" x) with (0, p) -> Some p | _ -> None);
  utf8_ok = (fun x -> match tag_split (oracle1 "utf8_ok" x) with (1, _) -> true | _ -> false);
  addr_of_seed = (fun x -> oracle1 "addr_of_seed" x);
  addr_of_pub = (fun x -> oracle1 "addr_of_pub" x);
  seed_ok = (fun x -> match tag_split (oracle1 "seed_ok" x) with (1, _) -> true | _ -> false);
  xparse = (fun x -> match tag_split (oracle1 "xparse" x) with
                     | (0, c) -> XOk c | (1, _) -> XValue | _ -> XBase58);
  chan_key = (fun x k -> oracle "chan_key" [x; nbytes k]);
  jstr = (fun x -> oracle1 "jstr" x);
  scrypt = (fun pw salt nn r p -> oracle "scrypt" [pw; salt; nbytes nn; nbytes r; nbytes p]);
  zc = (fun x -> oracle1 "zc" x);
  zd = (fun x -> match tag_split (oracle1 "zd" x) with
                 | (0, p) -> ZOk p | (1, _) -> ZHeader | _ -> ZOther);
}

(* ---------- JSON <-> model values ---------- *)
let rec jv_of_json (j : json) : jv =
  match j with
  | JNull -> JNull
  | JObj [("s", x)] -> JS (jbytes x)
  | JObj [("n", x)] -> JN (jz x)
  | JObj [("b", x)] -> JB (jbool x)
  | JObj [("a", x)] -> JA (SL.map jv_of_json (jlist x))
  | JObj [("o", x)] -> JO (SL.map (fun kv -> match jlist kv with
                                             | [k; v] -> (jbytes k, jv_of_json v)
                                             | _ -> raise (Model_error "jv: bad pair")) (jlist x))
  | _ -> raise (Model_error "jv: bad value")

let opt_bytes (j : json) : byte list option = match j with JNull -> None | x -> Some (jbytes x)
let of_opt_bytes = of_option of_bytes

let account_of_json (j : json) : account = {
  a_ledger = jbytes (jfield j "ledger"); a_name = jbytes (jfield j "name");
  a_seed = jbytes (jfield j "seed"); a_pks = jbytes (jfield j "pks");
  a_priv = opt_bytes (jfield j "priv"); a_pub = jbytes (jfield j "pub");
  a_encrypted = jbool (jfield j "enc");
  a_iv_seed = opt_bytes (jfield j "iv_seed"); a_iv_priv = opt_bytes (jfield j "iv_priv");
  a_addrgen = jv_of_json (jfield j "addrgen"); a_modified = jz (jfield j "modified");
  a_certs = jv_of_json (jfield j "certs") }

let json_of_account (a : account) : json = JObj [
  ("seed", of_bytes a.a_seed); ("pks", of_bytes a.a_pks); ("priv", of_opt_bytes a.a_priv);
  ("pub", of_bytes a.a_pub); ("enc", of_bool a.a_encrypted); ("name", of_bytes a.a_name);
  ("iv_seed", of_opt_bytes a.a_iv_seed); ("iv_priv", of_opt_bytes a.a_iv_priv) ]

let exc_name = function
  | EInvalidPassword -> "InvalidPasswordError" | EValueError -> "ValueError" | EBase58 -> "Base58Error"
  | EAssertion -> "AssertionError" | EZlib -> "zlib.error"

let of_res f = function Ok a -> JObj [("ok", f a)] | Err e -> JObj [("err", JStr (exc_name e))]

let rnd_of (j : json) : byte list list = SL.map jbytes (jlist (jfield j "rnd"))

let mop_of_json (j : json) : mop =
  match jstr (jfield j "k") with
  | "encrypt" -> MEncrypt (jbytes (jfield j "pw"), jz (jfield j "ts"), rnd_of j, jn (jfield j "pid"))
  | "decrypt" -> MDecrypt (jz (jfield j "ts"), rnd_of j, jn (jfield j "pid"))
  | "lock" -> MLock (rnd_of j)
  | "unlock" -> MUnlock (jbytes (jfield j "pw"))
  | "save" -> MSave (jz (jfield j "ts"), rnd_of j, jn (jfield j "pid"))
  | "save_crash" -> MSaveCrash (jz (jfield j "ts"), rnd_of j, jn (jfield j "pid"), jnat (jfield j "n"), jnat (jfield j "kb"))
  | "reload" -> MReload
  | "add" -> MAdd (account_of_json (jfield j "account"))
  | "set_pref" -> MSetPref (jbytes (jfield j "key"), jv_of_json (jfield j "value"), jz (jfield j "ts"))
  | "acc_encrypt" -> MAccEncrypt (jnat (jfield j "i"), jbytes (jfield j "pw"), rnd_of j)
  | "acc_decrypt" -> MAccDecrypt (jnat (jfield j "i"), jbytes (jfield j "pw"))
  | "start" -> MStart (jz (jfield j "ts"), rnd_of j, jn (jfield j "pid"))
  | "touch_channel" -> MTouchChannel (jnat (jfield j "i"))
  | "set_cipher" -> MSetCipher (jnat (jfield j "i"), jbytes (jfield j "seed"), jbytes (jfield j "pks"))
  | k -> raise (Model_error ("unknown op " ^ k))

let out_name = function
  | OTrue -> "True" | OFalse -> "False" | OExc e -> exc_name e | OBadShape -> "MODEL-BAD-SHAPE"

(* ---------- state ---------- *)
let empty_fs : fs = fun _ -> None
let cur_path : byte list ref = ref []
let cur_umask : n ref = ref (n_of_int 18)
let state : mstate ref = ref { m_w = default_wallet; m_fs = empty_fs; m_img = None }

let file_json (f : file option) : json =
  match f with
  | None -> JNull
  | Some f -> JObj [("data", of_bytes f.f_data); ("mode", of_n f.f_mode)]

let snapshot () : json =
  let st = !state in
  let w = st.m_w in
  JObj [
    ("locked", of_bool (is_locked w)); ("encrypted", of_bool (is_encrypted w)); ("pref_on", of_bool (pref_on w));
    ("pw", of_opt_bytes w.w_pw); ("name", of_bytes w.w_name);
    ("accounts", of_list json_of_account w.w_accounts);
    ("chan", of_list (fun a -> JArr [of_opt_bytes (channel_view prims a (n_of_int 0));
                                     of_opt_bytes (channel_view prims a (n_of_int 1))]) w.w_accounts);
    ("json", of_bytes (rcompact prims (Stdlib.fst (wallet_to_dict prims None [] w))));
    ("file", file_json (st.m_fs !cur_path)) ]

let fsop_json (op : fsop) : json =
  match op with
  | FOpenW p -> JArr [JStr "open"; of_bytes p]
  | FWrite (p, d) -> JArr [JStr "write"; of_bytes p; of_bytes d]
  | FFlush p -> JArr [JStr "flush"; of_bytes p]
  | FFsync p -> JArr [JStr "fsync"; of_bytes p]
  | FClose p -> JArr [JStr "close"; of_bytes p]
  | FExists p -> JArr [JStr "exists"; of_bytes p]
  | FStat p -> JArr [JStr "stat"; of_bytes p]
  | FRename (a, b) -> JArr [JStr "rename"; of_bytes a; of_bytes b]
  | FRemove p -> JArr [JStr "remove"; of_bytes p]
  | FChmod (p, m) -> JArr [JStr "chmod"; of_bytes p; of_n m]

(* a file system holding at most the wallet file and one stale temporary file *)
let fs_of_req (req : json) : fs =
  let path = jbytes (jfield req "path") in
  let t = match jfield req "old" with
    | JNull -> empty_fs
    | x -> fs_set path (Some { f_data = jbytes x; f_mode = jn (jfield req "oldmode") }) empty_fs in
  match jfield_opt req "stale" with
  | Some (JNull) | None -> t
  | Some x -> fs_set (temp_path path (jn (jfield req "pid"))) (Some { f_data = jbytes x; f_mode = n_of_int 420 }) t

let () = serve (fun fn req ->
  match fn with
  | "init" ->
      cur_path := jbytes (jfield req "path");
      cur_umask := jn (jfield req "umask");
      state := { m_w = default_wallet; m_fs = empty_fs; m_img = None };
      snapshot ()
  | "step" ->
      let op = mop_of_json (jfield req "op") in
      let (o, st') = step prims !cur_path !cur_umask op !state in
      state := st';
      JObj [("out", JStr (out_name o)); ("snap", snapshot ())]
  | "aes_encrypt" -> of_bytes (aes_encrypt prims (jbytes (jfield req "pw")) (jbytes (jfield req "v")) (jbytes (jfield req "iv")))
  | "aes_decrypt" ->
      of_res (fun (p, iv) -> JArr [of_bytes p; of_bytes iv]) (aes_decrypt prims (jbytes (jfield req "pw")) (jbytes (jfield req "value")))
  | "better_encrypt" -> of_bytes (better_aes_encrypt prims (jbytes (jfield req "pw")) (jbytes (jfield req "v")) (jbytes (jfield req "iv")))
  | "better_decrypt" -> of_res of_bytes (better_aes_decrypt prims (jbytes (jfield req "pw")) (jbytes (jfield req "value")))
  | "pack" -> of_res of_bytes (pack prims (jbytes (jfield req "pw")) (jbytes (jfield req "iv")) (!state).m_w)
  | "unpack" -> of_res of_bytes (unpack prims (jbytes (jfield req "pw")) (jbytes (jfield req "data")))
  | "merge_payload" ->
      let pwd = match jfield req "pw" with JNull -> None | x -> Some (jbytes x) in
      of_res of_bytes (merge_payload prims pwd (jbytes (jfield req "data")))
  | "to_json" -> of_bytes (to_json prims (!state).m_w)
  | "save_preview" ->
      (* the bytes Wallet.save would write now, without changing the state *)
      let (img, _) = save_dict prims (jz (jfield req "ts")) (rnd_of req) (!state).m_w in
      of_bytes (render_file prims img)
  | "write_ops" ->
      let t = fs_of_req req in
      let f = if jbool (jfield req "fallback") then storage_write_fallback else storage_write in
      of_list fsop_json (f (jbytes (jfield req "path")) (jn (jfield req "pid")) (jbytes (jfield req "data")) t)
  | "two_writers" ->
      let t = fs_of_req req in
      let path = jbytes (jfield req "path") in
      let t' = two_writers (jn (jfield req "umask")) path (jn (jfield req "pid")) (jn (jfield req "pid_b"))
                 (jbytes (jfield req "data")) (jbytes (jfield req "data_b"))
                 (jnat (jfield req "k")) (jnat (jfield req "n")) (jnat (jfield req "kb")) t in
      JObj [("file", file_json (t' path))]
  | "crash" ->
      let t = fs_of_req req in
      let path = jbytes (jfield req "path") in
      let pid = jn (jfield req "pid") in
      let f = if jbool (jfield req "fallback") then storage_write_fallback else storage_write in
      let ops = f path pid (jbytes (jfield req "data")) t in
      let t' = crash_at (jn (jfield req "umask")) (jnat (jfield req "n")) (jnat (jfield req "kb")) ops t in
      JObj [("file", file_json (t' path)); ("tmp", file_json (t' (temp_path path pid)))]
  | _ -> raise (Model_error ("unknown fn " ^ fn)))
