(* C19 driver: appended after c19_model.ml and proto.ml *)
let blob_of_json j =
  match jlist j with
  | [h; l; a; m; f] -> { b_hash = jn h; b_len = jn l; b_added = jn a; b_mine = jbool m; b_fin = jbool f }
  | _ -> raise (Model_error "blob: expected [hash, len, added, mine, fin]")
let pair_of_json j =
  match jlist j with [a; b] -> (jn a, jn b) | _ -> raise (Model_error "pair expected")
let legacy_of_json j =
  match jlist j with
  | [h; l; f] -> ((jn h, jn l), jbool f)
  | _ -> raise (Model_error "legacy row: expected [hash, len, finished]")
let rec db_of_json j =
  match jfield_opt j "legacy" with
  | Some lg ->
    (* a database of an older release: the rows in "legacy" go through the model's migration, "blobs" are added after it *)
    migrated_db (Stdlib.List.map legacy_of_json (jlist lg))
      (Stdlib.List.map blob_of_json (jlist (jfield j "blobs")))
      (Stdlib.List.map pair_of_json (jlist (jfield j "sblobs")))
      (Stdlib.List.map pair_of_json (jlist (jfield j "streams")))
      (Stdlib.List.map jn (jlist (jfield j "files")))
      (Stdlib.List.map jn (jlist (jfield j "disk")))
  | None ->
  { blobs = Stdlib.List.map blob_of_json (jlist (jfield j "blobs"));
    sblobs = Stdlib.List.map pair_of_json (jlist (jfield j "sblobs"));
    streams = Stdlib.List.map pair_of_json (jlist (jfield j "streams"));
    files = Stdlib.List.map jn (jlist (jfield j "files"));
    disk = Stdlib.List.map jn (jlist (jfield j "disk")) }
let op_of_json j =
  match jlist j with
  | [JStr "pass"; net; lim] -> OpPass (jbool net, jz lim)
  | [JStr "clean"; cl; nl] -> OpClean (jz cl, jz nl)
  | [JStr "add"; b] -> OpAdd (blob_of_json b)
  | [JStr "delete"; hs] -> OpDelete (Stdlib.List.map jn (jlist hs))
  | [JStr "hide"; hs] -> OpHide (Stdlib.List.map jn (jlist hs))
  | [JStr "restore"; hs] -> OpRestore (Stdlib.List.map jn (jlist hs))
  | [JStr "setup"; now; sizes] -> OpSetup (jn now, Stdlib.List.map pair_of_json (jlist sizes))
  | [JStr "recover"; sds; now] -> OpRecover (Stdlib.List.map jn (jlist sds), jn now)
  | JStr "status" :: _ -> OpStatus
  | JStr "fault" :: _ -> OpStatus          (* a failed unrelated transaction: no effect on the database *)
  | _ -> raise (Model_error "op: expected [pass, net, limit] | [clean, cl, nl] | [add, blob] | [delete, ids] | [status, what]")
let json_of_blob b = JArr [of_n b.b_hash; of_n b.b_len; of_n b.b_added; of_bool b.b_mine; of_bool b.b_fin]
let json_of_row ((h, l), a) = JArr [of_n h; of_n l; of_n a]
let observe d =
  [ "usage_mb", JObj [ "network_storage", of_n (mb (net_bytes d)); "content_storage", of_n (mb (content_bytes d));
                       "private_storage", of_n (mb (private_bytes d)); "total", of_n (mb (total_bytes d)) ];
    "usage_bytes", JObj [ "network_storage", of_n (net_bytes d); "content_storage", of_n (content_bytes d);
                          "private_storage", of_n (private_bytes d); "total", of_n (total_bytes d) ];
    "blobs", of_list json_of_blob d.blobs;
    "disk", of_list of_n d.disk ]
let () = serve (fun fn req ->
  match fn with
  | "run" ->
    (* one observation per operation; each step is the extracted [run] on a singleton history *)
    let d = ref (db_of_json (jfield req "db")) in
    let steps = Stdlib.List.map (fun oj ->
        let o = op_of_json oj in
        let before = !d in
        let (tr, d') = run [o] before in
        d := d';
        let cnd = match o with
          | OpPass (net, _) -> [ "cands", of_list json_of_row (cands net before) ]
          | _ -> [] in
        JObj ([ "deleted", of_list (of_list of_n) tr ] @ cnd @ observe d'))
        (jlist (jfield req "ops")) in
    JObj [ "initial", JObj (observe (db_of_json (jfield req "db"))); "steps", JArr steps ]
  | "run_whole" ->
    (* the whole history in one call of the extracted [run] (checks the singleton stepping above) *)
    let (tr, d') = run (Stdlib.List.map op_of_json (jlist (jfield req "ops"))) (db_of_json (jfield req "db")) in
    JObj ([ "trace", of_list (of_list of_n) tr ] @ observe d')
  | "pass_old" ->
    let (dl, d') = clean_pass_old (jbool (jfield req "net")) (jz (jfield req "limit")) (db_of_json (jfield req "db")) in
    JObj ([ "deleted", of_list of_n dl ] @ observe d')
  | "effective" ->
    (* configuration layers: [args, env, file] optional integers, then a list of assignments [updating, value];
       returns the limit in force after each assignment *)
    let opt k = match jfield_opt req k with Some JNull | None -> None | Some v -> Some (jz v) in
    let l = ref { l_runtime = None; l_args = opt "args"; l_env = opt "env"; l_file = opt "file" } in
    let first = of_z (effective !l) in
    let rest = Stdlib.List.map (fun a ->
        (match jlist a with
         | [u; v] -> l := assign (jbool u) (jz v) !l
         | _ -> raise (Model_error "assignment: [updating, value]"));
        of_z (effective !l)) (jlist (jfield req "sets")) in
    JArr (first :: rest)
  | "cands" -> of_list json_of_row (cands (jbool (jfield req "net")) (db_of_json (jfield req "db")))
  | _ -> raise (Model_error ("unknown fn " ^ fn)))
