(* proto.ml -- textually appended after an extracted model (see build_driver.sh).
   Conversions between OCaml values and the extracted inductive types (nat, positive, n, z, byte),
   a minimal JSON reader/printer, the oracle callback and the request loop.
   Everything from OCaml's own library is referenced as Stdlib.* because the extracted model
   shadows names such as [length], [map], [N], [Z]. *)

module SL = Stdlib.List
module SS = Stdlib.String
module SB = Stdlib.Buffer

exception Model_error of string

(* ---------- numbers ---------- *)
let rec pos_of_bigz (x : BigZ.t) : positive =
  if BigZ.equal x BigZ.one then XH
  else if BigZ.is_even x then XO (pos_of_bigz (BigZ.shift_right x 1))
  else XI (pos_of_bigz (BigZ.shift_right x 1))
let rec bigz_of_pos (p : positive) : BigZ.t =
  match p with
  | XH -> BigZ.one
  | XO q -> BigZ.shift_left (bigz_of_pos q) 1
  | XI q -> BigZ.succ (BigZ.shift_left (bigz_of_pos q) 1)
let n_of_bigz x : n = if BigZ.sign x <= 0 then N0 else Npos (pos_of_bigz x)
let bigz_of_n (x : n) = match x with N0 -> BigZ.zero | Npos p -> bigz_of_pos p
let z_of_bigz x : z =
  let s = BigZ.sign x in
  if s = 0 then Z0 else if s > 0 then Zpos (pos_of_bigz x) else Zneg (pos_of_bigz (BigZ.neg x))
let bigz_of_z (x : z) = match x with Z0 -> BigZ.zero | Zpos p -> bigz_of_pos p | Zneg p -> BigZ.neg (bigz_of_pos p)
let n_of_int i = n_of_bigz (BigZ.of_int i)
let int_of_n x = BigZ.to_int (bigz_of_n x)
let z_of_int i = z_of_bigz (BigZ.of_int i)
let int_of_z x = BigZ.to_int (bigz_of_z x)
let rec nat_of_int i : nat = if i <= 0 then O else S (nat_of_int (i - 1))
let int_of_nat (x : nat) = let rec go acc = function O -> acc | S m -> go (acc + 1) m in go 0 x
let n_of_string s = n_of_bigz (BigZ.of_string s)
let z_of_string s = z_of_bigz (BigZ.of_string s)
let string_of_n x = BigZ.to_string (bigz_of_n x)
let string_of_z x = BigZ.to_string (bigz_of_z x)

(* ---------- bytes ---------- *)
let byte_table : byte array = Stdlib.Array.init 256 (fun i -> prelude_byte_of_N (n_of_int i))
let byte_index : (byte, int) Stdlib.Hashtbl.t =
  let h = Stdlib.Hashtbl.create 512 in
  Stdlib.Array.iteri (fun i b -> Stdlib.Hashtbl.replace h b i) byte_table; h
let byte_of_int i : byte = byte_table.(i land 255)
let int_of_byte (b : byte) : int = Stdlib.Hashtbl.find byte_index b
let bytes_of_string (s : string) : byte list =
  let r = ref [] in
  for i = SS.length s - 1 downto 0 do r := byte_of_int (Stdlib.Char.code s.[i]) :: !r done; !r
let string_of_bytes (l : byte list) : string =
  let b = SB.create 64 in
  SL.iter (fun x -> SB.add_char b (Stdlib.Char.chr (int_of_byte x))) l; SB.contents b
let hexdig = "0123456789abcdef"
let hex_of_string (s : string) : string =
  let b = SB.create (2 * SS.length s) in
  SS.iter (fun c -> let k = Stdlib.Char.code c in SB.add_char b hexdig.[k lsr 4]; SB.add_char b hexdig.[k land 15]) s;
  SB.contents b
let unhex_char c = match c with
  | '0'..'9' -> Stdlib.Char.code c - 48 | 'a'..'f' -> Stdlib.Char.code c - 87 | 'A'..'F' -> Stdlib.Char.code c - 55
  | _ -> raise (Model_error "bad hex")
let string_of_hex (h : string) : string =
  let n = SS.length h / 2 in
  SS.init n (fun i -> Stdlib.Char.chr (16 * unhex_char h.[2*i] + unhex_char h.[2*i+1]))
let bytes_of_hex h = bytes_of_string (string_of_hex h)
let hex_of_bytes l = hex_of_string (string_of_bytes l)

(* ---------- JSON ---------- *)
type json = JNull | JBool of bool | JInt of string | JStr of string | JArr of json list | JObj of (string * json) list

let json_parse (s : string) : json =
  let n = SS.length s in
  let pos = ref 0 in
  let peek () = if !pos < n then s.[!pos] else '\000' in
  let adv () = Stdlib.incr pos in
  let rec ws () = if !pos < n && (peek () = ' ' || peek () = '\n' || peek () = '\t' || peek () = '\r') then (adv (); ws ()) in
  let expect c = ws (); if peek () <> c then raise (Model_error (Stdlib.Printf.sprintf "json: expected %c at %d" c !pos)); adv () in
  let parse_string () =
    expect '"';
    let b = SB.create 16 in
    let rec go () =
      let c = peek () in
      if !pos >= n then raise (Model_error "json: unterminated string");
      adv ();
      if c = '"' then ()
      else if c = '\\' then begin
        let d = peek () in adv ();
        (match d with
         | 'n' -> SB.add_char b '\n' | 't' -> SB.add_char b '\t' | 'r' -> SB.add_char b '\r'
         | 'u' -> let h = SS.sub s !pos 4 in pos := !pos + 4;
                  let k = Stdlib.int_of_string ("0x" ^ h) in
                  if k < 128 then SB.add_char b (Stdlib.Char.chr k) else raise (Model_error "json: non-ascii \\u escape")
         | c -> SB.add_char b c);
        go () end
      else (SB.add_char b c; go ()) in
    go (); SB.contents b in
  let rec value () =
    ws ();
    match peek () with
    | '{' -> adv (); ws ();
      if peek () = '}' then (adv (); JObj [])
      else begin
        let rec members acc =
          ws (); let k = parse_string () in expect ':'; let v = value () in ws ();
          if peek () = ',' then (adv (); members ((k, v) :: acc))
          else (expect '}'; JObj (SL.rev ((k, v) :: acc))) in
        members [] end
    | '[' -> adv (); ws ();
      if peek () = ']' then (adv (); JArr [])
      else begin
        let rec elems acc =
          let v = value () in ws ();
          if peek () = ',' then (adv (); elems (v :: acc))
          else (expect ']'; JArr (SL.rev (v :: acc))) in
        elems [] end
    | '"' -> JStr (parse_string ())
    | 't' -> pos := !pos + 4; JBool true
    | 'f' -> pos := !pos + 5; JBool false
    | 'n' -> pos := !pos + 4; JNull
    | _ -> let st = !pos in
      while !pos < n && (match peek () with '0'..'9' | '-' | '+' -> true | _ -> false) do adv () done;
      if !pos = st then raise (Model_error (Stdlib.Printf.sprintf "json: unexpected char at %d" st));
      JInt (SS.sub s st (!pos - st)) in
  value ()

let rec json_print (b : SB.t) (j : json) : unit =
  match j with
  | JNull -> SB.add_string b "null"
  | JBool true -> SB.add_string b "true"
  | JBool false -> SB.add_string b "false"
  | JInt s -> SB.add_string b s
  | JStr s -> SB.add_char b '"';
    SS.iter (fun c -> match c with
      | '"' -> SB.add_string b "\\\"" | '\\' -> SB.add_string b "\\\\" | '\n' -> SB.add_string b "\\n"
      | c when Stdlib.Char.code c < 32 || Stdlib.Char.code c > 126 -> SB.add_string b (Stdlib.Printf.sprintf "\\u%04x" (Stdlib.Char.code c))
      | c -> SB.add_char b c) s;
    SB.add_char b '"'
  | JArr l -> SB.add_char b '['; SL.iteri (fun i x -> if i > 0 then SB.add_char b ','; json_print b x) l; SB.add_char b ']'
  | JObj l -> SB.add_char b '{';
    SL.iteri (fun i (k, v) -> if i > 0 then SB.add_char b ','; json_print b (JStr k); SB.add_char b ':'; json_print b v) l;
    SB.add_char b '}'
let json_to_string j = let b = SB.create 256 in json_print b j; SB.contents b

(* accessors (raise Model_error on shape mismatch) *)
let jfield (j : json) (k : string) : json =
  match j with JObj l -> (try SL.assoc k l with Not_found -> raise (Model_error ("json: missing field " ^ k))) | _ -> raise (Model_error ("json: not an object (field " ^ k ^ ")"))
let jfield_opt (j : json) (k : string) : json option =
  match j with JObj l -> (try Some (SL.assoc k l) with Not_found -> None) | _ -> None
let jstr = function JStr s -> s | _ -> raise (Model_error "json: not a string")
let jlist = function JArr l -> l | _ -> raise (Model_error "json: not an array")
let jbool = function JBool b -> b | _ -> raise (Model_error "json: not a bool")
let jintstr = function JInt s -> s | JStr s -> s | _ -> raise (Model_error "json: not an int")
let jint j = Stdlib.int_of_string (jintstr j)
let jn j = n_of_string (jintstr j)
let jz j = z_of_string (jintstr j)
let jnat j = nat_of_int (jint j)
let jbytes j = bytes_of_hex (jstr j)           (* byte strings travel as hex *)
let jtext j = bytes_of_string (jstr j)         (* ascii text travels as a JSON string *)
(* builders *)
let of_n x = JInt (string_of_n x)
let of_z x = JInt (string_of_z x)
let of_nat x = JInt (Stdlib.string_of_int (int_of_nat x))
let of_int i = JInt (Stdlib.string_of_int i)
let of_bytes l = JStr (hex_of_bytes l)
let of_bool b = JBool b
let of_option f = function None -> JNull | Some x -> f x
let of_list f l = JArr (SL.map f l)

(* ---------- oracle callback: ask the harness to evaluate a primitive ---------- *)
let oracle (name : string) (args : byte list list) : byte list =
  Stdlib.print_string ("ORACLE " ^ name);
  SL.iter (fun a -> Stdlib.print_string (" x" ^ hex_of_bytes a)) args;
  Stdlib.print_newline ();
  let line = Stdlib.input_line Stdlib.stdin in
  if SS.length line >= 7 && SS.sub line 0 7 = "ANSWER " then bytes_of_hex (SS.sub line 7 (SS.length line - 7))
  else raise (Model_error ("oracle: bad answer for " ^ name ^ ": " ^ line))
let oracle1 name a = oracle name [a]
let oracle2 name a b = oracle name [a; b]
let oracle3 name a b c = oracle name [a; b; c]

(* ---------- request loop: one JSON request {"fn": name, ...} per line ---------- *)
let serve (dispatch : string -> json -> json) : unit =
  try
    while true do
      let line = Stdlib.input_line Stdlib.stdin in
      (try
         let req = json_parse line in
         let fn = jstr (jfield req "fn") in
         let res = dispatch fn req in
         Stdlib.print_string ("RESULT " ^ json_to_string res); Stdlib.print_newline ()
       with
       | Model_error m -> Stdlib.print_string ("MODELERROR " ^ m); Stdlib.print_newline ()
       | Stdlib.Not_found -> Stdlib.print_string "MODELERROR Not_found"; Stdlib.print_newline ()
       | Stdlib.Stack_overflow -> Stdlib.print_string "MODELERROR stack overflow"; Stdlib.print_newline ()
       | Stdlib.Failure m -> Stdlib.print_string ("MODELERROR failure " ^ m); Stdlib.print_newline ())
    done
  with Stdlib.End_of_file -> ()
