(* C17 driver: appended after c17_model.ml and proto.ml.
   bencoded values travel as JSON arrays: ["i","-12"] ["b",hex] ["l",[...]] ["d",[[k,v],...]] *)
let rec of_bval (v : bval) : json =
  match v with
  | BInt z -> JArr [JStr "i"; JStr (string_of_z z)]
  | BStr s -> JArr [JStr "b"; JStr (hex_of_bytes s)]
  | BList l -> JArr [JStr "l"; JArr (SL.map of_bval l)]
  | BDict d -> JArr [JStr "d"; JArr (SL.map (fun (k, x) -> JArr [of_bval k; of_bval x]) d)]

let rec to_bval (j : json) : bval =
  match j with
  | JArr [JStr "i"; x] -> BInt (z_of_string (jintstr x))
  | JArr [JStr "b"; JStr h] -> BStr (bytes_of_hex h)
  | JArr [JStr "l"; JArr l] -> BList (SL.map to_bval l)
  | JArr [JStr "d"; JArr l] ->
    BDict (SL.map (fun p -> match p with JArr [k; x] -> (to_bval k, to_bval x) | _ -> raise (Model_error "bad pair")) l)
  | _ -> raise (Model_error "bad bval")

let err_name (e : err) : string =
  match e with
  | EDecode -> "DecodeError" | EIndex -> "IndexError" | EKey -> "KeyError" | ERecursion -> "RecursionError"
  | EType -> "TypeError" | EValue -> "ValueError" | EAttribute -> "AttributeError" | EInternal -> "MODEL-INTERNAL"

let of_raw (m : rawmsg) : json =
  match m with
  | RReq (rpc, node, meth, args) ->
    JObj ["cls", JStr "request"; "rpc_id", of_bytes rpc; "node_id", of_bytes node; "method", of_bval meth; "args", of_bval args]
  | RResp (rpc, node, r) ->
    JObj ["cls", JStr "response"; "rpc_id", of_bytes rpc; "node_id", of_bytes node; "response", of_bval r]
  | RErr (rpc, node, et, tx) ->
    JObj ["cls", JStr "error"; "rpc_id", of_bytes rpc; "node_id", of_bytes node;
          "exception_type", of_bytes et; "response", of_bytes tx]

let to_message (j : json) : message =
  let rpc = jbytes (jfield j "rpc_id") and node = jbytes (jfield j "node_id") in
  match jstr (jfield j "cls") with
  | "ping" -> Request (rpc, node, Ping)
  | "store" -> Request (rpc, node, Store (jbytes (jfield j "blob_hash"), jbytes (jfield j "token"), jz (jfield j "port")))
  | "findNode" -> Request (rpc, node, FindNode (jbytes (jfield j "key")))
  | "findValue" -> Request (rpc, node, FindValue (jbytes (jfield j "key"), jz (jfield j "page")))
  | "response" -> Response (rpc, node, to_bval (jfield j "payload"))
  | "error" -> Error (rpc, node, jbytes (jfield j "exception_type"), jbytes (jfield j "response"))
  | c -> raise (Model_error ("unknown message class " ^ c))

let of_res (f : 'a -> json) (r : 'a res) : json =
  match r with
  | Ok a -> JObj ["ok", f a]
  | Err e -> JObj ["err", JStr (err_name e)]

let rec dispatch (fn : string) (req : json) : json =
  match fn with
  | "batch" -> let sub = jstr (jfield req "sub") in JArr (SL.map (dispatch sub) (jlist (jfield req "items")))
  | "py_int" -> of_option (fun z -> JStr (string_of_z z)) (py_int_of_bytes (jbytes (jfield req "s")))
  | "utf8" -> of_bool (utf8_valid (jbytes (jfield req "s")))
  | "bdecode" ->
    of_res (fun d -> of_bval (BDict d)) (bdecode (jnat (jfield req "fuel")) (jbytes (jfield req "data")))
  | "decode" ->
    (* decoded message or error class, the handler's state effect, and the same with a second nesting
       bound so that the harness can tell when the outcome depends on the recursion limit *)
    let data = jbytes (jfield req "data") in
    let own = (match jfield_opt req "own" with Some j -> jbytes j | None -> []) in
    let one fuel probe =
      let eff = if probe then
          let st = probe_receive fuel data in
          ["effect", JObj ["failures", of_nat (probe_failures st); "processed", of_bool (probe_processed st)]]
        else [] in
      (match decode_datagram fuel data with
       | Inl m -> JObj (("msg", of_raw m) :: ("request_valid", of_bool (request_valid own m)) :: eff)
       | Inr e -> JObj (("err", JStr (err_name e)) :: eff)) in
    let lo = one (jnat (jfield req "fuel_lo")) false in
    let hi = one (jnat (jfield req "fuel_hi")) true in
    JObj ["lo", lo; "hi", hi]
  | "benc" ->
    let v = to_bval (jfield req "v") in
    JObj ["defined", of_bool (enc_defined v); "bytes", of_bytes (benc v); "ref", of_bytes (ref_benc v)]
  | "encode_message" ->
    (* "m": fields as the class holds them; "m_ref": the same message with every dictionary listed in key
       order, for the sort-free reference encoder *)
    let m = to_message (jfield req "m") in
    let mr = to_message (jfield req "m_ref") in
    JObj ["bytes", of_bytes (encode_message m); "ref", of_bytes (ref_benc (value_of_message mr));
          "raw", of_raw (raw_of_message m)]
  | "invalid_method_text" -> of_bytes (invalid_method_text (jbytes (jfield req "method")))
  | "lru_run" ->
    let ops = SL.map (fun o -> match jlist o with
        | [JStr "set"; k; v] -> LSet (jn k, jn v)
        | [JStr "get"; k] -> LGet (jn k)
        | [JStr "pop"; k] -> LPop (jn k)
        | _ -> raise (Model_error "bad lru op")) (jlist (jfield req "ops")) in
    of_list (fun (k, v) -> JArr [of_n k; of_n v]) (lru_run (jnat (jfield req "cap")) ops)
  | "failures_run" ->
    of_list (fun (k, (a, b)) -> JArr [of_n k; of_option of_n a; of_option of_n b])
      (failures_run (jnat (jfield req "cap")) (SL.map jn (jlist (jfield req "senders"))))
  | "make_compact_ip" -> of_res of_bytes (make_compact_ip (jbytes (jfield req "address")))
  | "make_compact_address" ->
    of_res of_bytes (make_compact_address (jbytes (jfield req "node_id")) (jbytes (jfield req "address")) (jz (jfield req "port")))
  | "decode_compact_address" ->
    of_res (fun ((node, addr), port) -> JArr [of_bytes node; of_bytes addr; of_z port])
      (decode_compact_address (jbytes (jfield req "ca")))
  | _ -> raise (Model_error ("unknown fn " ^ fn))

let () = serve dispatch
