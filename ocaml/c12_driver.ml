(* C12 driver: appended after c12_model.ml and proto.ml *)
let jnlist j = SL.map jn (jlist j)
let n_eqb a b = (bigz_of_n a) = (bigz_of_n b)
let of_nlist l = of_list of_n l

let jpeer j = { pid = jn (jfield j "pid"); pdist = jn (jfield j "dist"); has_id = jbool (jfield j "has_id");
                self_id = jbool (jfield j "self_id"); self_addr = jbool (jfield j "self_addr") }
let jcontacts j = SL.map (fun c -> match jlist c with [p; b] -> (jpeer p, jbool b) | _ -> raise (Model_error "contact")) (jlist j)
let jvitem j = match j with JStr s -> VB (bytes_of_hex s) | _ -> VJunk

let jev j =
  match jstr (jfield j "e") with
  | "init" -> EInit (SL.map jpeer (jlist (jfield j "sl")))
  | "start" -> EStart (jnlist (jfield j "good"))
  | "done" -> EDone (jn (jfield j "p"), jnat (jfield j "tid"), jnlist (jfield j "good"))
  | "fail" -> EFail (jn (jfield j "p"))
  | "crash" -> ECrash (jn (jfield j "p"))
  | "notconn" -> ENotConnected (jn (jfield j "p"))
  | "nreply" -> ENodeReply (jpeer (jfield j "p"), jbool (jfield j "selfbad"), jcontacts (jfield j "contacts"),
                            jbool (jfield j "checked"), jbool (jfield j "found_key"), jnlist (jfield j "good"))
  | "vreply" -> EValueReply (jpeer (jfield j "p"), jbool (jfield j "selfbad"), SL.map jvitem (jlist (jfield j "raw")),
                             jnat (jfield j "pages"), jcontacts (jfield j "contacts"), jbool (jfield j "checked"))
  | "close" -> EClose
  | s -> raise (Model_error ("unknown event " ^ s))

(* "cap": absent = the real MAX_VALUE_PAGES; null = uncapped (old behaviour); n = that cap *)
let jcap req = match jfield_opt req "cap" with None -> real_cap | Some JNull -> None | Some j -> Some (jnat j)

let of_fout o = match o with
  | OSched p -> JArr [JStr "sched"; of_n p]
  | OYield ps -> JArr [JStr "yield"; of_nlist ps]
  | OVYield cs -> JArr [JStr "vyield"; of_list of_bytes cs]
  | OFinish -> JArr [JStr "finish"]

let () = serve (fun fn req ->
  match fn with
  | "ds" ->
    (* ops: ["add",k,p,now] ["expire",now,[bad]] ["get",k,now,[bad]] ["has",k] ["contacts"] *)
    let st = ref [] in
    let outs = ref [] in
    SL.iter (fun op ->
      match jlist op with
      | JStr "add" :: k :: p :: now :: _ -> st := ds_add !st (jn k) (jn p) (jz now)
      | JStr "expire" :: now :: bad :: _ -> st := ds_expire !st (jz now) (bad_of (jnlist bad))
      | JStr "get" :: k :: now :: bad :: _ -> outs := of_nlist (ds_get !st (jn k) (jz now) (bad_of (jnlist bad))) :: !outs
      | JStr "has" :: k :: _ -> outs := of_bool (ds_has !st (jn k)) :: !outs
      | JStr "contacts" :: _ -> outs := of_nlist (ds_contacts !st) :: !outs
      | _ -> raise (Model_error "ds op")) (jlist (jfield req "ops"));
    JObj [("outs", JArr (SL.rev !outs));
          ("store", of_list (fun (k, es) -> JArr [of_n k; of_list (fun (p, ts) -> JArr [of_n p; of_z ts]) es]) !st)]
  | "serve_page" ->
    let l = jnlist (jfield req "l") in
    JObj [("items", of_nlist (serve_page l (jnat (jfield req "page"))));
          ("pages", of_nat (pages_announced (nat_of_int (SL.length l))));
          ("pages_old", of_nat (pages_announced_old (nat_of_int (SL.length l))))]
  | "walk_honest" ->
    (* old=true: the formula and uncapped loop before the fixes (only used to replay the old reproducer) *)
    let l = jnlist (jfield req "l") in
    let n = nat_of_int (SL.length l) in
    let old = (match jfield_opt req "old" with Some (JBool true) -> true | _ -> false) in
    let ((acc, asked), fin) =
      if old then walk n_eqb None (S (S n)) (honest_with pages_announced_old l) { pg = O; disc = [] } [] []
      else walk n_eqb real_cap (S (S n)) (honest l) { pg = O; disc = [] } [] [] in
    JObj [("delivered", of_nlist acc); ("asked", of_list of_nat asked); ("finished", of_bool fin);
          ("good_old", of_bool (good_count_old n))]
  | "walk" ->
    (* pages: [[items, pages_value], ...]; beyond the list the server answers ([], 0) *)
    let tbl = Stdlib.Array.of_list (SL.map (fun pg -> match jlist pg with
        | [items; p] -> (jnlist items, jnat p) | _ -> raise (Model_error "page")) (jlist (jfield req "pages"))) in
    let srv p = let i = int_of_nat p in if i < Stdlib.Array.length tbl then tbl.(i) else ([], O) in
    let ((acc, asked), fin) = walk n_eqb (jcap req) (jnat (jfield req "fuel")) srv { pg = O; disc = [] } [] [] in
    JObj [("delivered", of_nlist acc); ("asked", of_list of_nat asked); ("finished", of_bool fin)]
  | "decode" ->
    JStr (match decode_compact (jbytes (jfield req "bs")) with DCrash -> "crash" | DInvalid -> "invalid" | DOk -> "ok")
  | "public_ip" ->
    of_bool (public_ip (jn (jfield req "a")) (jn (jfield req "b")) (jn (jfield req "c")) (jn (jfield req "d")))
  | "frun" ->
    let prm = { fp_kind = (if jstr (jfield req "kind") = "node" then KNode else KValue);
                fp_key_is_self = jbool (jfield req "key_is_self"); fp_maxres = jnat (jfield req "maxres");
                fp_cap = jcap req;
                fp_stalepop = (match jfield_opt req "stalepop" with Some (JBool b) -> b | _ -> false) } in
    let evs = SL.map jev (jlist (jfield req "events")) in
    let (st, res) = frun prm f_init evs in
    JObj [("steps", of_list (fun (outs, tag) -> JObj [("outs", of_list of_fout outs); ("tag", of_n tag)]) res);
          ("sched", of_nat st.f_sched); ("seeds", of_nat st.f_seeds);
          ("contacted", of_nlist st.f_contacted); ("running", of_nlist st.f_running);
          ("active", of_list (fun p -> of_n p.pid) st.f_active);
          ("total_pages", of_nat (total_pages st)); ("on", of_bool st.f_on);
          ("pending", of_list (fun (p, t) -> JArr [of_n p; of_nat t]) st.f_pending)]
  | "producer" ->
    (* good: true/false/null; udp: n or null *)
    let good = (match jfield req "good" with JBool b -> Some b | _ -> None) in
    let udp = (match jfield req "udp" with JNull -> None | j -> Some (jn j)) in
    (match producer_action (jbool (jfield req "is_self")) good udp (jn (jfield req "tcp")) with
     | ASkip -> JArr [JStr "skip"] | APut -> JArr [JStr "put"] | APing u -> JArr [JStr "ping"; of_n u])
  | "pq" ->
    (* ops: ["enq", p, at] | ["pop", now]; returns the queue after every op and the popped contacts *)
    let q = ref [] in
    let outs = ref [] in
    SL.iter (fun op -> match jlist op with
      | JStr "enq" :: p :: a :: _ -> q := pq_enqueue !q (jn p) (jz a)
      | JStr "pop" :: now :: _ -> let (o, r) = pq_pop_due !q (jz now) in q := r; outs := of_option of_n o :: !outs
      | _ -> raise (Model_error "pq op")) (jlist (jfield req "ops"));
    JObj [("queue", of_list (fun (p, t) -> JArr [of_n p; of_z t]) !q); ("popped", JArr (SL.rev !outs))]
  | "store_port_ok" -> of_bool (store_port_ok (jn (jfield req "port")))
  | "guess_udp" -> of_n (guess_udp (jn (jfield req "tcp")))
  | "reply_size" ->
    let contacts = (match jfield req "contacts" with JNull -> None
      | j -> Some (SL.map (fun c -> match jlist c with [l; p] -> (jnat l, jn p) | _ -> raise (Model_error "contact")) (jlist j))) in
    let compacts = (match jfield req "compacts" with JNull -> None | j -> Some (jnat j)) in
    JObj [("size", of_nat (find_value_reply_size contacts compacts (jn (jfield req "pages"))));
          ("limit", of_nat mSG_SIZE_LIMIT)]
  | _ -> raise (Model_error ("unknown fn " ^ fn)))
