(* C07 driver: appended after c07_model.ml and proto.ml *)
let sha256_o = oracle1 "sha256"
let sha512_o = oracle1 "sha512"
let rmd160_o = oracle1 "ripemd160"

let opt_bytes j = match j with JNull -> None | _ -> Some (jbytes j)

let cfg_of j : cfg =
  { max_target = jn (jfield j "max_target");
    genesis = opt_bytes (jfield j "genesis");
    validate_difficulty = jbool (jfield j "vd");
    checkpoints = SL.map (fun e -> match jlist e with
                                   | [h; x] -> (jnat h, jbytes x)
                                   | _ -> raise (Model_error "bad checkpoint")) (jlist (jfield j "checkpoints")) }

let of_reason = function RGenesis -> "genesis" | RPrev -> "prev" | RBits -> "bits" | RPow -> "pow"
let of_cres = function
  | COk n -> JObj [("ok", of_nat n)]
  | CInvalid r -> JObj [("ok", of_int 0); ("invalid", JStr (of_reason r))]
  | CIndexError -> JObj [("error", JStr "IndexError")]
  | CAssertion -> JObj [("error", JStr "AssertionError")]
let of_fres = function FHas -> JStr "has" | FStored -> JStr "stored" | FIgnored -> JStr "ignored" | FMismatch -> JStr "mismatch"

let int_sorted l = SL.sort Stdlib.compare (SL.map int_of_nat l)

let st_json want_io (s : st) extra =
  JObj (extra @ [("size", of_nat s.hsize); ("iolen", of_int (SL.length s.io));
                 ("missing", JArr (SL.map of_int (int_sorted s.missing)))]
        @ (if want_io then [("io", of_bytes s.io)] else []))

let run req =
  let c = cfg_of (jfield req "cfg") in
  let file = ref (opt_bytes (jfield req "file")) in
  let s = ref { io = []; hsize = O; missing = [] } in
  let out = ref [] in
  SL.iter (fun op ->
    let want_io = match jfield_opt op "io" with Some (JBool b) -> b | _ -> true in
    let r = match jstr (jfield op "op") with
      | "open" ->
        s := hopen sha256_o sha512_o rmd160_o c (match !file with None -> [] | Some f -> f);
        st_json want_io !s []
      | "connect" ->
        let (s', r) = connect sha256_o sha512_o rmd160_o c !s (jnat (jfield op "start")) (jbytes (jfield op "batch")) in
        s := s'; st_json want_io !s [("res", of_cres r)]
      | "connect_pair" ->
        (* two overlapping calls: connect has no suspension point, so they take effect one after the other *)
        let one j = (let (s', r) = connect sha256_o sha512_o rmd160_o c !s (jnat (jfield j "start")) (jbytes (jfield j "batch")) in
                     s := s'; of_cres r) in
        let ra = one (jfield op "a") in
        let rb = one (jfield op "b") in
        st_json want_io !s [("res_a", ra); ("res_b", rb)]
      | "close" ->
        let f = hclose !s !file in
        file := Some f;
        JObj ([("filelen", of_int (SL.length f))] @ (if want_io then [("file", of_bytes f)] else []))
      | "setfile" -> file := opt_bytes (jfield op "file"); JNull
      | "patchfile" ->
        (* overwrite bytes of the stored file in place (damage), or cut it *)
        let f = (match !file with None -> [] | Some f -> f) in
        let f = (match jfield_opt op "cut" with Some j -> firstn (jnat j) f | None -> f) in
        let f = (match jfield_opt op "data" with
                 | Some d -> write_at (jnat (jfield op "off")) (jbytes d) f
                 | None -> f) in
        file := Some f; JObj [("filelen", of_int (SL.length f))]
      | "repair" ->
        s := repair sha256_o sha512_o rmd160_o c !s (jnat (jfield op "start"));
        st_json want_io !s []
      | "fetch" ->
        let (s', r) = ensure_chunk_at sha256_o c !s (jnat (jfield op "height")) (jbytes (jfield op "chunk")) in
        s := s'; st_json want_io !s [("res", of_fres r)]
      | "fetch_chunk" ->
        let (s', r) = fetch_chunk sha256_o c !s (jnat (jfield op "height")) (jbytes (jfield op "chunk")) in
        s := s'; st_json want_io !s [("res", of_fres r)]
      | "lookup" ->
        let ((s', r), l) = lookup_header sha256_o c !s (jnat (jfield op "height")) (jbytes (jfield op "chunk")) in
        s := s';
        let lj = (match l with
                  | LOk raw -> [("res", JStr "ok"); ("raw", of_bytes raw)]
                  | LIndexError -> [("res", JStr "IndexError")]
                  | LMismatch -> [("res", JStr "mismatch")]) in
        st_json want_io !s (lj @ [("fetch", of_fres r)])
      | "has_header" -> JBool (has_header sha256_o c !s (jnat (jfield op "height")))
      | o -> raise (Model_error ("unknown op " ^ o)) in
    out := r :: !out) (jlist (jfield req "ops"));
  JArr (SL.rev !out)

let of_header (h : header) =
  JObj [("version", of_n h.version); ("prev_block_hash", of_bytes h.prev_block_hash);
        ("merkle_root", of_bytes h.merkle_root); ("claim_trie_root", of_bytes h.claim_trie_root);
        ("timestamp", of_n h.timestamp); ("bits", of_n h.bits); ("nonce", of_n h.nonce)]

let () = serve (fun fn req ->
  match fn with
  | "compact" -> let v = jn (jfield req "v") in JObj [("c", of_n (compact v)); ("ok", of_bool (compact_asserts v))]
  | "from_compact" -> of_n (from_compact (jn (jfield req "c")))
  | "div" -> of_n (div_round53 (jn (jfield req "a")) (jn (jfield req "b")))
  | "divs" -> of_list (fun p -> match jlist p with [a; b] -> of_n (div_round53 (jn a) (jn b)) | _ -> JNull) (jlist (jfield req "pairs"))
  | "next_target" ->
    of_n (next_target (jn (jfield req "max_target")) (opt_bytes (jfield req "pp")) (opt_bytes (jfield req "p")))
  | "serialize" ->
    of_option of_bytes (serialize { version = jn (jfield req "version");
                                    prev_block_hash = jbytes (jfield req "prev_block_hash");
                                    merkle_root = jbytes (jfield req "merkle_root");
                                    claim_trie_root = jbytes (jfield req "claim_trie_root");
                                    timestamp = jn (jfield req "timestamp"); bits = jn (jfield req "bits");
                                    nonce = jn (jfield req "nonce") })
  | "deserialize" -> of_option of_header (deserialize (jbytes (jfield req "raw")))
  | "pow_hash" -> of_bytes (pow_hash sha256_o sha512_o rmd160_o (jbytes (jfield req "hh")))
  | "pow_value" -> of_n (pow_value sha256_o sha512_o rmd160_o (jbytes (jfield req "raw")))
  | "visited_end" -> of_nat (visited_end (jnat (jfield req "start")) (jnat (jfield req "size")) (jnat (jfield req "whole")))
  | "run" -> run req
  | _ -> raise (Model_error ("unknown fn " ^ fn)))
