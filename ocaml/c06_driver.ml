(* C06 driver: appended after c06_model.ml and proto.ml *)

let err_name = function
  | EEmpty -> "EEmpty" | EChar -> "EChar" | EChecksum -> "EChecksum" | EValue -> "EValue" | ELen -> "ELen"
  | EVersion -> "EVersion" | EPrivPrefix -> "EPrivPrefix" | EPubPrefix -> "EPubPrefix" | EBadKey -> "EBadKey"
  | EIndex -> "EIndex" | ETweak -> "ETweak" | EChainCode -> "EChainCode" | EDepth -> "EDepth" | EWord -> "EWord"
  | EPayload -> "EPayload"

let of_res f = function
  | Ok a -> JObj [("ok", f a)]
  | Err e -> JObj [("err", JStr (err_name e))]

let of_text l = JStr (string_of_bytes l)

(* oracles *)
let o_dsha = oracle1 "dsha"
let o_hmac512 = oracle2 "hmac512"
let o_hash160 = oracle1 "hash160"
let o_pub = oracle1 "pub"
let o_pub_add p t = match oracle2 "pub_add" p t with [] -> None | r -> Some r
let o_pub_valid p = match oracle1 "pub_valid" p with [] -> false | b :: _ -> int_of_byte b <> 0

(* code point lists travel as UTF-32BE bytes *)
let rec cps_of_bytes (l : byte list) : n list = match l with
  | a :: b :: c :: d :: r -> be_decode [a; b; c; d] :: cps_of_bytes r
  | [] -> []
  | _ -> raise (Model_error "utf-32 length")
let bytes_of_cps (l : n list) : byte list = SL.concat (SL.map (fun c -> be_encode (nat_of_int 4) c) l)
let o_nfkd s = cps_of_bytes (oracle1 "nfkd" (bytes_of_cps s))
let o_lower s = cps_of_bytes (oracle1 "lower" (bytes_of_cps s))
let o_combining c = match oracle1 "combining" (bytes_of_cps [c]) with [] -> false | b :: _ -> int_of_byte b <> 0

let of_xkey (k : xkey) =
  JObj [("kind", JStr (match k.xk_kind with KPub -> "pub" | KPriv -> "priv"));
        ("depth", of_n k.xk_depth); ("pfp", of_bytes k.xk_pfp); ("n", of_n k.xk_n);
        ("cc", of_bytes k.xk_cc); ("key", of_bytes k.xk_key)]
let to_xkey j : xkey =
  { xk_kind = (match jstr (jfield j "kind") with "pub" -> KPub | "priv" -> KPriv | _ -> raise (Model_error "kind"));
    xk_depth = jn (jfield j "depth"); xk_pfp = jbytes (jfield j "pfp"); xk_n = jn (jfield j "n");
    xk_cc = jbytes (jfield j "cc"); xk_key = jbytes (jfield j "key") }

let of_row (r : row) = JObj [("n", of_n r.r_n); ("addr", of_text r.r_addr); ("used", of_n r.r_used)]

let words : byte list list ref = ref []

let vp req = jbytes (jfield req "ver_pub")
let vs req = jbytes (jfield req "ver_priv")

let () = serve (fun fn req ->
  match fn with
  | "b58_encode" -> of_res of_text (b58_encode (jbytes (jfield req "b")))
  | "b58_decode" -> of_res of_bytes (b58_decode (jbytes (jfield req "t")))
  | "b58_encode_check" -> of_res of_text (b58_encode_check o_dsha (jbytes (jfield req "p")))
  | "b58_decode_check" -> of_res of_bytes (b58_decode_check o_dsha (jbytes (jfield req "t")))
  | "int_to_bytes" -> of_bytes (int_to_bytes (jn (jfield req "v")))
  | "xk_serialize" -> of_bytes (xk_serialize (vp req) (vs req) (to_xkey (jfield req "k")))
  | "xk_parse" -> of_res of_xkey (xk_parse (vp req) (vs req) o_pub_valid (jbytes (jfield req "e")))
  | "xk_from_extended" -> of_res of_xkey (xk_from_extended (vp req) (vs req) o_pub_valid (jbytes (jfield req "e")))
  | "xk_to_string" -> of_res of_text (xk_to_string (vp req) (vs req) o_dsha (to_xkey (jfield req "k")))
  | "xk_of_string" -> of_res of_xkey (xk_of_string (vp req) (vs req) o_pub_valid o_dsha (jbytes (jfield req "t")))
  | "priv_valid" -> of_bool (priv_valid (jbytes (jfield req "k")))
  | "priv_add" -> of_option of_bytes (priv_add (jbytes (jfield req "k")) (jbytes (jfield req "l")))
  | "index_bytes" -> of_bytes (index_bytes (jbool (jfield req "hardened")) (jn (jfield req "i")))
  | "from_seed" -> of_res of_xkey (from_seed o_hmac512 (jbytes (jfield req "seed")))
  | "neuter" -> of_xkey (neuter o_pub (to_xkey (jfield req "k")))
  | "fingerprint" -> of_bytes (fingerprint o_hash160 (jbytes (jfield req "pk")))
  | "identifier" -> of_bytes (identifier o_hash160 (jbytes (jfield req "pk")))
  | "ckd" -> of_res of_xkey (ckd o_hmac512 o_pub o_pub_add o_hash160 (to_xkey (jfield req "k")) (jn (jfield req "i")))
  | "ckd_priv" -> of_res of_xkey (ckd_priv o_hmac512 o_pub o_hash160 (to_xkey (jfield req "k")) (jn (jfield req "i")))
  | "ckd_pub" -> of_res of_xkey (ckd_pub o_hmac512 o_pub_add o_hash160 (to_xkey (jfield req "k")) (jn (jfield req "i")))
  | "derive" ->
    of_res of_xkey (derive o_hmac512 o_pub o_pub_add o_hash160 (to_xkey (jfield req "k"))
                      (SL.map jn (jlist (jfield req "path"))))
  | "derive_trace" ->
    (* every key along the path, obtained by iterating the extracted [ckd]; stops after the first error *)
    let rec go k path acc = match path with
      | [] -> SL.rev acc
      | i :: rest ->
        (match ckd o_hmac512 o_pub o_pub_add o_hash160 k i with
         | Ok c -> go c rest (of_res of_xkey (Ok c) :: acc)
         | Err e -> SL.rev (of_res of_xkey (Err e) :: acc)) in
    JArr (go (to_xkey (jfield req "k")) (SL.map jn (jlist (jfield req "path"))) [])
  | "address" -> of_res of_text (address o_hash160 o_dsha (jbytes (jfield req "prefix")) (jbytes (jfield req "pk")))
  | "address_to_hash160" -> of_res of_bytes (address_to_hash160 (jbytes (jfield req "a")))
  | "is_version_address" ->
    of_res of_bool (is_version_address o_dsha (byte_of_int (jint (jfield req "ver"))) (jbytes (jfield req "a")))
  | "valid_address" ->
    of_bool (valid_address o_dsha (byte_of_int (jint (jfield req "pub_ver"))) (byte_of_int (jint (jfield req "script_ver")))
               (jbool (jfield req "allow_script")) (jbytes (jfield req "a")))
  | "chain_address" ->
    of_res of_text (chain_address o_hmac512 o_pub_add o_hash160 o_dsha (jbytes (jfield req "prefix"))
                      (to_xkey (jfield req "acct")) (jn (jfield req "c")) (jn (jfield req "i")))
  | "gap_run" ->
    (* ops: ["ensure", gap] | ["use", n, times]; addresses of one chain of one account public key *)
    let prefix = jbytes (jfield req "prefix") and acct = to_xkey (jfield req "acct") and c = jn (jfield req "c") in
    let memo : (string, byte list) Stdlib.Hashtbl.t = Stdlib.Hashtbl.create 64 in
    let addr_of i =
      let key = string_of_n i in
      match Stdlib.Hashtbl.find_opt memo key with
      | Some a -> a
      | None ->
        (match chain_address o_hmac512 o_pub_add o_hash160 o_dsha prefix acct c i with
         | Ok a -> Stdlib.Hashtbl.replace memo key a; a
         | Err e -> raise (Model_error ("chain_address " ^ err_name e))) in
    let t = ref [] and returns = ref [] in
    SL.iter (fun op ->
      match jlist op with
      | JStr "ensure" :: g :: _ ->
        let (t', fresh) = ensure_gap addr_of (jnat g) !t in
        t := t'; returns := JArr (SL.map of_text fresh) :: !returns
      | JStr "use" :: i :: k :: _ ->
        t := gstep addr_of !t (GUse (jn i, jn k)); returns := JNull :: !returns
      | _ -> raise (Model_error "bad gap op")) (jlist (jfield req "ops"));
    JObj [("rows", of_list of_row !t); ("returns", JArr (SL.rev !returns));
          ("records", of_list of_row (address_records !t)); ("max_gap", of_n (max_gap !t))]
  | "shared_run" ->
    (* one database, a single-address and a deterministic account of the same key; ops: ["single"] | ["ensure", gap] | ["use", n, times] *)
    let prefix = jbytes (jfield req "prefix") and acct = to_xkey (jfield req "acct") in
    let flt = jbool (jfield req "flt") in
    let master = (match address o_hash160 o_dsha prefix acct.xk_key with Ok a -> a | Err e -> raise (Model_error (err_name e))) in
    let memo : (string, byte list) Stdlib.Hashtbl.t = Stdlib.Hashtbl.create 64 in
    let addr_of i =
      let key = string_of_n i in
      match Stdlib.Hashtbl.find_opt memo key with
      | Some a -> a
      | None ->
        (match chain_address o_hmac512 o_pub_add o_hash160 o_dsha prefix acct N0 i with
         | Ok a -> Stdlib.Hashtbl.replace memo key a; a
         | Err e -> raise (Model_error ("chain_address " ^ err_name e))) in
    let ops = SL.map (fun op -> match jlist op with
      | JStr "single" :: _ -> SSingleEnsure
      | JStr "ensure" :: g :: _ -> SHd (GEnsure (jnat g))
      | JStr "use" :: i :: k :: _ -> SHd (GUse (jn i, jn k))
      | _ -> raise (Model_error "bad shared op")) (jlist (jfield req "ops")) in
    let t = srun addr_of master flt ops in
    JObj [("hd", of_list of_row (manager_view flt false t)); ("single", of_list of_row (manager_view flt true t))]
  | "set_words" -> words := SL.map jbytes (jlist (jfield req "words")); of_int (SL.length !words)
  | "mn_encode" -> of_bytes (mnemonic_encode !words (jn (jfield req "i")))
  | "mn_words" -> of_list of_bytes (mnemonic_words !words (jn (jfield req "i")))
  | "mn_decode" -> of_res of_n (mnemonic_decode !words (jbytes (jfield req "s")))
  | "normalize_text" -> of_bytes (bytes_of_cps (normalize_text o_nfkd o_lower o_combining (cps_of_bytes (jbytes (jfield req "s")))))
  | "split_ws" -> of_list of_bytes (split_ws (jbytes (jfield req "s")))
  | _ -> raise (Model_error ("unknown fn " ^ fn)))
