(* C14 driver: appended after c14_model.ml and proto.ml *)
let utxo_of_json j =
  match jlist j with
  | [i; a; h; v; t; r] -> { uid = jn i; uamount = jz a; uheight = jz h; uverified = jbool v; utype0 = jbool t; urow = jn r }
  | _ -> raise (Model_error "utxo: expected [id, amount, height, verified, type0, row]")
let wallet_of_json j =
  SL.map (fun e -> match jlist e with
    | [u; r] -> (utxo_of_json u, jbool r)
    | _ -> raise (Model_error "wallet entry: expected [utxo, reserved]")) (jlist j)
let strategy_of_json j =
  match j with
  | JNull -> Standard
  | _ -> (match jstr j with
    | "sqlite" -> Sqlite | "prefer_confirmed" -> PreferConfirmed | "only_confirmed" -> OnlyConfirmed
    | "standard" -> Standard | "branch_and_bound" -> BranchAndBound | "closest_match" -> ClosestMatch
    | "random_draw" -> RandomDraw | s -> raise (Model_error ("unknown strategy " ^ s)))
(* the observed permutations in the order the implementation made them: each call consumes the first unused
   entry recorded for exactly this input list (two builds may shuffle the same list differently) *)
let shuffle_of_json j : utxo list -> utxo list =
  let table = Stdlib.Array.of_list (SL.map (fun e -> match jlist e with
    | [a; b] -> (SL.map (fun x -> string_of_n (jn x)) (jlist a), SL.map (fun x -> string_of_n (jn x)) (jlist b))
    | _ -> raise (Model_error "shuffle entry")) (jlist j)) in
  let used = Stdlib.Array.make (Stdlib.Array.length table) false in
  fun l ->
    let ids = SL.map (fun u -> string_of_n u.uid) l in
    let found = ref None in
    Stdlib.Array.iteri (fun i (a, b) -> if !found = None && not used.(i) && a = ids then (found := Some b; used.(i) <- true)) table;
    match !found with
    | None -> raise (Model_error "shuffle: the implementation never shuffled this list (again)")
    | Some out ->
      SL.map (fun i -> try SL.find (fun u -> string_of_n u.uid = i) l
                       with Stdlib.Not_found -> raise (Model_error "shuffle: unknown id")) out
let nlist l = of_list of_n l
let phase_name = function
  | PPreLock -> "prelock" | PPre -> "pre" | PPreUnlock -> "preunlock" | PLock -> "lock" | PRead -> "read" | PSelect -> "select" | PReserve -> "reserve" | PUnlock -> "unlock"
  | PAbort -> "abort" | PFinish -> "finish"
  | PDone Released -> "released" | PDone Broadcast -> "broadcast" | PDone Failed -> "failed"
let () = serve (fun fn req ->
  match fn with
  | "run" ->
    let fpb = jz (jfield req "fpb") in
    let sh = shuffle_of_json (jfield req "shuffles") in
    let builds = Stdlib.Array.of_list (jlist (jfield req "builds")) in
    let nb = Stdlib.Array.length builds in
    let bfield b k = jfield builds.(int_of_nat b) k in
    let strat b = strategy_of_json (bfield b "strategy") in
    let amounts b = jlist (bfield b "amounts") in
    let amount b r =
      let l = amounts b in
      let i = int_of_nat r in
      if i < SL.length l then jz (SL.nth l i) else raise (Model_error "the implementation never asked for this round") in
    let more b r _ = int_of_nat r + 1 < SL.length (amounts b) in
    let finish b = jbool (bfield b "broadcast") in
    let use_lock = (match jfield_opt req "use_lock" with Some j -> jbool j | None -> true) in
    let sched = SL.map jnat (jlist (jfield req "sched")) in
    let locked = (match jfield_opt req "locked" with Some j -> jbool j | None -> false) in
    let unsignable = (match jfield_opt req "unsignable" with Some j -> SL.map (fun x -> string_of_n (jn x)) (jlist j) | None -> []) in
    let can_sign b (held : utxo list) =
      let signing = (match jfield_opt builds.(int_of_nat b) "sign" with Some j -> jbool j | None -> false) in
      not signing || (not (locked && held <> []) && not (SL.exists (fun u -> SL.mem (string_of_n u.uid) unsignable) held)) in
    (* a build that lists the funding accounts in its own order enumerates the rows in that order *)
    let view b (snap : utxo list) =
      match jfield_opt builds.(int_of_nat b) "order" with
      | None | Some JNull -> snap
      | Some j ->
        let pos = Stdlib.Hashtbl.create 64 in
        SL.iteri (fun i x -> Stdlib.Hashtbl.replace pos (string_of_n (jn x)) i) (jlist j);
        let key u = (try Stdlib.Hashtbl.find pos (string_of_n u.uid) with Stdlib.Not_found -> Stdlib.max_int) in
        SL.stable_sort (fun a b -> Stdlib.compare (key a) (key b)) snap in
    let chooser b r snap = c03_choose fpb sh strat amount b r (view b snap) in
    let w0 = wallet_of_json (jfield req "wallet") in
    (* the pre-chosen inputs of a build that are rows of the wallet; whether it has to enter the lock at all *)
    let pre b =
      match jfield_opt builds.(int_of_nat b) "pre" with
      | None | Some JNull -> []
      | Some j -> SL.filter_map (fun x -> let i = string_of_n (jn x) in
                                 SL.find_opt (fun u -> string_of_n u.uid = i) (SL.map Stdlib.fst w0)) (jlist j) in
    let start b = (match jfield_opt builds.(int_of_nat b) "start" with Some j -> jbool j | None -> true) in
    let lock_pre = (match jfield_opt req "lock_pre" with Some j -> jbool j | None -> true) in
    (* cancellation points of a build: the numbers of completed rounds at which it is cancelled *)
    let quits b r =
      match jfield_opt builds.(int_of_nat b) "quits" with
      | None | Some JNull -> false
      | Some j -> SL.mem (int_of_nat r) (SL.map jint (jlist j)) in
    let st = run use_lock lock_pre (nat_of_int nb) chooser more finish pre start quits can_sign sched (init w0) in
    JObj [("builds", JArr (SL.init nb (fun i ->
             let b = st.bs (nat_of_int i) in
             JObj [("phase", JStr (phase_name b.ph)); ("held", nlist (SL.map (fun u -> u.uid) b.held));
                   ("rounds", of_nat b.rnd)])));
          ("reserved", nlist (reserved_ids st.wal));
          ("wallet", nlist (wallet_ids st));
          ("lock", of_option of_nat st.lock)]
  | _ -> raise (Model_error ("unknown fn " ^ fn)))
