(* C09 driver: appended after c09_model.ml and proto.ml *)
let j_addr j = match jlist j with
  | [JStr "w"; c; n] -> W (jn c, jnat n)
  | [JStr "x"; k] -> X (jn k)
  | _ -> raise (Model_error "bad addr")
let of_addr = function
  | W (c, n) -> JArr [JStr "w"; of_n c; of_nat n]
  | X k -> JArr [JStr "x"; of_n k]
let j_out j =
  let k = match jstr (jfield j "k") with
    | "pkh" -> PKH (j_addr (jfield j "a"))
    | "sh" -> SH (jn (jfield j "h"))
    | _ -> NoAddr in
  { o_kind = k; o_amount = jn (jfield j "amt"); o_wrap = jn (jfield j "wrap"); o_pdata = jbool (jfield j "pd") }
let j_stx j =
  ({ t_id = jn (jfield j "id");
     t_ins = SL.map (fun p -> match jlist p with [a; b] -> (jn a, jnat b) | _ -> raise (Model_error "bad input")) (jlist (jfield j "ins"));
     t_outs = SL.map j_out (jlist (jfield j "outs")) }, jz (jfield j "h"))
let j_hist j = SL.map (fun e -> match jlist e with [a; b] -> (jn a, jz b) | _ -> raise (Model_error "bad entry")) (jlist j)
let of_hist h = of_list (fun (t, z) -> JArr [of_n t; of_z z]) h
let j_op j = match jlist j with
  | [JStr "server"; s] -> Server (SL.map j_stx (jlist s))
  | [JStr "begin"; a; st] -> Begin (j_addr a, j_hist st)
  | [JStr "save"; a] -> Save (j_addr a)
  | [JStr "sethist"; a] -> SetHist (j_addr a)
  | [JStr "gap"; a] -> Gap (j_addr a)
  | [JStr "gapchain"; c] -> GapChain (jn c)
  | [JStr "restart"] -> Restart
  | _ -> raise (Model_error "bad op")
let of_kind = function
  | PKH a -> of_addr a
  | SH h -> JArr [JStr "sh"; of_n h]
  | NoAddr -> JNull
let of_txo r = JArr [of_n r.r_txid; of_nat r.r_pos; of_n r.r_type; of_n r.r_out.o_amount; of_kind r.r_out.o_kind]
let of_key r = JArr [of_n r.r_txid; of_nat r.r_pos]
let rec range i k = if i >= k then [] else i :: range (i + 1) k
let dump s accounts =
  let chains = SL.map (fun (c, k) ->
      JArr [of_n c; of_nat k;
            JArr (SL.map (fun n -> of_hist (get_hist s (W (c, nat_of_int n)))) (range 0 (int_of_nat k)))]) s.kcs in
  JObj [
    "tx", of_list (fun (t, h) -> JArr [of_n t.t_id; of_z h]) s.tx_t;
    "txo", of_list of_txo s.txo_t;
    "txi", of_list (fun r -> JArr [of_n r.i_txid; of_nat r.i_ipos; of_n r.i_prev; of_nat r.i_ppos; of_addr r.i_addr]) s.txi_t;
    "chains", JArr chains;
    "pending", of_int (SL.length s.pend);
    (* hypothesis of C09_converges / C09_gap_found evaluated on this state *)
    "in_sync", of_bool (SL.for_all (fun (c, k) ->
        SL.for_all (fun n ->
            let a = W (c, nat_of_int n) in
            let h = get_hist s a in
            SL.for_all (fun e -> SL.mem e h) (server_hist s.server a)) (range 0 (int_of_nat k))) s.kcs);
    "accounts", of_list (fun cs -> JObj [
        "balance", of_n (balance s cs);
        "total", of_n (total s cs);
        "claims", of_n (claims_total s cs);
        "supports", of_n (supports_total s cs);
        "my_supports", of_n (my_supports_total s cs);
        "utxos", of_list of_key (utxos s cs);
        "spendable", of_list of_key (spendable s cs);
        "spec_utxos", of_list of_key (spec_utxos s.server s cs)]) accounts ]
let () = serve (fun fn req ->
  match fn with
  | "run" ->
    let g = SL.map (fun p -> match jlist p with [c; v] -> (jn c, jnat v) | _ -> raise (Model_error "bad gap")) (jlist (jfield req "gaps")) in
    let ops = SL.map j_op (jlist (jfield req "ops")) in
    let accounts = SL.map (fun l -> SL.map jn (jlist l)) (jlist (jfield req "accounts")) in
    let (s, stuck) = run_upto (init g) ops O in
    (match dump s accounts with
     | JObj l -> JObj (("stuck", of_option of_nat stuck) :: l)
     | j -> j)
  | "server_hist" ->
    of_hist (server_hist (SL.map j_stx (jlist (jfield req "server"))) (j_addr (jfield req "a")))
  | "subscribe_plan" ->
    let table = SL.map (fun p -> match jlist p with [a; h] -> (j_addr a, j_hist h) | _ -> raise (Model_error "bad status")) (jlist (jfield req "status")) in
    let answer batch = SL.map (fun a -> try SL.assoc a table with Not_found -> raise (Model_error "no status")) batch in
    of_list (fun (a, h) -> JArr [of_addr a; of_hist h])
      (subscribe_plan (jnat (jfield req "b")) (SL.map j_addr (jlist (jfield req "addrs"))) answer)
  | "server_ok" -> of_bool (server_ok_b (SL.map j_stx (jlist (jfield req "server"))))
  | _ -> raise (Model_error ("unknown fn " ^ fn)))
