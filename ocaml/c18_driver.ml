(* C18 driver: appended after c18_model.ml and proto.ml *)
let jname j = jbytes j
let jpair j = match jlist j with [h; l] -> (jname h, jn l) | _ -> raise (Model_error "pair expected")
let jstatus j = match j with
  | JNull -> None
  | JStr "pending" -> Some Pending
  | JStr "finished" -> Some Finished
  | _ -> raise (Model_error "bad status")

let op_of_json (j : json) : op =
  match jstr (jfield j "op") with
  | "complete" -> OComplete (jname (jfield j "h"), jn (jfield j "len"))
  | "touch" -> OTouch (jname (jfield j "h"), jn (jfield j "len"))
  | "crash_write" -> OCrashWrite (jname (jfield j "h"), jn (jfield j "len"), jn (jfield j "written"))
  | "publish" -> OPublish (SL.map jpair (jlist (jfield j "hs")), jpair (jfield j "sd"))
  | "publish_crash" -> OPublishCrash (SL.map jpair (jlist (jfield j "hs")), jpair (jfield j "sd"),
                                      jnat (jfield j "k"), jnat (jfield j "j"))
  | "delete" -> ODelete (SL.map jname (jlist (jfield j "hs")), jbool (jfield j "from_db"))
  | "stream_delete" -> OStreamDelete (SL.map jname (jlist (jfield j "hs")), jname (jfield j "sd"))
  | "ext_file" -> OExtFile (jname (jfield j "n"), jn (jfield j "size"))
  | "ext_dir" -> OExtDir (jname (jfield j "n"))
  | "ext_remove" -> OExtRemove (jname (jfield j "n"))
  | "ext_loop" -> OExtLoop (jname (jfield j "n"))
  | "ext_link" -> OExtLink (jname (jfield j "n"), (match jfield j "target" with JNull -> None | t -> Some (jn t)))
  | "ext_db" -> OExtDb (jname (jfield j "h"), jstatus (jfield j "st"))
  | "ext_mark" -> OExtMark (jname (jfield j "h"))
  | "daemon_start" ->
      (* streams: [[sd, sdlen, [content hashes]], ...] *)
      ODaemonStart ((match jfield_opt j "save" with Some (JBool v) -> Some v | _ -> None), SL.map (fun st -> match jlist st with
                              | [sd; ln; hs; nj] -> (((jname sd, jn ln), SL.map jname (jlist hs)), jbool nj)
                              | _ -> raise (Model_error "stream expected")) (jlist (jfield j "streams")))
  | "restart" -> ORestart
  | "restart_save" -> ORestartSave (jbool (jfield j "b"))
  | s -> raise (Model_error ("unknown op " ^ s))

let result_name = function
  | RDone -> "done" | RHave -> "have" | RBusy -> "busy" | RInvalid -> "invalid"
  | RNoLength -> "nolength" | RDead -> "dead" | RPrecondition -> "precondition" | RFailed -> "failed"

let obs (s : state) : json =
  JObj [
    ("disk", of_list (fun (n, e) -> match e with
                        | EFile sz -> JArr [of_bytes n; JStr "f"; of_n sz]
                        | EDir -> JArr [of_bytes n; JStr "d"; of_int 0]
                        | ELink -> JArr [of_bytes n; JStr "l"; of_int 0]
                        | ELoop -> JArr [of_bytes n; JStr "o"; of_int 0]) (disk s));
    ("db", of_list (fun (h, st) -> JArr [of_bytes h; JStr (match st with Pending -> "pending" | Finished -> "finished")]) (db s));
    ("completed", of_list of_bytes (completed s));
    ("cache", of_list (fun (h, (kd, v)) -> JArr [of_bytes h; of_bool kd; of_bool v]) (cache s));
    ("alive", of_bool (alive s));
    ("save", of_bool (save s));
    ("marked", of_list of_bytes (marked s));
    (* what get_blobs_to_announce returns under each setting; a dead process announces nothing *)
    ("announce_all", of_list of_bytes (if alive s then announce_list false s else []));
    ("announce_head", of_list of_bytes (if alive s then announce_list true s else [])) ]

let () = serve (fun fn req ->
  match fn with
  | "valid_name" -> of_bool (valid_name (jbytes (jfield req "s")))
  | "run" ->
      (* ops -> the trace [ {r, state after} ] starting from the initial (empty) state; an op with "q": true
         reports only its result tag *)
      let s = ref init in
      let out = SL.map (fun j ->
                         let o = op_of_json j in
                         let quiet = (match jfield_opt j "q" with Some (JBool true) -> true | _ -> false) in
                         let (s', r) = step !s o in s := s';
                         if quiet then JObj [("r", JStr (result_name r))]
                         else JObj [("r", JStr (result_name r)); ("s", obs s')]) (jlist (jfield req "ops")) in
      JArr out
  | _ -> raise (Model_error ("unknown fn " ^ fn)))
