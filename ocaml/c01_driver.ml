(* C01 driver: appended after c01_model.ml and proto.ml.
   request {"fn":"run","kind":"file"|"buffer","cb":bool,"hash":hex,"ops":[[name,args...],...]}
   answer  [[result, observation], ...]  one entry per operation *)
let h384 = oracle1 "sha384"

let op_of_json j =
  match jlist j with
  | JStr "len" :: n :: _ -> SetLength (jz n)
  | JStr "open" :: k :: _ -> Open (jn k)
  | JStr "write" :: i :: d :: _ -> Write (jnat i, jbytes d)
  | JStr "closew" :: i :: _ -> CloseW (jnat i)
  | JStr "closeblob" :: _ -> CloseBlob
  | JStr "tick" :: _ -> Tick
  | JStr "drain" :: _ -> Drain
  | JStr "io" :: _ -> IoDone
  | JStr "read" :: _ -> Read
  | JStr "delete" :: _ -> Delete
  | JStr "advance" :: n :: _ -> Advance (jn n)
  | JStr "isv" :: JNull :: _ -> IsVerified None
  | JStr "isv" :: n :: _ -> IsVerified (Some (jn n))
  | JStr "ensure" :: _ -> Ensure
  | JStr "iofail" :: _ -> IoFail
  | _ -> raise (Model_error "bad op")

let json_of_res r =
  match r with
  | ROk -> JStr "ok" | ROSError -> JStr "OSError" | RInvalid -> JStr "InvalidStateError"
  | RNew i -> JArr [JStr "new"; of_nat i] | RBadId -> JStr "badid"
  | RRead b -> JArr [JStr "read"; of_bytes b] | RSkipped -> JStr "skipped"
  | RBool b -> JArr [JStr "bool"; of_bool b]

let json_of_fut f =
  match f with
  | FPending -> JStr "pending" | FOk b -> JArr [JStr "ok"; of_bytes b]
  | FErrLen -> JStr "errlen" | FErrHash -> JStr "errhash" | FCancelled -> JStr "cancelled"

let observe (s : state) : json =
  JObj [
    "length", of_option of_n s.s_len;
    "writers", of_list (fun w -> JArr [of_bool (Stdlib.not w.w_open); json_of_fut w.w_fut]) s.s_ws;
    "map", of_list (fun (k, i) -> JArr [of_n k; of_nat i]) s.s_map;
    "qlen", of_int (SL.length s.s_q);
    "writing", of_bool s.s_writing;
    "verified", of_bool s.s_verified;
    "io", of_int (match s.s_io with None -> 0 | Some _ -> 1);
    "store", of_option of_bytes s.s_store;
    "completed", of_nat s.s_completed ]

let () = serve (fun fn req ->
  match fn with
  | "run" ->
    let kd = (match jstr (jfield req "kind") with "file" -> KFile | "buffer" -> KBuffer | _ -> raise (Model_error "kind")) in
    let cb = jbool (jfield req "cb") in
    let h = jbytes (jfield req "hash") in
    let ops = SL.map op_of_json (jlist (jfield req "ops")) in
    let file = (match jfield_opt req "file" with Some (JStr x) -> Some (bytes_of_hex x) | _ -> None) in
    let expected = (match jfield_opt req "expected" with Some JNull | None -> None | Some j -> Some (jn j)) in
    let s0 = start kd file expected in
    let log = run_log h384 h kd cb ops s0 in
    JArr (JArr [JStr "start"; observe s0] :: SL.map (fun (s, r) -> JArr [json_of_res r; observe s]) log)
  | "announce" ->
    (* {"ops":[["add",h,finished],["should",h],["single",h,immediate,now],["announced",h,now],["pending",h],["delete",h],
               ["query",head_and_sd_only,now], ...]}  ->  one list of hash ids per query, evaluated where it stands *)
    let t = Stdlib.ref [] in
    let out = Stdlib.ref [] in
    SL.iter (fun j -> match jlist j with
      | JStr "query" :: hd :: now :: _ -> out := of_list of_n (to_announce (jbool hd) (jn now) !t) :: !out
      | JStr "add" :: h :: f :: _ -> t := astep (AAdd (jn h, jbool f)) !t
      | JStr "should" :: h :: _ -> t := astep (AShould (jn h)) !t
      | JStr "single" :: h :: i :: now :: _ -> t := astep (ASingle (jn h, jbool i, jn now)) !t
      | JStr "announced" :: h :: now :: _ -> t := astep (AAnnounced (jn h, jn now)) !t
      | JStr "pending" :: h :: _ -> t := astep (ASetPending (jn h)) !t
      | JStr "delete" :: h :: _ -> t := astep (ADelete (jn h)) !t
      | _ -> raise (Model_error "bad announce op")) (jlist (jfield req "ops"));
    JArr (SL.rev !out)
  | _ -> raise (Model_error ("unknown fn " ^ fn)))
