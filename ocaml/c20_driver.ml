(* C20 driver: appended after c20_model.ml and proto.ml *)
(* nested API values travel as ["i", "123"] | ["b", true] | ["s", hex] | ["o", hex] | ["d", [[hexkey, value], ...]] *)
let rec jv_of_json (j : json) : jv =
  match j with
  | JArr [JStr "i"; n] -> JVInt (jz n)
  | JArr [JStr "b"; b] -> JVBool (jbool b)
  | JArr [JStr "s"; s] -> JVStr (jbytes s)
  | JArr [JStr "o"; t] -> JVOther (jbytes t)
  | JArr [JStr "d"; JArr kvs] ->
      JVDict (SL.map (function JArr [k; v] -> (jbytes k, jv_of_json v) | _ -> raise (Model_error "jv: bad entry")) kvs)
  | _ -> raise (Model_error "jv: bad value")
let rec json_of_jv (v : jv) : json =
  match v with
  | JVInt z -> JArr [JStr "i"; of_z z]
  | JVBool b -> JArr [JStr "b"; JBool b]
  | JVStr s -> JArr [JStr "s"; of_bytes s]
  | JVOther t -> JArr [JStr "o"; of_bytes t]
  | JVDict kvs -> JArr [JStr "d"; JArr (SL.map (fun (k, x) -> JArr [of_bytes k; json_of_jv x]) kvs)]
let () = serve (fun fn req ->
  match fn with
  | "format" -> JStr (string_of_bytes (format (jz (jfield req "n"))))
  | "parse" -> of_option of_n (parse (jbytes (jfield req "s")))
  | "effective" -> of_option (fun b -> JStr (string_of_bytes b))
                   (effective (jbytes (jfield req "amount")) (SL.map jbytes (jlist (jfield req "supports"))))
  | "dict_to_lbc" -> json_of_jv (to_lbc (jv_of_json (jfield req "v")))
  | "dict_lookup" -> of_option json_of_jv (lookup (SL.map jbytes (jlist (jfield req "path"))) (jv_of_json (jfield req "v")))
  | "dec_exact" -> of_option (fun (m, k) -> JArr [of_z m; of_n k]) (dec_exact (jbytes (jfield req "s")))
  | _ -> raise (Model_error ("unknown fn " ^ fn)))
