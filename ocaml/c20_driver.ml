(* C20 driver: appended after c20_model.ml and proto.ml *)
let () = serve (fun fn req ->
  match fn with
  | "format" -> JStr (string_of_bytes (format (jz (jfield req "n"))))
  | "parse" -> of_option of_n (parse (jbytes (jfield req "s")))
  | "effective" -> of_option (fun b -> JStr (string_of_bytes b))
                   (effective (jbytes (jfield req "amount")) (SL.map jbytes (jlist (jfield req "supports"))))
  | "dec_exact" -> of_option (fun (m, k) -> JArr [of_z m; of_n k]) (dec_exact (jbytes (jfield req "s")))
  | _ -> raise (Model_error ("unknown fn " ^ fn)))
