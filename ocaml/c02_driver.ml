(* C02 driver: appended after c02_model.ml and proto.ml.  All byte strings travel as hex, code points as ints. *)
let h384 = oracle1 "sha384"
let aes_e = oracle3 "aes_enc"
let aes_d k iv c =
  match oracle3 "aes_dec" k iv c with
  | [] -> None
  | x :: r -> if int_of_byte x = 0 then None else Some r

let jcps j = SL.map jn (jlist j)
let of_cps l = of_list of_n l

let jblob j = { b_num = jz (jfield j "num"); b_len = jz (jfield j "len"); b_iv = jbytes (jfield j "iv");
                b_hash = (match jfield_opt j "hash" with None | Some JNull -> None | Some h -> Some (jbytes h)) }
let of_blob b = JObj [("num", of_z b.b_num); ("len", of_z b.b_len); ("iv", of_bytes b.b_iv);
                      ("hash", of_option of_bytes b.b_hash)]
let jdesc j = { d_name = jbytes (jfield j "name"); d_key = jbytes (jfield j "key"); d_sugg = jbytes (jfield j "sugg");
                d_blobs = SL.map jblob (jlist (jfield j "blobs")); d_shash = jbytes (jfield j "shash") }
let of_desc d = JObj [("name", of_bytes d.d_name); ("key", of_bytes d.d_key); ("sugg", of_bytes d.d_sugg);
                      ("blobs", of_list of_blob d.d_blobs); ("shash", of_bytes d.d_shash)]
let jsdj j = { j_name = jbytes (jfield j "name"); j_key = jbytes (jfield j "key"); j_sugg = jbytes (jfield j "sugg");
               j_blobs = SL.map jblob (jlist (jfield j "blobs")); j_shash = jbytes (jfield j "shash") }
let of_sdj d = JObj [("name", of_bytes d.j_name); ("key", of_bytes d.j_key); ("sugg", of_bytes d.j_sugg);
                     ("blobs", of_list of_blob d.j_blobs); ("shash", of_bytes d.j_shash)]
let err_name = function
  | EIndex -> "IndexError" | ENoTerminator -> "NoTerminator" | EZeroData -> "ZeroData" | ETermHash -> "TermHash"
  | EOrder -> "Order" | ENonAscii -> "ValueError" | EBinascii -> "binascii.Error" | EUnicode -> "UnicodeDecodeError"
  | EKey -> "KeyError" | EStreamHash -> "StreamHash"
let of_stream s = JObj [("desc", of_desc s.s_desc); ("cts", of_list of_bytes s.s_cts);
                        ("sd_blob", of_bytes s.s_sd_blob); ("sd_hash", of_bytes s.s_sd_hash)]
let ivf_of req =
  let ivs = Stdlib.Array.of_list (SL.map jbytes (jlist (jfield req "ivs"))) in
  fun (i : nat) -> let k = int_of_nat i in
    if k < Stdlib.Array.length ivs then ivs.(k) else raise (Model_error "iv generator exhausted")

let () = serve (fun fn req ->
  match fn with
  | "sanitize" ->
      let name = jcps (jfield req "name") in
      let (a, b) = splitext name in
      JObj [("split", JArr [of_cps a; of_cps b]); ("out", of_cps (sanitize name)); ("base", of_cps (basename name))]
  | "range" ->
      let maxb = jnat (jfield req "maxb") in
      let pieces = split maxb (jbytes (jfield req "file")) in
      let start = jnat (jfield req "start") in
      let (q, r) = range_plan maxb start in
      JObj [("skip_blobs", of_nat q); ("offset", of_nat r); ("body", of_bytes (range_read maxb pieces start));
            ("old_body", of_bytes (range_read_old maxb pieces start))]
  | "cancel" ->
      of_option of_bytes (save_loop [] (split (jnat (jfield req "maxb")) (jbytes (jfield req "file"))) (jnat (jfield req "k")))
  | "recovered_name" -> of_cps (recovered_file_name (jcps (jfield req "sugg")))
  | "save_name" ->
      let s = jcps (jfield req "sugg") in
      JObj [("strip", of_cps (py_strip s)); ("suggested", of_option of_cps (suggested_save_name s));
            ("save", of_option of_cps (save_file_name s))]
  | "strip" -> of_cps (strip (jcps (jfield req "s")))
  | "create" ->
      of_option of_stream
        (create_stream_layout h384 aes_e (jnat (jfield req "maxb"))
           (match jfield_opt req "old_sort" with Some (JBool b) -> b | _ -> false)
           (jcps (jfield req "name")) (jbytes (jfield req "key"))
           (ivf_of req) (jbytes (jfield req "file")))
  | "create_in" ->
      let dir = SL.map (fun j -> (jbytes (jfield j "name"), jnat (jfield j "size"))) (jlist (jfield req "dir")) in
      of_option of_stream
        (create_stream_in h384 aes_e (jnat (jfield req "maxb")) dir
           (match jfield_opt req "old_sort" with Some (JBool b) -> b | _ -> false)
           (jcps (jfield req "name")) (jbytes (jfield req "key"))
           (ivf_of req) (jbytes (jfield req "file")))
  | "split" -> of_list of_bytes (split (jnat (jfield req "maxb")) (jbytes (jfield req "file")))
  | "decrypt" ->
      of_option of_bytes (decrypt_stream aes_d (jdesc (jfield req "desc")) (SL.map jbytes (jlist (jfield req "cts"))))
  | "reads" ->
      let w = SL.map (fun j -> (jdesc (jfield j "desc"), SL.map jbytes (jlist (jfield j "cts")))) (jlist (jfield req "world")) in
      let ops = SL.map (fun j -> match jlist j with [a; b] -> (jnat a, jnat b) | _ -> raise (Model_error "op")) (jlist (jfield req "ops")) in
      of_list (of_option of_bytes) (run_reads aes_d (jnat (jfield req "cap")) w [] ops)
  | "validate" ->
      (match validate h384 (jsdj (jfield req "sdj")) with
       | Ok d -> JObj [("ok", of_desc d)]
       | Err e -> JObj [("err", JStr (err_name e))])
  | "to_sdj" -> of_sdj (to_sdj (jdesc (jfield req "desc")))
  | "as_json" -> of_bytes (as_json (jdesc (jfield req "desc")))
  | "sd_hash" -> of_bytes (sd_hash h384 (jdesc (jfield req "desc")))
  | "old_sort_json" -> of_bytes (old_sort_json (jdesc (jfield req "desc")))
  | "old_sd_hash" -> of_bytes (old_sd_hash h384 (jdesc (jfield req "desc")))
  | "stream_hash" ->
      let d = jdesc (jfield req "desc") in
      of_option of_bytes (get_stream_hash h384 d.d_name d.d_key d.d_sugg d.d_blobs)
  | "blob_hashsum" -> of_option of_bytes (blob_hashsum h384 (jblob (jfield req "blob")))
  | "expected_lengths" -> of_list of_n (expected_lengths (jn (jfield req "maxb")) (jn (jfield req "n")))
  | "utf8_ok" -> of_bool (utf8_ok (jbytes (jfield req "s")))
  | "utf8_enc" -> of_bytes (utf8_enc (jcps (jfield req "s")))
  | "unhex" -> of_option of_bytes (unhex (jbytes (jfield req "s")))
  | "hex" -> of_bytes (hex (jbytes (jfield req "s")))
  | _ -> raise (Model_error ("unknown fn " ^ fn)))
