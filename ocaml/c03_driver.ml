(* C03 driver: appended after c03_model.ml and proto.ml *)
let utxo_of_json j =
  match jlist j with
  | [i; a; h; v; t; r] -> { uid = jn i; uamount = jz a; uheight = jz h; uverified = jbool v; utype0 = jbool t; urow = jn r }
  | _ -> raise (Model_error "utxo: expected [id, amount, height, verified, type0, row]")
let wallet_of_json j =
  SL.map (fun e -> match jlist e with
    | [u; r] -> (utxo_of_json u, jbool r)
    | _ -> raise (Model_error "wallet entry: expected [utxo, reserved]")) (jlist j)
let strategy_of_json j =
  match j with
  | JNull -> Standard
  | _ -> (match jstr j with
    | "sqlite" -> Sqlite | "prefer_confirmed" -> PreferConfirmed | "only_confirmed" -> OnlyConfirmed
    | "standard" -> Standard | "branch_and_bound" -> BranchAndBound | "closest_match" -> ClosestMatch
    | "random_draw" -> RandomDraw | s -> raise (Model_error ("unknown strategy " ^ s)))
let inp_of_json j =
  match jlist j with
  | [i; a; s] -> { iid = jn i; iamount = jz a; isize = jz s }
  | _ -> raise (Model_error "inp: expected [id, amount, size]")
let outp_of_json j =
  match jlist j with
  | [a; s; n] -> { oamount = jz a; osize = jz s; oname = (match n with JNull -> None | x -> Some (jz x)) }
  | _ -> raise (Model_error "outp: expected [amount, size, name_len|null]")
(* the observed permutations: [[ids before], [ids after]]; Random.shuffle as a function of its input *)
let shuffle_of_json j : utxo list -> utxo list =
  let table = SL.map (fun e -> match jlist e with
    | [a; b] -> (SL.map (fun x -> string_of_n (jn x)) (jlist a), SL.map (fun x -> string_of_n (jn x)) (jlist b))
    | _ -> raise (Model_error "shuffle entry")) (jlist j) in
  fun l ->
    let ids = SL.map (fun u -> string_of_n u.uid) l in
    match SL.assoc_opt ids table with
    | None -> raise (Model_error "shuffle: the implementation never shuffled this list")
    | Some out ->
      SL.map (fun i -> try SL.find (fun u -> string_of_n u.uid = i) l
                       with Stdlib.Not_found -> raise (Model_error "shuffle: unknown id")) out
let ids l = of_list (fun u -> of_n u.uid) l
let nlist l = of_list of_n l
let () = serve (fun fn req ->
  match fn with
  | "create" ->
    let fpb = jz (jfield req "fpb") and fpnc = jz (jfield req "fpnc") in
    let sh = shuffle_of_json (jfield req "shuffles") in
    let pre = SL.map inp_of_json (jlist (jfield req "pre")) in
    let outs = SL.map outp_of_json (jlist (jfield req "outs")) in
    let strat = strategy_of_json (jfield req "strategy") in
    (* can tx.sign succeed on this input list?  sign=False: always; a locked account cannot sign any input;
       an input whose address has no key in the wallet cannot be signed *)
    let signing = (match jfield_opt req "sign" with Some j -> jbool j | None -> false) in
    let locked = (match jfield_opt req "locked" with Some j -> jbool j | None -> false) in
    let unsignable = (match jfield_opt req "unsignable" with Some j -> SL.map (fun x -> string_of_n (jn x)) (jlist j) | None -> []) in
    let can_sign (l : n list) =
      not signing || (not (locked && l <> []) && not (SL.exists (fun i -> SL.mem (string_of_n i) unsignable) l)) in
    let w = wallet_of_json (jfield req "wallet") in
    (match create_signed fpb fpnc sh strat pre outs can_sign w with
     | Built (added, change, w') ->
       JObj [("result", JStr "ok"); ("added", ids added); ("change", of_option of_z change);
             ("reserved", nlist (reserved_ids w'));
             ("fee", of_z (tx_fee pre outs added change));
             ("required", of_z (required_fee fpb fpnc pre outs added change))]
     | Insufficient w' -> JObj [("result", JStr "InsufficientFundsError"); ("reserved", nlist (reserved_ids w'))]
     | SignFails w' ->
       let held = (match create fpb fpnc sh strat pre outs w with Ok (a, _, _) -> ids a | Refused _ -> JArr []) in
       JObj [("result", JStr "SignFails"); ("reserved", nlist (reserved_ids w')); ("held", held)])
  | "spendable" ->
    let fpb = jz (jfield req "fpb") in
    let sh = shuffle_of_json (jfield req "shuffles") in
    let w = wallet_of_json (jfield req "wallet") in
    let sel = spendable fpb sh (strategy_of_json (jfield req "strategy")) w (jz (jfield req "amount")) in
    JObj [("selected", ids sel); ("reserved", nlist (reserved_ids (reserve sel w)))]
  | "select" ->
    let fpb = jz (jfield req "fpb") in
    let sh = shuffle_of_json (jfield req "shuffles") in
    ids (select fpb sh (jz (jfield req "target")) (jz (jfield req "coc")) (strategy_of_json (jfield req "strategy"))
           (SL.map utxo_of_json (jlist (jfield req "txos"))))
  | "sqlite_select" ->
    ids (sqlite_select (jz (jfield req "fpb")) (SL.map utxo_of_json (jlist (jfield req "rows")))
           (jz (jfield req "amount")) (jz (jfield req "floor")))
  | "release" ->
    nlist (reserved_ids (release (SL.map jn (jlist (jfield req "ids"))) (wallet_of_json (jfield req "wallet"))))
  | "sizes" ->
    JObj [("in", of_z iN_SIZE); ("p2pkh", of_z p2PKH_SIZE); ("change_est", of_z cHANGE_EST_SIZE);
          ("dust", of_z dUST); ("tries", of_n mAXIMUM_TRIES); ("maxint", of_z sQLITE_MAX_INTEGER);
          ("base", of_z (base_size (jz (jfield req "n_in")) (jz (jfield req "n_out"))))]
  | _ -> raise (Model_error ("unknown fn " ^ fn)))
