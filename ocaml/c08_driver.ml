(* C08 driver: appended after c08_model.ml and proto.ml.
   The hash is an oracle; field "hash" selects which one (default "dsha" = double SHA-256,
   "weak" = a deliberately weak 32-byte hash used to exhibit explicit collisions). *)
let hash_of req =
  let name = match jfield_opt req "hash" with Some j -> jstr j | None -> "dsha" in
  oracle1 name
let jhexlist j = SL.map jbytes (jlist j)
let jopt f j = match j with JNull -> None | x -> Some (f x)
let jresp j : merkle_resp =
  { m_merkle = (match jfield_opt j "merkle" with None -> None | Some m -> jopt jhexlist m);
    m_pos = (match jfield_opt j "pos" with None -> None | Some p -> jopt jz p) }
let of_outcome = function
  | RetTx -> JStr "tx" | RetNone -> JStr "none" | RaiseKeyError -> JStr "KeyError" | RaiseHexError -> JStr "binascii.Error"

(* legacy claim-trie proof (correspondence only) *)
let jtext_opt j k = match jfield_opt j k with None -> None | Some h -> Some (jtext h)
let jz_opt j k = match jfield_opt j k with None -> None | Some h -> Some (jz h)
let jchild j : child = { c_char = jz (jfield j "character"); c_node_hash = jtext_opt j "nodeHash" }
let jnode j : node = { n_children = SL.map jchild (jlist (jfield j "children")); n_value_hash = jtext_opt j "valueHash" }
let jproof j : claim_proof =
  { p_nodes = SL.map jnode (jlist (jfield j "nodes")); p_txhash = jtext_opt j "txhash"; p_nout = jz_opt j "nOut";
    p_takeover = jz_opt j "last takeover height" }

(* cache + header list state machine (Model/C08_Cache.v) *)
let jwop j : wop =
  match jstr (jfield j "op") with
  | "request" ->
      OpRequest (jbytes (jfield j "key"), jbytes (jfield j "raw"), jz (jfield j "height"),
                 jopt jresp (jfield j "arg"), jresp (jfield j "net"))
  | "extend" -> OpExtend (jhexlist (jfield j "headers"))
  | "reorg" -> OpReorg (jnat (jfield j "fork"), jhexlist (jfield j "headers"))
  | "replace" -> OpReplace (jnat (jfield j "fork"), jhexlist (jfield j "headers"))
  | "restart" -> OpRestart
  | o -> raise (Model_error ("unknown op " ^ o))
let of_txst hit (st : tx_state) out =
  JObj [ "hit", of_bool hit; "height", of_z st.t_height; "position", of_z st.t_position;
         "verified", of_bool st.t_verified; "outcome", out ]

let () = serve (fun fn req ->
  match fn with
  | "hexlify" -> JStr (string_of_bytes (hexlify (jbytes (jfield req "b"))))
  | "unhexlify" -> of_option of_bytes (unhexlify (jbytes (jfield req "s")))
  | "merkle_root" -> of_option of_bytes (merkle_root (hash_of req) (jhexlist (jfield req "leaves")))
  | "branch" -> of_list of_bytes (branch (hash_of req) (jhexlist (jfield req "leaves")) (jnat (jfield req "idx")))
  | "proof" ->
      let h = hash_of req in
      let leaves = jhexlist (jfield req "leaves") in
      let idx = jnat (jfield req "idx") in
      let br = branch h leaves idx in
      JObj [ "branch", of_list of_bytes br;
             "wire", of_list (fun b -> JStr (string_of_bytes (wire b))) br ]
  | "fold" ->
      of_bytes (fold_branch (hash_of req) (jhexlist (jfield req "branch")) (jz (jfield req "pos")) (jbytes (jfield req "leaf")))
  | "get_root" ->
      of_option (fun b -> JStr (string_of_bytes b))
        (get_root_of_merkle_tree (hash_of req) (jhexlist (jfield req "branches")) (jz (jfield req "pos")) (jbytes (jfield req "working")))
  | "collision" ->
      of_option (fun (x, y) -> JArr [of_bytes x; of_bytes y])
        (collision (hash_of req) (jhexlist (jfield req "br1")) (jhexlist (jfield req "br2"))
           (jz (jfield req "p1")) (jz (jfield req "p2")) (jbytes (jfield req "w1")) (jbytes (jfield req "w2")))
  | "header_merkle_root" -> JStr (string_of_bytes (header_merkle_root (jbytes (jfield req "header"))))
  | "txid_preimage" -> of_option of_bytes (txid_preimage (jbytes (jfield req "raw")))
  | "maybe_verify_raw" ->
      (* like maybe_verify, but from the bytes the server returned: null when Transaction(raw) / its id raise *)
      let st = jfield req "st" in
      let st0 = { t_height = jz (jfield st "height"); t_position = jz (jfield st "position");
                  t_verified = jbool (jfield st "verified") } in
      (match maybe_verify_raw (hash_of req) (jhexlist (jfield req "headers")) st0 (jbytes (jfield req "raw"))
               (jz (jfield req "height")) (jopt jresp (jfield req "arg")) (jresp (jfield req "net")) with
       | None -> JNull
       | Some ((st1, out), fetched) ->
           JObj [ "height", of_z st1.t_height; "position", of_z st1.t_position; "verified", of_bool st1.t_verified;
                  "outcome", of_outcome out; "fetched", of_bool fetched ])
  | "maybe_verify" ->
      let st = jfield req "st" in
      let st0 = { t_height = jz (jfield st "height"); t_position = jz (jfield st "position");
                  t_verified = jbool (jfield st "verified") } in
      let arg = jopt jresp (jfield req "arg") in
      let net = jresp (jfield req "net") in
      let ((st1, out), fetched) =
        maybe_verify (hash_of req) (jhexlist (jfield req "headers")) st0 (jbytes (jfield req "raw"))
          (jz (jfield req "height")) arg net in
      JObj [ "height", of_z st1.t_height; "position", of_z st1.t_position; "verified", of_bool st1.t_verified;
             "outcome", of_outcome out; "fetched", of_bool fetched ]
  | "cache_run" ->
      let s0 = { w_headers = jhexlist (jfield req "headers"); w_cache = [] } in
      let (s1, outs) = run (hash_of req) s0 (SL.map jwop (jlist (jfield req "ops"))) in
      JObj [ "len", of_int (SL.length s1.w_headers);
             "results", of_list (fun o -> match o with
                 | None -> JNull
                 | Some (Hit st) -> of_txst true st (JStr "tx")
                 | Some (Fetched (st, out)) -> of_txst false st (of_outcome out)) outs ]
  | "chunk_run" ->
      (* checkpoints: dsha digests (hex); chunks: the answers a server can give (each a list of headers);
         attempts: which answer is served, the transaction, the height, the dict *)
      let served = Stdlib.Array.of_list (SL.map jhexlist (jlist (jfield req "chunks"))) in
      let atts = SL.map (fun j ->
          { a_served = served.(jint (jfield j "server")); a_raw = jbytes (jfield j "raw");
            a_height = jz (jfield j "height"); a_arg = jopt jresp (jfield j "arg"); a_net = jresp (jfield j "net") })
          (jlist (jfield req "attempts")) in
      (* optional "disk": [[chunk number, index into chunks]] = what the header file holds when it is (re)opened *)
      let present0 = match jfield_opt req "disk" with
        | None -> []
        | Some d -> reopen (hash_of req) (jhexlist (jfield req "checkpoints"))
                      (SL.map (fun e -> match jlist e with [k; v] -> (jnat k, served.(jint v)) | _ -> raise (Model_error "disk")) (jlist d)) in
      let (present, outs) = attempts (hash_of req) (jnat (jfield req "csize")) (jhexlist (jfield req "checkpoints")) present0 atts in
      let of_st (st : tx_state) = [ "height", of_z st.t_height; "position", of_z st.t_position; "verified", of_bool st.t_verified ] in
      JObj [ "present", of_list (fun (k, _) -> of_nat k) present;
             "results", of_list (fun o -> match o with
                 | AttDone (((st, out), fetched), asked) -> JObj (of_st st @ [ "outcome", of_outcome out; "asked", of_bool asked ])
                 | AttMismatch st -> JObj (of_st st @ [ "outcome", JStr "CheckpointMismatch"; "asked", JBool true ])) outs ]
  | "db_run" ->
      let ops = SL.map (fun j -> match jstr (jfield j "op") with
          | "sync" -> DSync (jbytes (jfield j "key"), jbytes (jfield j "raw"), jz (jfield j "height"),
                             jopt jresp (jfield j "arg"), jresp (jfield j "net"))
          | "extend" -> DExtend (jhexlist (jfield j "headers"))
          | "restart" -> DRestart
          | o -> raise (Model_error ("unknown op " ^ o))) (jlist (jfield req "ops")) in
      let s1 = drun (hash_of req) { d_headers = jhexlist (jfield req "headers"); d_rows = [] } ops in
      JObj [ "len", of_int (SL.length s1.d_headers);
             "rows", of_list (fun (k, e) -> JArr [ of_bytes k; of_z e.c_st.t_height; of_z e.c_st.t_position;
                                                   of_bool e.c_st.t_verified ]) s1.d_rows ]
  | "claim_verify" ->
      (match verify_proof (hash_of req) (jproof (jfield req "proof")) (jtext (jfield req "root")) (jbytes (jfield req "name")) with
       | CpTrue -> JBool true | CpInvalid -> JStr "invalid" | CpOther -> JStr "other")
  | _ -> raise (Model_error ("unknown fn " ^ fn)))
