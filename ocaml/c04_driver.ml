(* C04 driver: appended after c04_model.ml and proto.ml *)
let txin_of j = { ti_hash = jbytes (jfield j "hash"); ti_index = jn (jfield j "index");
                  ti_script = jbytes (jfield j "script"); ti_seq = jn (jfield j "seq") }
let txout_of j = { to_amount = jn (jfield j "amount"); to_script = jbytes (jfield j "script") }
let tx_of j = { tx_version = jn (jfield j "version"); tx_ins = SL.map txin_of (jlist (jfield j "ins"));
                tx_outs = SL.map txout_of (jlist (jfield j "outs")); tx_locktime = jn (jfield j "locktime") }
let o_sha = oracle1 "sha256"
let o_sign = oracle2 "sign"
let opt_bytes j = match j with JNull -> None | _ -> Some (jbytes j)
let of_opt_bytes o = match o with None -> JNull | Some b -> of_bytes b
let sobj_of j = { o_legacy = opt_bytes (jfield j "legacy"); o_sig = opt_bytes (jfield j "sig");
                  o_ch = jbytes (jfield j "ch"); o_msg = jbytes (jfield j "msg") }
let oop_of j = match jstr (jfield j "op") with
  | "sign" -> OSign (jbytes (jfield j "sk"), jbytes (jfield j "ch"))
  | "clear" -> OClear
  | "edit" -> OEdit (jbytes (jfield j "m"))
  | "reread" -> OReread
  | s -> raise (Model_error ("unknown op " ^ s))
let of_sobj fo addr o = JObj [ "legacy", of_opt_bytes o.o_legacy; "sig", of_opt_bytes o.o_sig; "ch", of_bytes o.o_ch;
                               "msg", of_bytes o.o_msg; "pieces", of_bytes (obj_pieces fo addr o) ]
let obj_run req =
  let fo = outpoint_bytes (jbytes (jfield req "txhash")) (jn (jfield req "pos")) in
  let addr = jbytes (jfield req "addr") in
  let rec go o ops acc = match ops with
    | [] -> Stdlib.List.rev acc
    | op :: r -> let o' = ostep o_sha o_sign fo o op in go o' r (of_sobj fo addr o' :: acc) in
  JArr (go (sobj_of (jfield req "start")) (SL.map oop_of (jlist (jfield req "ops"))) [])
let () = serve (fun fn req ->
  match fn with
  | "preimage" -> of_bytes (sighash_preimage (tx_of (jfield req "tx")) (jnat (jfield req "i")) (jbytes (jfield req "script")))
  | "spec" -> of_bytes (sighash_spec (tx_of (jfield req "tx")) (jnat (jfield req "i")) (jbytes (jfield req "script")))
  | "serialize" -> of_bytes (serialize (tx_of (jfield req "tx")))
  | "channel_pieces" -> of_bytes (channel_pieces (outpoint_bytes (jbytes (jfield req "txhash")) (jn (jfield req "pos")))
                                    (jbytes (jfield req "channel")) (jbytes (jfield req "message")))
  | "obj_run" -> obj_run req
  | "legacy_pieces" -> of_bytes (legacy_pieces (jbytes (jfield req "address")) (jbytes (jfield req "payload")) (jbytes (jfield req "channel")))
  | _ -> raise (Model_error ("unknown fn " ^ fn)))
