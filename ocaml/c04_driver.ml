(* C04 driver: appended after c04_model.ml and proto.ml *)
let txin_of j = { ti_hash = jbytes (jfield j "hash"); ti_index = jn (jfield j "index");
                  ti_script = jbytes (jfield j "script"); ti_seq = jn (jfield j "seq") }
let txout_of j = { to_amount = jn (jfield j "amount"); to_script = jbytes (jfield j "script") }
let tx_of j = { tx_version = jn (jfield j "version"); tx_ins = SL.map txin_of (jlist (jfield j "ins"));
                tx_outs = SL.map txout_of (jlist (jfield j "outs")); tx_locktime = jn (jfield j "locktime") }
let () = serve (fun fn req ->
  match fn with
  | "preimage" -> of_bytes (sighash_preimage (tx_of (jfield req "tx")) (jnat (jfield req "i")) (jbytes (jfield req "script")))
  | "spec" -> of_bytes (sighash_spec (tx_of (jfield req "tx")) (jnat (jfield req "i")) (jbytes (jfield req "script")))
  | "serialize" -> of_bytes (serialize (tx_of (jfield req "tx")))
  | "channel_pieces" -> of_bytes (channel_pieces (outpoint_bytes (jbytes (jfield req "txhash")) (jn (jfield req "pos")))
                                    (jbytes (jfield req "channel")) (jbytes (jfield req "message")))
  | "legacy_pieces" -> of_bytes (legacy_pieces (jbytes (jfield req "address")) (jbytes (jfield req "payload")) (jbytes (jfield req "channel")))
  | _ -> raise (Model_error ("unknown fn " ^ fn)))
