(* C05 driver: appended after c05_model.ml and proto.ml *)
let sha256 = oracle1 "sha256"

let err_name = function
  | ETypeError -> "TypeError" | EStructError -> "struct.error"
  | EOverflowError -> "OverflowError" | EOutOfFuel -> "OutOfFuel"
let of_res f = function ROk a -> f a | RErr e -> JObj [("err", JStr (err_name e))]
let of_on = of_option of_n

(* {"version": n, "locktime": n, "ins": [[hash, index, script, sequence]...], "outs": [[amount, script]...]} *)
let tx_of_json j : tx =
  let jin x = match jlist x with
    | [h; i; s; q] -> { ti_hash = jbytes h; ti_index = jn i; ti_script = jbytes s; ti_seq = jn q }
    | _ -> raise (Model_error "bad input") in
  let jout x = match jlist x with
    | [a; s] -> { to_amount = jn a; to_script = jbytes s }
    | _ -> raise (Model_error "bad output") in
  { tx_version = jn (jfield j "version");
    tx_ins = SL.map jin (jlist (jfield j "ins"));
    tx_outs = SL.map jout (jlist (jfield j "outs"));
    tx_locktime = jn (jfield j "locktime") }

let json_of_parsed (((p, cb), reser), id) =
  JObj [
    ("version", of_on p.p_version);
    ("flag", of_on p.p_flag);
    ("ins", JArr (SL.map2 (fun i c -> JArr [of_bytes i.pi_hash; of_on i.pi_index; of_bytes i.pi_script;
                                              of_on i.pi_seq; JBool c]) p.p_ins cb));
    ("outs", of_list (fun o -> JArr [of_on o.po_amount; of_bytes o.po_script]) p.p_outs);
    ("wits", of_list of_bytes p.p_wits);
    ("locktime", of_on p.p_locktime);
    ("reser", of_res of_bytes reser);
    ("id", of_res of_bytes id) ]

let () = serve (fun fn req ->
  match fn with
  | "build" ->
      let t = tx_of_json (jfield req "tx") in
      let raw = build_raw t in
      let sizes = match raw with
        | RErr _ -> JNull
        | ROk _ -> JObj [("size", of_nat (tx_size t)); ("base_size", of_nat (base_size t));
                         ("ins", of_list (fun i -> of_nat (in_size i)) t.tx_ins);
                         ("outs", of_list (fun o -> of_nat (out_size o)) t.tx_outs)] in
      JObj [("raw", of_res of_bytes raw); ("id", of_res of_bytes (build_id sha256 t)); ("sizes", sizes)]
  | "serialize" -> of_bytes (serialize (tx_of_json (jfield req "tx")))
  | "observe" -> of_res json_of_parsed (observe sha256 (jbytes (jfield req "raw")))
  | "segwit" ->
      let t = tx_of_json (jfield req "tx") in
      let wits = SL.map (fun w -> SL.map jbytes (jlist w)) (jlist (jfield req "wits")) in
      of_bytes (serialize_segwit t (jn (jfield req "flag")) wits)
  | "cache" ->
      (* ops: ["edit", tx] | ["add", tx] | ["reset"] | ["raw"] | ["id"] | ["sans"]; returns what the reads returned *)
      let op_of j = match jlist j with
        | [JStr "edit"; t] -> OEdit (tx_of_json t)
        | [JStr "add"; t] -> OAdd (tx_of_json t)
        | [JStr "reset"] -> OReset
        | [JStr "raw"] -> OReadRaw
        | [JStr "id"] -> OReadId
        | [JStr "sans"] -> OReadSans
        | _ -> raise (Model_error "bad cache op") in
      let ops = SL.map op_of (jlist (jfield req "ops")) in
      (* raw0 given: a parsed object (_raw = the bytes it was parsed from, seg = is_segwit_flag truthy) *)
      (match jfield_opt req "raw0" with
       | Some r -> of_list of_bytes (cache_run_parsed sha256 (tx_of_json (jfield req "tx")) (jbytes r)
                                       (jbool (jfield req "seg")) ops)
       | None -> of_list of_bytes (cache_run sha256 (tx_of_json (jfield req "tx")) ops))
  | "cs_encode" -> of_bytes (cs_encode (jn (jfield req "n")))
  | "read_cs" ->
      of_res (fun (v, r) -> JArr [of_on v; of_bytes r]) (read_cs (jbytes (jfield req "s")))
  | _ -> raise (Model_error ("unknown fn " ^ fn)))
