(* C15 driver: appended after c15_model.ml and proto.ml *)
let tname_of_string (s : string) : tname =
  try SL.find (fun t -> string_of_bytes (tname_str t) = s) all_tnames
  with Stdlib.Not_found -> raise (Model_error ("unknown template " ^ s))
let field_of_string (s : string) : field =
  try SL.find (fun f -> string_of_bytes (field_str f) = s) all_fields
  with Stdlib.Not_found -> raise (Model_error ("unknown field " ^ s))
let sub_of_string = function
  | "timelock" -> SubTimeLock | "multi_sig" -> SubMultiSig
  | s -> raise (Model_error ("unknown subscript template " ^ s))
let string_of_sub = function SubTimeLock -> "timelock" | SubMultiSig -> "multi_sig"

let token_json = function
  | TData d -> JArr [JStr "D"; of_bytes d]
  | TSmall k -> JArr [JStr "S"; of_n k]
  | TOp v -> JArr [JStr "O"; of_n v]

let cls_string = function
  | CClaim -> "claim" | CUpdate -> "update" | CSupport -> "support" | CSupportData -> "support+data"
  | CPurchase -> "purchase" | CData -> "data" | CPayment -> "payment" | CEmpty -> "empty"
  | CNoMatch -> "nomatch" | CError -> "error"

let rec sresult_json (r : sresult) : json =
  match r with
  | SMatch (t, vs) ->
      JObj [ ("template", JStr (string_of_bytes (tname_str t)));
             ("values", JObj (SL.map (fun (f, v) -> (string_of_bytes (field_str f), value_json v)) vs));
             ("flags", of_list of_bool (flags t vs));
             ("class", JStr (cls_string (class_of r)));
             ("row_type", of_n (row_type (class_of r)));
             ("is_script_hash", of_bool (is_script_hash t)) ]
  | SNoMatch -> JObj [("error", JStr "ValueError")]
  | SFuel -> JObj [("error", JStr "MODEL-OUT-OF-FUEL")]
and value_json (v : value) : json =
  match v with
  | VBytes d -> JObj [("b", of_bytes d)]
  | VInt n -> JObj [("i", of_n n)]
  | VSmall n -> JObj [("i", of_n n)]
  | VList l -> JObj [("l", of_list of_bytes l)]
  | VSub (t, src) -> JObj [("sub", JObj [("hint", JStr (string_of_sub t)); ("src", of_bytes src);
                                         ("parsed", sresult_json (parse_sub t src))])]

let value_of_json (j : json) : value =
  match j with
  | JObj [("b", x)] -> VBytes (jbytes x)
  | JObj [("i", x)] -> VInt (jn x)
  | JObj [("k", x)] -> VSmall (jn x)
  | JObj [("l", x)] -> VList (SL.map jbytes (jlist x))
  | JObj [("sub", x)] -> VSub (SubTimeLock, jbytes x)
  | _ -> raise (Model_error "bad value")

let () = serve (fun fn req ->
  match fn with
  | "push" -> of_bytes (push (jbytes (jfield req "d")))
  | "int_bytes" -> of_bytes (int_bytes (jn (jfield req "n")))
  | "tokenize" ->
      (match tokenize (jbytes (jfield req "s")) with
       | TokOk l -> JObj [("ok", of_list token_json l)]
       | TokErr StructError -> JObj [("error", JStr "struct.error")]
       | TokErr TokFuel -> JObj [("error", JStr "MODEL-OUT-OF-FUEL")])
  | "parse" ->
      let s = jbytes (jfield req "s") in
      (match jstr (jfield req "kind") with
       | "output" -> sresult_json (parse_output s)
       | "input" -> sresult_json (parse_input s)
       | "sub_timelock" -> sresult_json (parse_sub SubTimeLock s)
       | "sub_multi_sig" -> sresult_json (parse_sub SubMultiSig s)
       | k -> raise (Model_error ("unknown kind " ^ k)))
  | "frame" -> of_bytes (frame (jbytes (jfield req "s")))
  | "unframe" ->
      (match unframe (jbytes (jfield req "w")) with
       | Some (s, rest) -> JObj [("s", of_bytes s); ("rest", of_bytes rest)]
       | None -> JObj [("error", JStr "reader-failed")])
  | "tx_view" ->
      let dec d = (match oracle1 "purchase_decodes" d with [] -> false | _ -> true) in
      let jt = function
        | JClaimCreate -> "claim/create" | JClaimUpdate -> "claim/update" | JSupport -> "support"
        | JData -> "data" | JPurchase -> "purchase" | JPayment -> "payment" in
      of_list (function
        | Some ((t, r), sp) -> JObj [("type", of_option (fun x -> JStr (jt x)) t); ("row_type", of_n r); ("spendable", of_bool sp)]
        | None -> JNull)
        (tx_view dec (SL.map jbytes (jlist (jfield req "scripts"))))
  | "internal" ->
      let dec d = (match oracle1 "purchase_decodes" d with [] -> false | _ -> true) in
      of_bool (internal_at dec (SL.map jbytes (jlist (jfield req "scripts"))) (jnat (jfield req "i"))
                 (jbool (jfield req "my_input")) (jbool (jfield req "my_output")))
  | "generate" ->
      let t = tname_of_string (jstr (jfield req "template")) in
      let vs = match jfield req "values" with
        | JObj l -> SL.map (fun (k, v) -> (field_of_string k, value_of_json v)) l
        | _ -> raise (Model_error "values must be an object") in
      of_option of_bytes (generate_named t vs)
  | _ -> raise (Model_error ("unknown fn " ^ fn)))
