(* C11 driver: appended after c11_model.ml and proto.ml.  Keeps one system (routing table, peer manager, clock). *)
let st_own : n ref = ref N0
let st_rp : bool ref = ref true
let st : sys ref = ref sys_init

let jpeer j = { pid = jn (jfield j "id"); paddr = jn (jfield j "addr"); pport = jn (jfield j "port") }
let jkey j = (jn (jfield j "addr"), jn (jfield j "port"))
let of_peer p = JArr [of_n p.pid; of_n p.paddr; of_n p.pport]
let of_bucket b = JObj [("lo", of_n b.blo); ("hi", of_n b.bhi); ("peers", of_list of_peer b.bpeers)]
let of_table t = of_list of_bucket t
let key_of p = string_of_n p.paddr ^ ":" ^ string_of_n p.pport
let keyset j = let h = Stdlib.Hashtbl.create 16 in
  SL.iter (fun k -> Stdlib.Hashtbl.replace h (jstr k) ()) (jlist j); h
(* probe outcome per contact: "dead" = timeout / error answer, "sendfail" = the local send raised, otherwise it answers *)
let probe_of req =
  let d = keyset (jfield req "dead") in
  let f = match jfield_opt req "sendfail" with Some j -> keyset j | None -> Stdlib.Hashtbl.create 1 in
  fun p -> if Stdlib.Hashtbl.mem f (key_of p) then PLocalFail
           else if Stdlib.Hashtbl.mem d (key_of p) then PDead else PReply
let jenv req =
  let g = keyset (jfield req "good") and s = keyset (jfield req "stale") and f = keyset (jfield req "fresh") in
  { good = (fun p -> Stdlib.Hashtbl.mem g (key_of p));
    lrs = (fun p -> if Stdlib.Hashtbl.mem s (key_of p) then Stale
                    else if Stdlib.Hashtbl.mem f (key_of p) then Fresh else Edge);
    probe = probe_of req }
let of_res r = match r with
  | Ret true -> JStr "True" | Ret false -> JStr "False" | ErrIndex -> JStr "IndexError" | ErrFuel -> JStr "OutOfFuel"
  | ErrProbe -> JStr "OSError"
let out_fields o = match o with
  | OAdd (r, pr) -> [("ret", of_res r); ("probed", of_list of_peer pr)]
  | ORemove ok -> [("ret", JStr (if ok then "None" else "IndexError")); ("probed", JArr [])]
let set_tab t = st := { s_tab = t; s_pm = !st.s_pm; s_now = !st.s_now; s_pending = !st.s_pending }
(* a table operation with an explicitly given environment *)
let do_step o =
  let (t', x) = step !st_rp !st_own !st.s_tab o in
  set_tab t';
  JObj (out_fields x @ [("table", of_table t')])
(* the model's own reading of the peer manager for every contact of the table *)
let facts () =
  let cs = contacts !st.s_tab in
  let e = env_of_pm !st.s_pm !st.s_now (fun _ -> PReply) in
  let sel f = JArr (SL.map (fun p -> JStr (key_of p)) (SL.filter f cs)) in
  [("good", sel (fun p -> e.good p)); ("stale", sel (fun p -> e.lrs p = Stale)); ("fresh", sel (fun p -> e.lrs p = Fresh))]
let do_sys o =
  let fs = facts () in
  let (s', x) = sys_step !st_rp !st_own !st o in
  st := s';
  match x with
  | Some x -> JObj (out_fields x @ [("table", of_table s'.s_tab); ("facts", JObj fs);
                                    ("pending", of_list of_peer s'.s_pending)])
  | None -> JObj [("pending", of_list of_peer s'.s_pending)]
let of_tri g = match g with GTrue -> JStr "True" | GFalse -> JStr "False" | GNone -> JStr "None"

let () = serve (fun fn req ->
  match fn with
  | "reset" -> st_own := jn (jfield req "own"); st_rp := jbool (jfield req "rp"); st := sys_init; of_table !st.s_tab
  | "add" -> do_step (Add (jpeer req, jenv req))
  | "add_noid" -> do_step AddNoId
  | "remove" -> do_step (Remove (jpeer req))
  | "remove_noid" -> do_step RemoveNoId
  | "tick" -> do_sys (STick (jn (jfield req "dt")))
  | "replied" -> do_sys (SReplied (jkey req))
  | "failure" -> do_sys (SFailure (jkey req))
  | "requested" -> do_sys (SRequested (jkey req))
  | "sadd" -> do_sys (SAdd (jpeer req, probe_of req))
  | "sadd_real" -> do_sys (SAddReal (jpeer req, probe_of req, jn (jfield req "wait")))
  | "ping" ->
      let o = match jstr (jfield req "outcome") with "reply" -> PReply | "dead" -> PDead | _ -> PLocalFail in
      do_sys (SPing (jpeer req, o, jn (jfield req "wait")))
  | "report" -> do_sys (SReport (jpeer req))
  | "drain_pick" -> do_sys (SDrainPick (jpeer req, probe_of req, jn (jfield req "wait")))
  | "pm_query" ->
      let k = jkey req in
      JObj [("good", of_tri (triple_is_good !st.s_pm !st.s_now k));
            ("lr", JStr (match lr_of !st.s_pm !st.s_now k with Stale -> "Stale" | Edge -> "Edge" | Fresh -> "Fresh"))]
  | "add_fuel" ->
      let ((r, pr), t') = add_peer !st_rp !st_own (jenv req) (jnat (jfield req "fuel")) !st.s_tab (jpeer req) in
      JObj [("ret", of_res r); ("probed", of_list of_peer pr); ("table", of_table t')]
  | "find_close" ->
      let sender = match jfield_opt req "sender" with Some JNull | None -> None | Some j -> Some (jn j) in
      of_list of_peer (find_close !st_own !st.s_tab (jn (jfield req "key")) (jz (jfield req "count")) sender)
  | "rpc_find_node" ->
      of_list of_peer (rpc_find_node !st_own !st.s_tab (jn (jfield req "key")) (jn (jfield req "requester")))
  | "rpc_find_value" ->
      of_list of_peer (rpc_find_value_contacts !st_own !st.s_tab (jn (jfield req "key")) (jn (jfield req "requester")))
  | "get_peer" ->
      (match get_peer !st_own !st.s_tab (jn (jfield req "id")) with
       | None -> JStr "IndexError"
       | Some None -> JNull
       | Some (Some p) -> of_peer p)
  | "should_split" ->
      of_bool (should_split !st_own (jnat (jfield req "index")) !st.s_tab (jn (jfield req "id")))
  | "table" -> of_table !st.s_tab
  | _ -> raise (Model_error ("unknown fn " ^ fn)))
