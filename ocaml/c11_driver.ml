(* C11 driver: appended after c11_model.ml and proto.ml.  Keeps one routing table as state. *)
let st_own : n ref = ref N0
let st_rp : bool ref = ref true
let st_tab : bucket list ref = ref init

let jpeer j = { pid = jn (jfield j "id"); paddr = jn (jfield j "addr"); pport = jn (jfield j "port") }
let of_peer p = JArr [of_n p.pid; of_n p.paddr; of_n p.pport]
let of_bucket b = JObj [("lo", of_n b.blo); ("hi", of_n b.bhi); ("peers", of_list of_peer b.bpeers)]
let of_table t = of_list of_bucket t
let key_of p = string_of_n p.paddr ^ ":" ^ string_of_n p.pport
let keyset j = let h = Stdlib.Hashtbl.create 16 in
  SL.iter (fun k -> Stdlib.Hashtbl.replace h (jstr k) ()) (jlist j); h
let jenv req =
  let g = keyset (jfield req "good") and s = keyset (jfield req "stale")
  and f = keyset (jfield req "fresh") and d = keyset (jfield req "dead") in
  { good = (fun p -> Stdlib.Hashtbl.mem g (key_of p));
    lrs = (fun p -> if Stdlib.Hashtbl.mem s (key_of p) then Stale
                    else if Stdlib.Hashtbl.mem f (key_of p) then Fresh else Edge);
    probe = (fun p -> not (Stdlib.Hashtbl.mem d (key_of p))) }
let of_res r = match r with
  | Ret true -> JStr "True" | Ret false -> JStr "False" | ErrIndex -> JStr "IndexError" | ErrFuel -> JStr "OutOfFuel"
let of_out o = match o with
  | OAdd (r, pr) -> JObj [("ret", of_res r); ("probed", of_list of_peer pr)]
  | ORemove ok -> JObj [("ret", JStr (if ok then "None" else "IndexError")); ("probed", JArr [])]
let do_step o =
  let (t', x) = step !st_rp !st_own !st_tab o in
  st_tab := t';
  match of_out x with
  | JObj l -> JObj (l @ [("table", of_table t')])
  | j -> j

let () = serve (fun fn req ->
  match fn with
  | "reset" -> st_own := jn (jfield req "own"); st_rp := jbool (jfield req "rp"); st_tab := init; of_table !st_tab
  | "add" -> do_step (Add (jpeer req, jenv req))
  | "add_noid" -> do_step AddNoId
  | "remove" -> do_step (Remove (jpeer req))
  | "remove_noid" -> do_step RemoveNoId
  | "add_fuel" ->
      let ((r, pr), t') = add_peer !st_rp !st_own (jenv req) (jnat (jfield req "fuel")) !st_tab (jpeer req) in
      JObj [("ret", of_res r); ("probed", of_list of_peer pr); ("table", of_table t')]
  | "find_close" ->
      let sender = match jfield_opt req "sender" with Some JNull | None -> None | Some j -> Some (jn j) in
      of_list of_peer (find_close !st_own !st_tab (jn (jfield req "key")) (jz (jfield req "count")) sender)
  | "get_peer" ->
      (match get_peer !st_own !st_tab (jn (jfield req "id")) with
       | None -> JStr "IndexError"
       | Some None -> JNull
       | Some (Some p) -> of_peer p)
  | "should_split" ->
      of_bool (should_split !st_own (jnat (jfield req "index")) !st_tab (jn (jfield req "id")))
  | "table" -> of_table !st_tab
  | _ -> raise (Model_error ("unknown fn " ^ fn)))
