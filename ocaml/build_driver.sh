#!/bin/sh
# usage: build_driver.sh c20    -- extracts coq/Extract/C20.v and builds build/c20_driver
# The extracted model, proto.ml and <id>_driver.ml are concatenated into one compilation unit so
# that the helper code sees the model's own inductive types (no Extract Inductive/Constant of ours).
set -e
id="$1"; ID=$(echo "$id" | tr a-z A-Z)
V=/verif; G=$V/build/gen
mkdir -p "$G"
cd "$G"
timeout 600 coqc -Q $V/coq LV $V/coq/Extract/$ID.v >/dev/null
{ echo 'module BigZ = Z'; cat ${id}_model.ml; echo; cat $V/ocaml/proto.ml; echo; cat $V/ocaml/${id}_driver.ml; } > ${id}_all.ml
rm -f ${id}_model.mli
ocamlfind ocamlopt -w -a -O2 -package zarith -linkpkg ${id}_all.ml -o $V/build/${id}_driver 2>&1 || \
ocamlfind ocamlopt -w -a -package zarith -linkpkg ${id}_all.ml -o $V/build/${id}_driver
