(* C10 driver: appended after c10_model.ml and proto.ml *)
let split c s = SS.split_on_char c s
let sub_from s i = SS.sub s i (SS.length s - i)
let zint s = z_of_string s

(* ---- decoding the oracle answers (see harness/props/c10.py: enc_jres / enc_rres) ---- *)
let dec_avail s = match s.[0] with
  | 'a' -> AvAbsent | 'f' -> AvFalsy | 'o' -> AvOther
  | 's' -> AvSingle (bytes_of_hex (sub_from s 1))
  | _ -> raise (Model_error "avail")
let dec_price s = match s.[0] with
  | 'a' -> PrAbsent | 'y' -> PrAccepted | 'n' -> PrRejected | _ -> raise (Model_error "price")
let dec_blobr s = match s.[0] with
  | 'a' -> BrAbsent | 'e' -> BrError
  | 'i' -> (match split ';' (sub_from s 1) with
      | [h; l] ->
        let h' = if h = "-" then None else Some (bytes_of_hex (sub_from h 1)) in
        let l' = if l = "x" then LOther else LInt (zint l) in
        BrIncoming (h', l')
      | _ -> raise (Model_error "blobr"))
  | _ -> raise (Model_error "blobr")
let dec_jres (a : byte list) : jres =
  let s = string_of_bytes a in
  match split '|' s with
  | ["I"] -> JInvalid | ["N"] -> JNotResp | ["X"] -> JRaise
  | ["R"; av; pr; br] -> JResp { r_avail = dec_avail av; r_price = dec_price pr; r_blob = dec_blobr br }
  | _ -> raise (Model_error ("jres " ^ s))
let dec_rres (a : byte list) : rres =
  let s = string_of_bytes a in
  match split '|' s with
  | ["B"] -> RBadJson | ["X"] -> RRaise | ["E"] -> REmpty
  | ["Q"; ad; av; pr; bl] ->
    let avl = if av = "-" then None
      else Some (SL.map bytes_of_hex (SL.filter (fun x -> x <> "") (split ',' (sub_from av 1)))) in
    let b = if bl = "-" then None else if bl = "b" then Some BqBad else Some (BqHash (bytes_of_hex (sub_from bl 1))) in
    RReq { q_addr = (ad = "1"); q_avail = avl; q_price = (pr = "1"); q_blob = b }
  | _ -> raise (Model_error ("rres " ^ s))

let sha (d : byte list) = oracle1 "sha384hex" d
let jl (d : byte list) = dec_jres (oracle1 "json_loads" d)
let rl (d : byte list) = dec_rres (oracle1 "req_loads" d)

(* ---- encoders ---- *)
let of_lenv = function LInt z -> of_z z | LOther -> JStr "other"
let of_avail = function AvAbsent -> JStr "absent" | AvFalsy -> JStr "falsy" | AvOther -> JStr "other"
  | AvSingle h -> JArr [of_bytes h]
let of_price = function PrAbsent -> JStr "absent" | PrAccepted -> JStr "accepted" | PrRejected -> JStr "rejected"
let of_blobr = function BrAbsent -> JStr "absent" | BrError -> JStr "error"
  | BrIncoming (h, l) -> JArr [of_option of_bytes h; of_lenv l]
let of_resp r = JObj ["avail", of_avail r.r_avail; "price", of_price r.r_price; "blob", of_blobr r.r_blob]
let of_parsed = function PNone -> JStr "none" | PRaise -> JStr "raise"
  | PResp (r, n) -> JObj ["resp", of_resp r; "consumed", of_nat n]
let of_fut = function FutPending -> JStr "pending" | FutResult r -> JObj ["result", of_resp r]
  | FutExc -> JStr "exc" | FutCancelled -> JStr "cancelled"
let of_phase = function PhIdle -> JStr "idle" | PhAwaitResp _ -> JStr "pending" | PhAwaitFin _ -> JStr "pending"
  | PhDone (DlOk n) -> JArr [JStr "ok"; of_z n] | PhDone (DlClosed n) -> JArr [JStr "closed"; of_z n]
  | PhDone DlCancelled -> JStr "cancelled" | PhDone DlOSError -> JStr "oserror"
let of_wfin = function WPending -> JStr "pending" | WResult -> JStr "result" | WBadData -> JStr "baddata"
  | WBadHash -> JStr "badhash" | WCancelled -> JStr "cancelled"
let observe (c : client) = JObj [
  "phase", of_phase c.c_phase; "verified", of_option of_bytes c.c_verified; "wdata", of_bytes c.c_w.w_data;
  "wclosed", of_bool c.c_w.w_closed; "wfin", of_wfin c.c_w.w_fin;
  "open", of_bool c.c_open; "fut", of_fut c.c_fut; "received", of_z c.c_received;
  "len", of_option of_z c.c_len; "buf", of_bytes c.c_buf; "now", of_z c.c_now ]

let dec_event j = match jlist j with
  | [JStr "data"; d] -> EvData (jbytes d)
  | [JStr "late"; d] -> EvLate (jbytes d)
  | [JStr "drain"] -> EvDrain
  | [JStr "adv"; n] -> EvAdvance (jz n)
  | [JStr "lost"] -> EvLost
  | [JStr "cancel"] -> EvCancel
  | _ -> raise (Model_error "event")
let jopt f j = match j with JNull -> None | x -> Some (f x)

let pending c = match c.c_phase with PhAwaitResp _ | PhAwaitFin _ -> true | _ -> false

let of_header h = JObj [
  "incoming", of_option (fun (hh, l) -> JArr [of_bytes hh; of_z l]) h.h_incoming;
  "price", of_bool h.h_price; "avail", of_option (of_list of_bytes) h.h_avail; "addr", of_bool h.h_addr ]
let of_sout = function SHeader h -> JObj ["header", of_header h] | SBlob b -> JObj ["blob", of_bytes b]
  | SClose -> JStr "close" | STaskError -> JStr "taskerror"

let () = serve (fun fn req ->
  match fn with
  | "parse_prefix" -> of_parsed (parse_prefix jl (jbytes (jfield req "msg")))
  | "session" ->
    (* several requests on one connection (request_blob's reuse rule); a final drain before observing *)
    let t = jz (jfield req "T") in
    let c = ref (fresh_client Z0 t) in
    let stop = ref false in
    let outs = SL.map (fun rq ->
      if !stop then JNull else begin
        let hash = jtext (jfield rq "hash") in
        let known = (match jfield rq "known" with JStr "prev" -> (!c).c_len | j -> jopt jz j) in
        (* 'data_prev': bytes the previous request's peer still sends on ITS connection: they reach this protocol only
           when request_blob reuses that connection, otherwise that connection is closed and they are dropped *)
        let reused = (!c).c_open in
        let evs = SL.concat (SL.map (fun j -> match jlist j with
            | [JStr "data_prev"; d] -> if reused then [EvData (jbytes d)] else []
            | _ -> [dec_event j]) (jlist (jfield rq "events"))) in
        c := request hash known !c;
        c := run sha jl !c evs;
        c := drain !c;
        if pending !c then stop := true;
        observe !c end) (jlist (jfield req "requests")) in
    JArr outs
  | "server_run" ->
    let st = SL.map (fun e -> match jlist e with [h; d] -> (jtext h, jbytes d) | _ -> raise (Model_error "store"))
        (jlist (jfield req "store")) in
    let store h = try Some (SL.assoc h st) with Not_found -> None in
    let comp = SL.map jtext (jlist (jfield req "completed")) in
    let completed h = SL.mem h comp in
    let frags = SL.map jbytes (jlist (jfield req "frags")) in
    let (s, outs) = srv_run rl store completed fresh_server frags in
    JObj ["open", of_bool s.s_open; "buf", of_bytes s.s_buf; "outs", of_list of_sout outs]
  | "tserver_trace" ->
    let idle = jz (jfield req "idle") and trans = jz (jfield req "transfer") in
    let evs = SL.map (fun j -> match jlist j with
        | [JStr "start"] -> TvStart | [JStr "done"] -> TvDone | [JStr "other"] -> TvOther
        | [JStr "adv"; n] -> TvAdvance (jz n)
        | _ -> raise (Model_error "tev")) (jlist (jfield req "events")) in
    of_list of_bool (tsrv_trace idle trans (tsrv_fresh idle Z0) evs)
  | _ -> raise (Model_error ("unknown fn " ^ fn)))
