(* C16 driver: appended after c16_model.ml and proto.ml.
   bytes travel as hex, code point strings as JSON arrays of integers. *)

let of_str (s : n list) = JArr (SL.map of_n s)
let jstr_cp j : n list = SL.map jn (jlist j)

let of_env = function
  | Unsigned p -> JObj [("kind", JStr "unsigned"); ("payload", of_bytes p)]
  | Signed (h, s, p) -> JObj [("kind", JStr "signed"); ("hash", of_bytes h); ("sig", of_bytes s); ("payload", of_bytes p)]
let jenv j =
  match jstr (jfield j "kind") with
  | "unsigned" -> Unsigned (jbytes (jfield j "payload"))
  | "signed" -> Signed (jbytes (jfield j "hash"), jbytes (jfield j "sig"), jbytes (jfield j "payload"))
  | k -> raise (Model_error ("bad envelope kind " ^ k))

let of_wres f = function
  | WOk a -> JObj [("ok", f a)]
  | WErr -> JStr "err"
  | WGroup -> JStr "group"

let of_wval = function
  | WVarint v -> [JStr "v"; of_n v]
  | WFix64 b -> [JStr "f64"; of_bytes b]
  | WLen b -> [JStr "b"; of_bytes b]
  | WFix32 b -> [JStr "f32"; of_bytes b]
let of_field (k, v) = JArr (of_n k :: of_wval v)
let jfieldw j =
  match jlist j with
  | [k; t; v] ->
    let k = jn k in
    (match jstr t with
     | "v" -> (k, WVarint (jn v))
     | "f64" -> (k, WFix64 (jbytes v))
     | "b" -> (k, WLen (jbytes v))
     | "f32" -> (k, WFix32 (jbytes v))
     | t -> raise (Model_error ("bad wire kind " ^ t)))
  | _ -> raise (Model_error "bad field")

let rec of_tval = function
  | TVarint v -> [JStr "v"; of_n v]
  | TFix64 b -> [JStr "f64"; of_bytes b]
  | TFix32 b -> [JStr "f32"; of_bytes b]
  | TBytes b -> [JStr "b"; of_bytes b]
  | TMsg fs -> [JStr "m"; JArr (SL.map of_tfield fs)]
and of_tfield (k, v) = JArr (of_n k :: of_tval v)
let rec jtfield j =
  match jlist j with
  | [k; t; v] ->
    let k = jn k in
    (match jstr t with
     | "v" -> (k, TVarint (jn v))
     | "f64" -> (k, TFix64 (jbytes v))
     | "f32" -> (k, TFix32 (jbytes v))
     | "b" -> (k, TBytes (jbytes v))
     | "m" -> (k, TMsg (SL.map jtfield (jlist v)))
     | t -> raise (Model_error ("bad tree kind " ^ t)))
  | _ -> raise (Model_error "bad tree field")
let jtree j = SL.map jtfield (jlist j)

(* schema: [[msgid, [[fno, "v"|"f64"|"f32"|"b"] | [fno, "m", msgid] ...]] ...] *)
let jkind l =
  match l with
  | [t] -> (match jstr t with
      | "v" -> KVarint | "f64" -> KFix64 | "f32" -> KFix32 | "b" -> KBytes
      | t -> raise (Model_error ("bad kind " ^ t)))
  | [t; m] when jstr t = "m" -> KMsg (jn m)
  | _ -> raise (Model_error "bad kind entry")
let jschema j =
  SL.map (fun e -> match jlist e with
      | [m; fl] -> (jn m, SL.map (fun f -> match jlist f with
          | k :: rest -> (jn k, jkind rest)
          | [] -> raise (Model_error "bad schema field")) (jlist fl))
      | _ -> raise (Model_error "bad schema entry")) (jlist j)

let of_modifier = function
  | MNone -> [("claim_id", JNull); ("amount", JNull)]
  | MClaimId h -> [("claim_id", of_str h); ("amount", JNull)]
  | MAmount d -> [("claim_id", JNull); ("amount", of_str d)]
let of_segment g = JObj (("name", of_str g.seg_name) :: of_modifier g.seg_mod)
let of_url = function
  | UStream s -> JObj [("stream", of_segment s); ("channel", JNull)]
  | UChannel c -> JObj [("stream", JNull); ("channel", of_segment c)]
  | UChannelStream (c, s) -> JObj [("stream", of_segment s); ("channel", of_segment c)]
let jsegment j =
  let nm = jstr_cp (jfield j "name") in
  let m = match jfield j "claim_id", jfield j "amount" with
    | JNull, JNull -> MNone
    | JNull, d -> MAmount (jstr_cp d)
    | h, _ -> MClaimId (jstr_cp h) in
  { seg_name = nm; seg_mod = m }
let jurl j =
  match jfield j "stream", jfield j "channel" with
  | JNull, JNull -> raise (Model_error "url without parts")
  | s, JNull -> UStream (jsegment s)
  | JNull, c -> UChannel (jsegment c)
  | s, c -> UChannelStream (jsegment c, jsegment s)

let () = serve (fun fn req ->
  match fn with
  | "env_encode" -> of_bytes (env_encode (jenv (jfield req "env")))
  | "env_decode" ->
    (match env_decode (jbytes (jfield req "d")) with
     | EnvOk e -> of_env e
     | EnvEmpty -> JStr "empty"
     | EnvVersion -> JStr "version")
  | "claim_format" ->
    JStr (match claim_format (jbytes (jfield req "d")) with
        | FmtV2 -> "v2" | FmtJson -> "json" | FmtV1 -> "v1" | FmtEmpty -> "empty")
  | "purchase_encode" -> of_bytes (purchase_encode (jbytes (jfield req "p")))
  | "purchase_decode" -> of_option of_bytes (purchase_decode (jbytes (jfield req "d")))
  | "varint_encode" -> of_bytes (varint_encode (jn (jfield req "n")))
  | "varint_decode" ->
    of_option (fun (v, r) -> JArr [of_n v; of_bytes r]) (varint_decode (jbytes (jfield req "d")))
  | "zigzag_enc" -> of_n (zigzag_enc (jz (jfield req "z")))
  | "zigzag_dec" -> of_z (zigzag_dec (jn (jfield req "n")))
  | "int64_enc" -> of_n (int64_enc (jz (jfield req "z")))
  | "int64_dec" -> of_z (int64_dec (jn (jfield req "n")))
  | "wire_parse" -> of_wres (fun fs -> JArr (SL.map of_field fs)) (wire_parse (jbytes (jfield req "d")))
  | "ser_fields" -> of_bytes (ser_fields (SL.map jfieldw (jlist (jfield req "fields"))))
  | "parse_tree" ->
    of_wres (fun fs -> JArr (SL.map of_tfield fs))
      (parse_tree (jschema (jfield req "schema")) (jnat (jfield req "depth")) (jn (jfield req "m"))
         (jbytes (jfield req "d")))
  | "ser_tree" -> of_bytes (ser_tree (jtree (jfield req "tree")))
  | "tree_ok" ->
    let t = jtree (jfield req "tree") in
    JObj [("ok", of_bool (tfields_ok (jschema (jfield req "schema")) (jn (jfield req "m")) t));
          ("depth", of_nat (fdepth t))]
  (* whole object: envelope, then the message by schema; and back *)
  | "decode_all" ->
    let tree_json = of_wres (fun fs -> JArr (SL.map of_tfield fs)) in
    (match decode_all (jschema (jfield req "schema")) (jnat (jfield req "depth")) (jn (jfield req "m"))
             (jbytes (jfield req "d")) with
     | (EnvOk e, t) -> JObj [("env", of_env e); ("tree", tree_json t)]
     | (EnvEmpty, _) -> JStr "empty"
     | (EnvVersion, _) -> JStr "version")
  | "encode_all" ->
    let sg = (match jfield req "hash", jfield req "sig" with
        | JNull, _ | _, JNull -> None
        | h, s -> Some (jbytes h, jbytes s)) in
    of_bytes (encode_all sg (jtree (jfield req "tree")))
  | "purchase_encode_all" -> of_bytes (purchase_encode_all (jtree (jfield req "tree")))
  | "purchase_decode_all" ->
    of_option (of_wres (fun fs -> JArr (SL.map of_tfield fs)))
      (purchase_decode_all (jschema (jfield req "schema")) (jnat (jfield req "depth")) (jn (jfield req "m"))
         (jbytes (jfield req "d")))
  | "v1_unsigned_payload" -> of_wres of_bytes (v1_unsigned_payload (jbytes (jfield req "d")))
  | "embed" ->
    let c = (match jstr (jfield req "carrier") with
        | "claim_name" -> CarrierClaimName | "update_claim" -> CarrierUpdateClaim
        | "support_data" -> CarrierSupportData | "return_data" -> CarrierReturnData
        | k -> raise (Model_error ("bad carrier " ^ k))) in
    of_option of_bytes (embed c (jbytes (jfield req "name")) (jbytes (jfield req "claim_id"))
                          (jbytes (jfield req "pkh")) (jbytes (jfield req "payload")))
  | "extract_payload" -> of_option of_bytes (extract_payload (jbytes (jfield req "src")))
  | "media_step" ->
    let jo k = (match jfield req k with JNull -> None | v -> Some (jn v)) in
    let old = (match jfield req "old" with
        | JNull -> None
        | o -> (match jlist o with
            | [k; w; h; d] -> Some (jn k, ((jn w, jn h), jn d))
            | _ -> raise (Model_error "bad media state"))) in
    of_option (fun (k, ((w, h), d)) -> JArr [of_n k; of_n w; of_n h; of_n d])
      (media_step old (jo "kind") (jo "w") (jo "h") (jo "d"))
  | "fee_address" -> of_option of_bytes (fee_address (jbytes (jfield req "b")))
  | "fee_address_bytes" ->
    (match fee_address_bytes (jbytes (jfield req "t")) with
     | Ok b -> JObj [("ok", of_bytes b)]
     | Err _ -> JStr "err")
  | "sig_run" ->
    (* ops: ["sign", hash, sig] | ["clear"]; result: state + bytes around the payload *)
    let ops = SL.map (fun o -> match jlist o with
        | [k; h; sg] when jstr k = "sign" -> OpSign (jbytes h, jbytes sg)
        | [k] when jstr k = "clear" -> OpClear
        | _ -> raise (Model_error "bad sig op")) (jlist (jfield req "ops")) in
    let st = sig_run ops in
    JObj [("signature", of_option of_bytes st.st_signature); ("hash", of_option of_bytes st.st_channel_hash);
          ("bytes", of_option of_bytes (sig_to_bytes st (jbytes (jfield req "payload"))))]
  | "claim_view" ->
    let cur = (match jfield req "cur" with JNull -> None | v -> Some (jn v)) in
    let (t, ok) = claim_view cur (jn (jfield req "req")) in
    JObj [("type", of_option of_n t); ("granted", of_bool ok)]
  | "hexlify" -> of_bytes (hexlify (jbytes (jfield req "b")))
  | "unhexlify" -> of_option of_bytes (unhexlify (jbytes (jfield req "s")))
  | "claim_id_of_hash" -> of_bytes (claim_id_of_hash (jbytes (jfield req "h")))
  | "hash_of_claim_id" -> of_option of_bytes (hash_of_claim_id (jbytes (jfield req "s")))
  | "url_parse" -> of_option of_url (url_parse (jstr_cp (jfield req "s")))
  | "url_print" -> of_str (url_print (jurl (jfield req "u")))
  | "canon" -> of_str (canon (jstr_cp (jfield req "s")))
  | "forbidden" -> of_bool (forbidden (jn (jfield req "c")))
  | "hard_forbidden" -> of_bool (hard_forbidden (jn (jfield req "c")))
  | _ -> raise (Model_error ("unknown fn " ^ fn)))
