(* C08, the persisted verdict: the `tx` table row written by Database._transaction_io (INSERT OR REPLACE)
   when Ledger.update_history -> request_synced_transactions -> _sync_and_save_batch saves a synced
   transaction.  What is read back (db.get_transaction: height, position, is_verified) is the row.
   Executable definitions only.  Header reorganisations are NOT part of this model: the code's
   Database.rewind_blockchain is an empty TODO, rows of replaced blocks are only corrected by the next
   history sync of the address (wallet sync convergence is property C09). *)
From Coq Require Import NArith ZArith List Bool.
From Coq.Strings Require Import Byte.
From LV Require Import Lib.Bytes Model.C08 Model.C08_Cache.
Import ListNotations.

Definition rows := list (bytes * centry).     (* txid -> (raw, the proof dict used, height/position/is_verified) *)

Fixpoint row_lookup (k : bytes) (r : rows) : option centry :=
  match r with
  | [] => None
  | (k', v) :: t => if bytes_eqb k k' then Some v else row_lookup k t
  end.

Fixpoint row_replace (k : bytes) (v : centry) (r : rows) : rows :=
  match r with
  | [] => [(k, v)]
  | (k', v') :: t => if bytes_eqb k k' then (k, v) :: t else (k', v') :: row_replace k v t
  end.

Record dstate := { d_headers : list bytes; d_rows : rows }.

Inductive dop :=
| DSync (key raw : bytes) (h : Z) (arg : option merkle_resp) (net : merkle_resp)
    (* the address history lists (txid, h): the transaction is downloaded (never from the cache), a fresh
       Transaction goes through maybe_verify_transaction and the row is REPLACED by its fields *)
| DExtend (newh : list bytes)     (* more headers arrive *)
| DRestart.                       (* the database is a file: rows and headers survive *)

Section Db.
Variable dsha : bytes -> bytes.

Definition dstep (s : dstate) (op : dop) : dstate :=
  match op with
  | DSync key raw h arg net =>
      let r := maybe_verify dsha (d_headers s) (fresh h) raw h arg net in
      match mv_outcome r with
      | RetTx | RetNone =>
          {| d_headers := d_headers s;
             d_rows := row_replace key {| c_raw := raw; c_resp := effective arg net; c_st := mv_state r |} (d_rows s) |}
      | _ => s        (* the exception aborts update_history before anything is saved *)
      end
  | DExtend newh => {| d_headers := d_headers s ++ newh; d_rows := d_rows s |}
  | DRestart => s
  end.

Definition drun (s : dstate) (ops : list dop) : dstate := fold_left dstep ops s.

End Db.
