(* C16 model, part (c): the LBRY URL grammar of lbry/schema/url.py as a parser / printer over Unicode code
   points (list N).  The parser does what re.match(URL_REGEX, s) does, including the order of the
   alternatives and the retry without the optional scheme; Proofs/C16_Url.v shows that the retry never
   succeeds.  Executable definitions only.

   URL_REGEX (as repaired, ending in \Z):
     ^(?P<scheme>lbry://)?
      (?: (?:CLAIM(channel_with_stream,@) / CLAIM(stream_in_channel)) | CLAIM(channel,@) | CLAIM(stream) ) \Z
     CLAIM(x,prefix) = (?P<x_name> prefix [^FORBIDDEN]+ ) (?: [:#](?P<x_claim_id>[0-9a-f]{1,40}) | \$(?P<x_amount_order>[1-9][0-9]STAR ) )?   (STAR = the Kleene star)
     FORBIDDEN = = & # : $ @ % ? ; dquote / \ < > { } | ^ ~ ` [ ]  U+0000-U+0020  U+D800-U+DFFF  U+FFFE-U+FFFF *)
From Coq Require Import NArith PeanoNat List Bool.
Import ListNotations.
Local Open Scope N_scope.

Definition str := list N.

Fixpoint memN (c : N) (l : list N) : bool :=
  match l with [] => false | x :: r => (c =? x) || memN c r end.

(* the punctuation inside the character class:  = & # : $ @ % ? ; dquote / \ < > { } | ^ ~ ` [ ] *)
Definition forbidden_punct : list N :=
  [61; 38; 35; 58; 36; 64; 37; 63; 59; 34; 47; 92; 60; 62; 123; 125; 124; 94; 126; 96; 91; 93].

Definition forbidden (c : N) : bool :=
  memN c forbidden_punct
  || (c <=? 32)
  || ((55296 <=? c) && (c <=? 57343))
  || ((65534 <=? c) && (c <=? 65535)).

Definition name_char (c : N) : bool := negb (forbidden c).

(* forbidden code points that have no role anywhere in the grammar (everything except : # $ / @) *)
Definition structural (c : N) : bool := memN c [58; 35; 36; 47; 64].
Definition hard_forbidden (c : N) : bool := forbidden c && negb (structural c).

Definition is_hex (c : N) : bool := ((48 <=? c) && (c <=? 57)) || ((97 <=? c) && (c <=? 102)).
Definition is_digit (c : N) : bool := (48 <=? c) && (c <=? 57).
Definition is_digit19 (c : N) : bool := (49 <=? c) && (c <=? 57).

(* greedy run: the longest prefix satisfying p *)
Fixpoint span (p : N -> bool) (s : str) : str * str :=
  match s with
  | [] => ([], [])
  | c :: r => if p c then let (a, b) := span p r in (c :: a, b) else ([], s)
  end.

Inductive modifier :=
| MNone
| MClaimId (h : str)          (* the text after ':' or '#' *)
| MAmount (d : str).          (* the digits after '$' (python keeps them as a str) *)

Record segment := { seg_name : str; seg_mod : modifier }.

(* URL(stream, channel): which of the two are present *)
Inductive url :=
| UStream (s : segment)
| UChannel (c : segment)
| UChannelStream (c s : segment).

Definition COLON : N := 58.
Definition HASH : N := 35.
Definition DOLLAR : N := 36.
Definition SLASH : N := 47.
Definition AT : N := 64.
Definition scheme : str := [108; 98; 114; 121; 58; 47; 47].     (* lbry:// *)

(* the optional modifier group.  The group is optional in the regex, but what follows a name must be '/'
   or the end, so a ':' '#' '$' that does not start a well-formed modifier can never be matched by anything
   else: None = the whole match fails. Greedy {1,40} / [0-9]* never profit from giving characters back
   for the same reason. *)
Definition parse_mod (s : str) : option (modifier * str) :=
  match s with
  | [] => Some (MNone, [])
  | c :: r =>
      if (c =? COLON) || (c =? HASH) then
        let (h, r') := span is_hex r in
        if (1 <=? length h)%nat && (length h <=? 40)%nat then Some (MClaimId h, r') else None
      else if c =? DOLLAR then
        match r with
        | d :: r1 => if is_digit19 d then let (ds, r') := span is_digit r1 in Some (MAmount (d :: ds), r')
                     else None
        | [] => None
        end
      else Some (MNone, s)
  end.

(* CLAIM(x, prefix): at_prefix = true for the two channel forms *)
Definition parse_claim (at_prefix : bool) (s : str) : option (segment * str) :=
  let body := if at_prefix then match s with c :: r => if c =? AT then Some r else None | [] => None end
              else Some s in
  match body with
  | None => None
  | Some b =>
      let (nm, r) := span name_char b in
      match nm with
      | [] => None
      | _ :: _ =>
          match parse_mod r with
          | Some (m, r') => Some ({| seg_name := if at_prefix then AT :: nm else nm; seg_mod := m |}, r')
          | None => None
          end
      end
  end.

(* the three alternatives, in the order of the regex; each must reach \Z *)
Definition parse_body (s : str) : option url :=
  let alt1 :=
    match parse_claim true s with
    | Some (c, r) =>
        match r with
        | x :: r1 => if x =? SLASH then
                       match parse_claim false r1 with
                       | Some (st, []) => Some (UChannelStream c st)
                       | _ => None
                       end
                     else None
        | [] => None
        end
    | None => None
    end in
  match alt1 with
  | Some u => Some u
  | None =>
    match parse_claim true s with
    | Some (c, []) => Some (UChannel c)
    | _ =>
      match parse_claim false s with
      | Some (st, []) => Some (UStream st)
      | _ => None
      end
    end
  end.

Fixpoint strip_prefix (p s : str) : option str :=
  match p, s with
  | [], _ => Some s
  | a :: p', b :: s' => if a =? b then strip_prefix p' s' else None
  | _ :: _, [] => None
  end.

(* URL.parse: None = ValueError('Invalid LBRY URL').  (lbry://)? is greedy: first with the scheme consumed,
   and if the rest does not match, once more with nothing consumed. *)
Definition url_parse (s : str) : option url :=
  match strip_prefix scheme s with
  | Some rest => match parse_body rest with
                 | Some u => Some u
                 | None => parse_body s
                 end
  | None => parse_body s
  end.

(* PathSegment.__str__ (claim_id wins over amount_order; a parsed segment never has both) *)
Definition print_segment (g : segment) : str :=
  seg_name g ++ match seg_mod g with
                | MNone => []
                | MClaimId h => COLON :: h
                | MAmount d => DOLLAR :: d
                end.

(* URL.__str__ *)
Definition url_print (u : url) : str :=
  scheme ++ match u with
            | UStream s => print_segment s
            | UChannel c => print_segment c
            | UChannelStream c s => print_segment c ++ SLASH :: print_segment s
            end.

(* ---------- the grammar, stated independently of the parser ---------- *)
Definition mod_wf (m : modifier) : Prop :=
  match m with
  | MNone => True
  | MClaimId h => (1 <= length h <= 40)%nat /\ forallb is_hex h = true
  | MAmount d => match d with
                 | [] => False
                 | d0 :: ds => is_digit19 d0 = true /\ forallb is_digit ds = true
                 end
  end.

Definition stream_wf (g : segment) : Prop :=
  seg_name g <> [] /\ forallb name_char (seg_name g) = true /\ mod_wf (seg_mod g).

Definition channel_wf (g : segment) : Prop :=
  (exists nm, seg_name g = AT :: nm /\ nm <> [] /\ forallb name_char nm = true) /\ mod_wf (seg_mod g).

Definition url_wf (u : url) : Prop :=
  match u with
  | UStream s => stream_wf s
  | UChannel c => channel_wf c
  | UChannelStream c s => channel_wf c /\ stream_wf s
  end.

(* a segment written with a chosen claim-id separator (':' or '#') *)
Definition render_segment (sep : N) (g : segment) : str :=
  seg_name g ++ match seg_mod g with
                | MNone => []
                | MClaimId h => sep :: h
                | MAmount d => DOLLAR :: d
                end.

Definition sep_ok (c : N) : Prop := c = COLON \/ c = HASH.
Definition scheme_opt (p : str) : Prop := p = [] \/ p = scheme.

(* s is a sentence of the grammar and u is its reading *)
Definition in_grammar (s : str) (u : url) : Prop :=
  exists p, scheme_opt p /\
  match u with
  | UStream g => exists sep, sep_ok sep /\ stream_wf g /\ s = p ++ render_segment sep g
  | UChannel c => exists sep, sep_ok sep /\ channel_wf c /\ s = p ++ render_segment sep c
  | UChannelStream c g => exists sep1 sep2, sep_ok sep1 /\ sep_ok sep2 /\ channel_wf c /\ stream_wf g /\
                          s = p ++ render_segment sep1 c ++ SLASH :: render_segment sep2 g
  end.

(* canonical spelling of an accepted string: scheme added when omitted, '#' written as ':' *)
Definition canon (s : str) : str :=
  (match strip_prefix scheme s with Some _ => [] | None => scheme end)
  ++ map (fun c => if c =? HASH then COLON else c) s.
