(* C15 model: what sits on top of Wire/Push.v and Wire/Script.v -- the template names as the
   strings the Python code tests with startswith / endswith, the OutputScript.is_* predicates,
   Output.is_claim / is_support / is_support_data / is_purchase_data, the txo_to_row type class,
   and one classification value per script.  Executable definitions only. *)
From Coq Require Import NArith ZArith List Bool String.
From Coq.Strings Require Import Byte.
From LV Require Import Lib.Bytes Wire.Push Wire.Script.
From LV Require Wire.CompactSize.
Import ListNotations.
Local Open Scope N_scope.

Definition str (s : string) : bytes := list_byte_of_string s.

(* Template.name -- the strings are evaluated to byte lists here so that Coq's [string] type does not
   reach the extracted code *)
Definition tname_str : tname -> bytes :=
  Eval cbv in (fun t =>
     match t with
     | T_no_script => str "no_script"
     | T_pubkey => str "pubkey"
     | T_pubkey_hash => str "pubkey_hash"
     | T_multi_sig => str "multi_sig"
     | T_script_hash_multi_sig => str "script_hash+multi_sig"
     | T_timelock => str "timelock"
     | T_script_hash_timelock => str "script_hash+timelock"
     | T_pay_pubkey_full => str "pay_pubkey_full"
     | T_pay_pubkey_hash => str "pay_pubkey_hash"
     | T_pay_script_hash => str "pay_script_hash"
     | T_pay_segwit => str "pay_script_hash+segwit"
     | T_return_data => str "return_data"
     | T_claim_name_pkh => str "claim_name+pay_pubkey_hash"
     | T_claim_name_sh => str "claim_name+pay_script_hash"
     | T_support_claim_pkh => str "support_claim+pay_pubkey_hash"
     | T_support_claim_sh => str "support_claim+pay_script_hash"
     | T_support_claim_data_pkh => str "support_claim+data+pay_pubkey_hash"
     | T_support_claim_data_sh => str "support_claim+data+pay_script_hash"
     | T_update_claim_pkh => str "update_claim+pay_pubkey_hash"
     | T_update_claim_sh => str "update_claim+pay_script_hash"
     end)%string.

Definition field_str : field -> bytes :=
  Eval cbv in (fun f =>
     match f with
     | F_signature => str "signature"
     | F_pubkey => str "pubkey"
     | F_height => str "height"
     | F_pubkey_hash => str "pubkey_hash"
     | F_script_hash => str "script_hash"
     | F_data => str "data"
     | F_claim_name => str "claim_name"
     | F_claim => str "claim"
     | F_claim_id => str "claim_id"
     | F_support => str "support"
     | F_script => str "script"
     | F_signatures => str "signatures"
     | F_pubkeys => str "pubkeys"
     | F_signatures_count => str "signatures_count"
     | F_pubkeys_count => str "pubkeys_count"
     end)%string.

Definition s_pay_pubkey_full : bytes := Eval cbv in str "pay_pubkey_full"%string.
Definition s_pay_pubkey_hash : bytes := Eval cbv in str "pay_pubkey_hash"%string.
Definition s_pay_script_hash : bytes := Eval cbv in str "pay_script_hash"%string.
Definition s_return_data : bytes := Eval cbv in str "return_data"%string.
Definition s_claim_name_ : bytes := Eval cbv in str "claim_name+"%string.
Definition s_update_claim_ : bytes := Eval cbv in str "update_claim+"%string.
Definition s_support_claim_ : bytes := Eval cbv in str "support_claim+"%string.
Definition s_support_claim_data_ : bytes := Eval cbv in str "support_claim+data+"%string.
Definition s_script_hash_ : bytes := Eval cbv in str "script_hash+"%string.

(* str.startswith / str.endswith *)
Fixpoint starts_with (p s : bytes) : bool :=
  match p, s with
  | [], _ => true
  | a :: p', b :: s' => byte_eqb a b && starts_with p' s'
  | _ :: _, [] => false
  end.
Definition ends_with (p s : bytes) : bool := starts_with (rev p) (rev s).

(* OutputScript.is_* (each is a test on template.name) *)
Definition is_pay_pubkey (t : tname) := ends_with s_pay_pubkey_full (tname_str t).
Definition is_pay_pubkey_hash (t : tname) := ends_with s_pay_pubkey_hash (tname_str t).
Definition is_pay_script_hash (t : tname) := ends_with s_pay_script_hash (tname_str t).
Definition is_return_data (t : tname) := ends_with s_return_data (tname_str t).
Definition is_claim_name (t : tname) := starts_with s_claim_name_ (tname_str t).
Definition is_update_claim (t : tname) := starts_with s_update_claim_ (tname_str t).
Definition is_support_claim (t : tname) := starts_with s_support_claim_ (tname_str t).
Definition is_support_claim_data (t : tname) := starts_with s_support_claim_data_ (tname_str t).
Definition is_claim_involved (t : tname) := is_claim_name t || is_support_claim t || is_update_claim t.
(* InputScript.is_script_hash *)
Definition is_script_hash (t : tname) := starts_with s_script_hash_ (tname_str t).

(* Purchase.has_start_byte: data and data[0] == ord('P') *)
Definition has_start_byte (d : bytes) : bool :=
  match d with b :: _ => N_of_byte b =? 80 | [] => false end.

(* Output.is_purchase_data (for byte-string data) *)
Definition is_purchase_data (t : tname) (vs : values) : bool :=
  is_return_data t &&
  match lookup F_data vs with Some (VBytes d) => has_start_byte d | _ => false end.

(* the flags the harness compares one by one with the Python properties *)
Definition flags (t : tname) (vs : values) : list bool :=
  [is_pay_pubkey t; is_pay_pubkey_hash t; is_pay_script_hash t; is_return_data t;
   is_claim_name t; is_update_claim t; is_support_claim t; is_support_claim_data t;
   is_claim_involved t;
   is_claim_name t || is_update_claim t;       (* Output.is_claim *)
   is_support_claim t;                         (* Output.is_support *)
   is_support_claim_data t;                    (* Output.is_support_data *)
   is_purchase_data t vs].

(* one class per output script *)
Inductive cls :=
| CClaim          (* claim_name+...                     -> txo_to_row: a claim type *)
| CUpdate         (* update_claim+...                   -> a claim type *)
| CSupport        (* support_claim+ without data        -> support *)
| CSupportData    (* support_claim+data+                -> support *)
| CPurchase       (* return_data whose datum starts 'P' -> purchase metadata *)
| CData           (* other return_data *)
| CPayment        (* pay_pubkey_full / pay_pubkey_hash / pay_script_hash / segwit *)
| CEmpty          (* no_script *)
| CNoMatch        (* ValueError: no template, or a partial PUSHDATA2/4 length at the end *)
| CError.         (* out of fuel: model artefact, proved unreachable *)

Definition class_of (r : sresult) : cls :=
  match r with
  | SMatch t vs =>
      if is_claim_name t then CClaim
      else if is_update_claim t then CUpdate
      else if is_support_claim_data t then CSupportData
      else if is_support_claim t then CSupport
      else if is_return_data t then (if is_purchase_data t vs then CPurchase else CData)
      else match t with T_no_script => CEmpty | _ => CPayment end
  | SNoMatch => CNoMatch
  | SFuel => CError
  end.

Definition classify (src : bytes) : cls := class_of (parse_output src).

(* txo_to_row's txo_type column, as a class: 1 = claim type (stream/channel/collection/repost),
   3 = support, 0 = other ("purchase" needs the neighbouring output and is decided in tx_to_row) *)
Definition row_type (c : cls) : N :=
  match c with CClaim | CUpdate => 1 | CSupport | CSupportData => 3 | _ => 0 end.

(* template by name, for generation *)
Definition template_ops (t : tname) : list topcode :=
  snd (match t with
       | T_no_script => NO_SCRIPT
       | T_pubkey => REDEEM_PUBKEY | T_pubkey_hash => REDEEM_PUBKEY_HASH
       | T_multi_sig => MULTI_SIG_SCRIPT | T_script_hash_multi_sig => REDEEM_SCRIPT_HASH_MULTI_SIG
       | T_timelock => TIME_LOCK_SCRIPT | T_script_hash_timelock => REDEEM_SCRIPT_HASH_TIME_LOCK
       | T_pay_pubkey_full => PAY_PUBKEY_FULL | T_pay_pubkey_hash => PAY_PUBKEY_HASH
       | T_pay_script_hash => PAY_SCRIPT_HASH | T_pay_segwit => PAY_SEGWIT | T_return_data => RETURN_DATA
       | T_claim_name_pkh => CLAIM_NAME_PUBKEY | T_claim_name_sh => CLAIM_NAME_SCRIPT
       | T_support_claim_pkh => SUPPORT_CLAIM_PUBKEY | T_support_claim_sh => SUPPORT_CLAIM_SCRIPT
       | T_support_claim_data_pkh => SUPPORT_CLAIM_DATA_PUBKEY
       | T_support_claim_data_sh => SUPPORT_CLAIM_DATA_SCRIPT
       | T_update_claim_pkh => UPDATE_CLAIM_PUBKEY | T_update_claim_sh => UPDATE_CLAIM_SCRIPT
       end).

Definition all_tnames : list tname :=
  [T_no_script; T_pubkey; T_pubkey_hash; T_multi_sig; T_script_hash_multi_sig; T_timelock;
   T_script_hash_timelock; T_pay_pubkey_full; T_pay_pubkey_hash; T_pay_script_hash; T_pay_segwit;
   T_return_data; T_claim_name_pkh; T_claim_name_sh; T_support_claim_pkh; T_support_claim_sh;
   T_support_claim_data_pkh; T_support_claim_data_sh; T_update_claim_pkh; T_update_claim_sh].
Definition all_fields : list field :=
  [F_signature; F_pubkey; F_height; F_pubkey_hash; F_script_hash; F_data; F_claim_name; F_claim;
   F_claim_id; F_support; F_script; F_signatures; F_pubkeys; F_signatures_count; F_pubkeys_count].

(* Script(template=T, values=vs).source *)
Definition generate_named (t : tname) (vs : values) : option bytes := generate (template_ops t) vs.

(* ---------------------------------------------------------------------------------------- *)
(* beyond script.py: where the classification is USED                                        *)
(* ---------------------------------------------------------------------------------------- *)

(* a script as a transaction carries it: compact-size length, then the bytes
   (Input/Output.serialize_to -> write_string, deserialize_from -> read_string; Wire/CompactSize.v) *)
Definition frame (s : bytes) : bytes := LV.Wire.CompactSize.ser_string s.
(* reading it back and parsing it as OutputScript / InputScript; None = the reader fails *)
Definition unframe (wire : bytes) : option (bytes * bytes) :=
  match LV.Wire.CompactSize.read_string wire with
  | LV.Wire.CompactSize.ROk (s, rest) => Some (s, rest)
  | LV.Wire.CompactSize.RErr _ => None
  end.

(* JSONResponseEncoder.encode_output: 'type' (+ 'claim_op') *)
Inductive jtype := JClaimCreate | JClaimUpdate | JSupport | JData | JPurchase | JPayment.

(* [linked]: Database.tx_to_row / get_transactions set txos[0].purchase when output 1 decodes as purchase data *)
Definition json_type (c : cls) (linked : bool) : option jtype :=
  match c with
  | CClaim => Some JClaimCreate
  | CUpdate => Some JClaimUpdate
  | CSupport | CSupportData => Some JSupport
  | CPurchase | CData => Some JData
  | CPayment | CEmpty => Some (if linked then JPurchase else JPayment)
  | CNoMatch | CError => None        (* the script does not parse: the encoder raises *)
  end.

(* txo_to_row's type column with the purchase link taken into account: claim and support first *)
Definition row_type_linked (c : cls) (linked : bool) : N :=
  match row_type c with 0 => if linked then 4 else 0 | r => r end.

(* Ledger.constraint_spending_utxos: txo_type IN (other, purchase) -- what coin selection, get_utxos and
   Account.fund(everything=True) may spend *)
Definition spendable (c : cls) (linked : bool) : bool :=
  let r := row_type_linked c linked in (r =? 0) || (r =? 4).

Section View.
  (* Purchase.from_bytes succeeds on this return_data datum (protobuf decoding is not modelled) *)
  Variable decodable : bytes -> bool.

  (* Output.can_decode_purchase_data *)
  Definition purchase_record (s : bytes) : bool :=
    match parse_output s with
    | SMatch t vs => is_purchase_data t vs &&
                     match lookup F_data vs with Some (VBytes d) => decodable d | _ => false end
    | _ => false
    end.

  Definition linked_at (scripts : list bytes) (i : nat) : bool :=
    match i, scripts with
    | O, _ :: s1 :: _ => purchase_record s1
    | _, _ => false
    end.

  (* what the wallet shows and does for output i of a transaction with these output scripts:
     (daemon 'type', stored txo_type class, may be spent as a coin) *)
  Definition view_at (scripts : list bytes) (i : nat) : option (option jtype * N * bool) :=
    match nth_error scripts i with
    | Some s => let c := classify s in let l := linked_at scripts i in
                Some (json_type c l, row_type_linked c l, spendable c l)
    | None => None
    end.

  (* Database.get_txos: is_internal_transfer = from me, to me, stored type 'other' -- i.e. change *)
  Definition internal_at (scripts : list bytes) (i : nat) (my_input my_output : bool) : bool :=
    match nth_error scripts i with
    | Some s => my_input && my_output && (row_type_linked (classify s) (linked_at scripts i) =? 0)
    | None => false
    end.

  Definition tx_view (scripts : list bytes) : list (option (option jtype * N * bool)) :=
    map (view_at scripts) (seq 0 (List.length scripts)).
End View.
