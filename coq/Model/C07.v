(* C07 model: the header chain.  Mirrors lbry/wallet/header.py (Headers: serialize, deserialize,
   get_next_block_target, validate_header, validate_chunk, connect, _write, repair, open, close,
   ensure_checkpointed_size, get_all_missing_headers, has_header, ensure_chunk_at, fetch_chunk,
   header_hash_to_pow_hash) and lbry/wallet/util.py (ArithUint256: from_compact, compact, bits, low64,
   __mul__, __truediv__).  Executable definitions only.

   Hashes are kept in internal byte order (the code compares hexlify(x[::-1]) strings, a bijection).
   SHA-256, SHA-512 and RIPEMD-160 are Section variables. *)
From Coq Require Import NArith ZArith List Bool.
From Coq.Strings Require Import Byte.
From LV Require Import Lib.Bytes.
Import ListNotations.

Definition HS : nat := 112.          (* Headers.header_size *)
Definition CHUNK : nat := 1000.      (* checkpointed chunk length *)
Definition BATCH : nat := 36.        (* repair() batch_size *)

(* ------------------------------------------------------------------------------------------ *)
(* ArithUint256                                                                               *)
(* ------------------------------------------------------------------------------------------ *)
Local Open Scope N_scope.

(* len(bin(v)[2:]) *)
Definition bin_len (v : N) : N := N.max 1 (N.size v).
(* ArithUint256.bits: the loop returns at its first iteration because the characters '0' and '1' are
   both truthy, i.e. it yields len(bin(v)[2:]) + 1 *)
Definition py_bits (v : N) : N := bin_len v + 1.
Definition low64 (v : N) : N := v mod 2 ^ 64.
Definition csize (v : N) : N := (py_bits v + 7) / 8.

(* _calculate_compact up to the two asserts: (mantissa, size) *)
Definition compact_raw (v : N) : N * N :=
  let size := csize v in
  let c := if size <=? 3 then N.shiftl (low64 v) (8 * (3 - size))
           else low64 (N.shiftr v (8 * (size - 3))) in
  if N.testbit c 23 then (N.shiftr c 8, size + 1) else (c, size).

(* `assert (compact & ~0x007fffff) == 0` and `assert size < 256` *)
Definition compact_asserts (v : N) : bool :=
  let (c, size) := compact_raw v in (c <? 2 ^ 23) && (size <? 256).

Definition compact (v : N) : N :=
  let (c, size) := compact_raw v in N.lor c (N.shiftl size 24).

Definition from_compact (c : N) : N :=
  let size := N.shiftr c 24 in
  let word := N.land c 8388607 in
  if size <=? 3 then N.shiftr word (8 * (3 - size)) else N.shiftl word (8 * (size - 3)).

(* Python's int(a / b) for non-negative ints: a / b is the exact rational rounded to the nearest
   double (53-bit significand, ties to even), int() then drops the fraction.
   e = floor(log2(a/b)); m = round_half_even(a/b * 2^(52-e)); result = floor(m * 2^(e-52)).
   (Exact while -1022 <= e <= 1023, i.e. neither subnormal nor OverflowError; b = 0 is
   ZeroDivisionError in Python and 0 here.) *)
Definition div_round53 (a b : N) : N :=
  if (a =? 0) || (b =? 0) then 0 else
  let d := (Z.of_N (N.size a) - Z.of_N (N.size b))%Z in
  let ge := if (0 <=? d)%Z then N.shiftl b (Z.to_N d) <=? a
            else b <=? N.shiftl a (Z.to_N (- d)) in
  let e := if ge then d else (d - 1)%Z in
  let sh := (52 - e)%Z in
  let num := if (0 <=? sh)%Z then N.shiftl a (Z.to_N sh) else a in
  let den := if (0 <=? sh)%Z then b else N.shiftl b (Z.to_N (- sh)) in
  let q := num / den in
  let r := num mod den in
  let m := if den <? 2 * r then q + 1
           else if 2 * r =? den then (if N.odd q then q + 1 else q)
           else q in
  if (0 <=? sh)%Z then N.shiftr m (Z.to_N sh) else N.shiftl m (Z.to_N (- sh)).

(* ------------------------------------------------------------------------------------------ *)
(* 112-byte header                                                                            *)
(* ------------------------------------------------------------------------------------------ *)
Definition slice (off len : nat) (b : bytes) : bytes := firstn len (skipn off b).

Definition h_version (r : bytes) : N := le_decode (slice 0 4 r).
Definition h_prev (r : bytes) : bytes := slice 4 32 r.
Definition h_merkle (r : bytes) : bytes := slice 36 32 r.
Definition h_claim (r : bytes) : bytes := slice 68 32 r.
Definition h_time (r : bytes) : N := le_decode (slice 100 4 r).
Definition h_bits (r : bytes) : N := le_decode (slice 104 4 r).
Definition h_nonce (r : bytes) : N := le_decode (slice 108 4 r).

(* the dict of Headers.deserialize; the three hashes in display order (reversed), before hexlify *)
Record header := mkHeader {
  version : N; prev_block_hash : bytes; merkle_root : bytes; claim_trie_root : bytes;
  timestamp : N; bits : N; nonce : N }.

(* None = struct.error ('<I' argument out of range) *)
Definition serialize (h : header) : option bytes :=
  if (version h <? 2 ^ 32) && (timestamp h <? 2 ^ 32) && (bits h <? 2 ^ 32) && (nonce h <? 2 ^ 32)
  then Some (le_encode 4 (version h) ++ rev (prev_block_hash h) ++ rev (merkle_root h)
             ++ rev (claim_trie_root h)
             ++ le_encode 4 (timestamp h) ++ le_encode 4 (bits h) ++ le_encode 4 (nonce h))
  else None.

(* None = struct.error (fewer than 112 bytes) *)
Definition deserialize (r : bytes) : option header :=
  if (length r <? HS)%nat then None
  else Some (mkHeader (h_version r) (rev (h_prev r)) (rev (h_merkle r)) (rev (h_claim r))
                      (h_time r) (h_bits r) (h_nonce r)).

(* get_next_block_target; pp / p are the raw headers two and one below the header being judged *)
Definition TIMESPAN : Z := 150.
Definition next_target (max_t : N) (pp p : option bytes) : N :=
  match p with
  | None => max_t
  | Some cur =>
      let prev := match pp with Some x => x | None => cur end in
      let actual := (Z.of_N (h_time cur) - Z.of_N (h_time prev))%Z in
      let modulated := (TIMESPAN + Z.quot (actual - TIMESPAN) 8)%Z in
      let minimum := (TIMESPAN - Z.quot TIMESPAN 8)%Z in
      let maximum := (TIMESPAN + Z.quot TIMESPAN 2)%Z in
      let clamped := Z.max minimum (Z.min modulated maximum) in
      let target := from_compact (h_bits cur) in
      N.min max_t (div_round53 ((target * Z.to_N clamped) mod 2 ^ 256) (Z.to_N TIMESPAN))
  end.

Local Close Scope N_scope.

(* the first k whole headers of a byte string: _iterate_headers *)
Fixpoint chunks (k : nat) (b : bytes) : list bytes :=
  match k with
  | O => []
  | S k' => firstn HS b :: chunks k' (skipn HS b)
  end.

(* Headers._read(height, count) *)
Definition read_n (io : bytes) (height count : nat) : bytes := firstn (HS * count) (skipn (HS * height) io).
Definition read (io : bytes) (height : nat) : bytes := read_n io height 1.

(* BytesIO: seek(off); write(data) -- overwrite in place, zero-fill a gap, never truncate *)
Definition write_at (off : nat) (data io : bytes) : bytes :=
  match data with
  | [] => io
  | _ => firstn off io ++ repeat x00 (off - length io) ++ data ++ skipn (off + length data) io
  end.

Record cfg := mkCfg {
  max_target : N;
  genesis : option bytes;              (* Headers.genesis_hash, internal byte order; None = None *)
  validate_difficulty : bool;
  checkpoints : list (nat * bytes) }.  (* chunk start height -> hash of the 1000-header chunk *)

Record st := mkSt {
  io : bytes;                          (* Headers.io *)
  hsize : nat;                         (* Headers._size *)
  missing : list nat }.                (* known_missing_checkpointed_chunks *)

(* Headers._write *)
Definition do_write (s : st) (height : nat) (data : bytes) : st :=
  mkSt (write_at (HS * height) data (io s))
       (Nat.max (hsize s) ((HS * height + length data) / HS))
       (missing s).

Inductive reason := RGenesis | RPrev | RBits | RPow.
Inductive cres := COk (added : nat) | CInvalid (r : reason) | CIndexError | CAssertion.
Inductive fres := FHas | FStored | FIgnored | FMismatch.

Fixpoint lookup (k : nat) (l : list (nat * bytes)) : option bytes :=
  match l with
  | [] => None
  | (k', v) :: r => if Nat.eqb k k' then Some v else lookup k r
  end.

Fixpoint max_key (l : list (nat * bytes)) : option nat :=
  match l with
  | [] => None
  | (k, _) :: r => match max_key r with None => Some k | Some m => Some (Nat.max k m) end
  end.

Section Chain.
Variable sha256 : bytes -> bytes.
Variable sha512 : bytes -> bytes.
Variable rmd160 : bytes -> bytes.

Definition dsha (x : bytes) : bytes := sha256 (sha256 x).

(* header_hash_to_pow_hash on the raw header hash *)
Definition pow_hash (hh : bytes) : bytes :=
  let h := sha512 hh in
  let half := Nat.div (length h) 2 in
  dsha (rmd160 (firstn half h) ++ rmd160 (skipn half h)).

(* get_proof_of_work: int('0x' + hexlify(pow[::-1]), 16) *)
Definition pow_value (raw : bytes) : N := le_decode (pow_hash (dsha raw)).

(* validate_header for the header x whose predecessors are p (one below) and pp (two below); the proof of work
   is held against the target the header's own bits encode (they were just checked to be the demanded bits) *)
Definition check_header (c : cfg) (pp p : option bytes) (x : bytes) : option reason :=
  match p with
  | None =>
      match genesis c with
      | Some g => if bytes_eqb (dsha x) g then None else Some RGenesis
      | None => None
      end
  | Some pr =>
      if negb (bytes_eqb (h_prev x) (dsha pr)) then Some RPrev
      else if validate_difficulty c then
        let t := next_target (max_target c) pp p in
        if negb (N.eqb (h_bits x) (compact t)) then Some RBits
        else if N.ltb (from_compact (h_bits x)) (pow_value x) then Some RPow
        else None
      else None
  end.

(* the loop of validate_chunk: first failure, if any *)
Fixpoint validate (c : cfg) (pp p : option bytes) (hs : list bytes) : option reason :=
  match hs with
  | [] => None
  | x :: r => match check_header c pp p x with
              | Some e => Some e
              | None => validate c p (Some x) r
              end
  end.

(* the two headers validate_chunk reads below `start` *)
Definition below1 (iob : bytes) (start : nat) : option bytes :=
  match start with O => None | S k => Some (read iob k) end.
Definition below2 (iob : bytes) (start : nat) : option bytes :=
  match start with S (S k) => Some (read iob k) | _ => None end.

(* what connect does with a validated chunk: _write, then io.truncate() at the end of the chunk and
   _size = tell // header_size -- headers stored above a newly connected chunk belong to an abandoned fork *)
Definition connect_write (s : st) (start : nat) (batch : bytes) : st :=
  let w := do_write s start batch in
  let pos := HS * start + length batch in
  mkSt (firstn pos (io w)) (Nat.div pos HS) (missing s).

(* Headers.connect (chunk_getter unset).  chunk_size is 10^16, so the batch is one chunk; InvalidHeader
   always carries the chunk's start height, hence nothing of an invalid batch is written. *)
Definition connect (c : cfg) (s : st) (start : nat) (batch : bytes) : st * cres :=
  if negb (Nat.eqb (Nat.modulo (length batch) HS) 0) then (s, CAssertion)
  else if Nat.ltb (hsize s) start then (s, CIndexError)
  else
    let n := Nat.div (length batch) HS in
    match validate c (below2 (io s) start) (below1 (io s) start) (chunks n batch) with
    | Some e => (s, CInvalid e)
    | None => match batch with
              | [] => (s, COk 0)
              | _ => (connect_write s start batch, COk n)
              end
    end.

(* ---- repair ---- *)
(* heights visited by `for height in range(start, len(self), 36)` reading 36 headers each:
   [start, visited_end) *)
Definition visited_end (start sz whole : nat) : nat :=
  if Nat.ltb start sz
  then Nat.min whole (start + BATCH * (S (Nat.div (sz - 1 - start) BATCH)))
  else start.

(* first height whose prev_block_hash does not match the hash of the header read just before *)
Fixpoint scan (prev : bytes) (h : nat) (hs : list bytes) : option nat :=
  match hs with
  | [] => None
  | x :: r => if bytes_eqb (h_prev x) (dsha prev) then scan x (S h) r else Some h
  end.

Definition repair_genesis_ok (c : cfg) (x : bytes) : bool :=
  match genesis c with Some g => bytes_eqb (dsha x) g | None => false end.

Definition repair_fail (c : cfg) (start : nat) (hs : list bytes) : option nat :=
  match hs with
  | [] => None
  | x :: r => if Nat.eqb start 0 && negb (repair_genesis_ok c x) then Some O
              else scan x (S start) r
  end.

(* the link scan of repair(): cut at one before the first broken link, if any *)
Definition links_fail (c : cfg) (s : st) (start : nat) : option nat :=
  let whole := Nat.div (length (io s)) HS in
  let vend := visited_end start (hsize s) whole in
  repair_fail c start (chunks (vend - start) (skipn (HS * start) (io s))).

Definition repair_links (c : cfg) (s : st) (start : nat) : st :=
  match links_fail c s start with
  | None => s
  | Some k => let io' := firstn (HS * (k - 1)) (io s) in
              mkSt io' (Nat.div (length io') HS) (missing s)
  end.

(* every other header is vouched for by its successor's link; the tip has none: after a scan that found nothing
   repair() validates it like connect() does (validate_chunk of that one header) and drops exactly it on failure *)
Definition tip_check (c : cfg) (s : st) (start : nat) : st :=
  let h := hsize s - 1 in
  if Nat.leb 1 (hsize s) && Nat.leb (Nat.max start 1) h then
    match check_header c (below2 (io s) h) (below1 (io s) h) (read (io s) h) with
    | Some _ => let io' := firstn (HS * h) (io s) in
                mkSt io' (Nat.div (length io') HS) (missing s)
    | None => s
    end
  else s.

Definition repair (c : cfg) (s : st) (start : nat) : st :=
  match links_fail c s start with
  | None => tip_check c s start
  | Some _ => repair_links c s start
  end.

Definition repair_start (c : cfg) : nat :=
  match max_key (checkpoints c) with None => 0 | Some m => m + CHUNK end.

(* open(): load the file, repair *)
Definition load_repair (c : cfg) (file : bytes) : st :=
  let s0 := mkSt file (Nat.div (length file) HS) [] in
  if Nat.eqb (Nat.modulo (length file) HS) 0 then repair c s0 (repair_start c) else repair c s0 0.

Definition ensure_checkpointed_size (c : cfg) (s : st) : st :=
  match max_key (checkpoints c) with
  | None => s
  | Some m => if Nat.leb (hsize s) m then do_write s m (repeat x00 (HS * CHUNK)) else s
  end.

Definition get_all_missing (c : cfg) (s : st) : st :=
  mkSt (io s) (hsize s)
       (missing s ++
        map fst (filter (fun kv => negb (existsb (Nat.eqb (fst kv)) (missing s))
                                   && negb (bytes_eqb (dsha (read_n (io s) (fst kv) CHUNK)) (snd kv)))
                        (checkpoints c))).

Definition hopen (c : cfg) (file : bytes) : st :=
  get_all_missing c (ensure_checkpointed_size c (load_repair c file)).

(* close(): the buffer is written at offset 0 and the file is truncated there -- the file holds exactly
   the chain in memory (`file` is what was on disk before; it does not matter) *)
Definition hclose (s : st) (file : option bytes) : bytes := io s.

(* ---- checkpointed chunks ---- *)
Definition chunk_start (height : nat) : nat := Nat.div height CHUNK * CHUNK.

Definition has_header (c : cfg) (s : st) (height : nat) : bool :=
  match lookup (chunk_start height) (checkpoints c) with
  | Some _ => negb (existsb (Nat.eqb (chunk_start height)) (missing s))
  | None => let h := dsha (read (io s) height) in
            negb (bytes_eqb h (dsha []) || bytes_eqb h (dsha (repeat x00 HS)))
  end.

(* fetch_chunk with the already decompressed chunk the server returned *)
Definition fetch_chunk (c : cfg) (s : st) (height : nat) (chunk : bytes) : st * fres :=
  let start := chunk_start height in
  match lookup start (checkpoints c) with
  | Some e => if bytes_eqb (dsha chunk) e
              then (let s' := do_write s start chunk in
                    mkSt (io s') (hsize s') (filter (fun k => negb (Nat.eqb k start)) (missing s')), FStored)
              else (s, FMismatch)
  | None => (s, FIgnored)
  end.

Definition ensure_chunk_at (c : cfg) (s : st) (height : nat) (chunk : bytes) : st * fres :=
  if has_header c s height then (s, FHas) else fetch_chunk c s height chunk.

(* get_raw_header while a chunk getter is installed (what get() / hash() do): ensure_chunk_at first -- the
   server's answer for the 1000-block range of `height` is `chunk` -- then the bounds test and the read.
   A checkpoint mismatch escapes as the bare Exception of fetch_chunk. *)
Inductive lres := LOk (raw : bytes) | LIndexError | LMismatch.

Definition lookup_header (c : cfg) (s : st) (height : nat) (chunk : bytes) : st * fres * lres :=
  let '(s', r) := ensure_chunk_at c s height chunk in
  match r with
  | FMismatch => (s', r, LMismatch)
  | _ => if Nat.ltb height (hsize s') then (s', r, LOk (read (io s') height)) else (s', r, LIndexError)
  end.

End Chain.
