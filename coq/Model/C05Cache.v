(* C05 cache model: the serialisation caches of a Transaction object (lbry/wallet/transaction.py:
   _raw, _raw_outputs, _raw_sans_segwit, ref._hash/_id) as a small state machine.  A parsed object
   starts with _raw = the given bytes and is_segwit_flag as read; when the flag is set the id is
   hashed from raw_sans_segwit, which has a cache of its own that _reset() must clear too.  Fields may be changed in place
   (Output.sign, set_channel_private_key, script.generate(), txi.script.generate() inside
   Transaction.sign ...) without any invalidation; add_inputs/add_outputs change the fields and
   reset; _reset() clears every cache; reading raw / id fills them.  Executable definitions only;
   fields are assumed in range (the pure [serialize] is used). *)
From Coq Require Import NArith ZArith List Bool.
From Coq.Strings Require Import Byte.
From LV Require Import Lib.Bytes Wire.CompactSize Wire.Tx.
Import ListNotations.
Local Open Scope N_scope.

Section Cache.
  Variable sha256 : bytes -> bytes.

  Record cstate := mk_cstate {
    c_cur : tx;                 (* the fields the object holds now *)
    c_raw : option bytes;       (* Transaction._raw *)
    c_outs : option bytes;      (* Transaction._raw_outputs *)
    c_id : option bytes;        (* TXRefMutable._hash / _id (as the id bytes) *)
    c_seg : bool;               (* Transaction.is_segwit_flag is truthy (set by _deserialize only) *)
    c_sans : option bytes }.    (* Transaction._raw_sans_segwit *)

  Inductive cop :=
  | OEdit (t : tx)              (* fields changed in place: nothing is invalidated *)
  | OAdd (t : tx)               (* add_inputs / add_outputs: fields change, then _reset() *)
  | OReset                      (* Transaction._reset() *)
  | OReadRaw                    (* tx.raw (tx.size, base_size go through it) *)
  | OReadId                     (* tx.id / tx.hash *)
  | OReadSans.                  (* tx.raw_sans_segwit *)

  Definition c_init (t : tx) : cstate := mk_cstate t None None None false None.
  (* Transaction(raw): _raw is the given bytes (witnesses, trailing bytes and all) *)
  Definition c_parsed (t : tx) (raw : bytes) (seg : bool) : cstate :=
    mk_cstate t (Some raw) None None seg None.
  Definition c_reset (s : cstate) : cstate := mk_cstate (c_cur s) None None None (c_seg s) None.
  Definition c_add (s : cstate) (t : tx) : cstate := mk_cstate t None None None (c_seg s) None.

  (* _serialize_outputs: the cached blob if there is one *)
  Definition outs_blob (s : cstate) : bytes :=
    match c_outs s with Some o => o | None => ser_outs (tx_outs (c_cur s)) end.
  (* _serialize() *)
  Definition fresh_raw (s : cstate) : bytes :=
    le_encode 4 (tx_version (c_cur s)) ++ ser_ins (tx_ins (c_cur s)) ++ outs_blob s ++
    le_encode 4 (tx_locktime (c_cur s)).

  Definition read_raw (s : cstate) : bytes * cstate :=
    match c_raw s with
    | Some r => (r, s)
    | None => let r := fresh_raw s in
              (r, mk_cstate (c_cur s) (Some r) (Some (outs_blob s)) (c_id s) (c_seg s) (c_sans s))
    end.

  (* raw_sans_segwit: _serialize(sans_segwit=True) cached in _raw_sans_segwit when the flag is set
     (it fills _raw_outputs as every _serialize does), plain raw otherwise *)
  Definition read_sans (s : cstate) : bytes * cstate :=
    if c_seg s then
      match c_sans s with
      | Some r => (r, s)
      | None => let r := fresh_raw s in
                (r, mk_cstate (c_cur s) (c_raw s) (Some (outs_blob s)) (c_id s) (c_seg s) (Some r))
      end
    else read_raw s.

  Definition read_id (s : cstate) : bytes * cstate :=
    match c_id s with
    | Some i => (i, s)
    | None => let (r, s') := read_sans s in
              let i := rev (sha256 (sha256 r)) in
              (i, mk_cstate (c_cur s') (c_raw s') (c_outs s') (Some i) (c_seg s') (c_sans s'))
    end.

  Definition cstep (s : cstate) (op : cop) : cstate * list bytes :=
    match op with
    | OEdit t => (mk_cstate t (c_raw s) (c_outs s) (c_id s) (c_seg s) (c_sans s), [])
    | OAdd t => (c_add s t, [])
    | OReset => (c_reset s, [])
    | OReadRaw => let (r, s') := read_raw s in (s', [r])
    | OReadId => let (i, s') := read_id s in (s', [i])
    | OReadSans => let (r, s') := read_sans s in (s', [r])
    end.

  (* run a history; returns the final state and everything the reads returned, in order *)
  Fixpoint crun (s : cstate) (ops : list cop) : cstate * list bytes :=
    match ops with
    | [] => (s, [])
    | op :: rest => let (s1, o1) := cstep s op in
                    let (s2, o2) := crun s1 rest in (s2, o1 ++ o2)
    end.

  Definition is_edit (op : cop) : bool := match op with OEdit _ => true | _ => false end.

  (* every cache that is filled holds what the present fields serialise to *)
  Definition coherent (s : cstate) : Prop :=
    (c_raw s = None \/ c_raw s = Some (serialize (c_cur s))) /\
    (c_outs s = None \/ c_outs s = Some (ser_outs (tx_outs (c_cur s)))) /\
    (c_id s = None \/ c_id s = Some (rev (sha256 (sha256 (serialize (c_cur s)))))) /\
    (c_sans s = None \/ c_sans s = Some (serialize (c_cur s))).
End Cache.

(* second sample transaction: [Model.C05.sample_tx] with another locktime (for the refutation) *)
Definition cache_run (sha256 : bytes -> bytes) (t : tx) (ops : list cop) : list bytes :=
  snd (crun sha256 (c_init t) ops).
(* history of a parsed object: starts with _raw = the bytes it was parsed from *)
Definition cache_run_parsed (sha256 : bytes -> bytes) (t : tx) (raw : bytes) (seg : bool) (ops : list cop) : list bytes :=
  snd (crun sha256 (c_parsed t raw seg) ops).
