(* C13 model: wallet secrets.  Mirrors
     lbry/crypto/crypt.py   aes_encrypt / aes_decrypt / better_aes_encrypt / better_aes_decrypt
     lbry/wallet/account.py Account.encrypt / decrypt / _decrypt_seed / _decrypt_private_key_string /
                            to_dict / from_dict (the part that does not need key derivation)
     lbry/wallet/wallet.py  Wallet.lock / unlock / encrypt / decrypt / save / to_dict / is_locked /
                            is_encrypted / pack / unpack, TimestampedPreferences, WalletStorage.write / read
   Executable definitions only.  Library primitives (SHA/AES/scrypt/base64/zlib/UTF-8 validity/JSON string
   escaping/extended-key parsing/word-list membership) are the fields of one record [prims]; every definition is
   parametrised by it inside a Section. *)
From Coq Require Import NArith ZArith List Bool String.
From Coq.Strings Require Import Byte.
From LV Require Import Lib.Bytes Lib.Decimal.
Import ListNotations.
Local Open Scope N_scope.

Definition s (x : string) : bytes := list_byte_of_string x.
(* string constants, evaluated so that the extracted code does not mention Coq strings *)
Definition c_My_Wallet : bytes := Eval compute in s "My Wallet".
Definition c_accounts : bytes := Eval compute in s "accounts".
Definition c_address_generator : bytes := Eval compute in s "address_generator".
Definition c_better_hdr : bytes := Eval compute in s "s:8192:16:1:".
Definition c_certificates : bytes := Eval compute in s "certificates".
Definition c_change : bytes := Eval compute in s "change".
Definition c_colon_sp : bytes := Eval compute in s ": ".
Definition c_comma : bytes := Eval compute in s ",".
Definition c_comma_sp : bytes := Eval compute in s ", ".
Definition c_deterministic_chain : bytes := Eval compute in s "deterministic-chain".
Definition c_dot_tmp_dot : bytes := Eval compute in s ".tmp.".
Definition c_encrypt_on_disk : bytes := Eval compute in s "encrypt-on-disk".
Definition c_encrypted : bytes := Eval compute in s "encrypted".
Definition c_false : bytes := Eval compute in s "false".
Definition c_gap : bytes := Eval compute in s "gap".
Definition c_lbrace : bytes := Eval compute in s "{".
Definition c_lbrace_rbrace : bytes := Eval compute in s "{}".
Definition c_lbrack : bytes := Eval compute in s "[".
Definition c_lbrack_rbrack : bytes := Eval compute in s "[]".
Definition c_ledger : bytes := Eval compute in s "ledger".
Definition c_maximum_uses_per_address : bytes := Eval compute in s "maximum_uses_per_address".
Definition c_modified_on : bytes := Eval compute in s "modified_on".
Definition c_name : bytes := Eval compute in s "name".
Definition c_null : bytes := Eval compute in s "null".
Definition c_preferences : bytes := Eval compute in s "preferences".
Definition c_private_key : bytes := Eval compute in s "private_key".
Definition c_public_key : bytes := Eval compute in s "public_key".
Definition c_rbrace : bytes := Eval compute in s "}".
Definition c_rbrack : bytes := Eval compute in s "]".
Definition c_receiving : bytes := Eval compute in s "receiving".
Definition c_seed : bytes := Eval compute in s "seed".
Definition c_single_address : bytes := Eval compute in s "single-address".
Definition c_true : bytes := Eval compute in s "true".
Definition c_ts : bytes := Eval compute in s "ts".
Definition c_value : bytes := Eval compute in s "value".
Definition c_version : bytes := Eval compute in s "version".
Definition c_newline : bytes := Eval compute in s (String (Ascii.ascii_of_nat 10) EmptyString).

(* ------------------------------------------------------------------------------------------ *)
(* results of primitives                                                                       *)
(* ------------------------------------------------------------------------------------------ *)
Inductive dres := DOk (p : bytes) | DBadPad | DBadLen.
  (* AES-CBC decrypt + PKCS7 unpad: plaintext / ValueError('Invalid padding bytes.') / any other ValueError
     (IV not 16 bytes, data not a multiple of the block length) *)
Inductive xres := XOk (c : bytes) | XValue | XBase58.
  (* from_extended_key_string restricted to private keys: canonical extended-key string of the parsed key /
     ValueError or TypeError / Base58Error (which Account.decrypt does NOT catch) *)
Inductive zres := ZOk (d : bytes) | ZHeader | ZOther.
  (* zlib.decompress: data / zlib.error with one of the three messages unpack maps to InvalidPasswordError /
     any other zlib.error *)

Record prims := mkPrims {
  kdf : bytes -> bytes;                       (* double_sha256 *)
  E : bytes -> bytes -> bytes -> bytes;       (* key iv plaintext -> AES-CBC(PKCS7(plaintext)) *)
  D : bytes -> bytes -> bytes -> dres;        (* key iv ciphertext *)
  b64e : bytes -> bytes;
  b64d : bytes -> option bytes;               (* base64.b64decode (lenient); None = binascii.Error *)
  utf8_ok : bytes -> bool;                    (* bytes.decode() succeeds *)
  addr_of_seed : bytes -> bytes;              (* Account.get_private_key_from_seed(ledger, seed, '').public_key.address *)
  addr_of_pub : bytes -> bytes;               (* from_extended_key_string(ledger, xpub).address *)
  seed_ok : bytes -> bool;                    (* Mnemonic().mnemonic_decode does not raise: only the OLD seed check *)
  xparse : bytes -> xres;
  chan_key : bytes -> N -> bytes;             (* from_extended_key_string(x).child(KeyPath.CHANNEL).child(k).extended_key_string() *)
  jstr : bytes -> bytes;                      (* json.dumps of one str (ensure_ascii) *)
  scrypt : bytes -> bytes -> N -> N -> N -> bytes;   (* passphrase salt n r p *)
  zc : bytes -> bytes;
  zd : bytes -> zres
}.

Inductive exc := EInvalidPassword | EValueError | EBase58 | EAssertion | EZlib.
Inductive res (A : Type) := Ok (a : A) | Err (e : exc).
Arguments Ok {A} a.
Arguments Err {A} e.

(* ------------------------------------------------------------------------------------------ *)
(* JSON values and the two renderings used by the wallet                                       *)
(* ------------------------------------------------------------------------------------------ *)
Inductive jv :=
| JS (x : bytes) | JN (n : Z) | JB (b : bool) | JNull
| JA (l : list jv) | JO (l : list (bytes * jv)).

Fixpoint bytes_ltb (a b : bytes) : bool :=
  match a, b with
  | [], [] => false
  | [], _ :: _ => true
  | _ :: _, [] => false
  | x :: a', y :: b' => if N_of_byte x <? N_of_byte y then true
                        else if N_of_byte y <? N_of_byte x then false else bytes_ltb a' b'
  end.

Fixpoint kv_insert (k : bytes) (v : jv) (l : list (bytes * jv)) : list (bytes * jv) :=
  match l with
  | [] => [(k, v)]
  | (k', v') :: r => if bytes_ltb k' k then (k', v') :: kv_insert k v r
                     else if bytes_ltb k k' then (k, v) :: l
                     else (k', v') :: kv_insert k v r       (* equal keys keep their order (stable) *)
  end.
Definition kv_sort (l : list (bytes * jv)) : list (bytes * jv) :=
  fold_left (fun acc kv => kv_insert (fst kv) (snd kv) acc) l [].

(* what json.loads(json.dumps(v, sort_keys=True)) gives back: every object's keys in sorted order *)
Fixpoint sortkeys (v : jv) : jv :=
  match v with
  | JA l => JA ((fix go (l : list jv) := match l with [] => [] | x :: r => sortkeys x :: go r end) l)
  | JO l => JO (kv_sort ((fix go (l : list (bytes * jv)) :=
                           match l with [] => [] | (k, x) :: r => (k, sortkeys x) :: go r end) l))
  | _ => v
  end.

Definition nlpad (lvl : nat) : bytes := c_newline ++ repeat (byte_of_N 32) (4 * lvl).

Definition jtruthy (v : jv) : bool :=
  match v with
  | JS [] => false | JS _ => true
  | JN n => negb (n =? 0)%Z
  | JB b => b | JNull => false
  | JA [] => false | JA _ => true
  | JO [] => false | JO _ => true
  end.

Fixpoint jget (k : bytes) (l : list (bytes * jv)) : option jv :=
  match l with
  | [] => None
  | (k', v) :: r => if bytes_eqb k k' then Some v else jget k r
  end.

(* dict[k] = v : position kept when the key exists, appended otherwise *)
Fixpoint jset (k : bytes) (v : jv) (l : list (bytes * jv)) : list (bytes * jv) :=
  match l with
  | [] => [(k, v)]
  | (k', v') :: r => if bytes_eqb k k' then (k, v) :: r else (k', v') :: jset k v r
  end.

Section Model.
Variable P : prims.

(* json.dumps(v, indent=4) on a value whose objects are already in the wanted key order *)
Fixpoint rpretty (lvl : nat) (v : jv) {struct v} : bytes :=
  match v with
  | JS x => jstr P x
  | JN n => dec_of_Z n
  | JB true => c_true | JB false => c_false | JNull => c_null
  | JA [] => c_lbrack_rbrack
  | JA (x :: r) =>
      c_lbrack ++ nlpad (S lvl) ++ rpretty (S lvl) x ++
      (fix go (r : list jv) := match r with
                               | [] => []
                               | y :: r' => c_comma ++ nlpad (S lvl) ++ rpretty (S lvl) y ++ go r'
                               end) r ++ nlpad lvl ++ c_rbrack
  | JO [] => c_lbrace_rbrace
  | JO ((k, x) :: r) =>
      c_lbrace ++ nlpad (S lvl) ++ jstr P k ++ c_colon_sp ++ rpretty (S lvl) x ++
      (fix go (r : list (bytes * jv)) := match r with
                               | [] => []
                               | (k', y) :: r' => c_comma ++ nlpad (S lvl) ++ jstr P k' ++ c_colon_sp ++ rpretty (S lvl) y ++ go r'
                               end) r ++ nlpad lvl ++ c_rbrace
  end.

(* json.dumps(v) : separators (', ', ': '), insertion order *)
Fixpoint rcompact (v : jv) {struct v} : bytes :=
  match v with
  | JS x => jstr P x
  | JN n => dec_of_Z n
  | JB true => c_true | JB false => c_false | JNull => c_null
  | JA [] => c_lbrack_rbrack
  | JA (x :: r) =>
      c_lbrack ++ rcompact x ++
      (fix go (r : list jv) := match r with [] => [] | y :: r' => c_comma_sp ++ rcompact y ++ go r' end) r ++ c_rbrack
  | JO [] => c_lbrace_rbrace
  | JO ((k, x) :: r) =>
      c_lbrace ++ jstr P k ++ c_colon_sp ++ rcompact x ++
      (fix go (r : list (bytes * jv)) := match r with
                               | [] => []
                               | (k', y) :: r' => c_comma_sp ++ jstr P k' ++ c_colon_sp ++ rcompact y ++ go r'
                               end) r ++ c_rbrace
  end.

(* WalletStorage.write: json.dumps(json_dict, indent=4, sort_keys=True) *)
Definition render_file (img : jv) : bytes := rpretty 0 (sortkeys img).

(* ------------------------------------------------------------------------------------------ *)
(* crypt.py                                                                                    *)
(* ------------------------------------------------------------------------------------------ *)
Definition aes_encrypt (pw v iv : bytes) : bytes := b64e P (iv ++ E P (kdf P pw) iv v).

Definition aes_decrypt (pw value : bytes) : res (bytes * bytes) :=
  match b64d P value with
  | None => Err EValueError
  | Some data =>
      let iv := firstn 16 data in
      match D P (kdf P pw) iv (skipn 16 data) with
      | DOk p => if utf8_ok P p then Ok (p, iv) else Err EInvalidPassword
      | DBadPad => Err EInvalidPassword
      | DBadLen => Err EValueError
      end
  end.

Definition colon : byte := byte_of_N 58.
Definition better_header : bytes := c_better_hdr.

Definition better_aes_encrypt (pw v iv : bytes) : bytes :=
  b64e P (better_header ++ iv ++ E P (scrypt P pw iv 8192 16 1) iv v).

(* the bytes before the first ':' and, if there is one, the bytes after it *)
Fixpoint take_field (d acc : bytes) : bytes * option bytes :=
  match d with
  | [] => (rev acc, None)
  | b :: r => if byte_eqb b colon then (rev acc, Some r) else take_field r (b :: acc)
  end.

(* bytes.split(b':', maxsplit=k): at most k cuts, the rest is the last field *)
Fixpoint split_colon (k : nat) (d : bytes) : list bytes :=
  match k with
  | O => [d]
  | S k' => match take_field d [] with
            | (f, Some r) => f :: split_colon k' r
            | (f, None) => [f]
            end
  end.

(* int(b'8192'): plain ASCII digits only are modelled (anything else = ValueError) *)
Definition py_int (d : bytes) : option N :=
  if forallb is_digit d then N_of_dec d else None.

Definition better_aes_decrypt (pw value : bytes) : res bytes :=
  match b64d P value with
  | None => Err EValueError
  | Some data =>
      match split_colon 4 data with
      | [_; n; r; p; rest] =>
          let iv := firstn 16 rest in
          match py_int n, py_int r, py_int p with
          | Some n', Some r', Some p' =>
              match D P (scrypt P pw iv n' r' p') iv (skipn 16 rest) with
              | DOk pl => Ok pl
              | DBadPad => Err EInvalidPassword
              | DBadLen => Err EValueError
              end
          | _, _, _ => Err EValueError
          end
      | _ => Err EValueError              (* not enough values to unpack *)
      end
  end.

(* ------------------------------------------------------------------------------------------ *)
(* account.py                                                                                  *)
(* ------------------------------------------------------------------------------------------ *)
Record account := mkAccount {
  a_ledger : bytes;
  a_name : bytes;
  a_seed : bytes;               (* self.seed : the mnemonic, or its base64 ciphertext while encrypted *)
  a_pks : bytes;                (* self.private_key_string *)
  a_priv : option bytes;        (* self.private_key, represented by its extended_key_string() *)
  a_pub : bytes;                (* self.public_key.extended_key_string() *)
  a_encrypted : bool;
  a_iv_seed : option bytes;     (* self.init_vectors.get('seed') *)
  a_iv_priv : option bytes;     (* self.init_vectors.get('private_key') *)
  a_addrgen : jv;               (* address_generator.to_dict(receiving, change) *)
  a_modified : Z;
  a_certs : jv                  (* self.channel_keys : address -> PEM private key, always written as is *)
}.

Definition set_secrets (a : account) seed pks priv enc ivs ivp : account :=
  mkAccount (a_ledger a) (a_name a) seed pks priv (a_pub a) enc ivs ivp (a_addrgen a) (a_modified a) (a_certs a).

Definition zero16 : bytes := repeat (byte_of_N 0) 16.

(* Account.get_init_vector with os.urandom(16) taken from the supply [rnd] *)
Definition get_iv (cur : option bytes) (rnd : list bytes) : bytes * list bytes :=
  match cur with
  | Some iv => (iv, rnd)
  | None => match rnd with r :: rest => (r, rest) | [] => (zero16, []) end
  end.

Definition nonempty (b : bytes) : bool := match b with [] => false | _ => true end.

(* Account.encrypt *)
Definition account_encrypt (pw : bytes) (rnd : list bytes) (a : account) : account * list bytes :=
  let '(seed, ivs, rnd1) :=
    if nonempty (a_seed a)
    then let (iv, rnd1) := get_iv (a_iv_seed a) rnd in (aes_encrypt pw (a_seed a) iv, Some iv, rnd1)
    else (a_seed a, a_iv_seed a, rnd) in
  let '(pks, ivp, rnd2) :=
    match a_priv a with
    | Some x => let (iv, rnd2) := get_iv (a_iv_priv a) rnd1 in (aes_encrypt pw x iv, Some iv, rnd2)
    | None => (a_pks a, a_iv_priv a, rnd1)
    end in
  (set_secrets a seed pks None true ivs ivp, rnd2).

(* Account._decrypt_seed : new value of init_vectors['seed'] and the outcome *)
Definition decrypt_seed (pw : bytes) (a : account) : option bytes * res bytes :=
  if nonempty (a_seed a) then
    match aes_decrypt pw (a_seed a) with
    | Err e => (a_iv_seed a, Err e)
    | Ok (sd, iv) =>
        if nonempty sd then
          (* the decrypted seed must regenerate this account's public key *)
          if bytes_eqb (addr_of_seed P sd) (addr_of_pub P (a_pub a)) then (Some iv, Ok sd) else (Some iv, Err EValueError)
        else (Some iv, Ok [])
    end
  else (a_iv_seed a, Ok []).

(* Account._decrypt_private_key_string *)
Definition decrypt_priv (pw : bytes) (a : account) : option bytes * res (option bytes) :=
  if nonempty (a_pks a) then
    match aes_decrypt pw (a_pks a) with
    | Err e => (a_iv_priv a, Err e)
    | Ok (x, iv) =>
        if nonempty x then
          match xparse P x with
          | XOk c => (Some iv, Ok (Some c))
          | XValue => (Some iv, Err EValueError)
          | XBase58 => (Some iv, Err EBase58)
          end
        else (Some iv, Ok None)
    end
  else (a_iv_priv a, Ok None).

Inductive dout := DTrue | DFalse | DExc (e : exc).

(* Account.decrypt (called on an encrypted account) *)
Definition account_decrypt (pw : bytes) (a : account) : dout * account :=
  let (ivs, rs) := decrypt_seed pw a in
  let a1 := set_secrets a (a_seed a) (a_pks a) (a_priv a) (a_encrypted a) ivs (a_iv_priv a) in
  match rs with
  | Err _ => (DFalse, a1)                       (* except (ValueError, InvalidPasswordError) *)
  | Ok sd =>
      let (ivp, rp) := decrypt_priv pw a1 in
      let a2 := set_secrets a1 (a_seed a1) (a_pks a1) (a_priv a1) (a_encrypted a1) ivs ivp in
      match rp with
      | Err EBase58 => (DExc EBase58, a2)       (* Base58Error is not in the except clause *)
      | Err _ => (DFalse, a2)
      | Ok pk => (DTrue, set_secrets a2 sd [] pk false ivs ivp)
      end
  end.

(* DeterministicChannelKeyManager: the k-th deterministic channel key an account offers (private_key.child(k) of the
   manager).  A function of the account's current private key only: nothing the manager did or saw while the account
   was locked may survive into the unlocked state. *)
Definition channel_view (a : account) (k : N) : option bytes :=
  if a_encrypted a then None else match a_priv a with Some x => Some (chan_key P x k) | None => None end.

(* Account.to_dict(encrypt_password) *)
Definition account_to_dict (pwd : option bytes) (rnd : list bytes) (a : account) : jv * account * list bytes :=
  let pks0 := if negb (a_encrypted a) then match a_priv a with Some x => x | None => a_pks a end else a_pks a in
  (* any password string seals, the empty one included (`encrypt_password is not None`) *)
  let sealing := negb (a_encrypted a) && match pwd with Some _ => true | None => false end in
  let pw := match pwd with Some pw => pw | None => [] end in
  let '(pks, ivp, rnd1) :=
    if sealing && nonempty pks0
    then let (iv, rnd1) := get_iv (a_iv_priv a) rnd in (aes_encrypt pw pks0 iv, Some iv, rnd1)
    else (pks0, a_iv_priv a, rnd) in
  let '(seed, ivs, rnd2) :=
    if sealing && nonempty (a_seed a)
    then let (iv, rnd2) := get_iv (a_iv_seed a) rnd1 in (aes_encrypt pw (a_seed a) iv, Some iv, rnd2)
    else (a_seed a, a_iv_seed a, rnd1) in
  (JO [(c_ledger, JS (a_ledger a)); (c_name, JS (a_name a)); (c_seed, JS seed);
       (c_encrypted, JB (a_encrypted a || match pwd with Some _ => true | None => false end));
       (c_private_key, JS pks); (c_public_key, JS (a_pub a));
       (c_address_generator, a_addrgen a); (c_modified_on, JN (a_modified a));
       (c_certificates, a_certs a)],
   set_secrets a (a_seed a) (a_pks a) (a_priv a) (a_encrypted a) ivs ivp, rnd2).

(* AddressManager.to_dict after HierarchicalDeterministic.from_dict / SingleKey.from_dict of a parsed dict *)
Definition chain_norm (d : option jv) (gap : Z) : jv :=
  match d with
  | Some (JO l) =>
      match jget (c_gap) l, jget (c_maximum_uses_per_address) l with
      | Some g, Some m => JO [(c_gap, g); (c_maximum_uses_per_address, m)]
      | _, _ => JNull
      end
  | _ => JO [(c_gap, JN gap); (c_maximum_uses_per_address, JN 1)]
  end.
Definition addrgen_norm (v : jv) : jv :=
  match v with
  | JO l =>
      match jget (c_name) l with
      | Some (JS nm) =>
          if bytes_eqb nm (c_single_address) then JO [(c_name, JS nm)]
          else JO [(c_name, JS nm); (c_receiving, chain_norm (jget (c_receiving) l) 20);
                   (c_change, chain_norm (jget (c_change) l) 6)]
      | _ => JO [(c_name, JS (c_deterministic_chain)); (c_receiving, chain_norm (jget (c_receiving) l) 20);
                 (c_change, chain_norm (jget (c_change) l) 6)]
      end
  | _ => JNull
  end.

Definition jstr_of (o : option jv) : option bytes := match o with Some (JS x) => Some x | _ => None end.

(* Account.from_dict on a dict produced by to_dict.  For a plaintext dict the real code derives the private key
   from the seed; to_dict wrote that same key into 'private_key', which is what the model reads (a file whose
   'private_key' is not the key of its 'seed' is outside the model).  None = shape not produced by to_dict. *)
Definition account_of_dict (d : jv) : option account :=
  match d with
  | JO l =>
      match jstr_of (jget (c_ledger) l), jstr_of (jget (c_name) l), jstr_of (jget (c_seed) l),
            jget (c_encrypted) l, jstr_of (jget (c_private_key) l), jstr_of (jget (c_public_key) l),
            jget (c_address_generator) l, jget (c_modified_on) l, jget (c_certificates) l with
      | Some ledger, Some name, Some seed, Some (JB enc), Some pks, Some pub, Some ag, Some (JN mo), Some certs =>
          let priv := if enc then Some None
                      else if nonempty pks then match xparse P pks with XOk c => Some (Some c) | _ => None end
                      else Some None in
          match priv with
          | Some pr => Some (mkAccount ledger name seed pks pr pub enc None None (addrgen_norm ag) mo certs)
          | None => None
          end
      | _, _, _, _, _, _, _, _, _ => None
      end
  | _ => None
  end.

(* ------------------------------------------------------------------------------------------ *)
(* wallet.py                                                                                   *)
(* ------------------------------------------------------------------------------------------ *)
Record wallet := mkWallet {
  w_name : bytes;
  w_prefs : list (bytes * jv);           (* TimestampedPreferences.data *)
  w_accounts : list account;
  w_pw : option bytes                    (* encryption_password *)
}.

Definition EOD : bytes := c_encrypt_on_disk.

(* preferences.get(ENCRYPT_ON_DISK, False), as a truth value *)
Definition pref_on (w : wallet) : bool :=
  match jget EOD (w_prefs w) with
  | Some (JO e) => match jget (c_value) e with Some v => jtruthy v | None => false end
  | _ => false
  end.

(* preferences.get(ENCRYPT_ON_DISK) is None : the key is absent or its value is null *)
Definition pref_is_none (w : wallet) : bool :=
  match jget EOD (w_prefs w) with
  | Some (JO e) => match jget c_value e with Some JNull => true | Some _ => false | None => true end
  | Some _ => false
  | None => true
  end.

Definition pref_set (k : bytes) (v : jv) (ts : Z) (w : wallet) : wallet :=
  mkWallet (w_name w) (jset k (JO [(c_value, v); (c_ts, JN ts)]) (w_prefs w)) (w_accounts w) (w_pw w).

Definition is_locked (w : wallet) : bool := existsb a_encrypted (w_accounts w).
Definition is_encrypted (w : wallet) : bool :=
  is_locked w || (pref_on w && match w_pw w with Some _ => true | None => false end).

Inductive uout := UTrue | UFalse | UExc (e : exc).

(* Wallet.unlock: when a later account answers False the accounts decrypted by this call are encrypted again
   (Account.encrypt(password); the init vectors remembered by decrypt are reused, no randomness is drawn).
   An exception escaping from account.decrypt (Base58Error) skips that. *)
Fixpoint unlock_accounts (pw : bytes) (l : list account) : uout * list account :=
  match l with
  | [] => (UTrue, [])
  | a :: r =>
      if a_encrypted a then
        match account_decrypt pw a with
        | (DTrue, a') =>
            let (o, r') := unlock_accounts pw r in
            match o with
            | UFalse => (UFalse, fst (account_encrypt pw [] a') :: r')
            | _ => (o, a' :: r')
            end
        | (DFalse, a') => (UFalse, a' :: r)
        | (DExc e, a') => (UExc e, a' :: r)
        end
      else let (o, r') := unlock_accounts pw r in (o, a :: r')
  end.

Definition unlock (pw : bytes) (w : wallet) : uout * wallet :=
  match is_locked w, w_pw w with
  | false, Some q =>
      (* nothing to decrypt and the wallet already has a password: only that one is accepted, nothing changes *)
      (if bytes_eqb pw q then UTrue else UFalse, w)
  | _, _ =>
      let (o, accs) := unlock_accounts pw (w_accounts w) in
      (o, mkWallet (w_name w) (w_prefs w) accs (match o with UTrue => Some pw | _ => w_pw w end))
  end.

Fixpoint lock_accounts (pw : bytes) (rnd : list bytes) (l : list account) : list account * list bytes :=
  match l with
  | [] => ([], rnd)
  | a :: r =>
      if a_encrypted a then let (r', rnd') := lock_accounts pw rnd r in (a :: r', rnd')
      else let (a', rnd1) := account_encrypt pw rnd a in
           let (r', rnd') := lock_accounts pw rnd1 r in (a' :: r', rnd')
  end.

Definition lock (rnd : list bytes) (w : wallet) : res wallet :=
  match w_pw w with
  | None => Err EAssertion
  | Some pw => Ok (mkWallet (w_name w) (w_prefs w) (fst (lock_accounts pw rnd (w_accounts w))) (w_pw w))
  end.

Fixpoint accounts_to_dict (pwd : option bytes) (rnd : list bytes) (l : list account)
  : list jv * list account * list bytes :=
  match l with
  | [] => ([], [], rnd)
  | a :: r =>
      let '(d, a', rnd1) := account_to_dict pwd rnd a in
      let '(ds, r', rnd2) := accounts_to_dict pwd rnd1 r in
      (d :: ds, a' :: r', rnd2)
  end.

(* Wallet.to_dict(encrypt_password) : the dict, and the wallet with the init vectors it had to create *)
Definition wallet_to_dict (pwd : option bytes) (rnd : list bytes) (w : wallet) : jv * wallet :=
  let '(ds, accs, _) := accounts_to_dict pwd rnd (w_accounts w) in
  (JO [(c_version, JN 1); (c_name, JS (w_name w)); (c_preferences, JO (w_prefs w)); (c_accounts, JA ds)],
   mkWallet (w_name w) (w_prefs w) accs (w_pw w)).

(* Wallet.save up to the call of storage.write: the dict that is written and the wallet afterwards *)
Definition save_dict (ts : Z) (rnd : list bytes) (w : wallet) : jv * wallet :=
  if pref_on w then
    match w_pw w with
    | Some pw => wallet_to_dict (Some pw) rnd w
    | None =>
        if is_locked w then wallet_to_dict None rnd w
        else wallet_to_dict None rnd (pref_set EOD (JB false) ts w)
    end
  else wallet_to_dict None rnd w.

(* Wallet.to_json / pack / unpack *)
Definition to_json (w : wallet) : bytes := rcompact (fst (wallet_to_dict None [] w)).

Definition pack (pw iv : bytes) (w : wallet) : res bytes :=
  if is_locked w then Err EAssertion
  else Ok (better_aes_encrypt pw (zc P (to_json w)) iv).

(* Wallet.unpack up to json.loads *)
Definition unpack (pw data : bytes) : res bytes :=
  match better_aes_decrypt pw data with
  | Err e => Err e
  | Ok z => match zd P z with
            | ZOk d => Ok d
            | ZHeader => Err EInvalidPassword
            | ZOther => Err EZlib
            end
  end.

(* Wallet.merge, the part that turns the incoming sync data into JSON text: `password is None` means the data is plain
   JSON; ANY string -- the empty one included -- means an encrypted payload that goes through unpack *)
Definition merge_payload (pwd : option bytes) (data : bytes) : res bytes :=
  match pwd with
  | None => Ok data
  | Some pw => unpack pw data
  end.

(* Wallet.from_storage on the image of a file *)
Fixpoint accounts_of_dicts (l : list jv) : option (list account) :=
  match l with
  | [] => Some []
  | d :: r => match account_of_dict d, accounts_of_dicts r with
              | Some a, Some r' => Some (a :: r')
              | _, _ => None
              end
  end.

Definition default_wallet : wallet := mkWallet (c_My_Wallet) [] [] None.

Definition wallet_of_dict (img : jv) : option wallet :=
  match sortkeys img with
  | JO l =>
      match jstr_of (jget (c_name) l), jget (c_preferences) l, jget (c_accounts) l with
      | Some name, Some (JO prefs), Some (JA ds) =>
          match accounts_of_dicts ds with
          | Some accs => Some (mkWallet name prefs accs None)
          | None => None
          end
      | _, _, _ => None
      end
  | _ => None
  end.

(* ------------------------------------------------------------------------------------------ *)
(* file system and WalletStorage.write                                                         *)
(* ------------------------------------------------------------------------------------------ *)
Record file := mkFile { f_data : bytes; f_mode : N }.
Definition fs := bytes -> option file.

Definition fs_set (p : bytes) (f : option file) (t : fs) : fs := fun q => if bytes_eqb q p then f else t q.

Inductive fsop :=
| FOpenW (p : bytes)                 (* open(p, 'w') : create (mode 0666 & ~umask) or truncate *)
| FWrite (p : bytes) (d : bytes)     (* f.write(d) ... the bytes reach the file in order *)
| FFlush (p : bytes) | FFsync (p : bytes) | FClose (p : bytes)
| FExists (p : bytes) | FStat (p : bytes)
| FRename (src dst : bytes)
| FRemove (p : bytes)
| FChmod (p : bytes) (m : N).

Definition apply_op (umask : N) (op : fsop) (t : fs) : fs :=
  match op with
  | FOpenW p => fs_set p (Some (mkFile [] (match t p with Some f => f_mode f | None => N.ldiff 438 umask end))) t
  | FWrite p d => match t p with Some f => fs_set p (Some (mkFile (f_data f ++ d) (f_mode f))) t | None => t end
  | FFlush _ | FFsync _ | FClose _ | FExists _ | FStat _ => t
  | FRename a b => match t a with Some f => fs_set a None (fs_set b (Some f) t) | None => t end
  | FRemove p => fs_set p None t
  | FChmod p m => match t p with Some f => fs_set p (Some (mkFile (f_data f) m)) t | None => t end
  end.

Fixpoint run_ops (umask : N) (ops : list fsop) (t : fs) : fs :=
  match ops with [] => t | op :: r => run_ops umask r (apply_op umask op t) end.

Definition temp_path (path : bytes) (pid : N) : bytes := path ++ c_dot_tmp_dot ++ dec_of_N pid.

(* the operations WalletStorage.write performs, in order (POSIX: os.rename succeeds) *)
Definition storage_write (path : bytes) (pid : N) (data : bytes) (t : fs) : list fsop :=
  let tmp := temp_path path pid in
  [FOpenW tmp; FWrite tmp data; FFlush tmp; FFsync tmp; FClose tmp; FExists path] ++
  match t path with
  | Some f => [FStat path; FRename tmp path; FChmod path (f_mode f)]
  | None => [FRename tmp path; FChmod path 384]       (* stat.S_IREAD | stat.S_IWRITE = 0o600 *)
  end.

(* the except branch (os.rename refused, as on Windows when the target exists): remove, then rename *)
Definition storage_write_fallback (path : bytes) (pid : N) (data : bytes) (t : fs) : list fsop :=
  let tmp := temp_path path pid in
  [FOpenW tmp; FWrite tmp data; FFlush tmp; FFsync tmp; FClose tmp; FExists path] ++
  match t path with
  | Some f => [FStat path; FRemove path; FRename tmp path; FChmod path (f_mode f)]
  | None => [FRemove path; FRename tmp path; FChmod path 384]
  end.

(* the process dies: before any operation, after all of them, or inside a write after a prefix of its bytes *)
Inductive crashes (umask : N) : list fsop -> fs -> fs -> Prop :=
| cr_here : forall ops t, crashes umask ops t t
| cr_partial : forall p d1 d2 ops t, crashes umask (FWrite p (d1 ++ d2) :: ops) t (apply_op umask (FWrite p d1) t)
| cr_step : forall op ops t t', crashes umask ops (apply_op umask op t) t' -> crashes umask (op :: ops) t t'.

(* executable crash point: n complete operations, then k bytes of the next one if it is a write *)
Fixpoint crash_at (umask : N) (n k : nat) (ops : list fsop) (t : fs) : fs :=
  match n, ops with
  | O, FWrite p d :: _ => apply_op umask (FWrite p (firstn k d)) t
  | O, _ => t
  | S n', op :: r => crash_at umask n' k r (apply_op umask op t)
  | S _, [] => t
  end.

(* two processes saving the same wallet file: A performs its first k operations, then B starts its own save (its
   operation list is computed from the file system it finds) and dies at crash point (n, kb) -- or completes --, then A
   performs the rest of its operations *)
Definition two_writers (umask : N) (path : bytes) (pidA pidB : N) (dA dB : bytes) (k n kb : nat) (t : fs) : fs :=
  let t1 := run_ops umask (firstn k (storage_write path pidA dA t)) t in
  let t2 := crash_at umask n kb (storage_write path pidB dB t1) t1 in
  (* A's os.path.exists is its operation 5 and its os.stat operation 6: each sees the file system of its own moment *)
  let exists_fs := if Nat.leb k 5 then t2 else t in
  let stat_fs := if Nat.leb k 6 then t2 else t in
  let tmp := temp_path path pidA in
  let opsA := [FOpenW tmp; FWrite tmp dA; FFlush tmp; FFsync tmp; FClose tmp; FExists path] ++
              match exists_fs path with
              | Some _ => [FStat path; FRename tmp path;
                           FChmod path (match stat_fs path with Some f => f_mode f | None => 384 end)]
              | None => [FRename tmp path; FChmod path 384]
              end in
  run_ops umask (skipn k opsA) t2.

(* ------------------------------------------------------------------------------------------ *)
(* the wallet process as a state machine over a file system                                    *)
(* ------------------------------------------------------------------------------------------ *)
Record mstate := mkState {
  m_w : wallet;
  m_fs : fs;
  m_img : option jv          (* the dict last handed to a completed (or completed-enough) storage.write *)
}.

Inductive mop :=
| MEncrypt (pw : bytes) (ts : Z) (rnd : list bytes) (pid : N)      (* Wallet.encrypt(password) *)
| MDecrypt (ts : Z) (rnd : list bytes) (pid : N)                   (* Wallet.decrypt() *)
| MLock (rnd : list bytes)
| MUnlock (pw : bytes)
| MSave (ts : Z) (rnd : list bytes) (pid : N)
| MSaveCrash (ts : Z) (rnd : list bytes) (pid : N) (n k : nat)     (* Wallet.save(), process killed, restart *)
| MReload                                                          (* Wallet.from_storage(storage) *)
| MAdd (a : account)
| MSetPref (k : bytes) (v : jv) (ts : Z)
| MAccEncrypt (i : nat) (pw : bytes) (rnd : list bytes)            (* accounts[i].encrypt(pw) *)
| MAccDecrypt (i : nat) (pw : bytes)                               (* accounts[i].decrypt(pw) *)
| MSetCipher (i : nat) (seed pks : bytes)                          (* overwrite the stored ciphertexts *)
| MTouchChannel (i : nat)
| MStart (ts : Z) (rnd : list bytes) (pid : N).
    (* daemon start-up, WalletManager.from_lbrynet_config: load the default wallet from its file; a wallet whose accounts
       are stored encrypted but whose file predates the encrypt-on-disk preference gets the preference switched on (and
       is saved), so that later saves of the unlocked wallet stay encrypted *)   (* accounts[i].deterministic_channel_keys: private_key, ensure_cache_primed(), lookup *)

Inductive mout := OTrue | OFalse | OExc (e : exc) | OBadShape.

Section Machine.
Variable path : bytes.
Variable umask : N.

Definition do_save (ts : Z) (rnd : list bytes) (pid : N) (st : mstate) : mstate :=
  let (img, w') := save_dict ts rnd (m_w st) in
  mkState w' (run_ops umask (storage_write path pid (render_file img) (m_fs st)) (m_fs st)) (Some img).

Definition reload (img : option jv) : option wallet :=
  match img with
  | None => Some default_wallet
  | Some j => wallet_of_dict j
  end.

Fixpoint upd_nth (i : nat) (f : account -> account) (l : list account) : list account :=
  match i, l with
  | _, [] => []
  | O, a :: r => f a :: r
  | S i', a :: r => a :: upd_nth i' f r
  end.

Definition with_accounts (w : wallet) (accs : list account) : wallet :=
  mkWallet (w_name w) (w_prefs w) accs (w_pw w).

Definition step (op : mop) (st : mstate) : mout * mstate :=
  let w := m_w st in
  match op with
  | MEncrypt pw ts rnd pid =>
      if is_locked w then (OExc EAssertion, st)
      else if nonempty pw then
        let w1 := pref_set EOD (JB true) ts (mkWallet (w_name w) (w_prefs w) (w_accounts w) (Some pw)) in
        (OTrue, do_save ts rnd pid (mkState w1 (m_fs st) (m_img st)))
      else (OExc EAssertion, st)
  | MDecrypt ts rnd pid =>
      if is_locked w then (OExc EAssertion, st)
      else (OTrue, do_save ts rnd pid (mkState (pref_set EOD (JB false) ts w) (m_fs st) (m_img st)))
  | MLock rnd =>
      match lock rnd w with
      | Ok w' => (OTrue, mkState w' (m_fs st) (m_img st))
      | Err e => (OExc e, st)
      end
  | MUnlock pw =>
      let (o, w') := unlock pw w in
      (match o with UTrue => OTrue | UFalse => OFalse | UExc e => OExc e end, mkState w' (m_fs st) (m_img st))
  | MSave ts rnd pid => (OTrue, do_save ts rnd pid st)
  | MSaveCrash ts rnd pid n k =>
      let (img, _) := save_dict ts rnd w in
      let ops := storage_write path pid (render_file img) (m_fs st) in
      let t' := crash_at umask n k ops (m_fs st) in
      (* the rename is the operation that replaces the wallet file *)
      let renamed := Nat.ltb (match m_fs st path with Some _ => 7 | None => 6 end) n in
      let img' := if renamed then Some img else m_img st in
      match reload img' with
      | Some w' => (OTrue, mkState w' t' img')
      | None => (OBadShape, st)
      end
  | MReload =>
      match reload (m_img st) with
      | Some w' => (OTrue, mkState w' (m_fs st) (m_img st))
      | None => (OBadShape, st)
      end
  | MAdd a => (OTrue, mkState (with_accounts w (w_accounts w ++ [a])) (m_fs st) (m_img st))
  | MSetPref k v ts => (OTrue, mkState (pref_set k v ts w) (m_fs st) (m_img st))
  | MAccEncrypt i pw rnd =>
      match nth_error (w_accounts w) i with
      | Some a => if a_encrypted a then (OExc EAssertion, st)
                  else (OTrue, mkState (with_accounts w (upd_nth i (fun a => fst (account_encrypt pw rnd a)) (w_accounts w)))
                                       (m_fs st) (m_img st))
      | None => (OBadShape, st)
      end
  | MAccDecrypt i pw =>
      match nth_error (w_accounts w) i with
      | Some a => if a_encrypted a then
                    let (o, _) := account_decrypt pw a in
                    (match o with DTrue => OTrue | DFalse => OFalse | DExc e => OExc e end,
                     mkState (with_accounts w (upd_nth i (fun a => snd (account_decrypt pw a)) (w_accounts w)))
                             (m_fs st) (m_img st))
                  else (OExc EAssertion, st)
      | None => (OBadShape, st)
      end
  | MStart ts rnd pid =>
      match reload (m_img st) with
      | Some w0 =>
          match w_accounts w0 with
          | [] => (OBadShape, st)             (* an empty wallet gets a freshly generated account: not modelled *)
          | _ :: _ =>
              if is_locked w0 && pref_is_none w0
              then (OTrue, do_save ts rnd pid (mkState (pref_set EOD (JB true) ts w0) (m_fs st) (m_img st)))
              else (OTrue, mkState w0 (m_fs st) (m_img st))
          end
      | None => (OBadShape, st)
      end
  | MTouchChannel i =>                      (* reading the channel key manager changes nothing observable *)
      match nth_error (w_accounts w) i with Some _ => (OTrue, st) | None => (OBadShape, st) end
  | MSetCipher i seed pks =>
      (OTrue, mkState (with_accounts w (upd_nth i (fun a => set_secrets a seed pks (a_priv a) (a_encrypted a)
                                                              (a_iv_seed a) (a_iv_priv a)) (w_accounts w)))
                      (m_fs st) (m_img st))
  end.

Fixpoint run (ops : list mop) (st : mstate) : mstate :=
  match ops with [] => st | op :: r => run r (snd (step op st)) end.

End Machine.
End Model.
