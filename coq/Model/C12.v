(* C12 model: components of the DHT network property.  Executable definitions only.
   A  data store          lbry/dht/protocol/data_store.py  DictDataStore
   B  findValue paging    lbry/dht/protocol/protocol.py    KademliaRPC.find_value  (server side)
                          lbry/dht/protocol/iterative_find.py IterativeValueFinder.send_probe (client page loop)
   C  compact addresses   lbry/dht/serialization/datagram.py decode_compact_address + lbry/dht/peer.py KademliaPeer
   D  finder bookkeeping  lbry/dht/protocol/iterative_find.py IterativeFinder / IterativeNodeFinder / IterativeValueFinder
*)
From Coq Require Import NArith ZArith List Bool Arith.
From Coq.Strings Require Import Byte.
From LV Require Import Lib.Bytes.
Import ListNotations.

Definition K : nat := 8.
Definition ALPHA : nat := 5.
Definition EXPIRY : Z := 86400.
Definition MAX_VALUE_PAGES : nat := 4 * K.   (* iterative_find.py *)

(* ------------------------------------------------------------------------------------------ *)
(* generic list-as-set helpers over a boolean equality                                         *)
(* ------------------------------------------------------------------------------------------ *)
Section SetOps.
  Context {A : Type}.
  Variable eqb : A -> A -> bool.
  Definition mem (x : A) (l : list A) : bool := existsb (eqb x) l.
  Definition add_set (x : A) (l : list A) : list A := if mem x l then l else l ++ [x].
  Definition union_set (l items : list A) : list A := fold_left (fun a x => add_set x a) items l.
  Definition remove_set (x : A) (l : list A) : list A := filter (fun y => negb (eqb x y)) l.
End SetOps.

Definition memN := mem N.eqb.
Definition addN := add_set N.eqb.
Definition removeN := remove_set N.eqb.

Definition is_nil {A} (l : list A) : bool := match l with [] => true | _ => false end.

(* ------------------------------------------------------------------------------------------ *)
(* A. data store: blob key -> [(peer, time stored)], both named by numbers                      *)
(* ------------------------------------------------------------------------------------------ *)
Definition entries := list (N * Z).
Definition store := list (N * entries).

(* add_peer_to_blob, existing key: replace the timestamp in place, else append *)
Fixpoint ent_set (es : entries) (p : N) (now : Z) : entries :=
  match es with
  | [] => [(p, now)]
  | (q, ts) :: r => if N.eqb q p then (q, now) :: r else (q, ts) :: ent_set r p now
  end.

Fixpoint ds_add (s : store) (k p : N) (now : Z) : store :=
  match s with
  | [] => [(k, [(p, now)])]
  | (k', es) :: r => if N.eqb k' k then (k', ent_set es p now) :: r else (k', es) :: ds_add r k p now
  end.

Fixpoint ds_find (s : store) (k : N) : option entries :=
  match s with
  | [] => None
  | (k', es) :: r => if N.eqb k' k then Some es else ds_find r k
  end.

Definition ds_has (s : store) (k : N) : bool := match ds_find s k with Some _ => true | None => false end.

(* filter_expired_peers: ts + DATA_EXPIRATION > now; filter_bad_and_expired_peers: peer_is_good is not False *)
Definition visible (now : Z) (bad : N -> bool) (e : N * Z) : bool :=
  (now <? snd e + EXPIRY)%Z && negb (bad (fst e)).

Definition ds_get (s : store) (k : N) (now : Z) (bad : N -> bool) : list N :=
  match ds_find s k with
  | None => []
  | Some es => map fst (filter (visible now bad) es)
  end.

(* removed_expired_peers: drop when ts + DATA_EXPIRATION < now or the peer is known bad; drop empty keys *)
Definition doomed (now : Z) (bad : N -> bool) (e : N * Z) : bool :=
  (snd e + EXPIRY <? now)%Z || bad (fst e).

Definition ds_expire (s : store) (now : Z) (bad : N -> bool) : store :=
  filter (fun ke => negb (is_nil (snd ke)))
         (map (fun ke => (fst ke, filter (fun e => negb (doomed now bad e)) (snd ke))) s).

(* get_storing_contacts (a set: first occurrences) *)
Definition ds_contacts (s : store) : list N :=
  fold_left (fun acc ke => fold_left (fun a e => addN (fst e) a) (snd ke) acc) s [].

Inductive dop :=
| DAdd (k p : N) (now : Z)
| DExpire (now : Z) (bad : list N).

Definition bad_of (l : list N) : N -> bool := fun p => memN p l.

Definition ds_step (s : store) (o : dop) : store :=
  match o with
  | DAdd k p now => ds_add s k p now
  | DExpire now bad => ds_expire s now (bad_of bad)
  end.

Definition ds_run (ops : list dop) : store := fold_left ds_step ops [].

(* ------------------------------------------------------------------------------------------ *)
(* B. paging                                                                                   *)
(* ------------------------------------------------------------------------------------------ *)
(* response[PAGE_KEY] = (len(peers) + K - 1) // K   (0 when there are no peers) *)
Definition pages_announced (n : nat) : nat := (n + K - 1) / K.
(* the formula before commit bd444d0, kept for the _refuted lemmas *)
Definition pages_announced_old (n : nat) : nat := if Nat.eqb n 0 then 0 else n / (K + 1) + 1.
(* the client asks for page index p+1 only while p < min(pages, MAX_VALUE_PAGES); None = the uncapped
   loop before commit fac7223, kept for the _refuted lemmas *)
Definition page_limit (cap : option nat) (pages : nat) : nat :=
  match cap with Some c => Nat.min pages c | None => pages end.
Definition real_cap : option nat := Some MAX_VALUE_PAGES.

(* peers[page*K : page*K+K]; the key is absent ( = [] ) when page*K >= len(peers) *)
Definition serve_page {A} (l : list A) (p : nat) : list A := firstn K (skipn (p * K) l).

Section Paging.
  Context {A : Type}.
  Variable eqb : A -> A -> bool.

  Record pstate := { pg : nat; disc : list A }.

  (* the part of IterativeValueFinder.send_probe after decoding, for one peer:
     new state, and whether the peer is taken out of `contacted` to be probed for the next page *)
  Definition page_step (cap : option nat) (st : pstate) (items : list A) (pages : nat) : pstate * bool :=
    if is_nil items then (st, false) else
    let d' := union_set eqb (disc st) items in
    if Nat.eqb (length d') (length (disc st) + length items)
    then if (K <=? length items) && (pg st <? page_limit cap pages)
         then ({| pg := S (pg st); disc := d' |}, true)
         else ({| pg := pg st; disc := d' |}, false)
    else ({| pg := pg st; disc := d' |}, false).

  (* check_result_ready of the value finder: yield the peers not seen before, in order *)
  Definition yield_new (seen items : list A) : list A * list A :=
    fold_left (fun sa x => if mem eqb x (fst sa) then sa else (fst sa ++ [x], snd sa ++ [x])) items (seen, []).

  (* one storing node walked by the client until it stops asking; srv page = (items, pages) *)
  Fixpoint walk (cap : option nat) (fuel : nat) (srv : nat -> list A * nat) (st : pstate) (acc : list A)
           (asked : list nat)
    : list A * list nat * bool :=
    match fuel with
    | O => (acc, asked, false)
    | S f =>
        let '(items, pages) := srv (pg st) in
        let '(st', again) := page_step cap st items pages in
        let acc' := fst (yield_new acc items) in
        let asked' := asked ++ [pg st] in
        if again then walk cap f srv st' acc' asked' else (acc', asked', true)
    end.

  (* a storing node holding the (already shuffled) list l, announcing pf (length l) pages *)
  Definition honest_with (pf : nat -> nat) (l : list A) : nat -> list A * nat :=
    fun p => (serve_page l p, pf (length l)).
  Definition honest := honest_with pages_announced.

  Definition delivered_with (cap : option nat) (pf : nat -> nat) (l : list A) : list A :=
    fst (fst (walk cap (S (S (length l))) (honest_with pf l) {| pg := 0; disc := [] |} [] [])).
  (* the repaired code, and the code before bd444d0 / fac7223 *)
  Definition delivered := delivered_with real_cap pages_announced.
  Definition delivered_old := delivered_with None pages_announced_old.
End Paging.

Definition good_count_old (n : nat) : bool := n / 9 + n mod 9 <=? 16.

(* ------------------------------------------------------------------------------------------ *)
(* C. compact addresses: 4 bytes ip, 2 bytes port (big endian), 48 bytes node id                 *)
(* ------------------------------------------------------------------------------------------ *)
Local Open Scope N_scope.

(* lbry.utils.is_valid_public_ipv4 on the dotted form of four bytes (CPython 3.12 ipaddress tables) *)
Definition public_ip (a b c d : N) : bool :=
  negb ( (a =? 0)                                   (* 0.0.0.0/8 (unspecified, "this network") *)
      || (a =? 10)                                  (* 10/8 *)
      || (a =? 127)                                 (* loopback *)
      || ((a =? 169) && (b =? 254))                 (* link local *)
      || ((a =? 172) && (16 <=? b) && (b <=? 31))   (* 172.16/12 *)
      || ((a =? 192) && (b =? 0) && (c =? 0) && (d <=? 7))                    (* 192.0.0.0/29 *)
      || ((a =? 192) && (b =? 0) && (c =? 0) && ((d =? 170) || (d =? 171)))   (* 192.0.0.170/31 *)
      || ((a =? 192) && (b =? 0) && (c =? 2))       (* 192.0.2.0/24 *)
      || ((a =? 192) && (b =? 168))                 (* 192.168/16 *)
      || ((a =? 198) && ((b =? 18) || (b =? 19)))   (* 198.18/15 *)
      || ((a =? 198) && (b =? 51) && (c =? 100))    (* 198.51.100/24 *)
      || ((a =? 203) && (b =? 0) && (c =? 113))     (* 203.0.113/24 *)
      || (224 <=? a)                                (* multicast 224/4, reserved 240/4, broadcast *)
      || ((a =? 100) && (64 <=? b) && (b <=? 127))  (* carrier grade NAT 100.64/10 *)
      || ((a =? 192) && (b =? 88) && (c =? 99)) ).  (* 6to4 relay 192.88.99/24 *)

Inductive dres := DCrash | DInvalid | DOk.

Definition nthN (bs : bytes) (i : nat) : N := match nth_error bs i with Some b => N_of_byte b | None => 0 end.

(* decode_tcp_peer_from_compact_address: IndexError below 4 bytes; ValueError for port 0, id length <> 48,
   tcp port < 1024, non-public address *)
Definition decode_compact (bs : bytes) : dres :=
  if (length bs <? 4)%nat then DCrash else
  let port := be_decode (firstn 2 (skipn 4 bs)) in
  if (port =? 0) then DInvalid
  else if negb (Nat.eqb (length (skipn 6 bs)) 48) then DInvalid
  else if (port <? 1024) then DInvalid
  else if negb (public_ip (nthN bs 0) (nthN bs 1) (nthN bs 2) (nthN bs 3)) then DInvalid
  else DOk.

Definition valid_compact (bs : bytes) : bool := match decode_compact bs with DOk => true | _ => false end.

(* KademliaPeer equality ignores the tcp port: identity = ip ++ node id *)
Definition ident (bs : bytes) : bytes := firstn 4 bs ++ skipn 6 bs.
Definition eqc (a b : bytes) : bool := bytes_eqb (ident a) (ident b).

(* ------------------------------------------------------------------------------------------ *)
(* D. finder bookkeeping as a transition system                                                *)
(* ------------------------------------------------------------------------------------------ *)
Record peer := { pid : N; pdist : N; has_id : bool; self_id : bool; self_addr : bool }.

Inductive fkind := KNode | KValue.

(* fp_stalepop = true: the done-callback before the fix removes whatever entry running_probes holds for the peer,
   kept for the _refuted lemma; false: a finished task only removes its OWN entry *)
Record fparams := { fp_kind : fkind; fp_key_is_self : bool; fp_maxres : nat; fp_cap : option nat; fp_stalepop : bool }.

Record fstate := {
  f_active : list peer;            (* OrderedDict sorted by distance *)
  f_contacted : list N;
  f_running : list N;              (* running_probes keys *)
  f_on : bool;                     (* self.running *)
  f_yielded : list N;              (* node finder: yielded_peers *)
  f_blob : list bytes;             (* value finder: blob_peers, by first-seen compact address *)
  f_pages : list (N * nat);        (* peer_pages *)
  f_disc : list (N * list bytes);  (* discovered_peers *)
  f_sched : nat;                   (* ghost: probes ever scheduled *)
  f_seeds : nat;                   (* ghost: id-less shortlist entries probed by the constructor *)
  f_task : list (N * nat);         (* running_probes values: which probe task (numbered by f_sched) owns the entry *)
  f_pending : list (N * nat)       (* ghost: probe tasks whose result has not been processed yet *)
}.

Definition f_init : fstate :=
  {| f_active := []; f_contacted := []; f_running := []; f_on := false; f_yielded := []; f_blob := [];
     f_pages := []; f_disc := []; f_sched := 0; f_seeds := 0; f_task := []; f_pending := [] |}.

Inductive vitem := VB (bs : bytes) | VJunk.

Inductive fout :=
| OSched (p : N)
| OYield (ps : list N)
| OVYield (cs : list bytes)
| OFinish.

Inductive fev :=
| EInit (shortlist : list peer)
| EStart (good : list N)
| EDone (p : N) (tid : nat) (good : list N)
| EFail (p : N)
| ECrash (p : N)
| ENotConnected (p : N)
| ENodeReply (p : peer) (selfbad : bool) (contacts : list (peer * bool)) (checked found_key : bool) (good : list N)
| EValueReply (p : peer) (selfbad : bool) (raw : list vitem) (pages : nat) (contacts : list (peer * bool))
              (checked : bool)
| EClose.

Definition in_active (p : N) (l : list peer) : bool := existsb (fun q => pid q =? p) l.

(* OrderedDict(sorted(items, key=distance)) after appending p: stable, so p goes after equal distances *)
Fixpoint ins_active (p : peer) (l : list peer) : list peer :=
  match l with
  | [] => [p]
  | q :: r => if pdist p <? pdist q then p :: l else q :: ins_active p r
  end.

Definition set_active (st : fstate) (a : list peer) : fstate :=
  {| f_active := a; f_contacted := f_contacted st; f_running := f_running st; f_on := f_on st;
     f_yielded := f_yielded st; f_blob := f_blob st; f_pages := f_pages st; f_disc := f_disc st;
     f_sched := f_sched st; f_seeds := f_seeds st; f_task := f_task st; f_pending := f_pending st |}.

(* _add_active *)
Definition add_active (st : fstate) (p : peer) (force bad : bool) : fstate :=
  if negb force && bad then st
  else if memN (pid p) (f_contacted st) then st
  else if negb (in_active (pid p) (f_active st)) && has_id p && negb (self_id p)
       then set_active st (ins_active p (f_active st))
       else st.

(* _reset_closest *)
Definition reset_closest (st : fstate) (p : N) : fstate :=
  set_active st (filter (fun q => negb (pid q =? p)) (f_active st)).

Fixpoint assoc_nat (k : N) (l : list (N * nat)) : nat :=
  match l with [] => O | (k', v) :: r => if k' =? k then v else assoc_nat k r end.
Fixpoint assoc_set_nat (k : N) (v : nat) (l : list (N * nat)) : list (N * nat) :=
  match l with [] => [(k, v)] | (k', v') :: r => if k' =? k then (k', v) :: r else (k', v') :: assoc_set_nat k v r end.
Fixpoint assoc_opt (k : N) (l : list (N * nat)) : option nat :=
  match l with [] => None | (k', v) :: r => if k' =? k then Some v else assoc_opt k r end.
Definition assoc_del (k : N) (l : list (N * nat)) : list (N * nat) := filter (fun kv => negb (fst kv =? k)) l.

(* _schedule_probe *)
Definition schedule (st : fstate) (p : N) (seed : bool) : fstate :=
  {| f_active := f_active st; f_contacted := addN p (f_contacted st); f_running := addN p (f_running st);
     f_on := f_on st; f_yielded := f_yielded st; f_blob := f_blob st; f_pages := f_pages st;
     f_disc := f_disc st; f_sched := S (f_sched st); f_seeds := if seed then S (f_seeds st) else f_seeds st;
     f_task := assoc_set_nat p (f_sched st) (f_task st); f_pending := assoc_set_nat p (f_sched st) (f_pending st) |}.

(* the loop of _search_round over active.keys() *)
Fixpoint round_loop (l : list peer) (idx : nat) (st : fstate) (added : nat) (outs : list fout)
  : fstate * nat * list fout :=
  match l with
  | [] => (st, added, outs)
  | p :: r =>
      if memN (pid p) (f_contacted st) then round_loop r (S idx) st added outs
      else if (ALPHA <=? length (f_running st))%nat then (st, added, outs)
      else if (K + length (f_running st) <? idx)%nat then (st, added, outs)
      else if self_id p then round_loop r (S idx) st added outs
      else if self_addr p then round_loop r (S idx) st added outs
      else round_loop r (S idx) (schedule st (pid p) false) (S added) (outs ++ [OSched (pid p)])
  end.

(* IterativeNodeFinder.put_result(self.active.keys(), finish) *)
Definition put_result (prm : fparams) (st : fstate) (good : list N) (finish : bool) : fstate * list fout :=
  let cands := filter (fun p => negb (memN (pid p) (f_yielded st)) && negb (self_id p) && memN (pid p) good)
                      (f_active st) in
  let to_yield := map pid (firstn (Nat.max K (fp_maxres prm)) cands) in
  let st' := if is_nil to_yield then st else
    {| f_active := f_active st; f_contacted := f_contacted st; f_running := f_running st; f_on := f_on st;
       f_yielded := f_yielded st ++ to_yield; f_blob := f_blob st; f_pages := f_pages st; f_disc := f_disc st;
       f_sched := f_sched st; f_seeds := f_seeds st; f_task := f_task st; f_pending := f_pending st |} in
  (st', (if is_nil to_yield then [] else [OYield to_yield]) ++ (if finish then [OFinish] else [])).

(* search_exhausted *)
Definition exhausted (prm : fparams) (st : fstate) (good : list N) : fstate * list fout :=
  match fp_kind prm with
  | KNode => put_result prm st good true
  | KValue => (st, [OFinish])
  end.

Definition search_round (prm : fparams) (st : fstate) (good : list N) : fstate * list fout :=
  let '(st', added, outs) := round_loop (f_active st) 0 st 0 [] in
  if Nat.eqb added 0 && is_nil (f_running st')
  then let '(st'', o2) := exhausted prm st' good in (st'', outs ++ o2)
  else (st', outs).

Definition set_on_running (st : fstate) (on : bool) (r : list N) : fstate :=
  {| f_active := f_active st; f_contacted := f_contacted st; f_running := r; f_on := on;
     f_yielded := f_yielded st; f_blob := f_blob st; f_pages := f_pages st; f_disc := f_disc st;
     f_sched := f_sched st; f_seeds := f_seeds st; f_task := f_task st; f_pending := f_pending st |}.

(* _aclose *)
Definition set_tasks (st : fstate) (t pd : list (N * nat)) : fstate :=
  {| f_active := f_active st; f_contacted := f_contacted st; f_running := f_running st; f_on := f_on st;
     f_yielded := f_yielded st; f_blob := f_blob st; f_pages := f_pages st; f_disc := f_disc st;
     f_sched := f_sched st; f_seeds := f_seeds st; f_task := t; f_pending := pd |}.

(* _aclose: every probe task is cancelled *)
Definition aclose (st : fstate) : fstate * list fout := (set_tasks (set_on_running st false []) [] [], [OFinish]).

Definition add_contacts (st : fstate) (cs : list (peer * bool)) : fstate :=
  fold_left (fun s cb => add_active s (fst cb) false (snd cb)) cs st.

Fixpoint assoc_bl (k : N) (l : list (N * list bytes)) : list bytes :=
  match l with [] => [] | (k', v) :: r => if k' =? k then v else assoc_bl k r end.
Fixpoint assoc_set_bl (k : N) (v : list bytes) (l : list (N * list bytes)) : list (N * list bytes) :=
  match l with [] => [(k, v)] | (k', v') :: r => if k' =? k then (k', v) :: r else (k', v') :: assoc_set_bl k v r end.

(* the decode loop of IterativeValueFinder.send_probe: first junk / short item crashes, first invalid one
   discards the whole reply *)
Fixpoint scan_values (raw : list vitem) (acc : list bytes) : dres * list bytes :=
  match raw with
  | [] => (DOk, acc)
  | VJunk :: _ => (DCrash, [])
  | VB bs :: r => match decode_compact bs with
                  | DCrash => (DCrash, [])
                  | DInvalid => (DInvalid, [])
                  | DOk => scan_values r (acc ++ [bs])
                  end
  end.

Definition set_paging (st : fstate) (contacted : list N) (pages : list (N * nat)) (d : list (N * list bytes)) : fstate :=
  {| f_active := f_active st; f_contacted := contacted; f_running := f_running st; f_on := f_on st;
     f_yielded := f_yielded st; f_blob := f_blob st; f_pages := pages; f_disc := d;
     f_sched := f_sched st; f_seeds := f_seeds st; f_task := f_task st; f_pending := f_pending st |}.

Definition set_blob (st : fstate) (b : list bytes) : fstate :=
  {| f_active := f_active st; f_contacted := f_contacted st; f_running := f_running st; f_on := f_on st;
     f_yielded := f_yielded st; f_blob := b; f_pages := f_pages st; f_disc := f_disc st;
     f_sched := f_sched st; f_seeds := f_seeds st; f_task := f_task st; f_pending := f_pending st |}.

(* result tag: 0 ok, 1 reply discarded (invalid address), 2 the probe task dies with an uncaught exception *)
(* done-callback of probe task `tid` of peer p: it removes the peer's running_probes entry if that entry is its own *)
Definition done_state (prm : fparams) (st : fstate) (p : N) (tid : nat) : fstate :=
  let own := match assoc_opt p (f_task st) with Some t => Nat.eqb t tid | None => false end in
  if own || fp_stalepop prm
  then set_tasks (set_on_running st (f_on st) (removeN p (f_running st))) (assoc_del p (f_task st)) (f_pending st)
  else st.

Definition fstep_core (prm : fparams) (st : fstate) (ev : fev) : fstate * list fout * N :=
  match ev with
  | EInit sl =>
      let '(st', outs) := fold_left (fun so p =>
          if has_id p then (add_active (fst so) p true false, snd so)
          else (schedule (fst so) (pid p) true, snd so ++ [OSched (pid p)])) sl (st, []) in
      (st', outs, 0)
  | EStart good =>
      let '(st', outs) := search_round prm (set_on_running st true (f_running st)) good in (st', outs, 0)
  | EDone p tid good =>
      let st1 := done_state prm st p tid in
      if f_on st then let '(st', outs) := search_round prm st1 good in (st', outs, 0) else (st1, [], 0)
  | EFail p => (reset_closest st p, [], 0)
  | ECrash _ => (st, [], 2)
  | ENotConnected _ => let '(st', outs) := aclose st in (st', outs, 0)
  | EClose => let '(st', outs) := aclose st in (st', outs, 0)
  | ENodeReply p selfbad contacts checked found_key good =>
      let st1 := add_contacts (add_active st p false selfbad) contacts in
      if checked then
        if found_key && negb (fp_key_is_self prm)
        then let '(st', outs) := put_result prm st1 good true in (st', outs, 0)
        else (st1, [], 0)
      else (st1, [], 2)
  | EValueReply p selfbad raw pages contacts checked =>
      match (if is_nil raw then (DOk, []) else scan_values raw []) with
      | (DCrash, _) => (st, [], 2)
      | (verdict, items) =>
          let found := negb (is_nil items) in
          (* paging *)
          let st1 :=
            if found then
              let cur := {| pg := assoc_nat (pid p) (f_pages st); disc := assoc_bl (pid p) (f_disc st) |} in
              let '(nxt, again) := page_step eqc (fp_cap prm) cur items pages in
              set_paging st (if again then removeN (pid p) (f_contacted st) else f_contacted st)
                         (if again then assoc_set_nat (pid p) (pg nxt) (f_pages st) else f_pages st)
                         (assoc_set_bl (pid p) (disc nxt) (f_disc st))
            else st in
          let st2 := add_contacts (add_active st1 p false selfbad) contacts in
          let tag := match verdict with DInvalid => 1 | _ => 0 end in
          if checked then
            if found then
              let '(seen, fresh) := yield_new eqc (f_blob st2) items in
              (set_blob st2 seen, (if is_nil fresh then [] else [OVYield fresh]), tag)
            else (st2, [], tag)
          else (st2, [], 2)
      end
  end.

(* the result of a probe has been processed: it is no longer pending *)
Definition settle_pending (st : fstate) (ev : fev) : fstate :=
  match ev with
  | EFail p | ECrash p | ENotConnected p => set_tasks st (f_task st) (assoc_del p (f_pending st))
  | ENodeReply p _ _ _ _ _ | EValueReply p _ _ _ _ _ => set_tasks st (f_task st) (assoc_del (pid p) (f_pending st))
  | _ => st
  end.

Definition fstep (prm : fparams) (st : fstate) (ev : fev) : fstate * list fout * N :=
  let '(st', outs, tag) := fstep_core prm st ev in (settle_pending st' ev, outs, tag).

(* the done-callback of a task runs after the task's result has been processed *)
Definition ev_wf (st : fstate) (ev : fev) : Prop :=
  match ev with EDone p tid _ => assoc_opt p (f_pending st) <> Some tid | _ => True end.

Fixpoint frun (prm : fparams) (st : fstate) (evs : list fev) : fstate * list (list fout * N) :=
  match evs with
  | [] => (st, [])
  | e :: r => let '(st', outs, tag) := fstep prm st e in
              let '(stf, rest) := frun prm st' r in (stf, (outs, tag) :: rest)
  end.

(* ghost quantities used by the theorems *)
Definition peers_of_contacts (cs : list (peer * bool)) : list N := map (fun cb => pid (fst cb)) cs.
Definition mentioned_ev (ev : fev) : list N :=
  match ev with
  | EInit sl => map pid sl
  | ENodeReply p _ cs _ _ _ => pid p :: peers_of_contacts cs
  | EValueReply p _ _ _ cs _ => pid p :: peers_of_contacts cs
  | _ => []
  end.
Definition mentioned (evs : list fev) : list N := flat_map mentioned_ev evs.
Definition final_state (prm : fparams) (evs : list fev) : fstate := fst (frun prm f_init evs).
Definition total_pages (st : fstate) : nat := fold_right (fun kv a => (snd kv + a)%nat) O (f_pages st).

(* ------------------------------------------------------------------------------------------ *)
(* E. the production value lookup (Node._peers_for_value_producer) and the size of a findValue  *)
(*    reply (KademliaProtocol._send refuses datagrams above MSG_SIZE_LIMIT)                     *)
(* ------------------------------------------------------------------------------------------ *)
(* blob peers decoded from findValue replies carry only a TCP port; the UDP port to ping is guessed:
   the same port, or for the <=0.48.0 default range 3333..3399 the matching 4444.. port *)
Definition guess_udp (tcp : N) : N :=
  if (3332 <? tcp) && (tcp <? 3400) then tcp - 3333 + 4444 else tcp.

Inductive pact := ASkip | APut | APing (udp : N).

(* what the producer does with one peer of a result: is_self = same address and tcp port as this node,
   good = peer_is_good (Some true / Some false / None), udp = the peer's udp port when known *)
Definition producer_action (is_self : bool) (good : option bool) (udp : option N) (tcp : N) : pact :=
  if is_self then ASkip else
  match good with
  | Some true => APut
  | Some false => ASkip
  | None => APing (match udp with Some u => if u =? 0 then guess_udp tcp else u | None => guess_udp tcp end)
  end.

(* port layouts the guess supports: one port for both protocols (outside the legacy range), or a legacy
   instance tcp 3333+i / udp 4444+i *)
Definition port_layout_supported (udp tcp : N) : Prop :=
  (udp = tcp /\ ~ (3333 <= tcp <= 3399)) \/ (3333 <= tcp <= 3399 /\ udp = tcp + 1111).

Local Open Scope nat_scope.
Definition MSG_SIZE_LIMIT : nat := 1400.

Definition ndigits (n : N) : nat :=
  if (n <? 10)%N then 1 else if (n <? 100)%N then 2 else if (n <? 1000)%N then 3 else if (n <? 10000)%N then 4
  else if (n <? 100000)%N then 5 else if (n <? 1000000)%N then 6 else 7.   (* 7 = "10^6 or more": outside the model's range *)

(* bencode sizes: i<digits>e, <len>:<bytes>, l..e, d..e *)
Definition sz_int (n : N) : nat := 2 + ndigits n.
Definition sz_bytes (len : nat) : nat := ndigits (N.of_nat len) + 1 + len.
(* a contact triple [node id (48 bytes), dotted quad (text), udp port] *)
Definition sz_triple (c : nat * N) : nat := 2 + sz_bytes 48 + sz_bytes (fst c) + sz_int (snd c).
Definition sum_nat (l : list nat) : nat := fold_right Nat.add O l.

(* the response datagram {0: 1, 1: rpc id, 2: node id, 3: result} of KademliaRPC.find_value:
   contacts = Some [(length of the dotted quad, port)] on page 0, compacts = Some c when the page holds c peers *)
Definition find_value_reply_size (contacts : option (list (nat * N))) (compacts : option nat) (pages : N) : nat :=
  let result :=
    2 + (sz_bytes 5 + sz_bytes 48)                                    (* token *)
      + match contacts with Some cs => sz_bytes 8 + (2 + sum_nat (map sz_triple cs)) | None => O end
      + (sz_bytes 15 + sz_int 1)                                      (* protocolVersion *)
      + match compacts with Some c => sz_bytes 48 + (2 + c * sz_bytes 54) | None => O end
      + (sz_bytes 1 + sz_int pages) in                                (* p *)
  2 + (sz_int 0 + sz_int 1) + (sz_int 1 + sz_bytes 20) + (sz_int 2 + sz_bytes 48) + (sz_int 3 + result).

(* KademliaRPC.store: the announced tcp port must be one a peer address can carry (same range as KademliaPeer) *)
Definition store_port_ok (port : N) : bool := ((1024 <=? port) && (port <=? 65535))%N.
Definition mk_compact_addr (ip : bytes) (port : N) (id : bytes) : bytes := ip ++ be_encode 2 port ++ id.

(* PingQueue.enqueue_maybe_ping: contact -> time of its verification ping; a later request never postpones it *)
Definition pq := list (N * Z).
Fixpoint pq_get (q : pq) (p : N) : option Z :=
  match q with [] => None | (k, t) :: r => if (k =? p)%N then Some t else pq_get r p end.
Fixpoint pq_enqueue (q : pq) (p : N) (at_ : Z) : pq :=
  match q with
  | [] => [(p, at_)]
  | (k, t) :: r => if (k =? p)%N then (k, if (at_ <? t)%Z then at_ else t) :: r else (k, t) :: pq_enqueue r p at_
  end.
(* PingQueue._process: the first contact (in insertion order) whose time has come *)
Fixpoint pq_pop_due (q : pq) (now : Z) : option N * pq :=
  match q with
  | [] => (None, [])
  | (k, t) :: r => if (t <=? now)%Z then (Some k, r) else let '(o, r') := pq_pop_due r now in (o, (k, t) :: r')
  end.
