(* C16 model, part (a): the Signable envelope of lbry/schema/base.py (to_bytes / from_bytes) over an opaque
   payload, the format dispatch of Claim.from_bytes (claim.py) and the Purchase start byte (purchase.py).
   Executable definitions only. *)
From Coq Require Import NArith List Bool.
From Coq.Strings Require Import Byte.
From LV Require Import Lib.Bytes.
Import ListNotations.

(* a Signable as seen on the wire: is_signed <-> signature is not None *)
Inductive envelope :=
| Unsigned (payload : bytes)
| Signed (channel_hash signature payload : bytes).

(* from_bytes outcome: EnvEmpty = DecodeError('Empty payload.') (an IndexError on data[0] before ee15672);
   EnvVersion = DecodeError('Could not determine message format version.') *)
Inductive env_result :=
| EnvOk (e : envelope)
| EnvEmpty
| EnvVersion.

(* Signable.to_bytes: [0] ++ payload   |   [1] ++ signing_channel_hash ++ signature ++ payload *)
Definition env_encode (e : envelope) : bytes :=
  match e with
  | Unsigned p => x00 :: p
  | Signed h s p => x01 :: h ++ s ++ p
  end.

(* Signable.from_bytes: data[1:21], data[21:85], data[85:] -- python slices never fail, so a short
   signed envelope yields short fields and an empty payload *)
Definition env_decode (d : bytes) : env_result :=
  match d with
  | [] => EnvEmpty
  | b :: r =>
      if byte_eqb b x00 then EnvOk (Unsigned r)
      else if byte_eqb b x01 then EnvOk (Signed (firstn 20 r) (firstn 64 (skipn 20 r)) (skipn 84 r))
      else EnvVersion
  end.

Definition env_wf (e : envelope) : Prop :=
  match e with
  | Unsigned _ => True
  | Signed h s _ => length h = 20%nat /\ length s = 64%nat
  end.

Definition env_payload (e : envelope) : bytes :=
  match e with Unsigned p => p | Signed _ _ p => p end.

(* Claim.from_bytes: which decoder ends up handling the data, decided by the first byte alone:
   0/1 -> current format (a protobuf failure is re-raised), '{' -> old JSON schema, anything else -> v1
   protobuf.  FmtEmpty = DecodeError('Empty payload.'). *)
Inductive claim_fmt := FmtV2 | FmtJson | FmtV1 | FmtEmpty.

Definition claim_format (d : bytes) : claim_fmt :=
  match d with
  | [] => FmtEmpty
  | b :: _ =>
      if byte_eqb b x00 || byte_eqb b x01 then FmtV2
      else if byte_eqb b x7b then FmtJson
      else FmtV1
  end.

(* Purchase.to_bytes / from_bytes: 'P' ++ payload; None = DecodeError (also for empty data) *)
Definition purchase_encode (p : bytes) : bytes := x50 :: p.
Definition purchase_decode (d : bytes) : option bytes :=
  match d with
  | b :: r => if byte_eqb b x50 then Some r else None
  | [] => None
  end.
