(* C17 model: the DHT wire codec.  Mirrors, as the code is now (after fix: f234d13 and 5bb8ad4),
     lbry/dht/serialization/bencoding.py   _bencode / _bdecode / bdecode
     lbry/dht/serialization/datagram.py    the three datagram classes, _decode_datagram, decode_datagram,
                                           make_compact_ip / make_compact_address / decode_compact_address
     lbry/dht/protocol/protocol.py         KademliaProtocol.datagram_received (state effect of the decode guard)
   Executable definitions only.  Python exceptions are values of [err]. *)
From Coq Require Import String.
From Coq Require Import NArith ZArith List Bool.
From Coq.Strings Require Import Byte.
From LV Require Import Lib.Bytes Lib.Decimal.
Import ListNotations.
Local Open Scope N_scope.

(* ------------------------------------------------------------------------------------------ *)
(* bytes helpers                                                                               *)
(* ------------------------------------------------------------------------------------------ *)

Definition lit (s : string) : bytes := list_byte_of_string s.
Definition isb (n : N) (b : byte) : bool := N_of_byte b =? n.
Definition blen (s : bytes) : N := N.of_nat (length s).

Definition c_i : byte := byte_of_N 105.
Definition c_l : byte := byte_of_N 108.
Definition c_d : byte := byte_of_N 100.
Definition c_e : byte := byte_of_N 101.
Definition c_colon : byte := byte_of_N 58.
Definition c_dot : byte := byte_of_N 46.

(* ------------------------------------------------------------------------------------------ *)
(* Python's int(<bytes>) for base 10:  ws* [+-]? digit (_? digit)* ws*                          *)
(* ws = \t \n \v \f \r and space; more than 4300 digits -> ValueError (sys.int_info default).    *)
(* None = ValueError.                                                                          *)
(* ------------------------------------------------------------------------------------------ *)

Definition is_ws (b : byte) : bool :=
  let n := N_of_byte b in ((9 <=? n) && (n <=? 13)) || (n =? 32).

Fixpoint lstrip_ws (s : bytes) : bytes :=
  match s with
  | b :: r => if is_ws b then lstrip_ws r else s
  | [] => []
  end.

Fixpoint rstrip_ws (s : bytes) : bytes :=
  match s with
  | [] => []
  | b :: r => match rstrip_ws r with
              | [] => if is_ws b then [] else [b]
              | r' => b :: r'
              end
  end.

Definition MAX_STR_DIGITS : N := 4300.

(* prev: the previous character was a digit (only then may '_' or the end follow) *)
Fixpoint int_body (s : bytes) (acc cnt : N) (prev : bool) : option (N * N) :=
  match s with
  | [] => if prev then Some (acc, cnt) else None
  | b :: r =>
      if is_digit b then
        if MAX_STR_DIGITS <? cnt + 1 then None
        else int_body r (10 * acc + digit_val b) (cnt + 1) true
      else if isb 95 b && prev then int_body r acc cnt false
      else None
  end.

Definition py_int_of_bytes (s : bytes) : option Z :=
  let t := rstrip_ws (lstrip_ws s) in
  let sb := match t with
            | b :: r => if isb 45 b then (true, r) else if isb 43 b then (false, r) else (false, t)
            | [] => (false, [])
            end in
  match int_body (snd sb) 0 0 false with
  | Some (v, _) => Some (if fst sb then (- Z.of_N v)%Z else Z.of_N v)
  | None => None
  end.

(* bencoding._strict_int (fix 4abdbc1): the token must match 0|-?[1-9][0-9]* (integers) resp. 0|[1-9][0-9]* (string
   lengths) before int() is applied -- no sign '+', whitespace, underscores, leading zeros or '-0' *)
Definition len_shape (s : bytes) : bool :=
  match s with
  | [] => false
  | b :: r => is_digit b && forallb is_digit r && (negb (isb 48 b) || match r with [] => true | _ => false end)
  end.
Definition int_shape (s : bytes) : bool :=
  match s with
  | [] => false
  | b :: r => if isb 45 b then match r with c :: _ => negb (isb 48 c) && len_shape r | [] => false end
              else len_shape s
  end.
Definition strict_int (s : bytes) : option Z := if int_shape s then py_int_of_bytes s else None.
Definition strict_len (s : bytes) : option Z := if len_shape s then py_int_of_bytes s else None.

(* ------------------------------------------------------------------------------------------ *)
(* bencoded values                                                                             *)
(* ------------------------------------------------------------------------------------------ *)

Inductive bval : Type :=
| BInt (z : Z)
| BStr (s : bytes)
| BList (l : list bval)
| BDict (d : list (bval * bval)).     (* Python dict: insertion order, keys pairwise different *)

Inductive err : Type :=
| EDecode      (* lbry.dht.error.DecodeError (also wraps ValueError/TypeError raised inside bdecode) *)
| EIndex       (* IndexError *)
| EKey         (* KeyError *)
| ERecursion   (* RecursionError *)
| EType        (* TypeError *)
| EValue       (* ValueError (UnicodeDecodeError included) *)
| EAttribute   (* AttributeError *)
| EInternal.   (* the model's own loop counter ran out: proved unreachable (bdec_no_internal) *)

Inductive res (A : Type) : Type :=
| Ok (a : A)
| Err (e : err).
Arguments Ok {A} a.
Arguments Err {A} e.

(* lexicographic order on byte strings (Python's bytes comparison) *)
Fixpoint lex_leb (a b : bytes) : bool :=
  match a, b with
  | [], _ => true
  | _ :: _, [] => false
  | x :: a', y :: b' =>
      if N_of_byte x <? N_of_byte y then true
      else if N_of_byte y <? N_of_byte x then false
      else lex_leb a' b'
  end.

(* Python == on the values that can be dict keys here (int, bytes) *)
Definition key_eqb (a b : bval) : bool :=
  match a, b with
  | BInt x, BInt y => (x =? y)%Z
  | BStr x, BStr y => bytes_eqb x y
  | _, _ => false
  end.

Definition hashable (k : bval) : bool :=
  match k with BInt _ | BStr _ => true | _ => false end.

(* d[k] = v : replace in place, else append *)
Fixpoint pydict_set (d : list (bval * bval)) (k v : bval) : list (bval * bval) :=
  match d with
  | [] => [(k, v)]
  | (k', v') :: r => if key_eqb k' k then (k', v) :: r else (k', v') :: pydict_set r k v
  end.

Fixpoint pydict_get (d : list (bval * bval)) (k : bval) : option bval :=
  match d with
  | [] => None
  | (k', v') :: r => if key_eqb k' k then Some v' else pydict_get r k
  end.

(* ------------------------------------------------------------------------------------------ *)
(* _bencode                                                                                    *)
(* ------------------------------------------------------------------------------------------ *)

(* sorted(keys): ints numerically, bytes lexicographically.  Python raises TypeError on a dict that
   mixes int and bytes keys; [enc_defined] below says when the encoder is defined, the order chosen
   here for mixed keys (ints first) is never observed. *)
Definition key_leb (a b : bval) : bool :=
  match a, b with
  | BInt x, BInt y => (x <=? y)%Z
  | BStr x, BStr y => lex_leb x y
  | BInt _, _ => true
  | BStr _, BInt _ => false
  | BStr _, _ => true
  | _, _ => true
  end.

Fixpoint insert_item (p : bval * bytes) (l : list (bval * bytes)) : list (bval * bytes) :=
  match l with
  | [] => [p]
  | q :: r => if key_leb (fst p) (fst q) then p :: l else q :: insert_item p r
  end.

Fixpoint sort_items (l : list (bval * bytes)) : list (bval * bytes) :=
  match l with
  | [] => []
  | p :: r => insert_item p (sort_items r)
  end.

Fixpoint benc (v : bval) : bytes :=
  match v with
  | BInt z => c_i :: dec_of_Z z ++ [c_e]                       (* b'i%de' % data *)
  | BStr s => dec_of_N (blen s) ++ c_colon :: s                (* b'%d:%s' % (len(data), data) *)
  | BList l => c_l :: concat (map benc l) ++ [c_e]
  | BDict d =>
      c_d :: concat (map snd (sort_items
               (map (fun p => match p with (k, x) => (k, benc k ++ benc x) end) d))) ++ [c_e]
  end.

Definition all_int_keys (d : list (bval * bval)) : bool :=
  forallb (fun p => match fst p with BInt _ => true | _ => false end) d.
Definition all_str_keys (d : list (bval * bval)) : bool :=
  forallb (fun p => match fst p with BStr _ => true | _ => false end) d.

(* _bencode returns (rather than raising TypeError) *)
Fixpoint enc_defined (v : bval) : bool :=
  match v with
  | BInt _ | BStr _ => true
  | BList l => forallb enc_defined l
  | BDict d => (all_int_keys d || all_str_keys d)
               && forallb (fun p => match p with (k, x) => enc_defined x end) d
  end.

(* ------------------------------------------------------------------------------------------ *)
(* _bdecode                                                                                    *)
(* ------------------------------------------------------------------------------------------ *)

(* s.find(c): the part before the first byte equal to c, and the part after it *)
Fixpoint find_split (c : N) (s : bytes) : option (bytes * bytes) :=
  match s with
  | [] => None
  | b :: r => if isb c b then Some ([], r)
              else match find_split c r with
                   | Some (a, t) => Some (b :: a, t)
                   | None => None
                   end
  end.

(* data[start:start+n] and what follows; n may be astronomically large (slices clamp) *)
Fixpoint take_clamped (n : N) (s : bytes) : bytes * bytes :=
  match s with
  | [] => ([], [])
  | b :: r => if n =? 0 then ([], s)
              else let (a, t) := take_clamped (N.pred n) r in (b :: a, t)
  end.

(* `while data[i] != ord('e'): item, i = _bdecode(data, i); l.append(item)` then `return l, i + 1` *)
Fixpoint list_loop (dec1 : bytes -> res (bval * bytes)) (steps : nat) (cur : bytes) (acc : list bval)
  : res (bval * bytes) :=
  match steps with
  | O => Err EInternal
  | S st =>
      match cur with
      | [] => Err EIndex
      | c :: cur' =>
          if isb 101 c then Ok (BList (rev acc), cur')
          else match dec1 cur with
               | Ok (v, cur2) => list_loop dec1 st cur2 (v :: acc)
               | Err e => Err e
               end
      end
  end.

(* dict loop; `return decoded_dict, start_index + 1` (after fix 67aa5e2 the closing 'e' is consumed, as for lists) *)
Fixpoint dict_loop (dec1 : bytes -> res (bval * bytes)) (steps : nat) (cur : bytes)
  (acc : list (bval * bval)) : res (bval * bytes) :=
  match steps with
  | O => Err EInternal
  | S st =>
      match cur with
      | [] => Err EIndex
      | c :: cur' =>
          if isb 101 c then Ok (BDict acc, cur')
          else match dec1 cur with
               | Err e => Err e
               | Ok (k, cur2) =>
                   match dec1 cur2 with
                   | Err e => Err e
                   | Ok (v, cur3) =>
                       if hashable k then dict_loop dec1 st cur3 (pydict_set acc k v)
                       else Err EDecode       (* TypeError: unhashable type, wrapped by bdecode *)
                   end
               end
      end
  end.

(* One call of _bdecode(data, start_index) on data[start_index:].  [depth] is the number of nested
   Python frames still available (RecursionError when none is left); [steps] bounds the iterations of
   each while loop and is set to the datagram's length + 1 by [bdecode] (every iteration consumes a byte,
   so it never runs out: bdec_no_internal).
   Where bytes.find returns -1 the code computes int() of an empty or meaningless slice; every such
   path ends in DecodeError: for start_index >= 1 the slice is empty (ValueError), for start_index = 0
   (top level only) the result is not a dict. *)
Fixpoint bdec (steps depth : nat) (data : bytes) {struct depth} : res (bval * bytes) :=
  match depth with
  | O => Err ERecursion
  | S d =>
      match data with
      | [] => Err EIndex
      | b :: rest =>
          if isb 105 b then                                   (* 'i' *)
            match find_split 101 rest with
            | Some (num, after) =>
                match strict_int num with
                | Some z => Ok (BInt z, after)
                | None => Err EDecode
                end
            | None => Err EDecode
            end
          else if isb 108 b then                              (* 'l' *)
            list_loop (bdec steps d) steps rest []
          else if isb 100 b then                              (* 'd' *)
            dict_loop (bdec steps d) steps rest []
          else
            match find_split 58 data with
            | Some (num, after) =>
                match strict_len num with
                | Some z =>
                    if (z <? 0)%Z then Err EDecode
                    else let (s, rest') := take_clamped (Z.to_N z) after in Ok (BStr s, rest')
                | None => Err EDecode
                end
            | None => Err EDecode
            end
      end
  end.

(* bdecode(data) with allow_non_dict_return=False *)
Definition bdecode (fuel : nat) (data : bytes) : res (list (bval * bval)) :=
  match data with
  | [] => Err EDecode
  | _ => match bdec (S (length data)) fuel data with
         | Err e => Err e
         | Ok (BDict d, []) => Ok d
         | Ok (_, _) => Err EDecode        (* bytes after the value / a truncated string; or not a dict *)
         end
  end.

(* The decoder as it was BEFORE fix 67aa5e2: the dict branch returned the index OF the closing 'e'.  Kept only for
   the machine-checked refutation of the old behaviour (see the C17_old_decoder_refuted examples in Props). *)
Fixpoint dict_loop_old (dec1 : bytes -> res (bval * bytes)) (steps : nat) (cur : bytes)
  (acc : list (bval * bval)) : res (bval * bytes) :=
  match steps with
  | O => Err EInternal
  | S st =>
      match cur with
      | [] => Err EIndex
      | c :: _ =>
          if isb 101 c then Ok (BDict acc, cur)
          else match dec1 cur with
               | Err e => Err e
               | Ok (k, cur2) =>
                   match dec1 cur2 with
                   | Err e => Err e
                   | Ok (v, cur3) =>
                       if hashable k then dict_loop_old dec1 st cur3 (pydict_set acc k v)
                       else Err EDecode
                   end
               end
      end
  end.

Fixpoint bdec_old (steps depth : nat) (data : bytes) {struct depth} : res (bval * bytes) :=
  match depth with
  | O => Err ERecursion
  | S d =>
      match data with
      | [] => Err EIndex
      | b :: rest =>
          if isb 105 b then
            match find_split 101 rest with
            | Some (num, after) =>
                match py_int_of_bytes num with
                | Some z => Ok (BInt z, after)
                | None => Err EDecode
                end
            | None => Err EDecode
            end
          else if isb 108 b then list_loop (bdec_old steps d) steps rest []
          else if isb 100 b then dict_loop_old (bdec_old steps d) steps rest []
          else
            match find_split 58 data with
            | Some (num, after) =>
                match py_int_of_bytes num with
                | Some z =>
                    if (z <? 0)%Z then Err EDecode
                    else let (s, rest') := take_clamped (Z.to_N z) after in Ok (BStr s, rest')
                | None => Err EDecode
                end
            | None => Err EDecode
            end
      end
  end.

Definition bdecode_old (fuel : nat) (data : bytes) : res (list (bval * bval)) :=
  match data with
  | [] => Err EDecode
  | _ => match bdec_old (S (length data)) fuel data with
         | Err e => Err e
         | Ok (BDict d, _) => Ok d
         | Ok (_, _) => Err EDecode
         end
  end.

(* ------------------------------------------------------------------------------------------ *)
(* UTF-8 (bytes.decode() in ErrorDatagram.__init__): Unicode table 3-7, as CPython's strict decoder *)
(* ------------------------------------------------------------------------------------------ *)

Definition in_rng (lo hi : N) (b : byte) : bool := (lo <=? N_of_byte b) && (N_of_byte b <=? hi).

Fixpoint utf8_valid (s : bytes) : bool :=
  match s with
  | [] => true
  | a :: r =>
      let n := N_of_byte a in
      if n <=? 127 then utf8_valid r
      else if in_rng 194 223 a then
        match r with
        | b :: r2 => in_rng 128 191 b && utf8_valid r2
        | _ => false
        end
      else if in_rng 224 239 a then
        match r with
        | b :: c :: r3 =>
            in_rng (if n =? 224 then 160 else 128) (if n =? 237 then 159 else 191) b
            && in_rng 128 191 c && utf8_valid r3
        | _ => false
        end
      else if in_rng 240 244 a then
        match r with
        | b :: c :: d :: r4 =>
            in_rng (if n =? 240 then 144 else 128) (if n =? 244 then 143 else 191) b
            && in_rng 128 191 c && in_rng 128 191 d && utf8_valid r4
        | _ => false
        end
      else false
  end.

(* ------------------------------------------------------------------------------------------ *)
(* datagram classes                                                                            *)
(* ------------------------------------------------------------------------------------------ *)

(* what decode_datagram returns: the constructed object's fields (Python values, not yet typed) *)
Inductive rawmsg : Type :=
| RReq (rpc node : bytes) (method args : bval)
| RResp (rpc node : bytes) (response : bval)
| RErr (rpc node etype text : bytes).

Definition RPC_ID_LENGTH : N := 20.
Definition HASH_LENGTH : N := 48.
(* literals are evaluated here so that the extracted model does not mention Coq's string type *)
Definition s_protocolVersion : bytes := Eval vm_compute in lit "protocolVersion".
Definition s_p : bytes := Eval vm_compute in lit "p".
Definition s_ping : bytes := Eval vm_compute in lit "ping".
Definition s_store : bytes := Eval vm_compute in lit "store".
Definition s_findNode : bytes := Eval vm_compute in lit "findNode".
Definition s_findValue : bytes := Eval vm_compute in lit "findValue".
Definition PV : bval := BStr s_protocolVersion.
Definition PAGE_KEY : bval := BStr s_p.

(* converted = {str(k).encode() if not isinstance(k, bytes) else k: v for k, v in primitive.items()} *)
Definition key_bytes (k : bval) : bytes :=
  match k with BStr s => s | BInt z => dec_of_Z z | _ => [] end.

Fixpoint assoc_set (c : list (bytes * bval)) (k : bytes) (v : bval) : list (bytes * bval) :=
  match c with
  | [] => [(k, v)]
  | (k', v') :: r => if bytes_eqb k' k then (k', v) :: r else (k', v') :: assoc_set r k v
  end.

Fixpoint assoc_get (c : list (bytes * bval)) (k : bytes) : option bval :=
  match c with
  | [] => None
  | (k', v') :: r => if bytes_eqb k' k then Some v' else assoc_get r k
  end.

Definition converted (d : list (bval * bval)) : list (bytes * bval) :=
  fold_left (fun acc p => assoc_set acc (key_bytes (fst p)) (snd p)) d [].

Definition field (c : list (bytes * bval)) (i : N) : option bval := assoc_get c [digit_byte i].

(* KademliaDatagramBase.__init__ (the packet type always equals the expected one: the class was
   chosen from it).  After fix 774587f both ids must be `bytes` (ValueError otherwise), then the lengths. *)
Definition check_ids (rpc node : bval) : res (bytes * bytes) :=
  match rpc, node with
  | BStr r, BStr n =>
      if negb (blen r =? RPC_ID_LENGTH) then Err EValue
      else if negb (blen n =? HASH_LENGTH) then Err EValue
      else Ok (r, n)
  | _, _ => Err EValue
  end.

Definition truthy (v : bval) : bool :=
  match v with
  | BInt z => negb (z =? 0)%Z
  | BStr s => match s with [] => false | _ => true end
  | BList l => match l with [] => false | _ => true end
  | BDict d => match d with [] => false | _ => true end
  end.

Definition set_pv (d : list (bval * bval)) : list (bval * bval) := pydict_set d PV (BInt 1).

(* RequestDatagram.__init__:
     self.args = args or []
     if not self.args: self.args.append({})
     if isinstance(self.args[-1], dict): self.args[-1][b'protocolVersion'] = 1
     else: self.args.append({b'protocolVersion': 1})                                            *)
Definition norm_args (a : option bval) : res bval :=
  let a0 := match a with
            | Some v => if truthy v then v else BList []
            | None => BList []
            end in
  match a0 with
  | BList [] => Ok (BList [BDict (set_pv [])])
  | BList l =>
      match last l (BInt 0) with
      | BDict d => Ok (BList (removelast l ++ [BDict (set_pv d)]))
      | _ => Ok (BList (l ++ [BDict (set_pv [])]))
      end
  | BInt _ => Err EType                  (* 'int' object is not subscriptable *)
  | BStr _ => Err EAttribute             (* b'..'[-1] is an int; bytes has no append *)
  | BDict d =>
      match pydict_get d (BInt (-1)) with
      | None => Err EKey
      | Some (BDict inner) => Ok (BDict (pydict_set d (BInt (-1)) (BDict (set_pv inner))))
      | Some _ => Err EAttribute
      end
  end.

(* x.decode() *)
Definition py_decode_utf8 (v : bval) : res bytes :=
  match v with
  | BStr s => if utf8_valid s then Ok s else Err EValue
  | _ => Err EAttribute
  end.

Definition build_request (c : list (bytes * bval)) : rawmsg + err :=
  match field c 1, field c 2, field c 3 with
  | Some rpc, Some node, Some method =>
      match check_ids rpc node with
      | Err e => inr e
      | Ok (r, n) => match norm_args (field c 4) with
                     | Ok a => inl (RReq r n method a)
                     | Err e => inr e
                     end
      end
  | _, _, _ => inr EType                 (* missing required positional argument *)
  end.

Definition build_response (c : list (bytes * bval)) : rawmsg + err :=
  match field c 1, field c 2, field c 3 with
  | Some rpc, Some node, Some r =>
      match check_ids rpc node with
      | Err e => inr e
      | Ok (ri, n) => inl (RResp ri n r)
      end
  | _, _, _ => inr EType
  end.

Definition build_error (c : list (bytes * bval)) : rawmsg + err :=
  match field c 1, field c 2, field c 3, field c 4 with
  | Some rpc, Some node, Some et, Some tx =>
      match check_ids rpc node with
      | Err e => inr e
      | Ok (r, n) => match py_decode_utf8 et with
                     | Err e => inr e
                     | Ok ets => match py_decode_utf8 tx with
                                 | Err e => inr e
                                 | Ok txs => inl (RErr r n ets txs)
                                 end
                     end
      end
  | _, _, _, _ => inr EType
  end.

(* decode_datagram *)
Definition decode_datagram (fuel : nat) (data : bytes) : rawmsg + err :=
  match bdecode fuel data with
  | Err e => inr e
  | Ok d =>
      let c := converted d in
      match field c 0 with
      | None => inr EKey                                     (* converted[b'0'] *)
      | Some (BInt 0) => build_request c
      | Some (BInt 1) => build_response c
      | Some (BInt 2) => build_error c
      | Some _ => inr EValue                                 (* "invalid datagram type" *)
      end
  end.

(* ------------------------------------------------------------------------------------------ *)
(* well-typed protocol messages and their encoding (what the classes' bencode() emits)          *)
(* ------------------------------------------------------------------------------------------ *)

Inductive request : Type :=
| Ping
| Store (blob_hash token : bytes) (port : Z)
| FindNode (key : bytes)
| FindValue (key : bytes) (page : Z).

Inductive message : Type :=
| Request (rpc node : bytes) (r : request)
| Response (rpc node : bytes) (payload : bval)
| Error (rpc node etype text : bytes).

Definition pv_dict : bval := BDict [(PV, BInt 1)].

Definition method_of (r : request) : bytes :=
  match r with
  | Ping => s_ping
  | Store _ _ _ => s_store
  | FindNode _ => s_findNode
  | FindValue _ _ => s_findValue
  end.

(* the args list after RequestDatagram.__init__ (make_ping / make_store / make_find_node / make_find_value) *)
Definition args_of (node : bytes) (r : request) : list bval :=
  match r with
  | Ping => [pv_dict]
  | Store h t p => [BStr h; BStr t; BInt p; BStr node; BInt 0; pv_dict]
  | FindNode k => [BStr k; pv_dict]
  | FindValue k page => [BStr k; BDict [(PAGE_KEY, BInt page); (PV, BInt 1)]]
  end.

(* KademliaDatagramBase.bencode: {i: getattr(self, k) for i, k in enumerate(required_fields)} *)
Definition value_of_message (m : message) : bval :=
  match m with
  | Request rpc node r =>
      BDict [(BInt 0, BInt 0); (BInt 1, BStr rpc); (BInt 2, BStr node);
             (BInt 3, BStr (method_of r)); (BInt 4, BList (args_of node r))]
  | Response rpc node p =>
      BDict [(BInt 0, BInt 1); (BInt 1, BStr rpc); (BInt 2, BStr node); (BInt 3, p)]
  | Error rpc node et tx =>
      BDict [(BInt 0, BInt 2); (BInt 1, BStr rpc); (BInt 2, BStr node); (BInt 3, BStr et); (BInt 4, BStr tx)]
  end.

Definition encode_message (m : message) : bytes := benc (value_of_message m).

Definition raw_of_message (m : message) : rawmsg :=
  match m with
  | Request rpc node r => RReq rpc node (BStr (method_of r)) (BList (args_of node r))
  | Response rpc node p => RResp rpc node p
  | Error rpc node et tx => RErr rpc node et tx
  end.

(* response payloads the node produces (KademliaRPC.ping/store/find_node/find_value) *)
Definition contact_val (c : bytes * bytes * Z) : bval :=
  match c with (id, addr, port) => BList [BStr id; BStr addr; BInt port] end.
Definition contacts_val (l : list (bytes * bytes * Z)) : bval := BList (map contact_val l).
Definition peers_val (l : list bytes) : bval := BList (map BStr l).

Definition dict_of_items (l : list (bval * bval)) : list (bval * bval) :=
  fold_left (fun acc p => pydict_set acc (fst p) (snd p)) l [].

(* ------------------------------------------------------------------------------------------ *)
(* independent reference encoder: plain structural bencode of a value whose dictionaries are     *)
(* already in key order (no sorting, no accumulator of pre-encoded pairs)                        *)
(* ------------------------------------------------------------------------------------------ *)

Fixpoint ref_benc (v : bval) : bytes :=
  match v with
  | BInt z => [c_i] ++ dec_of_Z z ++ [c_e]
  | BStr s => dec_of_N (blen s) ++ [c_colon] ++ s
  | BList l => [c_l] ++ (fix go (l : list bval) : bytes :=
                           match l with [] => [] | x :: r => ref_benc x ++ go r end) l ++ [c_e]
  | BDict d => [c_d] ++ (fix go (d : list (bval * bval)) : bytes :=
                           match d with [] => [] | (k, x) :: r => ref_benc k ++ ref_benc x ++ go r end) d
               ++ [c_e]
  end.

(* ------------------------------------------------------------------------------------------ *)
(* compact addresses                                                                           *)
(* ------------------------------------------------------------------------------------------ *)

Fixpoint split_on (c : N) (s : bytes) : list bytes :=        (* str.split('.') *)
  match s with
  | [] => [[]]
  | b :: r => if isb c b then [] :: split_on c r
              else match split_on c r with
                   | h :: t => (b :: h) :: t
                   | [] => [[b]]
                   end
  end.

(* reduce(lambda buff, x: buff + bytearray([int(x)]), address.split('.'), bytearray()); len must be 4 *)
Fixpoint octets (parts : list bytes) : option bytes :=
  match parts with
  | [] => Some []
  | p :: r => match py_int_of_bytes p with
              | Some z => if ((0 <=? z) && (z <? 256))%Z
                          then match octets r with Some t => Some (byte_of_N (Z.to_N z) :: t) | None => None end
                          else None
              | None => None
              end
  end.

Definition make_compact_ip (address : bytes) : res bytes :=
  match octets (split_on 46 address) with
  | Some o => if (length o =? 4)%nat then Ok o else Err EValue
  | None => Err EValue
  end.

Definition port_ok (p : Z) : bool := ((0 <? p) && (p <? 65536))%Z.

Definition make_compact_address (node_id address : bytes) (port : Z) : res bytes :=
  match make_compact_ip address with
  | Err e => Err e
  | Ok ip => if negb (port_ok port) then Err EValue
             else if negb (blen node_id =? HASH_LENGTH) then Err EValue
             else Ok (ip ++ be_encode 2 (Z.to_N port) ++ node_id)
  end.

Definition dotted (a b c d : byte) : bytes :=
  dec_of_N (N_of_byte a) ++ c_dot :: dec_of_N (N_of_byte b) ++ c_dot :: dec_of_N (N_of_byte c)
  ++ c_dot :: dec_of_N (N_of_byte d).

(* decode_compact_address: (node_id, address, port) *)
Definition decode_compact_address (ca : bytes) : res (bytes * bytes * Z) :=
  match ca with
  | a :: b :: c :: d :: r =>
      let port := Z.of_N (be_decode (firstn 2 r)) in
      let node := skipn 2 r in
      if negb (port_ok port) then Err EValue
      else if negb (blen node =? HASH_LENGTH) then Err EValue
      else Ok (node, dotted a b c d, port)
  | _ => Err EIndex                      (* the format call with fewer than 4 bytes: IndexError *)
  end.

(* ------------------------------------------------------------------------------------------ *)
(* KademliaProtocol.datagram_received: effect of the decode guard on the node's state            *)
(* ------------------------------------------------------------------------------------------ *)

Section Handler.
  Variables Routing Store Other Addr : Type.

  Record node_state : Type := mk_state {
    routing : Routing;            (* routing_table peers *)
    store : Store;                (* data_store contents *)
    failures : list Addr;         (* peer_manager.report_failure calls, newest first *)
    other : Other                 (* everything else (sent datagrams, ping queue, pending requests) *)
  }.

  (* handle_request_datagram / handle_response_datagram / handle_error_datagram, left abstract *)
  Variable process : node_state -> Addr -> rawmsg -> node_state.

  Definition datagram_received (fuel : nat) (st : node_state) (sender : Addr) (data : bytes) : node_state :=
    match decode_datagram fuel data with
    | inr _ => mk_state (routing st) (store st) (sender :: failures st) (other st)
    | inl m => process st sender m
    end.

  Definition receive_all (fuel : nat) (st : node_state) (l : list (Addr * bytes)) : node_state :=
    fold_left (fun s p => datagram_received fuel s (fst p) (snd p)) l st.
End Handler.

(* ------------------------------------------------------------------------------------------ *)
(* handle_request_datagram / _handle_rpc: which decoded requests are served, which are answered   *)
(* with an error datagram (ValueError / any other exception raised while handling them)           *)
(* ------------------------------------------------------------------------------------------ *)

(* find_node / find_value: the key must be `bytes` of HASH_LENGTH (find_node: isinstance check added by the fix
   that followed this check's finding; find_value: it is also a data store key) *)
Definition hash_key_ok (v : bval) : bool :=
  match v with BStr s => blen s =? HASH_LENGTH | _ => false end.

(* KademliaRPC.store: 1024 <= port <= 65535 (fix 0c01d02: the range a peer address can carry) *)
Definition rpc_port_ok (v : bval) : bool :=
  match v with BInt p => ((1024 <=? p) && (p <=? 65535))%Z | _ => false end.

Definition is_int (v : bval) : bool := match v with BInt _ => true | _ => false end.

(* _handle_rpc completes (a response is sent) for this request; [own] is the node's own id.
   After RequestDatagram.__init__ the last element of a list of args is always a dict carrying
   protocolVersion, so args, kwargs = tuple(message.args[:-1]), message.args[-1]. *)
Definition request_valid (own : bytes) (m : rawmsg) : bool :=
  match m with
  | RReq _ node (BStr method) (BList args) =>
      let pos := removelast args in
      let kw := match last args (BInt 0) with BDict d => d | _ => [] end in
      negb (bytes_eqb node own) &&
      (if bytes_eqb method s_ping then true
       else if bytes_eqb method s_store then
         (5 <=? length pos)%nat && hash_key_ok (nth 0 pos (BInt 0)) && rpc_port_ok (nth 2 pos (BStr []))
       else if bytes_eqb method s_findNode then
         match pos with k :: _ => hash_key_ok k | [] => false end
       else if bytes_eqb method s_findValue then
         match pos with
         | k :: _ => hash_key_ok k && match pydict_get kw PAGE_KEY with None => true | Some v => is_int v end
         | [] => false
         end
       else false)
  | _ => false          (* method not bytes; args a dict (message.args[:-1] raises); not a request *)
  end.

(* the text of the error datagram that answers an unknown method.  _handle_rpc raises
   AttributeError('Invalid method: %s' % message.method.decode()) and handle_request_datagram sends
   str(err)[:256].encode(): the first 256 CHARACTERS of the text, as UTF-8 *)
Definition utf8_seq_len (a : byte) : nat :=
  let n := N_of_byte a in
  if n <=? 127 then 1%nat else if n <=? 223 then 2%nat else if n <=? 239 then 3%nat else 4%nat.

(* s[:n] of a str, on its UTF-8 bytes *)
Fixpoint utf8_take (n : nat) (s : bytes) : bytes :=
  match n with
  | O => []
  | S n' => match s with
            | [] => []
            | a :: _ => firstn (utf8_seq_len a) s ++ utf8_take n' (skipn (utf8_seq_len a) s)
            end
  end.

Definition ERROR_TEXT_LIMIT : nat := 256.
Definition s_invalid_method : bytes := Eval vm_compute in lit "Invalid method: ".
Definition invalid_method_text (method : bytes) : bytes :=
  utf8_take ERROR_TEXT_LIMIT (s_invalid_method ++ method).

Section RequestHandler.
  Variables Routing Store Other Addr : Type.
  Notation state := (node_state Routing Store Other Addr).

  (* the routing component stands for the table together with its queued additions/removals and the ping queue.
     After fix 037dcb4 the contact a request is answered to and counted against is the datagram's SOURCE address
     (a routing-table contact with the same node id at another endpoint is not used); [usable] says whether
     make_kademlia_peer accepts that address (public IPv4, udp port >= 1024) -- if not, no reply is possible and
     the failure is recorded all the same.  The remaining pieces are left abstract. *)
  Variable usable : Addr -> bool.
  Variable note_request : Other -> Addr -> Other.              (* report_last_requested, metrics *)
  Variable error_reply : Other -> Addr -> rawmsg -> Other.     (* the ErrorDatagram handed to the transport *)
  Variable serve : state -> Addr -> rawmsg -> state.           (* a valid request: reply, store, contact bookkeeping *)
  Variable process_other : state -> Addr -> rawmsg -> state.   (* response and error datagrams *)

  Definition handle_request (own : bytes) (st : state) (sender : Addr) (m : rawmsg) : state :=
    let st1 := mk_state _ _ _ _ (routing _ _ _ _ st) (store _ _ _ _ st) (failures _ _ _ _ st)
                        (note_request (other _ _ _ _ st) sender) in
    if negb (usable sender) then
      mk_state _ _ _ _ (routing _ _ _ _ st) (store _ _ _ _ st) (sender :: failures _ _ _ _ st) (other _ _ _ _ st1)
    else if request_valid own m then serve st1 sender m
    else mk_state _ _ _ _ (routing _ _ _ _ st) (store _ _ _ _ st) (sender :: failures _ _ _ _ st)
                  (error_reply (other _ _ _ _ st1) sender m).

  Definition process_message (own : bytes) (st : state) (sender : Addr) (m : rawmsg) : state :=
    match m with
    | RReq _ _ _ _ => handle_request own st sender m
    | _ => process_other st sender m
    end.

  Definition node_receive (own : bytes) (fuel : nat) (st : state) (sender : Addr) (data : bytes) : state :=
    datagram_received Routing Store Other Addr (process_message own) fuel st sender data.
End RequestHandler.

(* ------------------------------------------------------------------------------------------ *)
(* lbry.utils.LRUCache, the container behind PeerManager._rpc_failures (capacity CACHE_SIZE)      *)
(* ------------------------------------------------------------------------------------------ *)

Section LRU.
  Variables K V : Type.
  Variable keqb : K -> K -> bool.

  (* an OrderedDict: oldest entry first, keys pairwise different *)
  Definition lru : Type := list (K * V).

  Definition lru_has (c : lru) (k : K) : bool := existsb (fun p => keqb (fst p) k) c.
  Definition lru_remove (c : lru) (k : K) : lru := filter (fun p => negb (keqb (fst p) k)) c.   (* cache.pop(key, None) *)
  Definition lru_peek (c : lru) (k : K) : option V :=
    match find (fun p => keqb (fst p) k) c with Some p => Some (snd p) | None => None end.

  (* set: pop the key; if it was absent and the cache is full evict the OLDEST entry; insert as newest *)
  Definition lru_set (cap : nat) (c : lru) (k : K) (v : V) : lru :=
    (if lru_has c k then lru_remove c k
     else if (cap <=? length c)%nat then tl c else c) ++ [(k, v)].

  (* get: a hit moves the entry to the newest position *)
  Definition lru_get (c : lru) (k : K) : option V * lru :=
    match lru_peek c k with
    | Some v => (Some v, lru_remove c k ++ [(k, v)])
    | None => (None, c)
    end.
End LRU.

(* PeerManager.report_failure:  _, previous = failures.pop(addr, (None, None)); failures[addr] = (previous, now) *)
Definition report_failure {A : Type} (aeqb : A -> A -> bool) (cap : nat)
  (c : lru A (option N * option N)) (addr : A) (now : N) : lru A (option N * option N) :=
  let previous := match lru_peek A _ aeqb c addr with Some (_, last) => last | None => None end in
  lru_set A _ aeqb cap (lru_remove A _ aeqb c addr) addr (previous, Some now).

(* a run of cache operations on numeric keys / values, for the correspondence with the real class *)
Inductive lru_op : Type := LSet (k v : N) | LGet (k : N) | LPop (k : N).
Definition lru_step (cap : nat) (c : lru N N) (o : lru_op) : lru N N :=
  match o with
  | LSet k v => lru_set N N N.eqb cap c k v
  | LGet k => snd (lru_get N N N.eqb c k)
  | LPop k => lru_remove N N N.eqb c k
  end.
Definition lru_run (cap : nat) (ops : list lru_op) : lru N N := fold_left (lru_step cap) ops [].
Definition failures_run (cap : nat) (senders : list N) : lru N (option N * option N) :=
  fst (fold_left (fun st a => (report_failure N.eqb cap (fst st) a (snd st), N.succ (snd st))) senders ([], 1)).

(* the handler instantiated for the correspondence run: [other] records whether a decoded message was
   handed on to the request/response/error handlers *)
Definition probe_receive (fuel : nat) (data : bytes) : node_state unit unit bool unit :=
  datagram_received unit unit bool unit
    (fun st _ _ => mk_state unit unit bool unit (routing _ _ _ _ st) (store _ _ _ _ st) (failures _ _ _ _ st) true)
    fuel (mk_state unit unit bool unit tt tt [] false) tt data.
Definition probe_failures (st : node_state unit unit bool unit) : nat := length (failures _ _ _ _ st).
Definition probe_processed (st : node_state unit unit bool unit) : bool := other _ _ _ _ st.
