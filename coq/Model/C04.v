(* C04 model: SIGHASH_ALL preimage of Transaction._serialize_for_signature and the channel-signature
   digest pieces of Output.get_signature_digest / Output.sign (transaction.py).  Definitions only. *)
From Coq Require Import NArith ZArith List Bool.
From Coq.Strings Require Import Byte.
From LV Require Import Lib.Bytes Wire.CompactSize Wire.Tx.
Import ListNotations.
Local Open Scope N_scope.

Definition set_script (x : txin) (s : bytes) : txin := mk_txin (ti_hash x) (ti_index x) s (ti_seq x).

(* inputs as written by _serialize_for_signature: input i carries [script] (the script of the output
   it spends), every other input the empty script *)
Fixpoint sig_ins (ins : list txin) (i : nat) (script : bytes) : list txin :=
  match ins with
  | [] => []
  | x :: r =>
    match i with
    | O => set_script x script :: map (fun y => set_script y []) r
    | S i' => set_script x [] :: sig_ins r i' script
    end
  end.

Definition sig_tx (t : tx) (i : nat) (script : bytes) : tx :=
  mk_tx (tx_version t) (sig_ins (tx_ins t) i script) (tx_outs t) (tx_locktime t).

(* _serialize_for_signature(i): the blanked transaction followed by the 4-byte hash type 1 (SIGHASH_ALL) *)
Definition sighash_preimage (t : tx) (i : nat) (script : bytes) : bytes :=
  serialize (sig_tx t i script) ++ le_encode 4 1.

(* Declarative statement of the legacy Bitcoin SIGHASH_ALL preimage, written out field by field. *)
Fixpoint spec_inputs (ins : list txin) (j i : nat) (script : bytes) : bytes :=
  match ins with
  | [] => []
  | x :: r => ti_hash x ++ le_encode 4 (ti_index x)
              ++ ser_string (if Nat.eqb j i then script else [])
              ++ le_encode 4 (ti_seq x) ++ spec_inputs r (S j) i script
  end.
Definition sighash_spec (t : tx) (i : nat) (script : bytes) : bytes :=
  le_encode 4 (tx_version t)
  ++ cs_encode (N.of_nat (length (tx_ins t))) ++ spec_inputs (tx_ins t) 0 i script
  ++ ser_outs (tx_outs t)
  ++ le_encode 4 (tx_locktime t)
  ++ le_encode 4 1.

(* Output.get_signature_digest, current style: first input's 36-byte outpoint ‖ 20-byte channel claim
   hash ‖ message bytes;  legacy style: 25-byte decoded address ‖ unsigned payload ‖ reversed channel hash *)
Definition outpoint_bytes (txhash : bytes) (position : N) : bytes := txhash ++ le_encode 4 position.
Definition channel_pieces (first_outpoint channel_hash message : bytes) : bytes :=
  first_outpoint ++ channel_hash ++ message.
Definition legacy_pieces (address payload channel_hash : bytes) : bytes :=
  address ++ payload ++ rev channel_hash.

Section Signing.
  Variable sha256 : bytes -> bytes.
  Variable pub : bytes -> bytes.                       (* private key -> compressed public key *)
  Variable sign : bytes -> bytes -> bytes.              (* private key, 32-byte digest -> signature *)
  Variable verify : bytes -> bytes -> bytes -> bool.    (* public key, digest, signature *)

  Definition channel_digest fo ch m := sha256 (channel_pieces fo ch m).
  Definition legacy_digest a p ch := sha256 (legacy_pieces a p ch).
  (* Output.sign / Output.is_signed_by *)
  Definition sign_claim (sk fo ch m : bytes) : bytes := sign sk (channel_digest fo ch m).
  Definition is_signed_by (pk fo ch m sg : bytes) : bool := verify pk (channel_digest fo ch m) sg.
  Definition is_signed_by_legacy (pk a p ch sg : bytes) : bool := verify pk (legacy_digest a p ch) sg.
  (* Transaction.sign for input i: DER signature over the double hash of the preimage, then hash type byte *)
  Definition input_digest (t : tx) (i : nat) (script : bytes) : bytes :=
    sha256 (sha256 (sighash_preimage t i script)).
  Definition input_signature (sk : bytes) (t : tx) (i : nat) (script : bytes) : bytes :=
    sign sk (input_digest t i script) ++ [byte_of_N 1].
End Signing.
