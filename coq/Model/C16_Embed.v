(* C16 model, part (e): how a Claim / Support / Purchase reaches the chain and the wallet database -- as one
   push inside a claim_name / update_claim / support / OP_RETURN output script (wallet/script.py, shared model
   Wire/Push.v + Wire/Script.v) -- and the image/video/audio bookkeeping of Stream.update (claim.py).
   Executable definitions only. *)
From Coq Require Import NArith List Bool.
From Coq.Strings Require Import Byte.
From LV Require Import Lib.Bytes Wire.Push Wire.Script.
Import ListNotations.
Local Open Scope N_scope.

Inductive carrier := CarrierClaimName | CarrierUpdateClaim | CarrierSupportData | CarrierReturnData.

Definition carrier_template (c : carrier) : template :=
  match c with
  | CarrierClaimName => CLAIM_NAME_PUBKEY
  | CarrierUpdateClaim => UPDATE_CLAIM_PUBKEY
  | CarrierSupportData => SUPPORT_CLAIM_DATA_PUBKEY
  | CarrierReturnData => RETURN_DATA
  end.

Definition carrier_field (c : carrier) : field :=
  match c with
  | CarrierClaimName => F_claim
  | CarrierUpdateClaim => F_claim
  | CarrierSupportData => F_support
  | CarrierReturnData => F_data
  end.

Definition carrier_values (c : carrier) (name claim_id pkh payload : bytes) : values :=
  [(carrier_field c, VBytes payload); (F_claim_name, VBytes name); (F_claim_id, VBytes claim_id);
   (F_pubkey_hash, VBytes pkh)].

(* Output.pay_claim_name_pubkey_hash / pay_update_claim_pubkey_hash / pay_support_data_pubkey_hash /
   add_purchase_data: the script source *)
Definition embed (c : carrier) (name claim_id pkh payload : bytes) : option bytes :=
  generate (snd (carrier_template c)) (carrier_values c name claim_id pkh payload).

(* which value of a parsed output script holds the object: Output.claim / .support / .purchase_data *)
Definition payload_field (t : tname) : option field :=
  match t with
  | T_claim_name_pkh | T_claim_name_sh | T_update_claim_pkh | T_update_claim_sh => Some F_claim
  | T_support_claim_data_pkh | T_support_claim_data_sh => Some F_support
  | T_return_data => Some F_data
  | _ => None
  end.

(* the bytes handed to Claim.from_bytes / Support.from_bytes / Purchase.from_bytes when an output is read back
   from a serialised transaction; None = no template matches or the template carries no object *)
Definition extract_payload (src : bytes) : option bytes :=
  match parse_output src with
  | SMatch t vs =>
      match payload_field t with
      | Some f => match lookup f vs with Some (VBytes d) => Some d | _ => None end
      | None => None
      end
  | _ => None
  end.

(* ---------- Stream.update: the image / video / audio oneof ---------- *)
(* kind: 0 image, 1 video, 2 audio; values: width, height, duration *)
Definition mvals := (N * N * N)%type.
Definition mstate := option (N * mvals).

Definition has_dims (k : N) : bool := (k =? 0) || (k =? 1).
Definition has_duration (k : N) : bool := (k =? 1) || (k =? 2).
Definition pick (o : option N) (d : N) : N := match o with Some v => v | None => d end.

(* new_kind = the stream type guessed for the (new) file when it is image/video/audio, None otherwise.
   A different kind (or none) drops the old sub-message; explicitly given numbers (0 included) are stored in the
   sub-message of the new kind; numbers that do not apply to the kind are ignored. *)
Definition media_step (old : mstate) (new_kind : option N) (w h d : option N) : mstate :=
  match new_kind with
  | None => None
  | Some k =>
      let base := match old with
                  | Some (k', vals) => if k =? k' then Some vals else None
                  | None => None
                  end in
      let w' := if has_dims k then w else None in
      let h' := if has_dims k then h else None in
      let d' := if has_duration k then d else None in
      match w', h', d' with
      | None, None, None => match base with Some vals => Some (k, vals) | None => None end
      | _, _, _ =>
          let '(bw, bh, bd) := match base with Some vals => vals | None => (0, 0, 0) end in
          Some (k, (pick w' bw, pick h' bh, pick d' bd))
      end
  end.
