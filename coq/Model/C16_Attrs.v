(* C16 model, part (d): the hex / byte-order views used by the typed accessors of attrs.py and base.py:
   ClaimReference.claim_id, Signable.signing_channel_id  (hexlify(hash[::-1]) and unhexlify(id)[::-1]),
   Source.sd_hash / file_hash / bt_infohash and Channel.public_key (hexlify / unhexlify).
   Text is ASCII, carried as bytes.  Executable definitions only. *)
From Coq Require Import NArith List Bool.
From Coq.Strings Require Import Byte.
From LV Require Import Lib.Bytes.
Import ListNotations.
Local Open Scope N_scope.

(* binascii.hexlify: lower case *)
Definition hex_digit (n : N) : byte := byte_of_N (if n <? 10 then 48 + n else 87 + n).

(* binascii.unhexlify accepts both cases *)
Definition hex_val (b : byte) : option N :=
  let c := N_of_byte b in
  if (48 <=? c) && (c <=? 57) then Some (c - 48)
  else if (97 <=? c) && (c <=? 102) then Some (c - 87)
  else if (65 <=? c) && (c <=? 70) then Some (c - 55)
  else None.

Fixpoint hexlify (bs : bytes) : bytes :=
  match bs with
  | [] => []
  | b :: r => hex_digit (N_of_byte b / 16) :: hex_digit (N_of_byte b mod 16) :: hexlify r
  end.

(* None = binascii.Error (odd length or a non-hex digit) *)
Fixpoint unhexlify (s : bytes) : option bytes :=
  match s with
  | [] => Some []
  | [_] => None
  | h :: l :: r =>
      match hex_val h, hex_val l, unhexlify r with
      | Some a, Some b, Some t => Some (byte_of_N (16 * a + b) :: t)
      | _, _, _ => None
      end
  end.

Definition claim_id_of_hash (h : bytes) : bytes := hexlify (rev h).
Definition hash_of_claim_id (s : bytes) : option bytes :=
  match unhexlify s with Some b => Some (rev b) | None => None end.

Definition is_lower_hex (b : byte) : bool :=
  let c := N_of_byte b in ((48 <=? c) && (c <=? 57)) || ((97 <=? c) && (c <=? 102)).
