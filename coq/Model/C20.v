(* C20 model: LBC <-> dewies.  Mirrors lbry/wallet/util.py coins_to_satoshis / satoshis_to_coins
   (as repaired: integer divmod, fullmatch over [0-9]).  Executable definitions only. *)
From Coq Require Import NArith ZArith List Bool.
From Coq.Strings Require Import Byte.
From LV Require Import Lib.Bytes Lib.Decimal.
Import ListNotations.
Local Open Scope N_scope.

Definition COIN : N := 100000000.
Definition zero_byte : byte := digit_byte 0.
Definition dot_byte : byte := byte_of_N 46.

(* '{:0wd}' for a value below 10^w: exactly w digits *)
Fixpoint fixed_digits (w : nat) (n : N) : bytes :=
  match w with
  | O => []
  | S w' => fixed_digits w' (n / 10) ++ [digit_byte (n mod 10)]
  end.

(* str.rstrip('0') *)
Fixpoint rstrip0 (ds : bytes) : bytes :=
  match ds with
  | [] => []
  | d :: r => match rstrip0 r with
              | [] => if byte_eqb d zero_byte then [] else [d]
              | r' => d :: r'
              end
  end.

Definition strip_frac (ds : bytes) : bytes :=
  match rstrip0 ds with [] => [zero_byte] | t => t end.

(* satoshis_to_coins *)
Definition format (z : Z) : bytes :=
  let a := Z.abs_N z in
  (if (z <? 0)%Z then [minus_byte] else []) ++
  dec_of_N (a / COIN) ++ dot_byte :: strip_frac (fixed_digits 8 (a mod COIN)).

(* split at the first '.' *)
Fixpoint split_dot (s : bytes) : option (bytes * bytes) :=
  match s with
  | [] => None
  | b :: r => if byte_eqb b dot_byte then Some ([], r)
              else match split_dot r with Some (a, c) => Some (b :: a, c) | None => None end
  end.

Definition ljust8 (f : bytes) : bytes := f ++ repeat zero_byte (8 - length f).

(* coins_to_satoshis: None = ValueError *)
Definition parse (s : bytes) : option N :=
  match split_dot s with
  | None => None
  | Some (whole, frac) =>
      if forallb is_digit whole && forallb is_digit frac
         && (1 <=? length whole)%nat && (length whole <=? 10)%nat
         && (1 <=? length frac)%nat && (length frac <=? 8)%nat
      then N_of_dec (whole ++ ljust8 frac)
      else None
  end.

(* Exact reading of a signed decimal literal "[-]digits.digits" as (mantissa, scale):
   its value is mantissa / 10^scale.  Used to state exactness of [format]. *)
Definition dec_exact (s : bytes) : option (Z * N) :=
  let (neg, body) := match s with
                     | b :: r => if byte_eqb b minus_byte then (true, r) else (false, s)
                     | [] => (false, s) end in
  match split_dot body with
  | Some (whole, frac) =>
      match whole, frac with
      | _ :: _, _ :: _ =>
        match N_of_dec (whole ++ frac) with
        | Some m => Some ((if neg then - Z.of_N m else Z.of_N m)%Z, N.of_nat (length frac))
        | None => None
        end
      | _, _ => None
      end
  | None => None
  end.
