(* C16 model, part (f): Fee.address (attrs.py) = Base58 text of Fee.address_bytes, through the shared Base58
   model of Model/C06.v (lbry/crypto/base58.py); and the signature state of a Signable under sign / clear
   (base.py clear_signature, signing_channel_id).  Executable definitions only. *)
From Coq Require Import NArith List Bool.
From Coq.Strings Require Import Byte.
From LV Require Import Lib.Bytes Model.C06 Model.C16_Env.
Import ListNotations.

(* Fee.address getter: None when no address bytes are stored *)
Definition fee_address (address_bytes : bytes) : option bytes :=
  match address_bytes with
  | [] => None
  | _ => match b58_encode address_bytes with Ok t => Some t | Err _ => None end
  end.

(* Fee.address setter: the bytes stored for an address text; Err = Base58Error *)
Definition fee_address_bytes (text : bytes) : res bytes := b58_decode text.

(* ---------- signature state ---------- *)
Record sigstate := { st_signature : option bytes; st_channel_hash : option bytes }.

Inductive sigop :=
| OpSign (channel_hash signature : bytes)     (* what Output.sign / the setters leave behind *)
| OpClear.                                    (* Signable.clear_signature *)

Definition sig_fresh : sigstate := {| st_signature := None; st_channel_hash := None |}.

Definition sig_apply (s : sigstate) (o : sigop) : sigstate :=
  match o with
  | OpSign h sg => {| st_signature := Some sg; st_channel_hash := Some h |}
  | OpClear => {| st_signature := None; st_channel_hash := None |}
  end.

Definition sig_run (ops : list sigop) : sigstate := fold_left sig_apply ops sig_fresh.

(* to_bytes of an object in that state around a payload; None = TypeError (signed without a channel hash) *)
Definition sig_to_bytes (s : sigstate) (payload : bytes) : option bytes :=
  match st_signature s, st_channel_hash s with
  | None, _ => Some (env_encode (Unsigned payload))
  | Some sg, Some h => Some (env_encode (Signed h sg payload))
  | Some _, None => None
  end.

(* the state from_bytes leaves: an unsigned envelope gives no signature AND no channel *)
Definition sig_of_env (e : envelope) : sigstate :=
  match e with
  | Unsigned _ => sig_fresh
  | Signed h sg _ => {| st_signature := Some sg; st_channel_hash := Some h |}
  end.

Definition sigop_wf (o : sigop) : Prop :=
  match o with OpSign h sg => length h = 20%nat /\ length sg = 64%nat | OpClear => True end.

(* ---------- Claim.get_message: the typed views stream / channel / collection / repost ---------- *)
(* cur = the type the claim already has (None for a fresh claim), req = the view asked for.
   Result: the type afterwards and whether the view is granted (false = ValueError 'Claim is not a ...').
   Only a claim without a type takes the requested one; a typed claim is never changed by a request. *)
Definition claim_view (cur : option N) (req : N) : option N * bool :=
  match cur with
  | None => (Some req, true)
  | Some c => (Some c, N.eqb c req)
  end.
