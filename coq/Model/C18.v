(* C18 model: blob bookkeeping (lbry/blob/blob_manager.py, lbry/extras/daemon/storage.py blob table,
   lbry/blob/blob_file.py BlobFile.__init__/delete).  Executable definitions only.

   State of the world as the property sees it:
     disk      : the entries of the blob directory (ALL names, also ones that are not blob hashes), each a
                 regular file with its size or a directory (os.scandir lists both, os.path.isfile tells them apart)
     db        : the rows (blob_hash, status) of the `blob` table
     completed : BlobManager.completed_blob_hashes          (what is announced and served)
     cache     : BlobManager.blobs  -- hash -> (is the cached object a BlobFile (true) or a BlobBuffer (false),
                 its `verified` flag)
     alive     : false after a simulated process death (memory is gone until the next restart)
     save      : config.save_blobs (default True); fixed while a process lives, chosen again at every restart
     marked    : the rows with should_announce=1; together with the status column this decides what
                 SQLiteStorage.get_blobs_to_announce hands to the DHT announcer (announce_list below) *)
From Coq Require Import NArith List Bool.
From Coq.Strings Require Import Byte.
From LV Require Import Lib.Bytes.
Import ListNotations.
Local Open Scope N_scope.

Definition name := bytes.

(* EFile: a regular file OR a symbolic link to one (os.path.isfile, os.stat, open all follow links, os.remove takes
   the link away: the code cannot tell them apart);  EDir: a directory;  ELink: a dangling symbolic link
   (listed by os.scandir, os.path.isfile false; open(..,'wb') through it creates the target);
   ELoop: a symbolic link that leads back to itself (ELOOP): listed by os.scandir, DirEntry.is_file() raises
   OSError (counted as "not a file" since b5ea849), os.path.isfile false, every open() fails *)
Inductive entry := EFile (size : N) | EDir | ELink | ELoop.
Inductive status := Pending | Finished.

Definition status_eqb (a b : status) : bool :=
  match a, b with Pending, Pending => true | Finished, Finished => true | _, _ => false end.

(* ---------- is_valid_blobhash: len(s) == 96 and re.compile("^[a-f,0-9]+$").match(s) ----------
   the character class contains the comma; `$` also matches just before ONE trailing newline *)
Definition hexish (b : byte) : bool :=
  let n := N_of_byte b in
  ((97 <=? n) && (n <=? 102)) || ((48 <=? n) && (n <=? 57)) || (n =? 44).
Definition is_nl (b : byte) : bool := N_of_byte b =? 10.

Definition hexmatch (s : bytes) : bool :=
  match rev s with
  | [] => false
  | l :: r => if is_nl l then (match r with [] => false | _ => forallb hexish r end)
              else forallb hexish s
  end.

Definition valid_name (n : name) : bool := Nat.eqb (length n) 96 && hexmatch n.

(* ---------- finite maps / sets as lists ---------- *)
Section Assoc.
  Context {V : Type}.
  Fixpoint lookup (m : list (name * V)) (k : name) : option V :=
    match m with
    | [] => None
    | (k', v) :: r => if bytes_eqb k' k then Some v else lookup r k
    end.
  Definition remove_key (m : list (name * V)) (k : name) : list (name * V) :=
    filter (fun p => negb (bytes_eqb (fst p) k)) m.
  Definition set_key (m : list (name * V)) (k : name) (v : V) : list (name * V) :=
    (k, v) :: remove_key m k.
End Assoc.

Definition mem (k : name) (l : list name) : bool := existsb (bytes_eqb k) l.
Definition set_add (k : name) (l : list name) : list name := if mem k l then l else k :: l.
Definition set_remove (k : name) (l : list name) : list name := filter (fun x => negb (bytes_eqb x k)) l.

(* ---------- disk ---------- *)
Definition disk_t := list (name * entry).
Definition is_file (d : disk_t) (n : name) : bool :=
  match lookup d n with Some (EFile _) => true | _ => false end.
Definition is_dir (d : disk_t) (n : name) : bool :=
  match lookup d n with Some EDir => true | _ => false end.
(* what a plain open(path,'wb') from outside cannot write through: a directory or a symlink loop *)
Definition blocks_open (d : disk_t) (n : name) : bool :=
  match lookup d n with Some EDir | Some ELoop => true | _ => false end.
(* { item.name for item in os.scandir(blob_dir) if is_valid_blobhash(item.name) and item.is_file() }
   DirEntry.is_file() follows symlinks: regular files and links to regular files, NOT directories, NOT dangling
   links (repaired in 8ca445d).  Written with the directory's own lookup so that no uniqueness assumption on the
   entry list is needed; with unique names it is the plain filter. *)
Definition listed (d : disk_t) : list name :=
  map fst (filter (fun p => valid_name (fst p) && is_file d (fst p)) d).
(* the scan before the repair: every entry whose name is a blob hash, whatever it is *)
Definition listed_all (d : disk_t) : list name := map fst (filter (fun p => valid_name (fst p)) d).

(* ---------- blob table ---------- *)
Definition db_t := list (name * status).
Definition db_status (db : db_t) (h : name) : option status := lookup db h.
Definition is_finished (db : db_t) (h : name) : bool :=
  match db_status db h with Some Finished => true | _ => false end.
(* insert or ignore into blob values (h, ..., st, ...) *)
Definition db_insert_ignore (db : db_t) (h : name) (st : status) : db_t :=
  match db_status db h with Some _ => db | None => db ++ [(h, st)] end.
(* update blob set status=st where blob_hash=h *)
Definition db_update (db : db_t) (h : name) (st : status) : db_t :=
  map (fun p => if bytes_eqb (fst p) h then (fst p, st) else p) db.
(* SQLiteStorage.add_blobs((h, ...), finished=f) *)
Definition db_add (db : db_t) (h : name) (finished : bool) : db_t :=
  if finished then db_update (db_insert_ignore db h Finished) h Finished
  else db_insert_ignore db h Pending.
(* delete from blob where blob_hash=h *)
Definition db_delete (db : db_t) (h : name) : db_t := remove_key db h.

(* SQLiteStorage.sync_missing_blobs(blob_files):
     finished = select blob_hash from blob where status='finished'
     update blob set status='pending' for finished - blob_files ;  return blob_files & finished *)
Definition sync_missing (db : db_t) (files : list name) : db_t * list name :=
  (map (fun p => if is_finished db (fst p) && negb (mem (fst p) files) then (fst p, Pending) else p) db,
   filter (is_finished db) files).

(* ---------- state ---------- *)
Definition centry := (bool * bool)%type.       (* (BlobFile?, verified) *)
Definition cache_t := list (name * centry).

Record state := mkState {
  disk : disk_t;
  db : db_t;
  completed : list name;
  cache : cache_t;
  alive : bool;
  save : bool;
  marked : list name }.          (* the hashes whose row has should_announce=1 (set by store_stream for sd blobs) *)

Definition init : state := mkState [] [] [] [] true true [].

(* BlobManager.is_blob_verified(h) for a valid h (length None) *)
Definition is_blob_verified (d : disk_t) (c : cache_t) (h : name) : bool :=
  is_file d h && match lookup c h with Some e => snd e | None => true end.

(* BlobManager.ensure_completed_blobs_status(hs): for every h that is_blob_verified: get_blob(h) (which caches a
   verified BlobFile when h was not cached) and add_blobs(h, finished=True).  Batching by 500 is not observable. *)
Fixpoint ensure_completed (d : disk_t) (hs : list name) (db : db_t) (c : cache_t)
  : db_t * cache_t :=
  match hs with
  | [] => (db, c)
  | h :: r =>
      if is_blob_verified d c h
      then ensure_completed d r (db_add db h true)
             (match lookup c h with Some _ => c | None => set_key c h (true, true) end)
      else ensure_completed d r db c
  end.

(* BlobManager.setup *)
Definition setup (s : state) : state :=
  let files := listed (disk s) in
  let (db1, to_add) := sync_missing (db s) files in
  let completed1 := fold_left (fun acc h => set_add h acc) to_add (completed s) in
  let rest := filter (fun f => negb (mem f to_add)) files in
  let (db2, cache2) := ensure_completed (disk s) rest db1 (cache s) in
  mkState (disk s) db2 completed1 cache2 true (save s) (marked s).

(* BlobManager.setup as it was BEFORE 8ca445d (scan = listed_all); kept only for C18_old_scan_refuted *)
Definition setup_old (s : state) : state :=
  let files := listed_all (disk s) in
  let (db1, to_add) := sync_missing (db s) files in
  let completed1 := fold_left (fun acc h => set_add h acc) to_add (completed s) in
  let rest := filter (fun f => negb (mem f to_add)) files in
  let (db2, cache2) := ensure_completed (disk s) rest db1 (cache s) in
  mkState (disk s) db2 completed1 cache2 true (save s) (marked s).

(* the process is gone: everything in memory is lost, disk and database stay *)
Definition wipe (s : state) (al : bool) : state := mkState (disk s) (db s) [] [] al (save s) (marked s).

(* a (re)start of the blob manager: fresh BlobManager (or stop() on the old one), then setup() *)
Definition restart (s : state) : state := setup (wipe s true).
Definition restart_old (s : state) : state := setup_old (wipe s true).
(* the same with config.save_blobs set to b for the new process *)
Definition set_save (s : state) (b : bool) : state := mkState (disk s) (db s) (completed s) (cache s) (alive s) b (marked s).
Definition restart_with (s : state) (b : bool) : state := restart (set_save s b).

(* ---------- operations between restarts ---------- *)
Inductive result := RDone | RHave | RBusy | RInvalid | RNoLength | RDead | RPrecondition | RFailed.

(* BlobManager.get_blob(h, length) for a valid h: returns (disk', the returned object (BlobFile?, verified), cache').
   A cache miss builds, through _get_blob, a BlobFile when config.save_blobs or the file exists, else a BlobBuffer.
   BlobFile(h, length): an existing file whose size differs from a given non-zero length is DELETED
   (BlobFile.__init__ -> self.delete()); otherwise an existing file makes the object verified.
   (The cached-BlobBuffer-while-save_blobs branch of get_blob needs the setting to change inside one process
   lifetime and is not modelled.) *)
Definition get_blob (sv : bool) (d : disk_t) (c : cache_t) (h : name) (len : N)
  : disk_t * centry * cache_t :=
  match lookup c h with
  | Some e => (d, e, c)
  | None =>
      match lookup d h with
      | Some (EFile sz) =>
          if (len =? 0) || (len =? sz) then (d, (true, true), set_key c h (true, true))
          else (remove_key d h, (true, false), set_key c h (true, false))
      | _ => (d, (sv, false), set_key c h (sv, false))
      end
  end.

(* BlobFile._write_blob (since 1cc6188): the bytes go to '<hash>.tmp' and are renamed into place with os.replace.
   The rename replaces a symbolic link of that name (dangling, loop) by the file; onto a DIRECTORY it raises and
   nothing changes under the blob's name.  ('<hash>.tmp' scratch files are never blob names -- '.', 't', 'm' are
   outside the hash alphabet -- and are left out of the modelled directory.) *)
Definition write_file (d : disk_t) (h : name) (sz : N) : disk_t :=
  if is_dir d h then d else set_key d h (EFile sz).

(* BlobManager.blob_completed(blob) for a BlobFile, including the storage.add_blobs task it schedules *)
Definition blob_completed (s : state) (h : name) : state :=
  mkState (disk s) (db_add (db s) h true) (set_add h (completed s)) (cache s) (alive s) (save s) (marked s).
(* ... and for a BlobBuffer: add_blobs(..., finished=False), nothing is reported as completed *)
Definition buffer_completed (s : state) (h : name) : state :=
  mkState (disk s) (db_add (db s) h false) (completed s) (cache s) (alive s) (save s) (marked s).

(* One blob download, as BlobDownloader.download_blob + BlobExchangeClientProtocol drive it:
   blob = get_blob(h, len); verified -> nothing to do; not blob.is_writeable() (a file is there) -> give up;
   writer = blob.get_blob_writer(); blob.set_length(len); writer.write(data)  -> save_verified_blob -> file write
   -> if the write succeeded (82794e2): verified.set() and blob_completed; a failed write (a directory sits at the
   blob's path) leaves the blob unverified and nothing recorded. *)
Definition complete (s : state) (h : name) (len : N) : state * result :=
  if negb (valid_name h) then (s, RInvalid) else
  let '(d1, e, c1) := get_blob (save s) (disk s) (cache s) h len in
  let s1 := mkState d1 (db s) (completed s) c1 (alive s) (save s) (marked s) in
  if snd e then (s1, RHave)
  else if fst e && is_file d1 h then (s1, RBusy)              (* BlobFile.is_writeable() is false *)
  else if len =? 0 then (s1, RNoLength)
  else if fst e && is_dir d1 h then (s1, RFailed)
  else if fst e then
    let s2 := mkState (write_file d1 h len) (db s) (completed s) (set_key c1 h (true, true)) (alive s) (save s) (marked s) in
    (blob_completed s2 h, RDone)
  else
    let s2 := mkState d1 (db s) (completed s) (set_key c1 h (false, true)) (alive s) (save s) (marked s) in
    (buffer_completed s2 h, RDone).

(* a download that was started and never finished: only get_blob(h, len) *)
Definition touch (s : state) (h : name) (len : N) : state * result :=
  if negb (valid_name h) then (s, RInvalid) else
  let '(d1, e, c1) := get_blob (save s) (disk s) (cache s) h len in
  (mkState d1 (db s) (completed s) c1 (alive s) (save s) (marked s), if snd e then RHave else RDone).

(* the same download, but the process dies before the database write: either between the rename into place and
   storage.add_blobs (written = len: the whole file is there), or in the middle of writing '<hash>.tmp'
   (written < len: nothing appears under the blob's name).  A BlobBuffer leaves nothing. *)
Definition crash_write (s : state) (h : name) (len written : N) : state * result :=
  if negb (valid_name h) then (s, RInvalid) else
  let '(d1, e, c1) := get_blob (save s) (disk s) (cache s) h len in
  let s1 := mkState d1 (db s) (completed s) c1 (alive s) (save s) (marked s) in
  if snd e then (s1, RHave)
  else if fst e && is_file d1 h then (s1, RBusy)
  else if len =? 0 then (s1, RNoLength)
  else (mkState (if fst e && (written =? len) then write_file d1 h len else d1) (db s) [] [] false (save s) (marked s),
        RDone).

(* BlobFile.create_from_unencrypted(..., blob_completed_callback=blob_manager.blob_completed) on a fresh hash:
   the BlobFile is NOT entered in BlobManager.blobs *)
Definition create_blob (s : state) (hl : name * N) : state :=
  blob_completed (mkState (write_file (disk s) (fst hl) (snd hl)) (db s) (completed s) (cache s) (alive s) (save s) (marked s))
                 (fst hl).

Definition fresh (s : state) (h : name) : bool :=
  valid_name h && match lookup (disk s) h with None => true | Some _ => false end
  && match lookup (cache s) h with None => true | Some _ => false end.

Fixpoint all_distinct (l : list name) : bool :=
  match l with [] => true | x :: r => negb (mem x r) && all_distinct r end.

(* StreamManager.create: StreamDescriptor.create_stream (content blobs, then the sd blob, each through
   create_from_unencrypted / make_sd_blob with the blob_completed callback), then
   storage.store_stream(blob_manager.get_blob(sd_hash), descriptor): insert-or-ignore 'pending' rows.
   Precondition (keys are random in real use): every hash is new to disk and cache and they are pairwise distinct. *)
Definition publish (s : state) (hs : list (name * N)) (sd : name * N) : state * result :=
  let all := hs ++ [sd] in
  if negb (forallb (fun hl => fresh s (fst hl) && negb (snd hl =? 0)) all && all_distinct (map fst all))
  then (s, RPrecondition) else
  let s1 := fold_left create_blob all s in
  let c2 := set_key (cache s1) (fst sd) (true, true) in               (* get_blob(sd_hash): cache miss, file exists *)
  let db2 := fold_left (fun acc hl => db_insert_ignore acc (fst hl) Pending) all (db s1) in
  (* store_stream: update blob set should_announce=1 where blob_hash in (sd_hash) *)
  (mkState (disk s1) db2 (completed s1) c2 (alive s1) (save s1) (set_add (fst sd) (marked s1)), RDone).

(* the same publish, but the process dies when the files of the first k hashes (of hs ++ [sd]) are written and
   only the first j of them (j <= k) have been recorded by storage.add_blobs *)
Definition publish_crash (s : state) (hs : list (name * N)) (sd : name * N) (k j : nat) : state * result :=
  let all := hs ++ [sd] in
  if negb (forallb (fun hl => fresh s (fst hl) && negb (snd hl =? 0)) all && all_distinct (map fst all))
  then (s, RPrecondition) else
  let written := firstn k all in
  let recorded := firstn (Nat.min j k) all in
  let d1 := fold_left (fun acc hl => write_file acc (fst hl) (snd hl)) written (disk s) in
  let db1 := fold_left (fun acc hl => db_add acc (fst hl) true) recorded (db s) in
  (mkState d1 db1 [] [] false (save s) (marked s), RDone).

(* BlobManager.delete_blob(h) for a valid h.  A cached BlobBuffer is only dropped (AbstractBlob.delete touches no
   file, even if one has appeared meanwhile).  The hash always leaves completed_blob_hashes (1ed13b5). *)
Definition delete_blob (s : state) (h : name) : state :=
  match lookup (cache s) h with
  | None => mkState (if is_file (disk s) h then remove_key (disk s) h else disk s)
                    (db s) (set_remove h (completed s)) (cache s) (alive s) (save s) (marked s)
  | Some e => mkState (if fst e && is_file (disk s) h then remove_key (disk s) h else disk s)
                      (db s) (set_remove h (completed s)) (remove_key (cache s) h) (alive s) (save s) (marked s)
  end.
(* ... as it was before 1ed13b5: a hash that is not in BlobManager.blobs stayed in completed_blob_hashes *)
Definition delete_blob_old (s : state) (h : name) : state :=
  match lookup (cache s) h with
  | None => mkState (if is_file (disk s) h then remove_key (disk s) h else disk s)
                    (db s) (completed s) (cache s) (alive s) (save s) (marked s)
  | Some _ => delete_blob s h
  end.

(* the loop of BlobManager.delete_blobs: an invalid hash raises and aborts before the database is touched *)
Fixpoint delete_loop (s : state) (hs : list name) : state * bool :=
  match hs with
  | [] => (s, true)
  | h :: r => if valid_name h then delete_loop (delete_blob s h) r else (s, false)
  end.

Definition db_delete_all (db : db_t) (hs : list name) : db_t := fold_left db_delete hs db.
(* a deleted row takes its should_announce flag with it *)
Definition unmark_all (m : list name) (hs : list name) : list name := fold_left (fun acc h => set_remove h acc) hs m.

(* BlobManager.delete_blobs(hs, delete_from_db)   (jsonrpc_blob_delete, DiskSpaceManager) *)
Definition delete_blobs (s : state) (hs : list name) (from_db : bool) : state * result :=
  let (s1, ok) := delete_loop s hs in
  if negb ok then (s1, RInvalid)
  else if from_db then (mkState (disk s1) (db_delete_all (db s1) hs) (completed s1) (cache s1) (alive s1) (save s1)
                                (unmark_all (marked s1) hs), RDone)
  else (s1, RDone).

(* StreamManager.delete: delete_blobs([sd] + hs, delete_from_db=False) then storage.delete_stream(descriptor) *)
Definition stream_delete (s : state) (hs : list name) (sd : name) : state * result :=
  let (s1, ok) := delete_loop s (sd :: hs) in
  if negb ok then (s1, RInvalid)
  else (mkState (disk s1) (db_delete_all (db s1) (hs ++ [sd])) (completed s1) (cache s1) (alive s1) (save s1)
             (unmark_all (marked s1) (hs ++ [sd])), RDone).

(* ---------- daemon start: BlobManager.setup, then StreamManager.initialize_from_database ----------
   A managed stream (a file with a claim) is given by its sd hash, the length of its sd blob and its content hashes.
   Precondition of the tie (kept by the generators): the blob_length column of the stream's rows holds the
   descriptor's lengths, so that StreamDescriptor.recover reproduces the sd hash whenever all rows are there. *)
(* the last component says what the sd blob FILE holds at the moment of the start, if there is one: false = a
   descriptor that parses as JSON (valid or not), true = bytes that are not JSON (damaged behind the daemon's back) *)
Definition stream_t := (name * N * list name * bool)%type.
Definition st_sd (st : stream_t) : name := fst (fst (fst st)).
Definition st_len (st : stream_t) : N := snd (fst (fst st)).
Definition st_blobs (st : stream_t) : list name := snd (fst st).
Definition st_not_json (st : stream_t) : bool := snd st.
Definition st_names (st : stream_t) : list name := st_sd st :: st_blobs st.

(* initialize_from_database: `if not self.blob_manager.is_blob_verified(file_info['sd_hash'])` -> to_recover *)
Definition needs_recovery (s : state) (st : stream_t) : bool := negb (is_blob_verified (disk s) (cache s) (st_sd st)).
(* StreamDescriptor.recover returns a descriptor only if the rebuilt sd hash matches: every content row present *)
Definition rows_present (s : state) (st : stream_t) : bool :=
  forallb (fun h => match db_status (db s) h with Some _ => true | None => false end) (st_blobs st).

(* recover_stream, first half: sd_blob = blob_manager.get_blob(sd_hash) -- always -- and, when the rows are there,
   descriptor.make_sd_blob(sd_blob): set_length; if not verified: get_blob_writer().write(sd_data) -> file (or
   buffer) -> verified -> blob_completed.  (A cached unverified BlobFile with a file present would raise; a fresh
   start never has one.  With a DIRECTORY under the sd name the write fails and, since 82794e2, make_sd_blob waits
   for `verified` for ever: the theorems exclude that input.) *)
Definition recover_sd (s : state) (st : stream_t) : state :=
  let '(d1, e, c1) := get_blob (save s) (disk s) (cache s) (st_sd st) 0 in
  let s1 := mkState d1 (db s) (completed s) c1 (alive s) (save s) (marked s) in
  if negb (rows_present s st) then s1
  else if snd e then s1
  else if fst e && is_file d1 (st_sd st) then s1
  else if fst e then
    blob_completed (mkState (write_file d1 (st_sd st) (st_len st)) (db s) (completed s)
                            (set_key c1 (st_sd st) (true, true)) (alive s) (save s) (marked s)) (st_sd st)
  else
    buffer_completed (mkState d1 (db s) (completed s) (set_key c1 (st_sd st) (false, true)) (alive s) (save s)
                              (marked s)) (st_sd st).

(* storage.recover_streams for one restored stream: delete_stream (the rows of content blobs and sd go, with their
   should_announce flags) then store_stream (all back as 'pending', should_announce=1 on the sd blob) *)
Definition store_recovered (s : state) (st : stream_t) : state :=
  let names := st_blobs st ++ [st_sd st] in
  let db1 := db_delete_all (db s) names in
  let db2 := fold_left (fun acc h => db_insert_ignore acc h Pending) names db1 in
  mkState (disk s) db2 (completed s) (cache s) (alive s) (save s) (set_add (st_sd st) (unmark_all (marked s) names)).

(* _load_stream: blob_manager.get_stream_descriptor(sd_hash) -> get_blob(sd_hash) (cached from now on) and, if
   readable, one read; reading a BlobBuffer consumes it (its verified flag is cleared).  A descriptor that is valid
   JSON but otherwise wrong only raises InvalidStreamDescriptorError (swallowed by _load_stream).  Bytes that are NOT
   JSON make the parser call blob.delete(): the file is removed -- and (repaired behaviour) get_stream_descriptor
   then drops the hash through delete_blobs: out of BlobManager.blobs and completed_blob_hashes, row deleted. *)
Definition load_stream (s : state) (st : stream_t) : state :=
  let '(d1, e, c1) := get_blob (save s) (disk s) (cache s) (st_sd st) 0 in
  if fst e && snd e && st_not_json st then
    mkState (remove_key d1 (st_sd st)) (db_delete (db s) (st_sd st)) (set_remove (st_sd st) (completed s))
            (remove_key c1 (st_sd st)) (alive s) (save s) (set_remove (st_sd st) (marked s))
  else
  let c2 := if negb (fst e) && snd e then set_key c1 (st_sd st) (false, false) else c1 in
  mkState d1 (db s) (completed s) c2 (alive s) (save s) (marked s).

(* the same read BEFORE the repair: the file goes, the bookkeeping stays (kept for C18_damaged_sd_old_refuted) *)
Definition load_stream_old (s : state) (st : stream_t) : state :=
  let '(d1, e, c1) := get_blob (save s) (disk s) (cache s) (st_sd st) 0 in
  if fst e && snd e && st_not_json st then
    mkState (remove_key d1 (st_sd st)) (db s) (completed s) (set_key c1 (st_sd st) (true, false)) (alive s) (save s)
            (marked s)
  else
  let c2 := if negb (fst e) && snd e then set_key c1 (st_sd st) (false, false) else c1 in
  mkState d1 (db s) (completed s) c2 (alive s) (save s) (marked s).

Definition daemon_start_with (load : state -> stream_t -> state) (s : state) (streams : list stream_t) : state :=
  let s0 := restart s in
  let to_recover := filter (needs_recovery s0) streams in
  let restored := filter (rows_present s0) to_recover in
  let s1 := fold_left recover_sd to_recover s0 in
  let s2 := fold_left store_recovered restored s1 in
  let to_check := flat_map st_names restored in
  let (db3, c3) := ensure_completed (disk s2) to_check (db s2) (cache s2) in
  let s3 := mkState (disk s2) db3 (completed s2) c3 (alive s2) (save s2) (marked s2) in
  fold_left load streams s3.
Definition daemon_start := daemon_start_with load_stream.
Definition daemon_start_old := daemon_start_with load_stream_old.

Inductive op :=
| OComplete (h : name) (len : N)
| OTouch (h : name) (len : N)
| OCrashWrite (h : name) (len written : N)
| OPublish (hs : list (name * N)) (sd : name * N)
| OPublishCrash (hs : list (name * N)) (sd : name * N) (k j : nat)
| ODelete (hs : list name) (from_db : bool)
| OStreamDelete (hs : list name) (sd : name)
| OExtFile (n : name) (size : N)          (* behind the daemon's back: create / overwrite a file *)
| OExtDir (n : name)                      (* behind the daemon's back: create a directory (outside the property) *)
| OExtRemove (n : name)                   (* behind the daemon's back: remove the entry *)
| OExtLink (n : name) (target : option N) (* behind the daemon's back: a symlink named n to a regular file of that
                                             size (a relocated blob), or a dangling one (None); no-op if n exists *)
| OExtLoop (n : name)                     (* behind the daemon's back: a symlink named n pointing to itself *)
| OExtDb (h : name) (st : option status)  (* state injection: force / drop a row (explores arbitrary pre-states) *)
| OExtMark (h : name)                     (* state injection: should_announce=1 on the row of h, if there is one *)
| ORestart
| ORestartSave (b : bool)
| ODaemonStart (b : option bool) (streams : list stream_t).   (* (config.save_blobs := b;) restart followed by the
                                                                 stream manager's start-up for these streams *)             (* restart with config.save_blobs = b *)

Definition with_disk (s : state) (d : disk_t) : state := mkState d (db s) (completed s) (cache s) (alive s) (save s) (marked s).
Definition with_db (s : state) (b : db_t) : state := mkState (disk s) b (completed s) (cache s) (alive s) (save s) (marked s).

Definition step (s : state) (o : op) : state * result :=
  match o with
  | OExtFile n sz => (if blocks_open (disk s) n then s else with_disk s (set_key (disk s) n (EFile sz)), RDone)
  | OExtDir n => (match lookup (disk s) n with None => with_disk s (set_key (disk s) n EDir) | Some _ => s end, RDone)
  | OExtRemove n => (with_disk s (remove_key (disk s) n), RDone)
  | OExtLink n t => (match lookup (disk s) n with
                     | None => with_disk s (set_key (disk s) n (match t with Some sz => EFile sz | None => ELink end))
                     | Some _ => s end, RDone)
  | OExtLoop n => (match lookup (disk s) n with None => with_disk s (set_key (disk s) n ELoop) | Some _ => s end, RDone)
  | OExtDb h None => (mkState (disk s) (db_delete (db s) h) (completed s) (cache s) (alive s) (save s)
                              (set_remove h (marked s)), RDone)
  | OExtDb h (Some st) => (with_db s (db_update (db_insert_ignore (db s) h st) h st), RDone)
  | OExtMark h => (match db_status (db s) h with
                   | Some _ => mkState (disk s) (db s) (completed s) (cache s) (alive s) (save s) (set_add h (marked s))
                   | None => s end, RDone)
  | ORestart => (restart s, RDone)
  | ORestartSave b => (restart_with s b, RDone)
  | ODaemonStart b streams => (daemon_start (match b with Some v => set_save s v | None => s end) streams, RDone)
  | _ =>
    if negb (alive s) then (s, RDead) else
    match o with
    | OComplete h len => complete s h len
    | OTouch h len => touch s h len
    | OCrashWrite h len w => crash_write s h len w
    | OPublish hs sd => publish s hs sd
    | OPublishCrash hs sd k j => publish_crash s hs sd k j
    | ODelete hs f => delete_blobs s hs f
    | OStreamDelete hs sd => stream_delete s hs sd
    | _ => (s, RDone)
    end
  end.

Fixpoint run (s : state) (ops : list op) : state :=
  match ops with
  | [] => s
  | o :: r => run (fst (step s o)) r
  end.

(* operations that plant something that is not a (link to a) regular file in the blob directory; the property's
   theorems no longer need to exclude them (only the auxiliary files_only invariant of the proofs does) *)
Definition is_ext_dir (o : op) : bool :=
  match o with OExtDir _ | OExtLink _ None | OExtLoop _ => true | _ => false end.

(* SQLiteStorage.get_blobs_to_announce() with every row due (next_announce_time in the past, no single_announce) and
   the limit not reached:
     announce_head_and_sd_only = True  (default): rows with should_announce=1 and status='finished'
     announce_head_and_sd_only = False          : rows with status='finished'  *)
Definition announce_list (head_and_sd_only : bool) (s : state) : list name :=
  filter (fun h => is_finished (db s) h && (negb head_and_sd_only || mem h (marked s))) (map fst (db s)).
