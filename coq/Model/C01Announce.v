(* C01, the "announced" clause: which blob hashes SQLiteStorage.get_blobs_to_announce hands to the BlobAnnouncer.
   Mirrors lbry/extras/daemon/storage.py: the blob table (blob_hash, status, should_announce, single_announce,
   next_announce_time), add_blobs (insert-or-ignore, then "update ... set status='finished'" when finished=True),
   set_announce, should_single_announce_blobs, update_last_announced_blobs and the two SELECTs of
   get_blobs_to_announce (announce_head_and_sd_only true / false).  BlobManager.blob_completed - the completion
   callback of the blob model (Model/C01.v, QCompleted) - is the caller of add_blobs(..., finished=isinstance(blob,
   BlobFile)).  Executable definitions only.  Not modelled: "order by next_announce_time asc limit ?" (the result
   is compared as a set, with fewer rows than the limit). *)
From Coq Require Import NArith List Bool.
Import ListNotations.
Local Open Scope N_scope.

Inductive astatus := APending | AFinished.
Record arow := mkR { r_hash : N; r_status : astatus; r_should : bool; r_single : bool; r_next : N }.
Definition table := list arow.

Definition HALF_EXPIRATION : N := 43200.     (* DATA_EXPIRATION / 2 *)

Definition is_fin (r : arow) : bool := match r_status r with AFinished => true | APending => false end.

Fixpoint has (h : N) (t : table) : bool :=
  match t with [] => false | r :: t' => (r_hash r =? h) || has h t' end.

Definition upd_rows (h : N) (f : arow -> arow) (t : table) : table :=
  map (fun r => if r_hash r =? h then f r else r) t.

(* add_blobs((h, ...), finished) *)
Definition add_blob (h : N) (finished : bool) (t : table) : table :=
  let t1 := if has h t then t else t ++ [mkR h (if finished then AFinished else APending) false false 0] in
  if finished then upd_rows h (fun r => mkR (r_hash r) AFinished (r_should r) (r_single r) (r_next r)) t1 else t1.

Definition set_should (h : N) (t : table) : table :=
  upd_rows h (fun r => mkR (r_hash r) (r_status r) true (r_single r) (r_next r)) t.

(* should_single_announce_blobs([h], immediate) at time now: only rows that are finished *)
Definition single_announce (h : N) (immediate : bool) (now : N) (t : table) : table :=
  upd_rows h (fun r => if is_fin r then mkR (r_hash r) (r_status r) (r_should r) true (if immediate then now else r_next r)
                       else r) t.

(* update_last_announced_blobs([h]) at time now *)
Definition announced (h : N) (now : N) (t : table) : table :=
  upd_rows h (fun r => mkR (r_hash r) (r_status r) (r_should r) false (now + HALF_EXPIRATION)) t.

(* sync_missing_blobs / delete: a finished row whose file is gone goes back to pending (C18), a row may be deleted *)
Definition set_pending (h : N) (t : table) : table :=
  upd_rows h (fun r => mkR (r_hash r) APending (r_should r) (r_single r) (r_next r)) t.
Definition delete_row (h : N) (t : table) : table := filter (fun r => negb (r_hash r =? h)) t.

(* get_blobs_to_announce() at time now *)
Definition to_announce (head_and_sd_only : bool) (now : N) (t : table) : list N :=
  map r_hash (filter (fun r => (r_next r <? now) && is_fin r
                               && (negb head_and_sd_only || r_should r || r_single r)) t).

Inductive aop :=
| AAdd (h : N) (finished : bool) | AShould (h : N) | ASingle (h : N) (immediate : bool) (now : N)
| AAnnounced (h : N) (now : N) | ASetPending (h : N) | ADelete (h : N).

Definition astep (o : aop) (t : table) : table :=
  match o with
  | AAdd h f => add_blob h f t
  | AShould h => set_should h t
  | ASingle h i now => single_announce h i now t
  | AAnnounced h now => announced h now t
  | ASetPending h => set_pending h t
  | ADelete h => delete_row h t
  end.

Definition arun (ops : list aop) (t : table) : table := fold_left (fun t o => astep o t) ops t.
