(* C16 model: a whole Claim / Support on the wire = envelope around a protobuf message; a Purchase = 'P'
   followed by the message.  These are the entry points the driver runs against to_bytes / from_bytes. *)
From Coq Require Import NArith List Bool.
From Coq.Strings Require Import Byte.
From LV Require Import Lib.Bytes Model.C16_Env Model.C16_Wire.
Import ListNotations.

Definition mk_env (sig : option (bytes * bytes)) (payload : bytes) : envelope :=
  match sig with
  | None => Unsigned payload
  | Some (h, s) => Signed h s payload
  end.

Definition sig_wf (sig : option (bytes * bytes)) : Prop :=
  match sig with
  | None => True
  | Some (h, s) => length h = 20%nat /\ length s = 64%nat
  end.

(* to_bytes of an object whose message holds the field tree fs *)
Definition encode_all (sig : option (bytes * bytes)) (fs : list tfield) : bytes :=
  env_encode (mk_env sig (ser_tree fs)).

(* from_bytes: the envelope, then the message of type m parsed by the schema *)
Definition decode_all (sch : schema) (depth : nat) (m : N) (data : bytes) : env_result * wres (list tfield) :=
  match env_decode data with
  | EnvOk e => (EnvOk e, parse_tree sch depth m (env_payload e))
  | EnvEmpty => (EnvEmpty, WErr)
  | EnvVersion => (EnvVersion, WErr)
  end.

Definition purchase_encode_all (fs : list tfield) : bytes := purchase_encode (ser_tree fs).
Definition purchase_decode_all (sch : schema) (depth : nat) (m : N) (data : bytes) : option (wres (list tfield)) :=
  match purchase_decode data with
  | Some p => Some (parse_tree sch depth m p)
  | None => None
  end.

(* compat.from_types_v1, signed legacy claims: claim.unsigned_payload is the v1 message with its
   publisherSignature (top-level field 5) cleared and serialised again -- the bytes the legacy signature
   was computed over. *)
Definition V1_SIGNATURE_FIELD : N := 5.
Definition drop_field (k : N) (fs : list field) : list field :=
  filter (fun f : field => negb (N.eqb (fst f) k)) fs.
Definition v1_unsigned_payload (data : bytes) : wres bytes :=
  match wire_parse data with
  | WOk fs => WOk (ser_fields (drop_field V1_SIGNATURE_FIELD fs))
  | WErr => WErr
  | WGroup => WGroup
  end.
