(* C16 model: a whole Claim / Support on the wire = envelope around a protobuf message; a Purchase = 'P'
   followed by the message.  These are the entry points the driver runs against to_bytes / from_bytes. *)
From Coq Require Import NArith List Bool.
From Coq.Strings Require Import Byte.
From LV Require Import Lib.Bytes Model.C16_Env Model.C16_Wire.
Import ListNotations.

Definition mk_env (sig : option (bytes * bytes)) (payload : bytes) : envelope :=
  match sig with
  | None => Unsigned payload
  | Some (h, s) => Signed h s payload
  end.

Definition sig_wf (sig : option (bytes * bytes)) : Prop :=
  match sig with
  | None => True
  | Some (h, s) => length h = 20%nat /\ length s = 64%nat
  end.

(* to_bytes of an object whose message holds the field tree fs *)
Definition encode_all (sig : option (bytes * bytes)) (fs : list tfield) : bytes :=
  env_encode (mk_env sig (ser_tree fs)).

(* from_bytes: the envelope, then the message of type m parsed by the schema *)
Definition decode_all (sch : schema) (depth : nat) (m : N) (data : bytes) : env_result * wres (list tfield) :=
  match env_decode data with
  | EnvOk e => (EnvOk e, parse_tree sch depth m (env_payload e))
  | EnvEmpty => (EnvEmpty, WErr)
  | EnvVersion => (EnvVersion, WErr)
  end.

Definition purchase_encode_all (fs : list tfield) : bytes := purchase_encode (ser_tree fs).
Definition purchase_decode_all (sch : schema) (depth : nat) (m : N) (data : bytes) : option (wres (list tfield)) :=
  match purchase_decode data with
  | Some p => Some (parse_tree sch depth m p)
  | None => None
  end.
