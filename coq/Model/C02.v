(* C02 model: stream publish / decrypt and descriptor commitments.
   Mirrors lbry/stream/descriptor.py (file_reader, create_stream, get_blob_hashsum, calculate_stream_hash,
   as_json, old_sort_json, calculate_sd_hash, _from_stream_descriptor_blob, sanitize_file_name),
   lbry/blob/blob_file.py (create_from_unencrypted, decrypt_blob_bytes) and lbry/blob/blob_info.py (as_dict).
   Executable definitions only.  Primitives are Section variables:
     H  = sha384,   E k iv p = AES-CBC(PKCS7 p),   D k iv c = the inverse (None = ValueError),
     maxb = lbry.blob.MAX_BLOB_SIZE. *)
From Coq Require Import NArith ZArith List Bool.
From Coq.Strings Require Import Byte.
From LV Require Import Lib.Bytes Lib.Decimal.
Import ListNotations.
Local Open Scope N_scope.

(* ------------------------------------------------------------------------------------------ *)
(* text helpers *)

Definition bytes_of_Ns (l : list N) : bytes := map byte_of_N l.
Definition Ns_of_bytes (b : bytes) : list N := map N_of_byte b.

(* binascii.hexlify: lower case *)
Definition hex_digit (n : N) : byte := byte_of_N (if n <? 10 then 48 + n else 87 + n).
Fixpoint hex (b : bytes) : bytes :=
  match b with
  | [] => []
  | x :: r => hex_digit (N_of_byte x / 16) :: hex_digit (N_of_byte x mod 16) :: hex r
  end.

(* binascii.unhexlify accepts both cases *)
Definition hexval (b : byte) : option N :=
  let v := N_of_byte b in
  if (48 <=? v) && (v <=? 57) then Some (v - 48)
  else if (97 <=? v) && (v <=? 102) then Some (v - 87)
  else if (65 <=? v) && (v <=? 70) then Some (v - 55)
  else None.
Fixpoint unhex (s : bytes) : option bytes :=
  match s with
  | [] => Some []
  | [_] => None
  | a :: b :: r =>
      match hexval a, hexval b, unhex r with
      | Some x, Some y, Some t => Some (byte_of_N (16 * x + y) :: t)
      | _, _, _ => None
      end
  end.

(* strict UTF-8 validity (bytes.decode()): shortest form, no surrogates, <= U+10FFFF *)
Definition cont (b : N) : bool := (128 <=? b) && (b <=? 191).
Definition in_rng (lo hi b : N) : bool := (lo <=? b) && (b <=? hi).
Fixpoint utf8_ok_n (fuel : nat) (s : list N) : bool :=
  match fuel with
  | O => match s with [] => true | _ => false end
  | S k =>
    match s with
    | [] => true
    | a :: r =>
      if a <? 128 then utf8_ok_n k r
      else if in_rng 194 223 a then
        match r with b :: r' => cont b && utf8_ok_n k r' | _ => false end
      else if in_rng 224 239 a then
        match r with
        | b :: c :: r' =>
            (if a =? 224 then in_rng 160 191 b else if a =? 237 then in_rng 128 159 b else cont b)
            && cont c && utf8_ok_n k r'
        | _ => false end
      else if in_rng 240 244 a then
        match r with
        | b :: c :: d :: r' =>
            (if a =? 240 then in_rng 144 191 b else if a =? 244 then in_rng 128 143 b else cont b)
            && cont c && cont d && utf8_ok_n k r'
        | _ => false end
      else false
    end
  end.
Definition utf8_ok (s : bytes) : bool := utf8_ok_n (length s) (Ns_of_bytes s).

(* str.encode() for a list of code points (the harness never passes surrogates) *)
Definition utf8_cp (c : N) : list N :=
  if c <? 128 then [c]
  else if c <? 2048 then [192 + c / 64; 128 + c mod 64]
  else if c <? 65536 then [224 + c / 4096; 128 + (c / 64) mod 64; 128 + c mod 64]
  else [240 + c / 262144; 128 + (c / 4096) mod 64; 128 + (c / 64) mod 64; 128 + c mod 64].
Definition utf8_enc (s : list N) : bytes := bytes_of_Ns (flat_map utf8_cp s).

Definition ascii (s : list N) : bytes := bytes_of_Ns s.

(* ------------------------------------------------------------------------------------------ *)
(* sanitize_file_name over code points *)

Definition c_slash : N := 47.
Definition c_dot : N := 46.
Definition c_nl : N := 10.

(* the class of < > : double-quote / backslash | ? and star *)
Definition is_illegal (c : N) : bool :=
  (c =? 60) || (c =? 62) || (c =? 58) || (c =? 34) || (c =? 47) || (c =? 92) || (c =? 124) || (c =? 63) || (c =? 42).
(* [\x00-\x1F\x7F-\x9F]: every Unicode control character (category Cc) *)
Definition is_ctrl (c : N) : bool := (c <? 32) || ((127 <=? c) && (c <=? 159)).
(* [ \t] *)
Definition is_ws (c : N) : bool := (c =? 32) || (c =? 9).
Definition is_dot (c : N) : bool := c =? 46.

Fixpoint run (p : N -> bool) (s : list N) : nat :=
  match s with
  | c :: r => if p c then S (run p r) else O
  | [] => O
  end.

(* '$' without re.MULTILINE: at the end, or just before a final newline *)
Definition at_end (s : list N) : bool :=
  match s with [] => true | [c] => c =? 10 | _ => false end.

Fixpoint Ns_eqb (a b : list N) : bool :=
  match a, b with
  | [], [] => true
  | x :: a', y :: b' => (x =? y) && Ns_eqb a' b'
  | _, _ => false
  end.

(* ^CON$|^PRN$|^AUX$|^NUL$|^COM[1-9]$|^LPT[1-9]$  -- the number of code points matched *)
Definition reserved_len (s : list N) : option nat :=
  let core := match rev s with 10 :: r => rev r | _ => s end in
  match core with
  | [a; b; c] =>
      if Ns_eqb core [67; 79; 78] || Ns_eqb core [80; 82; 78] || Ns_eqb core [65; 85; 88] || Ns_eqb core [78; 85; 76]
      then Some 3%nat else None
  | [a; b; c; d] =>
      if (Ns_eqb [a; b; c] [67; 79; 77] || Ns_eqb [a; b; c] [76; 80; 84]) && (49 <=? d) && (d <=? 57)
      then Some 4%nat else None
  | _ => None
  end.

(* length of the match of RE_ILLEGAL_FILENAME_CHARS starting exactly here (leftmost alternative that
   succeeds; every quantifier is greedy over a class disjoint from what follows it, so there is no
   backtracking to model), None when no alternative matches at this position *)
Definition match_here (at_start : bool) (s : list N) : option nat :=
  match s with
  | [] => None
  | c :: _ =>
    if is_illegal c then Some (run is_illegal s)
    else if is_ctrl c then Some (run is_ctrl s)
    else
      let w1 := run is_ws s in
      let r1 := skipn w1 s in
      let d := run is_dot r1 in
      let r2 := skipn d r1 in
      let w2 := run is_ws r2 in
      if negb (Nat.eqb d 0) && at_end (skipn w2 r2) then Some (w1 + d + w2)%nat
      else if negb (Nat.eqb w1 0) && (at_start || at_end r1) then Some w1
      else if at_start then reserved_len s
      else None
  end.

(* re.sub(RE, '', s): [skip] = code points of the current match still to be dropped *)
Fixpoint strip_go (skip : nat) (at_start : bool) (s : list N) : list N :=
  match s with
  | [] => []
  | c :: r =>
    match skip with
    | S k => strip_go k false r
    | O =>
      match match_here at_start s with
      | Some (S k) => strip_go k false r
      | _ => c :: strip_go O false r
      end
    end
  end.
Definition strip (s : list N) : list N := strip_go O true s.

(* index of the last occurrence *)
Fixpoint rfind_go (p : N -> bool) (s : list N) (i : nat) (last : option nat) : option nat :=
  match s with
  | [] => last
  | c :: r => rfind_go p r (S i) (if p c then Some i else last)
  end.
Definition rfind (p : N -> bool) (s : list N) : option nat := rfind_go p s O None.

(* posixpath.splitext *)
Definition splitext (p : list N) : list N * list N :=
  let start := match rfind (fun c => c =? 47) p with Some i => S i | None => O end in
  match rfind is_dot p with
  | Some di =>
      (* dotIndex > sepIndex, and some character of p[sepIndex+1 : dotIndex] is not a dot *)
      if Nat.leb start di && negb (forallb is_dot (firstn (di - start) (skipn start p)))
      then (firstn di p, skipn di p) else (p, [])
  | None => (p, [])
  end.

Definition default_name : list N :=
  [108; 98; 114; 121; 95; 100; 111; 119; 110; 108; 111; 97; 100].   (* 'lbry_download' *)

Definition sanitize (name : list N) : list N :=
  let (fn, ext) := splitext name in
  let fn' := strip fn in
  let ext' := strip ext in
  let fn'' := match fn' with [] => default_name | _ => fn' end in
  if Nat.ltb 1 (length ext') then fn'' ++ ext' else fn''.

(* str.strip(): Python's str.isspace code points *)
Definition is_pyspace (c : N) : bool :=
  in_rng 9 13 c || in_rng 28 32 c || (c =? 133) || (c =? 160) || (c =? 5760) || in_rng 8192 8202 c ||
  (c =? 8232) || (c =? 8233) || (c =? 8239) || (c =? 8287) || (c =? 12288).
Fixpoint lstrip (s : list N) : list N :=
  match s with
  | c :: r => if is_pyspace c then lstrip r else s
  | [] => []
  end.
Definition py_strip (s : list N) : list N := rev (lstrip (rev (lstrip s))).

(* ManagedStream.suggested_file_name for a loaded descriptor: sanitize(descriptor.suggested_file_name.strip()),
   None = nothing left (the claim's source name is the fallback, outside this model); and the name save_file() uses
   when no name is given: sanitize_file_name(self.suggested_file_name) *)
Definition suggested_save_name (sugg : list N) : option (list N) :=
  match py_strip sugg with
  | [] => None
  | s => Some (sanitize s)
  end.
Definition save_file_name (sugg : list N) : option (list N) :=
  match suggested_save_name sugg with Some n => Some (sanitize n) | None => None end.

(* os.path.basename *)
Definition basename (p : list N) : list N :=
  match rfind (fun c => c =? 47) p with Some i => skipn (S i) p | None => p end.

(* storage.recover_streams (as repaired): the stored file name of a recovered stream *)
Definition recovered_file_name (sugg : list N) : list N := sanitize (basename sugg).

(* ------------------------------------------------------------------------------------------ *)
(* descriptors *)

Record blob := mkBlob { b_num : Z; b_len : Z; b_iv : bytes; b_hash : option bytes }.

(* a StreamDescriptor object; names are the UTF-8 encodings of the str attributes, key / stream hash / ivs /
   blob hashes are the (ASCII) text of the str attributes *)
Record desc := mkDesc { d_name : bytes; d_key : bytes; d_sugg : bytes; d_blobs : list blob; d_shash : bytes }.

(* the decoded JSON of an sd blob: stream_name / suggested_file_name are still hex text *)
Record sdj := mkSdj { j_name : bytes; j_key : bytes; j_sugg : bytes; j_blobs : list blob; j_shash : bytes }.

(* BlobInfo.as_dict: `if self.blob_hash:` drops None and '' *)
Definition as_dict (b : blob) : blob :=
  mkBlob (b_num b) (b_len b) (b_iv b) (match b_hash b with Some [] => None | h => h end).

Inductive verr :=
  | EIndex            (* IndexError: empty blob list *)
  | ENoTerminator     (* "Does not end with a zero-length blob." *)
  | EZeroData         (* "Contains zero-length data blob" *)
  | ETermHash         (* "Stream terminator blob should not have a hash" *)
  | EOrder            (* "Stream contains out of order or skipped blobs" *)
  | ENonAscii         (* ValueError: unhexlify of a non-ASCII str *)
  | EBinascii         (* binascii.Error: odd length / non-hex digit *)
  | EUnicode          (* UnicodeDecodeError *)
  | EKey              (* KeyError 'blob_hash' in get_blob_hashsum *)
  | EStreamHash.      (* "Stream hash does not match stream metadata" *)

Inductive res (A : Type) := Ok (a : A) | Err (e : verr).
Arguments Ok {A} a.
Arguments Err {A} e.

Fixpoint concat_opt (l : list (option bytes)) : option bytes :=
  match l with
  | [] => Some []
  | None :: _ => None
  | Some x :: r => match concat_opt r with Some t => Some (x ++ t) | None => None end
  end.

Fixpoint numbered_ok (i : nat) (bs : list blob) : bool :=
  match bs with
  | [] => true
  | b :: r => Z.eqb (Z.of_nat i) (b_num b) && numbered_ok (S i) r
  end.

(* binascii.unhexlify(str).decode() *)
Definition unhex_decode (s : bytes) : res bytes :=
  if negb (forallb (fun b => N_of_byte b <? 128) s) then Err ENonAscii
  else match unhex s with
       | None => Err EBinascii
       | Some b => if utf8_ok b then Ok b else Err EUnicode
       end.

Section C02.
  Variable H : bytes -> bytes.
  Variable E : bytes -> bytes -> bytes -> bytes.
  Variable D : bytes -> bytes -> bytes -> option bytes.
  Variable maxb : nat.

  (* --- file_reader: pieces of MAX_BLOB_SIZE - 1 bytes --- *)
  Fixpoint split_fuel (fuel : nat) (c : nat) (f : bytes) : list bytes :=
    match fuel with
    | O => []
    | S k =>
      match f with
      | [] => []
      | _ => if Nat.eqb c 0 then [] else firstn c f :: split_fuel k c (skipn c f)
      end
    end.
  Definition split (f : bytes) : list bytes := split_fuel (length f) (maxb - 1) f.

  (* --- get_blob_hashsum (None = KeyError) --- *)
  Definition blob_pre (b : blob) : option bytes :=
    if Z.eqb (b_len b) 0 then Some (dec_of_Z (b_num b) ++ b_iv b ++ dec_of_Z (b_len b))
    else match b_hash b with
         | Some h => Some (h ++ dec_of_Z (b_num b) ++ b_iv b ++ dec_of_Z (b_len b))
         | None => None
         end.
  Definition blob_hashsum (b : blob) : option bytes :=
    match blob_pre b with Some p => Some (H p) | None => None end.

  (* --- calculate_stream_hash --- *)
  Definition blobs_hashsum (bs : list blob) : option bytes :=
    match concat_opt (map blob_hashsum bs) with Some c => Some (H c) | None => None end.
  Definition stream_pre (hexname key hexsugg : bytes) (bs : list blob) : option bytes :=
    match blobs_hashsum bs with Some hb => Some (hexname ++ key ++ hexsugg ++ hb) | None => None end.
  Definition calc_stream_hash (hexname key hexsugg : bytes) (bs : list blob) : option bytes :=
    match stream_pre hexname key hexsugg bs with Some p => Some (hex (H p)) | None => None end.
  Definition get_stream_hash (name key sugg : bytes) (bs : list blob) : option bytes :=
    calc_stream_hash (hex name) key (hex sugg) (map as_dict bs).

  (* StreamDescriptor.__init__: `stream_hash or self.get_stream_hash()` *)
  Definition new_desc (name key sugg : bytes) (bs : list blob) (sh : bytes) : res desc :=
    match sh with
    | [] => match get_stream_hash name key sugg bs with
            | Some h => Ok (mkDesc name key sugg bs h)
            | None => Err EKey
            end
    | _ => Ok (mkDesc name key sugg bs sh)
    end.

  (* --- json.dumps(..., sort_keys=True) of format_sd_info(...), default separators, ensure_ascii --- *)
  Definition q : byte := byte_of_N 34.
  Definition json_esc (b : byte) : bytes :=
    let v := N_of_byte b in
    if v =? 34 then ascii [92; 34]
    else if v =? 92 then ascii [92; 92]
    else if v =? 10 then ascii [92; 110]
    else if v =? 13 then ascii [92; 114]
    else if v =? 9 then ascii [92; 116]
    else if v =? 8 then ascii [92; 98]
    else if v =? 12 then ascii [92; 102]
    else if v <? 32 then ascii [92; 117; 48; 48] ++ [hex_digit (v / 16); hex_digit (v mod 16)]
    else [b].
  Definition json_str (s : bytes) : bytes := q :: flat_map json_esc s ++ [q].
  Definition kv (k : list N) (v : bytes) : bytes := json_str (ascii k) ++ ascii [58; 32] ++ v.
  Definition comma : bytes := ascii [44; 32].
  Fixpoint join (sep : bytes) (l : list bytes) : bytes :=
    match l with
    | [] => []
    | [x] => x
    | x :: r => x ++ sep ++ join sep r
    end.
  Definition obj (fields : list bytes) : bytes := byte_of_N 123 :: join comma fields ++ [byte_of_N 125].
  Definition arr (items : list bytes) : bytes := byte_of_N 91 :: join comma items ++ [byte_of_N 93].

  Definition k_blob_hash := [98; 108; 111; 98; 95; 104; 97; 115; 104].
  Definition k_blob_num := [98; 108; 111; 98; 95; 110; 117; 109].
  Definition k_iv := [105; 118].
  Definition k_length := [108; 101; 110; 103; 116; 104].
  Definition k_blobs := [98; 108; 111; 98; 115].
  Definition k_key := [107; 101; 121].
  Definition k_stream_hash := [115; 116; 114; 101; 97; 109; 95; 104; 97; 115; 104].
  Definition k_stream_name := [115; 116; 114; 101; 97; 109; 95; 110; 97; 109; 101].
  Definition k_stream_type := [115; 116; 114; 101; 97; 109; 95; 116; 121; 112; 101].
  Definition k_sugg := [115; 117; 103; 103; 101; 115; 116; 101; 100; 95; 102; 105; 108; 101; 95; 110; 97; 109; 101].
  Definition v_lbryfile := [108; 98; 114; 121; 102; 105; 108; 101].

  Definition json_blob (b0 : blob) : bytes :=
    let b := as_dict b0 in
    obj ((match b_hash b with Some h => [kv k_blob_hash (json_str h)] | None => [] end) ++
         [kv k_blob_num (dec_of_Z (b_num b)); kv k_iv (json_str (b_iv b)); kv k_length (dec_of_Z (b_len b))]).

  Definition as_json (d : desc) : bytes :=
    obj [kv k_blobs (arr (map json_blob (d_blobs d)));
         kv k_key (json_str (d_key d));
         kv k_stream_hash (json_str (d_shash d));
         kv k_stream_name (json_str (hex (d_name d)));
         kv k_stream_type (json_str (ascii v_lbryfile));
         kv k_sugg (json_str (hex (d_sugg d)))].

  Definition sd_hash (d : desc) : bytes := hex (H (as_json d)).

  (* old_sort_json: OrderedDict order, blobs cut after the first one without a (truthy) hash *)
  Definition old_blob (b : blob) : bytes :=
    obj ([kv k_length (dec_of_Z (b_len b)); kv k_blob_num (dec_of_Z (b_num b))] ++
         (match as_dict b with {| b_hash := Some h |} => [kv k_blob_hash (json_str h)] | _ => [] end) ++
         [kv k_iv (json_str (b_iv b))]).
  Fixpoint old_blobs (bs : list blob) : list bytes :=
    match bs with
    | [] => []
    | b :: r => old_blob b :: match b_hash (as_dict b) with Some _ => old_blobs r | None => [] end
    end.
  Definition old_sort_json (d : desc) : bytes :=
    obj [kv k_stream_name (json_str (hex (d_name d)));
         kv k_blobs (arr (old_blobs (d_blobs d)));
         kv k_stream_type (json_str (ascii v_lbryfile));
         kv k_key (json_str (d_key d));
         kv k_sugg (json_str (hex (d_sugg d)));
         kv k_stream_hash (json_str (d_shash d))].
  Definition old_sd_hash (d : desc) : bytes := hex (H (old_sort_json d)).

  (* --- _from_stream_descriptor_blob on the decoded JSON (json.loads is not modelled) --- *)
  Definition validate (j : sdj) : res desc :=
    match rev (j_blobs j) with
    | [] => Err EIndex
    | last :: rinit =>
      if negb (Z.eqb (b_len last) 0) then Err ENoTerminator
      else if existsb (fun b => Z.eqb (b_len b) 0) rinit then Err EZeroData
      else match b_hash last with
      | Some _ => Err ETermHash
      | None =>
        if negb (numbered_ok 0 (j_blobs j)) then Err EOrder
        else match unhex_decode (j_name j) with
        | Err e => Err e
        | Ok name =>
          match unhex_decode (j_sugg j) with
          | Err e => Err e
          | Ok sugg =>
            match new_desc name (j_key j) sugg (j_blobs j) (j_shash j) with
            | Err e => Err e
            | Ok d =>
              match get_stream_hash name (j_key j) sugg (j_blobs j) with
              | None => Err EKey
              | Some h => if bytes_eqb h (j_shash j) then Ok d else Err EStreamHash
              end
            end
          end
        end
      end
    end.

  (* the JSON structure an sd blob of [d] decodes to *)
  Definition to_sdj (d : desc) : sdj :=
    mkSdj (hex (d_name d)) (d_key d) (hex (d_sugg d)) (map as_dict (d_blobs d)) (d_shash d).

  (* --- create_stream --- *)
  (* BlobFile.create_from_unencrypted *)
  Definition make_blob (key iv piece : bytes) (num : nat) : blob * bytes :=
    let ct := E key iv piece in
    (mkBlob (Z.of_nat num) (Z.of_nat (length ct)) (hex iv) (Some (hex (H ct))), ct).

  Fixpoint make_blobs (key : bytes) (ivf : nat -> bytes) (num : nat) (pieces : list bytes) : list (blob * bytes) :=
    match pieces with
    | [] => []
    | p :: r => make_blob key (ivf num) p num :: make_blobs key ivf (S num) r
    end.

  Definition terminator (ivf : nat -> bytes) (n : nat) : blob :=
    mkBlob (Z.of_nat n) 0 (hex (ivf n)) None.

  Record stream := mkStream { s_desc : desc; s_cts : list bytes; s_sd_blob : bytes; s_sd_hash : bytes }.

  (* everything create_stream computes, ignoring the blob directory *)
  Definition build_stream (name : list N) (key : bytes) (ivf : nat -> bytes) (f : bytes) : stream :=
    let bc := make_blobs key ivf 0 (split f) in
    let blobs := map fst bc ++ [terminator ivf (length bc)] in
    let nm := utf8_enc name in
    let sg := utf8_enc (sanitize name) in
    let k := hex key in
    let sh := match get_stream_hash nm k sg blobs with Some h => h | None => [] end in
    let d := mkDesc nm k sg blobs sh in
    mkStream d (map snd bc) (as_json d) (sd_hash d).

  Fixpoint has_dup (l : list bytes) : bool :=
    match l with
    | [] => false
    | x :: r => existsb (bytes_eqb x) r || has_dup r
    end.

  (* create_stream in a fresh blob directory: a second data blob with the same hash makes
     BlobFile.get_blob_writer raise OSError("File already exists") -> None *)
  Definition create_stream (name : list N) (key : bytes) (ivf : nat -> bytes) (f : bytes) : option stream :=
    let s := build_stream name key ivf f in
    if has_dup (map (fun c => hex (H c)) (s_cts s)) then None else Some s.

  (* create_stream(old_sort=True): same blobs and descriptor, but make_sd_blob writes the legacy field-order JSON
     and names it by the hash of exactly those bytes; descriptor.sd_hash is that blob's name *)
  Definition build_stream_old (name : list N) (key : bytes) (ivf : nat -> bytes) (f : bytes) : stream :=
    let s := build_stream name key ivf f in
    mkStream (s_desc s) (s_cts s) (old_sort_json (s_desc s)) (old_sd_hash (s_desc s)).
  Definition create_stream_layout (old_sort : bool) (name : list N) (key : bytes) (ivf : nat -> bytes) (f : bytes)
    : option stream :=
    match create_stream name key ivf f with
    | Some s => Some (if old_sort then build_stream_old name key ivf f else s)
    | None => None
    end.

  (* create_stream into a blob directory that already holds files, given as (file name, file size) -- a republish.
     BlobFile.__init__ adopts an existing file of the expected size as verified WITHOUT hashing it, and
     BlobFile.get_blob_writer then raises OSError("File already exists"); a file of another size is deleted by
     __init__, which also forgets the blob's length, and HashBlobWriter.write raises OSError("unknown blob length").
     Either way the publish is refused: neither the file's content nor its size matters, only its name. *)
  Definition blocked (dir : list (bytes * nat)) (nm : bytes) : bool :=
    existsb (fun e => bytes_eqb (fst e) nm) dir.
  Definition create_stream_in (dir : list (bytes * nat)) (old_sort : bool) (name : list N) (key : bytes)
             (ivf : nat -> bytes) (f : bytes) : option stream :=
    if existsb (fun c => blocked dir (hex (H c))) (s_cts (build_stream name key ivf f)) then None
    else create_stream_layout old_sort name key ivf f.

  (* --- saving: AbstractBlob.decrypt on every data blob of the descriptor, in order --- *)
  Definition decrypt_blob (key : bytes) (b : blob) (ct : bytes) : option bytes :=
    if negb (Z.eqb (Z.of_nat (length ct)) (b_len b)) then None
    else match unhex key, unhex (b_iv b) with
         | Some k, Some iv => D k iv ct
         | _, _ => None
         end.
  Fixpoint decrypt_blobs (key : bytes) (bs : list blob) (cts : list bytes) : option bytes :=
    match bs, cts with
    | [], [] => Some []
    | b :: br, c :: cr =>
        match decrypt_blob key b c, decrypt_blobs key br cr with
        | Some p, Some r => Some (p ++ r)
        | _, _ => None
        end
    | _, _ => None
    end.
  Definition decrypt_stream (d : desc) (cts : list bytes) : option bytes :=
    decrypt_blobs (d_key d) (removelast (d_blobs d)) cts.

  (* --- ManagedStream._save_file with a cancellation (stop_tasks / stop / delete / second save_file / shutdown).
         [k] = how many more steps the save may take before the cancellation lands, a step being one blob write and,
         after the last one, the bookkeeping that completes the save.  A cancellation that lands at any point before
         completion runs the cleanup branch, which removes the incomplete file (None). --- *)
  Fixpoint save_loop (acc : bytes) (pieces : list bytes) (k : nat) : option bytes :=
    match k with
    | O => None
    | S k' => match pieces with
              | [] => Some acc
              | p :: r => save_loop (acc ++ p) r k'
              end
    end.

  (* --- ManagedStream._prepare_range_response_headers + stream_file for 'bytes=start-': skip whole blobs, then drop
         the first bytes of the first blob that is read (as repaired: MAX_BLOB_SIZE - 1 plaintext bytes per blob) --- *)
  Definition range_plan (start : nat) : nat * nat := (start / (maxb - 1), start mod (maxb - 1))%nat.
  Definition range_read (pieces : list bytes) (start : nat) : bytes :=
    let (q, r) := range_plan start in skipn r (concat (skipn q pieces)).
  (* the formula before the repair: start // (MAX_BLOB_SIZE - 2) blobs skipped, offset start - skip*(MAX_BLOB_SIZE-1)
     (negative offsets index from the end, as Python slices do) *)
  Definition range_read_old (pieces : list bytes) (start : nat) : bytes :=
    let q := (start / (maxb - 2))%nat in
    let rest := concat (skipn q pieces) in
    let skip := (q * (maxb - 1))%nat in
    if Nat.leb skip start then skipn (start - skip) rest
    else match skipn q pieces with
         | first :: more => skipn (length first - (skip - start)) first ++ concat more
         | [] => []
         end.

  (* --- the streaming read path: StreamDownloader.cached_read_blob in front of read_blob, one decrypted-blob LRU
         shared by every stream of a blob manager (BlobManager.decrypted_blob_lru_cache, utils.lru_cache_concurrent).
         A stream is (descriptor, stored ciphertexts); the cache key is the BlobInfo object, i.e. (stream, position). --- *)
  Definition read_blob (w : list (desc * list bytes)) (sid i : nat) : option bytes :=
    match nth_error w sid with
    | Some (d, cts) =>
        match nth_error (removelast (d_blobs d)) i, nth_error cts i with
        | Some b, Some ct => decrypt_blob (d_key d) b ct
        | _, _ => None
        end
    | None => None
    end.

  Definition ckey := (nat * nat)%type.
  Definition ckey_eqb (a b : ckey) : bool := Nat.eqb (fst a) (fst b) && Nat.eqb (snd a) (snd b).
  Definition cache := list (ckey * bytes).          (* most recently used first *)
  Fixpoint c_lookup (c : cache) (k : ckey) : option bytes :=
    match c with
    | [] => None
    | (k', v) :: r => if ckey_eqb k' k then Some v else c_lookup r k
    end.
  Fixpoint c_remove (c : cache) (k : ckey) : cache :=
    match c with
    | [] => []
    | (k', v) :: r => if ckey_eqb k' k then c_remove r k else (k', v) :: c_remove r k
    end.
  (* hit: the stored value, entry becomes most recent; miss: read, store, evict the oldest beyond the capacity;
     an exception (None) is not stored *)
  Definition cached_read (cap : nat) (w : list (desc * list bytes)) (c : cache) (sid i : nat) : cache * option bytes :=
    match c_lookup c (sid, i) with
    | Some v => (((sid, i), v) :: c_remove c (sid, i), Some v)
    | None =>
        match read_blob w sid i with
        | Some v => (firstn cap (((sid, i), v) :: c), Some v)
        | None => (c, None)
        end
    end.
  Fixpoint run_reads (cap : nat) (w : list (desc * list bytes)) (c : cache) (ops : list (nat * nat)) : list (option bytes) :=
    match ops with
    | [] => []
    | (sid, i) :: r => let (c', o) := cached_read cap w c sid i in o :: run_reads cap w c' r
    end.

End C02.

(* ciphertext lengths for a file of [n] bytes, computed in N (used for true 2 MiB runs) *)
Definition ct_len (p : N) : N := 16 * (p / 16 + 1).
Definition expected_lengths (maxb n : N) : list N :=
  let c := maxb - 1 in
  if c =? 0 then [] else
  repeat (ct_len c) (N.to_nat (n / c)) ++ (if n mod c =? 0 then [] else [ct_len (n mod c)]).
