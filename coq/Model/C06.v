(* C06 model: HD key derivation, extended keys, addresses, Base58Check, mnemonic word encoding.
   Mirrors lbry/crypto/base58.py, lbry/crypto/util.py, lbry/wallet/bip32.py, lbry/wallet/ledger.py
   (hash160_to_address / address_to_hash160), lbry/wallet/account.py (HierarchicalDeterministic.ensure_address_gap,
   get_address_records order) and lbry/wallet/mnemonic.py (mnemonic_encode / mnemonic_decode).
   Executable definitions only.  Primitives (double SHA-256, HMAC-SHA512, RIPEMD160(SHA256), secp256k1 point
   operations) are Section variables; scalar arithmetic mod the group order is modelled concretely. *)
From Coq Require Import Arith NArith List Bool.
From Coq.Strings Require Import Byte.
From LV Require Import Lib.Bytes.
Import ListNotations.
Local Open Scope N_scope.

(* ---------------------------------------------------------------- results *)
(* error classes, told apart in the implementation by exception class + message *)
Inductive err :=
| EEmpty       (* Base58Error 'string cannot be empty' *)
| EChar        (* Base58Error 'invalid base 58 character' *)
| EChecksum    (* Base58Error 'invalid base 58 checksum' *)
| EValue       (* ValueError from int('', 16): Base58.encode(b'') *)
| ELen         (* ValueError 'extended key must have length 78' *)
| EVersion     (* ValueError 'version bytes unrecognised' *)
| EPrivPrefix  (* ValueError 'invalid extended private key prefix byte' *)
| EPubPrefix   (* ValueError 'invalid pubkey prefix byte' *)
| EBadKey      (* ValueError from coincurve: scalar not in 1..n-1 / point not on the curve *)
| EIndex       (* ValueError 'invalid BIP32 public/private key child number' *)
| ETweak       (* ValueError from coincurve add(): tweak out of range or result invalid *)
| EChainCode   (* ValueError 'invalid chain code' *)
| EDepth       (* ValueError 'invalid depth' *)
| EWord        (* ValueError from list.index: word not in the word list *)
| EPayload.    (* IndexError: decoded[0] on an empty payload *)

Inductive res (A : Type) := Ok (a : A) | Err (e : err).
Arguments Ok {A} a.
Arguments Err {A} e.
Definition bind {A B} (r : res A) (f : A -> res B) : res B :=
  match r with Ok a => f a | Err e => Err e end.
Definition res_map {A B} (f : A -> B) (r : res A) : res B :=
  match r with Ok a => Ok (f a) | Err e => Err e end.

(* ---------------------------------------------------------------- positional numerals *)
(* `while v: v, d = divmod(v, b); out.append(d)` -- least significant digit first.  The loop runs at
   most (bit length of v) times when b >= 2; that is the fuel. *)
Fixpoint digits_fuel (fuel : nat) (b v : N) : list N :=
  match fuel with
  | O => []
  | S f => if v =? 0 then [] else (v mod b) :: digits_fuel f b (v / b)
  end.
Definition digits_lsb (b v : N) : list N := digits_fuel (N.to_nat (N.size v)) b v.

Fixpoint val_lsb (b : N) (ds : list N) : N :=
  match ds with [] => 0 | d :: r => d + b * val_lsb b r end.
(* `for d in ds: v = v * b + d` *)
Definition val_msb (b : N) (ds : list N) : N := fold_left (fun a d => a * b + d) ds 0.

(* list.index / dict lookup: position of the first equal element *)
Fixpoint index_of {A} (eqb : A -> A -> bool) (x : A) (l : list A) : option nat :=
  match l with
  | [] => None
  | y :: r => if eqb x y then Some O else option_map S (index_of eqb x r)
  end.

Fixpoint count_leading {A} (p : A -> bool) (l : list A) : nat :=
  match l with
  | x :: r => if p x then S (count_leading p r) else O
  | [] => O
  end.

Definition slice (a b : nat) (l : bytes) : bytes := firstn (b - a) (skipn a l).

(* ---------------------------------------------------------------- Base58 *)
Definition alphabet : bytes :=
  [x31; x32; x33; x34; x35; x36; x37; x38; x39; x41; x42; x43; x44; x45; x46; x47; x48; x4a; x4b; x4c; x4d; x4e;
   x50; x51; x52; x53; x54; x55; x56; x57; x58; x59; x5a; x61; x62; x63; x64; x65; x66; x67; x68; x69; x6a; x6b;
   x6d; x6e; x6f; x70; x71; x72; x73; x74; x75; x76; x77; x78; x79; x7a].
Definition one_char : byte := x31.

Definition char_of_digit (d : N) : byte := nth (N.to_nat d) alphabet one_char.
Definition digit_of_char (c : byte) : option N := option_map N.of_nat (index_of byte_eqb c alphabet).

Fixpoint chars_to_digits (t : bytes) : option (list N) :=
  match t with
  | [] => Some []
  | c :: r => match digit_of_char c, chars_to_digits r with
              | Some d, Some ds => Some (d :: ds)
              | _, _ => None
              end
  end.

(* lbry.crypto.util.int_to_bytes: minimal big-endian, one zero byte for 0 *)
Definition int_to_bytes (v : N) : bytes :=
  if v =? 0 then [x00] else rev (map byte_of_N (digits_lsb 256 v)).

(* Base58.decode on a str (given as its bytes; any byte outside the alphabet is an invalid character) *)
Definition b58_decode (t : bytes) : res bytes :=
  match t with
  | [] => Err EEmpty
  | _ => match chars_to_digits t with
         | None => Err EChar
         | Some ds => Ok (repeat x00 (count_leading (byte_eqb one_char) t) ++ int_to_bytes (val_msb 58 ds))
         end
  end.

(* Base58.encode; bytes_to_int(b'') is int('', 16): ValueError *)
Definition b58_encode (b : bytes) : res bytes :=
  match b with
  | [] => Err EValue
  | _ => Ok (repeat one_char (count_leading (byte_eqb x00) b)
             ++ rev (map char_of_digit (digits_lsb 58 (be_decode b))))
  end.

Section Check.
  Variable dsha : bytes -> bytes.        (* double SHA-256 *)

  Definition checksum (p : bytes) : bytes := firstn 4 (dsha p).

  Definition b58_encode_check (p : bytes) : res bytes := b58_encode (p ++ checksum p).

  (* be_bytes[:-4], be_bytes[-4:] *)
  Definition b58_decode_check (t : bytes) : res bytes :=
    bind (b58_decode t) (fun b =>
      let k := (length b - 4)%nat in
      let p := firstn k b in
      if bytes_eqb (skipn k b) (checksum p) then Ok p else Err EChecksum).
End Check.

(* ---------------------------------------------------------------- extended keys *)
Inductive kind := KPub | KPriv.
Definition kind_eqb (a b : kind) : bool :=
  match a, b with KPub, KPub => true | KPriv, KPriv => true | _, _ => false end.

(* xk_key: 33-byte compressed point for KPub, 32-byte scalar for KPriv.
   xk_pfp: the parent's fingerprint (what parent_fingerprint() returns). *)
Record xkey := mk_xkey {
  xk_kind : kind; xk_depth : N; xk_pfp : bytes; xk_n : N; xk_cc : bytes; xk_key : bytes }.

(* secp256k1 group order *)
Definition ORDER : N := 0xFFFFFFFFFFFFFFFFFFFFFFFFFFFFFFFEBAAEDCE6AF48A03BBFD25E8CD0364141.
(* coincurve validate_secret: 0 < k < n *)
Definition priv_valid (k : bytes) : bool := (0 <? be_decode k) && (be_decode k <? ORDER).
Definition zero4 : bytes := [x00; x00; x00; x00].
Definition is_23 (b : byte) : bool := byte_eqb b x02 || byte_eqb b x03.

Section XKey.
  Variables ver_pub ver_priv : bytes.      (* ledger.extended_public_key_prefix / extended_private_key_prefix *)
  Variable pub_valid : bytes -> bool.      (* secp256k1_ec_pubkey_parse succeeds on a 33-byte 02/03 string *)

  (* _KeyBase._extended_key *)
  Definition xk_serialize (k : xkey) : bytes :=
    (match xk_kind k with KPub => ver_pub | KPriv => ver_priv end)
    ++ [byte_of_N (xk_depth k)] ++ xk_pfp k ++ be_encode 4 (xk_n k) ++ xk_cc k
    ++ (match xk_kind k with KPub => xk_key k | KPriv => x00 :: xk_key k end).

  (* wire-level parse: every field of the 78 bytes *)
  Definition xk_parse (e : bytes) : res xkey :=
    if negb (length e =? 78)%nat then Err ELen else
    let depth := N_of_byte (nth 4 e x00) in
    let pfp := slice 5 9 e in
    let n := be_decode (slice 9 13 e) in
    let cc := slice 13 45 e in
    if bytes_eqb (firstn 4 e) ver_pub then
      let pk := skipn 45 e in
      if negb (is_23 (nth 0 pk x00)) then Err EPubPrefix
      else if pub_valid pk then Ok (mk_xkey KPub depth pfp n cc pk) else Err EBadKey
    else if bytes_eqb (firstn 4 e) ver_priv then
      if negb (byte_eqb (nth 45 e x00) x00) then Err EPrivPrefix
      else let sk := skipn 46 e in
           if priv_valid sk then Ok (mk_xkey KPriv depth pfp n cc sk) else Err EBadKey
    else Err EVersion.

  (* _from_extended_key builds the key object with parent=None: the fingerprint bytes are not kept, the object
     reports (and re-serialises) 00000000.  Known finding {"op":"xparse","finding":"parent-fingerprint-dropped"}. *)
  Definition xk_forget_parent (k : xkey) : xkey :=
    mk_xkey (xk_kind k) (xk_depth k) zero4 (xk_n k) (xk_cc k) (xk_key k).
  Definition xk_from_extended (e : bytes) : res xkey := res_map xk_forget_parent (xk_parse e).

  Section XStr.
    Variable dsha : bytes -> bytes.
    Definition xk_to_string (k : xkey) : res bytes := b58_encode_check dsha (xk_serialize k).
    Definition xk_of_string (t : bytes) : res xkey := bind (b58_decode_check dsha t) xk_from_extended.
  End XStr.
End XKey.

(* ---------------------------------------------------------------- child key derivation *)
Definition HARDENED : N := 2147483648.         (* 1 << 31 *)
Definition INDEX_LIMIT : N := 4294967296.      (* 1 << 32 *)
Definition bitcoin_seed : bytes := [x42; x69; x74; x63; x6f; x69; x6e; x20; x73; x65; x65; x64].

(* secp256k1_ec_seckey_tweak_add: (k + t) mod n; fails when t >= n or the sum is 0 *)
Definition priv_add (k l : bytes) : option bytes :=
  let t := be_decode l in
  if ORDER <=? t then None else
  let s := (be_decode k + t) mod ORDER in
  if s =? 0 then None else Some (be_encode 32 s).

(* the 4-byte child number; hardened flag + 31 bits *)
Definition child_number (hardened : bool) (i : N) : N := if hardened then HARDENED + i else i.
Definition index_bytes (hardened : bool) (i : N) : bytes := be_encode 4 (child_number hardened i).

Section CKD.
  Variable hmac512 : bytes -> bytes -> bytes.         (* key, message -> 64 bytes *)
  Variable pub : bytes -> bytes.                      (* valid 32-byte scalar k -> compressed k*G (33 bytes) *)
  Variable pub_add : bytes -> bytes -> option bytes.  (* compressed P, 32-byte t -> compressed P + t*G; None: t >= n or infinity *)
  Variable hash160 : bytes -> bytes.                  (* RIPEMD160(SHA256(x)) *)

  Definition identifier (pk : bytes) : bytes := hash160 pk.
  Definition fingerprint (pk : bytes) : bytes := firstn 4 (hash160 pk).

  Definition pubkey_of (k : xkey) : bytes :=
    match xk_kind k with KPub => xk_key k | KPriv => pub (xk_key k) end.

  (* PrivateKey.public_key *)
  Definition neuter (k : xkey) : xkey :=
    mk_xkey KPub (xk_depth k) (xk_pfp k) (xk_n k) (xk_cc k) (pubkey_of k).

  (* _KeyBase.__init__ checks, in its order (n was checked by child() already) *)
  Definition mk_child (kd : kind) (parent_pk key cc : bytes) (n depth : N) : res xkey :=
    if negb (length cc =? 32)%nat then Err EChainCode
    else if 256 <=? depth then Err EDepth
    else Ok (mk_xkey kd depth (fingerprint parent_pk) n cc key).

  (* PrivateKey.child *)
  Definition ckd_priv (k : xkey) (i : N) : res xkey :=
    if INDEX_LIMIT <=? i then Err EIndex else
    let pk := pub (xk_key k) in
    let ser := if HARDENED <=? i then x00 :: xk_key k else pk in
    let I := hmac512 (xk_cc k) (ser ++ be_encode 4 i) in
    match priv_add (xk_key k) (firstn 32 I) with
    | None => Err ETweak
    | Some sk => mk_child KPriv pk sk (skipn 32 I) i (xk_depth k + 1)
    end.

  (* PublicKey.child *)
  Definition ckd_pub (k : xkey) (i : N) : res xkey :=
    if HARDENED <=? i then Err EIndex else
    let pk := xk_key k in
    let I := hmac512 (xk_cc k) (pk ++ be_encode 4 i) in
    match pub_add pk (firstn 32 I) with
    | None => Err ETweak
    | Some pk' => mk_child KPub pk pk' (skipn 32 I) i (xk_depth k + 1)
    end.

  Definition ckd (k : xkey) (i : N) : res xkey :=
    match xk_kind k with KPriv => ckd_priv k i | KPub => ckd_pub k i end.

  Fixpoint derive (k : xkey) (path : list N) : res xkey :=
    match path with
    | [] => Ok k
    | i :: rest => bind (ckd k i) (fun c => derive c rest)
    end.

  (* PrivateKey.from_seed *)
  Definition from_seed (seed : bytes) : res xkey :=
    let I := hmac512 bitcoin_seed seed in
    let sk := firstn 32 I in
    let cc := skipn 32 I in
    if negb (length cc =? 32)%nat then Err EChainCode
    else if priv_valid sk then Ok (mk_xkey KPriv 0 zero4 0 cc sk) else Err EBadKey.

  Section Addr.
    Variable dsha : bytes -> bytes.
    (* Ledger.public_key_to_address / hash160_to_address *)
    Definition address (prefix pk : bytes) : res bytes := b58_encode_check dsha (prefix ++ hash160 pk).
    (* Ledger.address_to_hash160: Base58.decode(address)[1:21] -- no checksum verification *)
    Definition address_to_hash160 (a : bytes) : res bytes := res_map (slice 1 21) (b58_decode a).

    (* Ledger.is_pubkey_address / is_script_address: Base58.decode_check(address)[0] == prefix[0]
       (the check behind Daemon.valid_address_or_error) *)
    Definition is_version_address (ver : byte) (a : bytes) : res bool :=
      bind (b58_decode_check dsha a) (fun p =>
        match p with [] => Err EPayload | b :: _ => Ok (byte_eqb b ver) end).
    (* valid_address_or_error: any exception or a false answer means "not a valid address" *)
    Definition valid_address (pub_ver script_ver : byte) (allow_script : bool) (a : bytes) : bool :=
      match is_version_address pub_ver a with
      | Ok true => true
      | Ok false => if allow_script then
                      match is_version_address script_ver a with Ok true => true | _ => false end
                    else false
      | Err _ => false
      end.

    (* address number i of chain c of an account public key: account.public_key.child(c).child(i).address *)
    Definition chain_address (prefix : bytes) (acct : xkey) (c i : N) : res bytes :=
      bind (ckd_pub acct c) (fun ck => bind (ckd_pub ck i) (fun k => address prefix (xk_key k))).
  End Addr.
End CKD.

(* ---------------------------------------------------------------- gap-limited address chains *)
(* one row of (account_address JOIN pubkey_address) restricted to one account and chain *)
Record row := mk_row { r_n : N; r_addr : bytes; r_used : N }.

Section Gap.
  Variable addr_of : N -> bytes.            (* the address of index n on this chain *)

  Definition unused (r : row) : bool := r_used r =? 0.

  (* HierarchicalDeterministic.ensure_address_gap.  The table is kept in insertion order;
     `order by n desc limit gap` is the first `gap` rows of the reversed table when the indices ascend. *)
  Definition ensure_gap (gap : nat) (t : list row) : list row * list bytes :=
    let top := firstn gap (rev t) in
    let existing := count_leading unused top in
    if (existing =? gap)%nat then (t, []) else
    let start := match top with r :: _ => r_n r + 1 | [] => 0 end in
    let new := map (fun i => start + N.of_nat i) (seq 0 (gap - existing)) in
    (t ++ map (fun n => mk_row n (addr_of n) 0) new, map addr_of new).

  (* db.set_address_history(address, history): used_times := history.count(':') // 2 *)
  Definition set_used (a : bytes) (times : N) (t : list row) : list row :=
    map (fun r => if bytes_eqb (r_addr r) a then mk_row (r_n r) (r_addr r) times else r) t.

  Inductive gop := GEnsure (gap : nat) | GUse (n : N) (times : N).

  Definition gstep (t : list row) (op : gop) : list row :=
    match op with
    | GEnsure g => fst (ensure_gap g t)
    | GUse n k => set_used (addr_of n) k t
    end.
  Definition grun (ops : list gop) : list row := fold_left gstep ops [].

  (* get_address_records default order: "used_times asc, n asc" *)
  Definition row_le (a b : row) : bool :=
    (r_used a <? r_used b) || ((r_used a =? r_used b) && (r_n a <=? r_n b)).
  Fixpoint insert_row (r : row) (l : list row) : list row :=
    match l with
    | [] => [r]
    | x :: l' => if row_le r x then r :: l else x :: insert_row r l'
    end.
  Definition address_records (t : list row) : list row := fold_right insert_row [] t.

  (* get_max_gap: longest run of unused addresses that is followed by a used one *)
  Fixpoint max_gap_go (t : list row) (cur mx : N) : N :=
    match t with
    | [] => mx
    | r :: rest => if unused r then max_gap_go rest (cur + 1) mx else max_gap_go rest 0 (N.max mx cur)
    end.
  Definition max_gap (t : list row) : N := max_gap_go t 0 0.
End Gap.

(* ---------------------------------------------------------------- one database, two address managers *)
(* account_address rows are keyed by (account id, chain).  A single-address account and a deterministic account of
   the same mnemonic have the same account id, and both use chain 0; their rows differ in the key depth (the account
   key itself vs. a grandchild).  [flt = false] is what the code does: a manager looks at every chain-0 row of the
   account id (known findings {"op":"generator_switch",...}); [flt = true] is the design in which each manager
   filters the rows it looks at by its own key depth. *)
Section Shared.
  Variable addr_of : N -> bytes.          (* m/0/n *)
  Variable master_addr : bytes.           (* address of the account key itself *)
  Variable flt : bool.

  Definition srow : Type := bool * row.   (* true: written by the single-address manager *)
  Definition rows_of (single : bool) (t : list srow) : list row :=
    map snd (filter (fun x => Bool.eqb (fst x) single) t).
  (* what a manager's _query_addresses returns, in table order *)
  Definition manager_view (single : bool) (t : list srow) : list row :=
    if flt then rows_of single t else map snd t.

  Inductive sop := SHd (op : gop) | SSingleEnsure.

  Definition sstep (t : list srow) (op : sop) : list srow :=
    match op with
    | SHd (GEnsure g) =>
      let v := manager_view false t in
      t ++ map (pair false) (skipn (length v) (fst (ensure_gap addr_of g v)))
    | SHd (GUse n k) =>
      (* pubkey_address is keyed by address: the counter of every row with that address changes *)
      map (fun x => (fst x, if bytes_eqb (r_addr (snd x)) (addr_of n) then mk_row (r_n (snd x)) (r_addr (snd x)) k else snd x)) t
    | SSingleEnsure =>
      (* SingleKey.ensure_address_gap: add the account key unless the manager already sees a row *)
      match manager_view true t with
      | [] => t ++ [(true, mk_row 0 master_addr 0)]
      | _ => t
      end
    end.
  Definition srun (ops : list sop) : list srow := fold_left sstep ops [].
  Fixpoint hd_ops (ops : list sop) : list gop :=
    match ops with [] => [] | SHd o :: r => o :: hd_ops r | SSingleEnsure :: r => hd_ops r end.
End Shared.

(* ---------------------------------------------------------------- mnemonic *)
Definition space : byte := x20.
(* bytes at which str.split() splits (ASCII part of Unicode whitespace) *)
Definition is_space (b : byte) : bool :=
  let v := N_of_byte b in ((9 <=? v) && (v <=? 13)) || ((28 <=? v) && (v <=? 32)).

Fixpoint join_sp (ws : list bytes) : bytes :=
  match ws with
  | [] => []
  | w :: r => match r with [] => w | _ => w ++ space :: join_sp r end
  end.

(* (characters up to the first whitespace, the remaining words) *)
Fixpoint split_go (s : bytes) : bytes * list bytes :=
  match s with
  | [] => ([], [])
  | c :: r => let (w, ws) := split_go r in
              if is_space c then ([], match w with [] => ws | _ => w :: ws end) else (c :: w, ws)
  end.
Definition split_ws (s : bytes) : list bytes :=
  let (w, ws) := split_go s in match w with [] => ws | _ => w :: ws end.

Section Mnemonic.
  Variable words : list bytes.
  Definition nwords : N := N.of_nat (length words).

  (* Mnemonic.mnemonic_encode *)
  Definition mnemonic_words (i : N) : list bytes :=
    map (fun d => nth (N.to_nat d) words []) (digits_lsb nwords i).
  Definition mnemonic_encode (i : N) : bytes := join_sp (mnemonic_words i).

  Fixpoint words_to_digits (ws : list bytes) : option (list N) :=
    match ws with
    | [] => Some []
    | w :: r => match index_of bytes_eqb w words, words_to_digits r with
                | Some k, Some ds => Some (N.of_nat k :: ds)
                | _, _ => None
                end
    end.

  (* Mnemonic.mnemonic_decode: words popped from the end, i = i*n + k *)
  Definition mnemonic_decode (s : bytes) : res N :=
    match words_to_digits (split_ws s) with
    | None => Err EWord
    | Some ds => Ok (val_msb nwords (rev ds))
    end.
End Mnemonic.

(* ---------------------------------------------------------------- mnemonic text normalisation *)
(* lbry/wallet/mnemonic.py normalize_text over Unicode code points.  NFKD, str.lower and unicodedata.combining are
   primitives (Section variables); their ORDER, the whitespace collapse and the CJK rule are modelled. *)
Definition ws_cps : list N := [9; 10; 11; 12; 13; 28; 29; 30; 31; 32; 133; 160; 5760; 8192; 8193; 8194; 8195; 8196; 8197; 8198; 8199; 8200; 8201; 8202; 8232; 8233; 8239; 8287; 12288].            (* str.isspace() *)
Definition is_ws_cp (c : N) : bool := existsb (N.eqb c) ws_cps.
Definition is_ascii_ws (c : N) : bool := existsb (N.eqb c) [32; 9; 10; 13; 11; 12].   (* string.whitespace *)
Definition cjk_intervals : list (N * N) := [(19968, 40959); (13312, 19903); (131072, 173791); (173824, 177983); (177984, 178207); (63744, 64255); (194560, 195101); (12688, 12703); (11904, 12031); (12032, 12255); (12736, 12783); (12272, 12287); (917760, 917999); (12544, 12591); (12704, 12735); (65280, 65519); (12352, 12447); (12448, 12543); (12784, 12799); (110592, 110847); (44032, 55215); (4352, 4607); (43360, 43391); (55216, 55295); (12592, 12687); (42192, 42239); (93952, 94111); (40960, 42127); (42128, 42191)].
Definition is_cjk (c : N) : bool := existsb (fun iv => (fst iv <=? c) && (c <=? snd iv)) cjk_intervals.

(* str.split(): (characters up to the first whitespace, the remaining words) *)
Fixpoint splitg_go {A} (sp : A -> bool) (s : list A) : list A * list (list A) :=
  match s with
  | [] => ([], [])
  | c :: r => let (w, ws) := splitg_go sp r in
              if sp c then ([], match w with [] => ws | _ => w :: ws end) else (c :: w, ws)
  end.
Definition splitg {A} (sp : A -> bool) (s : list A) : list (list A) :=
  let (w, ws) := splitg_go sp s in match w with [] => ws | _ => w :: ws end.
Fixpoint joing {A} (sep : A) (ws : list (list A)) : list A :=
  match ws with
  | [] => []
  | w :: r => match r with [] => w | _ => w ++ sep :: joing sep r end
  end.

(* ' '.join(seed.split()) *)
Definition collapse_ws (s : list N) : list N := joing 32 (splitg is_ws_cp s).

(* drop seed[i] when it is whitespace and both neighbours are CJK (neighbours taken from the unfiltered string) *)
Fixpoint rm_cjk_spaces (prev : option N) (s : list N) : list N :=
  match s with
  | [] => []
  | c :: r =>
    let drop := is_ascii_ws c && (match prev with Some p => is_cjk p | None => false end)
                && (match r with n :: _ => is_cjk n | [] => false end) in
    (if drop then [] else [c]) ++ rm_cjk_spaces (Some c) r
  end.

Section Normalize.
  Variable nfkd : list N -> list N.        (* unicodedata.normalize('NFKD', s) *)
  Variable lower : list N -> list N.       (* str.lower() *)
  Variable combining : N -> bool.          (* unicodedata.combining(c) != 0 *)

  Definition strip_accents (s : list N) : list N := filter (fun c => negb (combining c)) s.
  Definition normalize_text (s : list N) : list N :=
    rm_cjk_spaces None (collapse_ws (strip_accents (lower (nfkd s)))).
End Normalize.
