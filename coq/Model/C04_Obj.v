(* C04 model, part 2: one signable OBJECT (lbry/schema/base.py Signable as held by a transaction Output) through a
   history of Output.sign / clear_signature / content edits / to_bytes-from_bytes re-reads.  Definitions only.
   The object sits in a fixed transaction: [fo] is the first input's outpoint (36 bytes), [addr] the decoded address
   of the output holding it (used by the earlier releases' digest). *)
From Coq Require Import NArith List Bool.
From Coq.Strings Require Import Byte.
From LV Require Import Lib.Bytes Model.C04.
Import ListNotations.

Record sobj := mk_sobj {
  o_legacy : option bytes;   (* Signable.unsigned_payload: set only by decoding an earlier release's claim *)
  o_sig : option bytes;      (* Signable.signature *)
  o_ch : bytes;              (* Signable.signing_channel_hash ([] for None) *)
  o_msg : bytes              (* message.SerializeToString() *)
}.

Inductive oop :=
| OSign (sk ch : bytes)      (* Output.sign(channel): channel private key, channel claim hash *)
| OClear                     (* Output.clear_signature / Signable.clear_signature *)
| OEdit (m : bytes)          (* any change of the message through the metadata API; m = the new serialisation *)
| OReread.                   (* Signable.from_bytes(obj.to_bytes()): what a reader of the transaction sees *)

Section Obj.
  Variable sha256 : bytes -> bytes.
  Variable sign : bytes -> bytes -> bytes.
  Variable verify : bytes -> bytes -> bytes -> bool.
  Variable fo addr : bytes.

  (* Output.get_signature_digest: the preimage, then its hash *)
  Definition obj_pieces (o : sobj) : bytes :=
    match o_legacy o with
    | Some p => legacy_pieces addr p (o_ch o)
    | None => channel_pieces fo (o_ch o) (o_msg o)
    end.
  Definition obj_digest (o : sobj) : bytes := sha256 (obj_pieces o).
  (* Output.is_signed_by(channel) for a channel with public key pk (an unsigned object never validates) *)
  Definition obj_valid (pk : bytes) (o : sobj) : bool :=
    match o_sig o with Some sg => verify pk (obj_digest o) sg | None => false end.

  (* Output.is_signed_by(channel) since /repo fb0a075: the channel passed in must be the one the object names
     (claim hash ch), and the signature must verify under that channel's public key pk *)
  Definition obj_valid_channel (pk ch : bytes) (o : sobj) : bool :=
    bytes_eqb (o_ch o) ch && obj_valid pk o.

  Definition ostep (o : sobj) (op : oop) : sobj :=
    match op with
    | OSign sk ch => mk_sobj None (Some (sign sk (sha256 (channel_pieces fo ch (o_msg o))))) ch (o_msg o)
    | OClear => mk_sobj None None [] (o_msg o)
    | OEdit m => mk_sobj (o_legacy o) (o_sig o) (o_ch o) m
    | OReread => match o_sig o with
                 | Some sg => mk_sobj None (Some sg) (o_ch o) (o_msg o)
                 | None => mk_sobj None None [] (o_msg o)
                 end
    end.
  Definition orun (o : sobj) (ops : list oop) : sobj := fold_left ostep ops o.

  (* the behaviour before /repo a3011f6: sign() left the legacy marker in place *)
  Definition ostep_old (o : sobj) (op : oop) : sobj :=
    match op with
    | OSign sk ch => mk_sobj (o_legacy o) (Some (sign sk (sha256 (channel_pieces fo ch (o_msg o))))) ch (o_msg o)
    | _ => ostep o op
    end.
End Obj.

(* an operation that cannot invalidate a signature: a re-read, or an edit that leaves the serialisation as it is *)
Definition keeps (m : bytes) (op : oop) : bool :=
  match op with OReread => true | OEdit m' => bytes_eqb m' m | _ => false end.
Definition not_sign (op : oop) : bool := match op with OSign _ _ => false | _ => true end.
