(* C11 model: lbry/dht/protocol/routing_table.py (KBucket, TreeRoutingTable) of an ordinary node
   (capacity K in every bucket, split_buckets_under_index = 1), lbry/dht/protocol/distance.py and the
   parts of lbry/dht/peer.py the table consults (PeerManager.contact_triple_is_good / get_last_replied).
   Executable definitions only.

   ids and keys are numbers (big-endian value of the 48 bytes); distance = N.lxor.
   A peer is (node id, address, udp port); equality of KademliaPeer compares exactly this triple.
   [rp] selects the repaired [_join_buckets] (true, the code as it is now: range_max = midpoint)
   or the old one (false: range_max = midpoint - 1); the old one only serves C11_join_gap_refuted. *)
From Coq Require Import NArith ZArith List Bool.
Import ListNotations.
Local Open Scope N_scope.

Definition K : nat := 8.                 (* constants.K *)
Definition HASH_BITS : N := 384.
Definition M : N := 2 ^ HASH_BITS.       (* 2 ** constants.HASH_BITS *)

Record peer := mkPeer { pid : N; paddr : N; pport : N }.
Record bucket := mkB { blo : N; bhi : N; bpeers : list peer }.
Definition table := list bucket.

Definition dist (a b : N) : N := N.lxor a b.                      (* Distance(a)(b) *)

Definition same_key (a b : peer) : bool := (paddr a =? paddr b) && (pport a =? pport b).
Definition peer_eqb (a b : peer) : bool := (pid a =? pid b) && same_key a b.   (* dataclass __eq__ *)

Definition init : table := [mkB 0 M []].
Definition contacts (t : table) : list peer := concat (map bpeers t).   (* get_peers() *)

(* ---------- KBucket ---------- *)
Definition in_range (own : N) (b : bucket) (id : N) : bool :=       (* key_in_range *)
  (blo b <=? dist own id) && (dist own id <? bhi b).

Fixpoint remove_first (f : peer -> bool) (l : list peer) : list peer :=   (* list.remove *)
  match l with
  | [] => []
  | x :: r => if f x then r else x :: remove_first f r
  end.

(* KBucket.add_peer: None = False (bucket full) *)
Definition bucket_add (b : bucket) (p : peer) : option bucket :=
  if existsb (peer_eqb p) (bpeers b) then
    Some (mkB (blo b) (bhi b) (remove_first (peer_eqb p) (bpeers b) ++ [p]))
  else if existsb (fun q => pid q =? pid p) (bpeers b) then
    Some (mkB (blo b) (bhi b) (remove_first (fun q => pid q =? pid p) (bpeers b) ++ [p]))
  else if (length (bpeers b) <? K)%nat then
    Some (mkB (blo b) (bhi b) (bpeers b ++ [p]))
  else None.

Definition bucket_remove (b : bucket) (q : peer) : bucket :=
  mkB (blo b) (bhi b) (remove_first (peer_eqb q) (bpeers b)).

(* ---------- _kbucket_index as a zipper: (buckets before, the first bucket in range, buckets after) ---------- *)
Fixpoint find_bucket (own id : N) (t : table) : option (list bucket * bucket * list bucket) :=
  match t with
  | [] => None
  | b :: r => if in_range own b id then Some ([], b, r)
              else match find_bucket own id r with
                   | Some (pre, x, post) => Some (b :: pre, x, post)
                   | None => None
                   end
  end.

(* ---------- stable insertion sort by a numeric key (list.sort(key=...)) ---------- *)
Fixpoint insert_by (key : peer -> N) (x : peer) (l : list peer) : list peer :=
  match l with
  | [] => [x]
  | y :: r => if key x <=? key y then x :: l else y :: insert_by key x r
  end.
Fixpoint sort_by (key : peer -> N) (l : list peer) : list peer :=
  match l with
  | [] => []
  | x :: r => insert_by key x (sort_by key r)
  end.

(* ---------- _should_split ---------- *)
Definition should_split (own : N) (index : nat) (t : table) (id : N) : bool :=
  if (index <? 1)%nat then true
  else
    let cs := sort_by (fun c => dist own (pid c)) (contacts t) in
    let kth := if (length cs <? K)%nat then last cs (mkPeer 0 0 0) else nth (K - 1) cs (mkPeer 0 0 0) in
    match cs with
    | [] => false                     (* IndexError in the code; unreachable: the bucket is full *)
    | _ => dist own id <? dist own (pid kth)
    end.

(* ---------- _split_bucket ---------- *)
Definition split_bucket (own : N) (b : bucket) : bucket * bucket :=
  let sp := bhi b - (bhi b - blo b) / 2 in
  let inr := fun q => (sp <=? dist own (pid q)) && (dist own (pid q) <? bhi b) in
  (mkB (blo b) sp (filter (fun q => negb (inr q)) (bpeers b)),
   mkB sp (bhi b) (filter inr (bpeers b))).

(* ---------- _join_buckets ---------- *)
Definition is_empty (b : bucket) : bool := match bpeers b with [] => true | _ => false end.
Definition set_hi (b : bucket) (h : N) := mkB (blo b) h (bpeers b).
Definition set_lo (b : bucket) (l : N) := mkB l (bhi b) (bpeers b).

(* the list starts with the bucket just below the candidate *)
Fixpoint join_scan (rp : bool) (l : list bucket) : option (list bucket) :=
  match l with
  | [] => None
  | a :: l' =>
    match l' with
    | [] => None
    | b :: rest =>
      if is_empty b then
        match rest with
        | c :: rest' =>
            let mid := (bhi b - blo b) / 2 + blo b in
            Some (set_hi a (if rp then mid else mid - 1) :: set_lo c mid :: rest')
        | [] => Some [set_hi a (bhi b)]
        end
      else match join_scan rp l' with
           | Some r => Some (a :: r)
           | None => None
           end
    end
  end.

(* one round of _join_buckets: None = nothing to do *)
Definition join_step (rp : bool) (t : table) : option table :=
  match t with
  | [] => None
  | [_] => None
  | a :: ((b :: rest) as l') =>
      if is_empty a then Some (set_lo b (blo a) :: rest) else join_scan rp t
  end.

Fixpoint join_n (rp : bool) (n : nat) (t : table) : table :=
  match n with
  | O => t
  | S n' => match join_step rp t with
            | Some t' => join_n rp n' t'
            | None => t
            end
  end.
Definition join (rp : bool) (t : table) : table := join_n rp (length t) t.

(* ---------- TreeRoutingTable.remove_peer: None = IndexError (no bucket covers the distance) ---------- *)
Definition remove_peer (rp : bool) (own : N) (t : table) (q : peer) : option table :=
  match find_bucket own (pid q) t with
  | None => None
  | Some (pre, b, post) =>
      if existsb (peer_eqb q) (bpeers b)
      then Some (join rp (pre ++ bucket_remove b q :: post))
      else Some t                                                  (* ValueError caught *)
  end.

(* the first loop of add_peer over the snapshot get_peers() *)
Fixpoint evict (rp : bool) (own : N) (snap : list peer) (t : table) (p : peer) : option table :=
  match snap with
  | [] => Some t
  | q :: r =>
      if same_key q p && negb (pid q =? pid p) then
        match remove_peer rp own t q with
        | None => None
        | Some t' => evict rp own r (join rp t') p
        end
      else evict rp own r t p
  end.

(* ---------- what add_peer asks of the peer manager, the clock and the probe ---------- *)
Inductive lr_state := Stale | Edge | Fresh.
(* Stale: not last_replied or last_replied + 60 < now;  Fresh: last_replied and last_replied + 60 > now *)
(* what happens when a contact is probed (the ping of KademliaProtocol._add_peer):
   PReply      the probe returns (the contact answered);
   PDead       asyncio.TimeoutError or RemoteException (no answer in time, or an error answer): the only outcomes
               add_peer takes as "the incumbent is dead";
   PLocalFail  any other exception, raised before the contact was even asked -- in production the OSError of a
               failing local sendto() (EWOULDBLOCK, ENETUNREACH ...) that KademliaProtocol._send puts on the
               pending future: it propagates out of add_peer, nothing is displaced. *)
Inductive pout := PReply | PDead | PLocalFail.
Record env := mkEnv {
  good : peer -> bool;          (* contact_triple_is_good(...) is True *)
  lrs : peer -> lr_state;       (* get_last_replied against loop.time() *)
  probe : peer -> pout
}.

Definition is_stale (s : lr_state) : bool := match s with Stale => true | _ => false end.
Definition is_fresh (s : lr_state) : bool := match s with Fresh => true | _ => false end.

(* None = return False without probing *)
Definition choose_replace (e : env) (b : bucket) : option peer :=
  let not_good := filter (fun q => negb (good e q)) (firstn K (bpeers b)) in   (* get_bad_or_unknown_peers *)
  match filter (fun q => is_stale (lrs e q)) not_good with
  | q :: _ => Some q
  | [] => match bpeers b with
          | [] => None                                              (* peers[0] IndexError; unreachable *)
          | h :: _ => if is_fresh (lrs e h) then None else Some h
          end
  end.

(* ErrProbe: the probe's own exception (PLocalFail) leaves add_peer; no _join_buckets on the way out *)
Inductive res := Ret (b : bool) | ErrIndex | ErrFuel | ErrProbe.
Definition is_ret (r : res) : bool := match r with Ret _ => true | _ => false end.

(* ---------- TreeRoutingTable.add_peer: (result, peers probed in order, table) ---------- *)
Fixpoint add_peer (rp : bool) (own : N) (e : env) (fuel : nat) (t : table) (p : peer)
  : res * list peer * table :=
  match fuel with
  | O => (ErrFuel, [], t)
  | S f =>
    match evict rp own (contacts t) t p with
    | None => (ErrIndex, [], t)
    | Some t1 =>
      match find_bucket own (pid p) t1 with
      | None => (ErrIndex, [], t1)
      | Some (pre, b, post) =>
        match bucket_add b p with
        | Some b' => (Ret true, [], pre ++ b' :: post)
        | None =>
          if should_split own (length pre) t1 (pid p) then
            let (b1, b2) := split_bucket own b in
            match add_peer rp own e f (pre ++ b1 :: b2 :: post) p with
            | (r, pr, t3) => if is_ret r then (r, pr, join rp t3) else (r, pr, t3)
            end
          else
            match choose_replace e b with
            | None => (Ret false, [], t1)
            | Some q =>
              match probe e q with
              | PReply => (Ret false, [q], t1)
              | PLocalFail => (ErrProbe, [q], t1)
              | PDead => match add_peer rp own e f (pre ++ bucket_remove b q :: post) p with
                         | (r, pr, t3) => (r, q :: pr, t3)
                         end
              end
            end
        end
      end
    end
  end.

Definition FUEL : nat := 400.

(* ---------- find_close_peers ---------- *)
Definition excluded (own : N) (sender : option N) (q : peer) : bool :=
  (pid q =? own) || match sender with Some s => pid q =? s | None => false end.

Definition candidates (own : N) (sender : option N) (t : table) : list peer :=
  filter (fun q => negb (excluded own sender q)) (contacts t).

(* contacts[:min(count, len(contacts))] with Python's reading of a negative bound *)
Definition py_prefix (l : list peer) (c : Z) : list peer :=
  let n := Z.min c (Z.of_nat (length l)) in
  if (0 <=? n)%Z then firstn (Z.to_nat n) l
  else firstn (Z.to_nat (Z.of_nat (length l) + n)) l.

Definition find_close (own : N) (t : table) (key : N) (count : Z) (sender : option N) : list peer :=
  let c := if (count =? 0)%Z then Z.of_nat K else count in                 (* count or constants.K *)
  py_prefix (sort_by (fun q => dist key (pid q)) (candidates own sender t)) c.

(* ---------- get_peer: None = IndexError; Some None = returns None ---------- *)
Definition get_peer (own : N) (t : table) (id : N) : option (option peer) :=
  match find_bucket own id t with
  | None => None
  | Some (_, b, _) => Some (find (fun q => pid q =? id) (bpeers b))
  end.

(* ---------- histories ---------- *)
Inductive op :=
| Add (p : peer) (e : env)
| AddNoId                         (* peer.node_id is None: returns False *)
| Remove (p : peer)
| RemoveNoId.

Inductive out :=
| OAdd (r : res) (probed : list peer)
| ORemove (ok : bool).            (* false = IndexError *)

Definition step (rp : bool) (own : N) (t : table) (o : op) : table * out :=
  match o with
  | Add p e => match add_peer rp own e FUEL t p with (r, pr, t') => (t', OAdd r pr) end
  | AddNoId => (t, OAdd (Ret false) [])
  | Remove p => match remove_peer rp own t p with
                | Some t' => (t', ORemove true)
                | None => (t, ORemove false)
                end
  | RemoveNoId => (t, ORemove true)
  end.

Fixpoint run_from (rp : bool) (own : N) (t : table) (ops : list op) : table * list out :=
  match ops with
  | [] => (t, [])
  | o :: r => let (t', x) := step rp own t o in
              let (t'', xs) := run_from rp own t' r in (t'', x :: xs)
  end.
Definition run (own : N) (ops : list op) : table := fst (run_from true own init ops).
Definition outs (own : N) (ops : list op) : list out := snd (run_from true own init ops).

(* ====================================================================================================
   PeerManager (lbry/dht/peer.py): the three dictionaries add_peer consults, keyed by (address, udp_port),
   and the clock.  Times are the integer values the virtual clock takes; a dictionary is a list with the
   newest binding first.  Python truthiness matters: a stored time 0 counts as "never".
   ==================================================================================================== *)
Definition akey := (N * N)%type.
Definition akey_eqb (a b : akey) : bool := (fst a =? fst b) && (snd a =? snd b).

Fixpoint lookup {V : Type} (k : akey) (m : list (akey * V)) : option V :=
  match m with
  | [] => None
  | (k', v) :: r => if akey_eqb k k' then Some v else lookup k r
  end.

Record pm := mkPM {
  pm_fail : list (akey * (option N * option N));     (* _rpc_failures: (previous, most recent) *)
  pm_replied : list (akey * N);                      (* _last_replied *)
  pm_requested : list (akey * N)                     (* _last_requested *)
}.
Definition pm_init : pm := mkPM [] [] [].

Definition report_failure (m : pm) (k : akey) (now : N) : pm :=
  let prev := match lookup k (pm_fail m) with Some (_, p) => p | None => None end in
  mkPM ((k, (prev, Some now)) :: pm_fail m) (pm_replied m) (pm_requested m).
Definition report_last_replied (m : pm) (k : akey) (now : N) : pm :=
  mkPM (pm_fail m) ((k, now) :: pm_replied m) (pm_requested m).
Definition report_last_requested (m : pm) (k : akey) (now : N) : pm :=
  mkPM (pm_fail m) (pm_replied m) ((k, now) :: pm_requested m).

Definition truthy (o : option N) : bool := match o with Some v => negb (v =? 0) | None => false end.
Definition tval (o : option N) : Z := match o with Some v => Z.of_N v | None => 0%Z end.

Inductive tri := GTrue | GFalse | GNone.
Definition CHECK_REFRESH_INTERVAL : Z := 720.

(* contact_triple_is_good for a contact that has a node id *)
Definition triple_is_good (m : pm) (now : N) (k : akey) : tri :=
  let delay := (Z.of_N now - CHECK_REFRESH_INTERVAL)%Z in
  let (pf, mf) := match lookup k (pm_fail m) with Some x => x | None => (None, None) end in
  let lreq := lookup k (pm_requested m) in
  let lrep := lookup k (pm_replied m) in
  if truthy mf && truthy lrep then
    if (delay <? tval lrep)%Z && (tval mf <? tval lrep)%Z then GTrue
    else if (tval mf <? tval lrep)%Z then GNone
    else GFalse
  else if truthy pf && truthy mf && (delay <? tval mf)%Z then GFalse
  else if truthy lrep && (delay <? tval lrep)%Z then GTrue
  else if truthy lreq && (delay <? tval lreq)%Z then GNone
  else GNone.

(* get_last_replied against the clock, as add_peer reads it *)
Definition lr_of (m : pm) (now : N) (k : akey) : lr_state :=
  match lookup k (pm_replied m) with
  | None => Stale
  | Some r => if r =? 0 then Stale
              else if r + 60 <? now then Stale
              else if now <? r + 60 then Fresh
              else Edge
  end.

Definition env_of_pm (m : pm) (now : N) (pr : peer -> pout) : env :=
  mkEnv (fun q => match triple_is_good m now (paddr q, pport q) with GTrue => true | _ => false end)
        (fun q => lr_of m now (paddr q, pport q))
        pr.

(* ---------- routing table + peer manager + clock ---------- *)
(* s_pending: KademliaProtocol._to_add, the contacts handed to KademliaProtocol.add_peer that routing_table_task has
   not yet passed to the table (a set: no duplicates; the order in which the task pops them is not fixed) *)
Record sys := mkSys { s_tab : table; s_pm : pm; s_now : N; s_pending : list peer }.
Definition sys_init : sys := mkSys init pm_init 0 [].

Inductive sop :=
| STick (dt : N)
| SReplied (k : akey)
| SFailure (k : akey)
| SRequested (k : akey)
| SAdd (p : peer) (pr : peer -> pout)                 (* TreeRoutingTable.add_peer with a probe that touches nothing else *)
| SAddReal (p : peer) (pr : peer -> pout) (wait : N)  (* KademliaProtocol._add_peer: the probe is a real ping *)
| SPing (q : peer) (o : pout) (wait : N)              (* any other rpc to a contact: get_rpc_peer(q).ping() *)
| SReport (p : peer)                                  (* KademliaProtocol.add_peer(p): queued for routing_table_task *)
| SDrainPick (p : peer) (pr : peer -> pout) (wait : N)  (* routing_table_task pops p from the queue: _add_peer(p) *)
| SAddNoId
| SRemove (p : peer)
| SRemoveNoId.

(* the probe of KademliaProtocol._add_peer: a ping that could not even be sent (OSError from the local socket) says
   nothing about the incumbent, which keeps its place exactly as if it had answered *)
Definition proto_probe (pr : peer -> pout) (q : peer) : pout :=
  match pr q with PLocalFail => PReply | o => o end.

(* the table operation a system operation amounts to in state s (None: it does not touch the table) *)
Definition table_op (s : sys) (o : sop) : option op :=
  match o with
  | SAdd p pr => Some (Add p (env_of_pm (s_pm s) (s_now s) pr))
  | SAddReal p pr _ => Some (Add p (env_of_pm (s_pm s) (s_now s) (proto_probe pr)))
  | SDrainPick p pr _ =>
      if existsb (peer_eqb p) (s_pending s)
      then Some (Add p (env_of_pm (s_pm s) (s_now s) (proto_probe pr)))
      else None
  | SAddNoId => Some AddNoId
  | SRemove p => Some (Remove p)
  | SRemoveNoId => Some RemoveNoId
  | _ => None
  end.

(* what a real ping leaves in the peer manager (send_request / handle_response_datagram): an answer is recorded by
   report_last_replied, a timeout or an error answer by report_failure, a failed local send by nothing *)
Definition ping_effects (m : pm) (now : N) (pr : peer -> pout) (probed : list peer) : pm :=
  fold_left (fun m q => match pr q with
                        | PReply => report_last_replied m (paddr q, pport q) now
                        | PDead => report_failure m (paddr q, pport q) now
                        | PLocalFail => m
                        end) probed m.

Definition probed_of (x : out) : list peer := match x with OAdd _ l => l | _ => [] end.

Definition sys_step (rp : bool) (own : N) (s : sys) (o : sop) : sys * option out :=
  match table_op s o with
  | Some to =>
      let (t', x) := step rp own (s_tab s) to in
      match o with
      | SAddReal _ pr wait =>      (* the clock moves while the ping waits for its timeout *)
          (mkSys t' (ping_effects (s_pm s) (s_now s + wait) pr (probed_of x)) (s_now s + wait) (s_pending s), Some x)
      | SDrainPick p pr wait =>
          (mkSys t' (ping_effects (s_pm s) (s_now s + wait) pr (probed_of x)) (s_now s + wait)
                 (remove_first (peer_eqb p) (s_pending s)), Some x)
      | _ => (mkSys t' (s_pm s) (s_now s) (s_pending s), Some x)
      end
  | None =>
      match o with
      | STick dt => (mkSys (s_tab s) (s_pm s) (s_now s + dt) (s_pending s), None)
      | SReplied k => (mkSys (s_tab s) (report_last_replied (s_pm s) k (s_now s)) (s_now s) (s_pending s), None)
      | SFailure k => (mkSys (s_tab s) (report_failure (s_pm s) k (s_now s)) (s_now s) (s_pending s), None)
      | SRequested k => (mkSys (s_tab s) (report_last_requested (s_pm s) k (s_now s)) (s_now s) (s_pending s), None)
      | SPing q po wait =>
          (mkSys (s_tab s) (ping_effects (s_pm s) (s_now s + wait) (fun _ => po) [q]) (s_now s + wait) (s_pending s), None)
      | SReport p =>
          if (pid p =? own) || existsb (peer_eqb p) (s_pending s) then (s, None)      (* own id refused; a set *)
          else (mkSys (s_tab s) (s_pm s) (s_now s) (s_pending s ++ [p]), None)
      | _ => (s, None)
      end
  end.

Fixpoint sys_run_from (rp : bool) (own : N) (s : sys) (ops : list sop) : sys :=
  match ops with
  | [] => s
  | o :: r => sys_run_from rp own (fst (sys_step rp own s o)) r
  end.
Definition sys_run (own : N) (ops : list sop) : sys := sys_run_from true own sys_init ops.

(* the table history a system history amounts to *)
Fixpoint compile (own : N) (s : sys) (ops : list sop) : list op :=
  match ops with
  | [] => []
  | o :: r => match table_op s o with
              | Some to => to :: compile own (fst (sys_step true own s o)) r
              | None => compile own (fst (sys_step true own s o)) r
              end
  end.

(* ====================================================================================================
   The RPC layer that answers closest-contacts queries (lbry/dht/protocol/protocol.py KademliaRPC):
   findNode = find_close_peers(key, sender_node_id = requester)[:2K]; the contacts of findValue = findNode[:K].
   ==================================================================================================== *)
Definition rpc_find_node (own : N) (t : table) (key : N) (requester : N) : list peer :=
  firstn (K * 2) (find_close own t key 0 (Some requester)).
Definition rpc_find_value_contacts (own : N) (t : table) (key : N) (requester : N) : list peer :=
  firstn K (rpc_find_node own t key requester).
