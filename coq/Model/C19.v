(* C19 model: disk cleanup.  Mirrors (as repaired by 9764e59)
     lbry/blob/disk_space_manager.py   DiskSpaceManager.get_space_used_mb / _clean / clean
     lbry/extras/daemon/storage.py     get_stored_blob_disk_usage, get_stored_blobs (both SQL branches),
                                       delete_blobs_from_db, add_blobs(finished=True)
     lbry/blob/blob_manager.py         delete_blobs (file removal)
   The database is modelled at row level (tables blob, stream_blob, stream, file) including the
   multiplicities the joins produce.  Executable definitions only. *)
From Coq Require Import NArith ZArith List Bool.
Import ListNotations.
Local Open Scope N_scope.

Definition MiB : N := 1048576.
(* int(value / 1024.0 / 1024.0) for a non-negative integer below 2^53 *)
Definition mb (n : N) : N := n / MiB.

(* one row of table [blob]: blob_hash, blob_length, added_on, is_mine, status = 'finished' *)
Record blob := mkBlob { b_hash : N; b_len : N; b_added : N; b_mine : bool; b_fin : bool }.

(* what get_stored_blobs returns per row: (blob_hash, blob_length, added_on) *)
Definition row := (N * N * N)%type.
Definition r_hash (r : row) : N := fst (fst r).
Definition r_len (r : row) : N := snd (fst r).
Definition r_added (r : row) : N := snd r.
Definition row_of (b : blob) : row := (b_hash b, b_len b, b_added b).

Record db := mkDb {
  blobs : list blob;            (* table blob, in rowid order *)
  sblobs : list (N * N);        (* table stream_blob: (stream_hash, blob_hash) *)
  streams : list (N * N);       (* table stream: (stream_hash, sd_hash) *)
  files : list N;               (* table file: stream_hash *)
  disk : list N                 (* blob files present in the blob directory *)
}.

(* ---- join multiplicities ---- *)
Definition count_sb (sb : list (N * N)) (h : N) : nat := length (filter (fun x => snd x =? h) sb).
Definition n_streams (st : list (N * N)) (sh : N) : nat := length (filter (fun x => fst x =? sh) st).
Definition n_files (fl : list N) (sh : N) : nat := length (filter (fun x => x =? sh) fl).
Definition is_sd (st : list (N * N)) (h : N) : bool := existsb (fun x => snd x =? h) st.

(* rows of: blob join stream_blob using (blob_hash) cross join stream using (stream_hash)
            cross join file using (stream_hash)   -- for one blob *)
Definition content_mult (sb st : list (N * N)) (fl : list N) (h : N) : nat :=
  list_sum (map (fun x => if snd x =? h then (n_streams st (fst x) * n_files fl (fst x))%nat else O) sb).
(* rows of: blob join stream on blob.blob_hash = stream.sd_hash join file using (stream_hash) *)
Definition sd_mult (st : list (N * N)) (fl : list N) (h : N) : nat :=
  list_sum (map (fun x => if snd x =? h then n_files fl (fst x) else O) st).

(* ---- get_stored_blob_disk_usage: per-blob contribution to each sum ----
   from blob left join stream_blob using (blob_hash)
   where blob_hash not in (select sd_hash from stream) and blob.status = "finished" *)
Definition counted (st : list (N * N)) (b : blob) : bool := b_fin b && negb (is_sd st (b_hash b)).
Definition join_rows (sb : list (N * N)) (b : blob) : N := N.of_nat (Nat.max 1 (count_sb sb (b_hash b))).

Definition net_term (sb st : list (N * N)) (b : blob) : N :=
  if counted st b && (count_sb sb (b_hash b) =? 0)%nat then b_len b else 0.
Definition content_term (sb st : list (N * N)) (b : blob) : N :=
  if counted st b && negb (b_mine b) then b_len b * N.of_nat (count_sb sb (b_hash b)) else 0.
Definition private_term (sb st : list (N * N)) (b : blob) : N :=
  if counted st b && b_mine b then b_len b * join_rows sb b else 0.
Definition total_term (sb st : list (N * N)) (b : blob) : N :=
  if counted st b then b_len b * join_rows sb b else 0.

Definition nsum (l : list N) : N := fold_right N.add 0 l.

Definition net_bytes (d : db) : N := nsum (map (net_term (sblobs d) (streams d)) (blobs d)).
Definition content_bytes (d : db) : N := nsum (map (content_term (sblobs d) (streams d)) (blobs d)).
Definition private_bytes (d : db) : N := nsum (map (private_term (sblobs d) (streams d)) (blobs d)).
Definition total_bytes (d : db) : N := nsum (map (total_term (sblobs d) (streams d)) (blobs d)).

(* get_space_used_mb: each class truncated separately *)
Definition used_mb (net : bool) (d : db) : N :=
  if net then mb (net_bytes d) else mb (content_bytes d) + mb (private_bytes d).

(* ---- get_stored_blobs(is_mine=False, is_network_blob): candidate rows of one blob ---- *)
Definition content_rows (sb st : list (N * N)) (fl : list N) (b : blob) : list row :=
  if negb (b_mine b) && b_fin b then repeat (row_of b) (content_mult sb st fl (b_hash b)) else [].
Definition sd_rows (st : list (N * N)) (fl : list N) (b : blob) : list row :=
  if negb (b_mine b) then repeat (row_of b) (sd_mult st fl (b_hash b)) else [].
(* network branch (as repaired): ... where stream_blob.stream_hash is null and is_mine=0 and status='finished'
   and blob_hash not in (select sd_hash from stream) -- the same exclusion the usage query makes: the descriptor of a
   stream is not network storage, whether or not the stream has a file *)
Definition net_rows (sb st : list (N * N)) (b : blob) : list row :=
  if negb (b_mine b) && b_fin b && (count_sb sb (b_hash b) =? 0)%nat && negb (is_sd st (b_hash b))
  then [row_of b] else [].
(* the query before that repair: every finished downloaded blob without a stream_blob row, descriptors included *)
Definition net_rows_old (sb : list (N * N)) (b : blob) : list row :=
  if negb (b_mine b) && b_fin b && (count_sb sb (b_hash b) =? 0)%nat then [row_of b] else [].

(* ORDER BY: stable insertion sort over the rows in table order *)
Fixpoint insert (le : row -> row -> bool) (x : row) (l : list row) : list row :=
  match l with
  | [] => [x]
  | y :: t => if le x y then x :: l else y :: insert le x t
  end.
Fixpoint isort (le : row -> row -> bool) (l : list row) : list row :=
  match l with [] => [] | x :: t => insert le x (isort le t) end.

(* order by added_on asc, blob_length asc *)
Definition content_le (a b : row) : bool :=
  (r_added a <? r_added b) || ((r_added a =? r_added b) && (r_len a <=? r_len b)).
(* order by added_on asc *)
Definition sd_le (a b : row) : bool := r_added a <=? r_added b.
(* order by blob_length desc, added_on asc *)
Definition net_le (a b : row) : bool :=
  (r_len b <? r_len a) || ((r_len a =? r_len b) && (r_added a <=? r_added b)).

Definition cands (net : bool) (d : db) : list row :=
  if net then isort net_le (flat_map (net_rows (sblobs d) (streams d)) (blobs d))
  else isort content_le (flat_map (content_rows (sblobs d) (streams d) (files d)) (blobs d))
       ++ isort sd_le (flat_map (sd_rows (streams d) (files d)) (blobs d)).

(* the deletion loop: append, credit int(file_size/MiB), stop as soon as available >= 0 *)
Fixpoint sweep (avail : Z) (cs : list row) : list row * Z :=
  match cs with
  | [] => ([], avail)
  | c :: r =>
      let a := (avail + Z.of_N (mb (r_len c)))%Z in
      if (0 <=? a)%Z then ([c], a)
      else let (dl, a') := sweep a r in (c :: dl, a')
  end.

Definition mem (h : N) (l : list N) : bool := existsb (N.eqb h) l.

(* blob_manager.delete_blobs(delete, delete_from_db=True): files removed, rows removed *)
Definition remove_hashes (dl : list N) (d : db) : db :=
  mkDb (filter (fun b => negb (mem (b_hash b) dl)) (blobs d)) (sblobs d) (streams d) (files d)
       (filter (fun h => negb (mem h dl)) (disk d)).

(* the early-return test of the repaired code *)
Definition skip (net : bool) (limit avail : Z) : bool :=
  ((limit =? 0)%Z && negb net) || (0 <=? avail)%Z.
(* the expression before 9764e59:  storage_limit_mb == 0 if not is_network_blob else available >= 0 *)
Definition skip_old (net : bool) (limit avail : Z) : bool :=
  if negb net then (limit =? 0)%Z else (0 <=? avail)%Z.

Definition clean_pass_with (sk : bool -> Z -> Z -> bool) (net : bool) (limit : Z) (d : db) : list N * db :=
  let avail := (limit - Z.of_N (used_mb net d))%Z in
  if sk net limit avail then ([], d)
  else let dl := map r_hash (fst (sweep avail (cands net d))) in (dl, remove_hashes dl d).

(* DiskSpaceManager._clean(is_network_blob) with the configured limit; the list is the argument
   handed to delete_blobs (its length is the return value) *)
Definition clean_pass : bool -> Z -> db -> list N * db := clean_pass_with skip.
Definition clean_pass_old : bool -> Z -> db -> list N * db := clean_pass_with skip_old.

(* DiskSpaceManager.clean(): content pass, then network pass *)
Definition clean (climit nlimit : Z) (d : db) : (list N * list N) * db :=
  let (d1, db1) := clean_pass false climit d in
  let (d2, db2) := clean_pass true nlimit db1 in ((d1, d2), db2).

(* storage.add_blobs((hash, length, added_on, is_mine), finished=True) + the blob file appearing:
   insert or ignore, then status := 'finished' *)
Definition add_blob (b : blob) (d : db) : db :=
  mkDb (if mem (b_hash b) (map b_hash (blobs d))
        then map (fun x => if b_hash x =? b_hash b
                           then mkBlob (b_hash x) (b_len x) (b_added x) (b_mine x) true else x) (blobs d)
        else blobs d ++ [mkBlob (b_hash b) (b_len b) (b_added b) (b_mine b) true])
       (sblobs d) (streams d) (files d)
       (if mem (b_hash b) (disk d) then disk d else disk d ++ [b_hash b]).

(* BlobManager.setup(): sync_missing_blobs marks finished rows without a file 'pending'; ensure_completed_blobs_status
   re-registers every file found on disk through storage.add_blobs((hash, file size, now, is_mine=False), finished=True):
   an existing row becomes finished and KEEPS its length, added_on and is_mine; a file without a row gets a new row *)
Definition setup_row (dk : list N) (b : blob) : blob :=
  mkBlob (b_hash b) (b_len b) (b_added b) (b_mine b) (mem (b_hash b) dk).
Definition fsize (sizes : list (N * N)) (h : N) : N :=
  match find (fun x => fst x =? h) sizes with Some x => snd x | None => 0 end.
Fixpoint add_orphans (now : N) (sizes : list (N * N)) (hs : list N) (bl : list blob) : list blob :=
  match hs with
  | [] => bl
  | h :: r => add_orphans now sizes r
                (if mem h (map b_hash bl) then bl else bl ++ [mkBlob h (fsize sizes h) now false true])
  end.
Definition setup (now : N) (sizes : list (N * N)) (d : db) : db :=
  mkDb (add_orphans now sizes (disk d) (map (setup_row (disk d)) (blobs d))) (sblobs d) (streams d) (files d) (disk d).

(* start-up stream recovery (StreamManager.initialize_from_database -> recover_streams -> storage.recover_streams) of
   the stream whose descriptor blob [sd] is missing: its rows are dropped and re-inserted (as repaired: every blob
   KEEPS is_mine), the descriptor file is rebuilt from the database, blobs found on disk become finished again, the
   stream gets exactly one file row *)
Definition recover_row (sd now : N) (members dk : list N) (b : blob) : blob :=
  if b_hash b =? sd then mkBlob (b_hash b) (b_len b) now (b_mine b) true
  else if mem (b_hash b) members then mkBlob (b_hash b) (b_len b) (b_added b) (b_mine b) (mem (b_hash b) dk)
  else b.
Definition recover (sd now : N) (d : db) : db :=
  let shs := map fst (filter (fun x => snd x =? sd) (streams d)) in
  let members := map snd (filter (fun x => mem (fst x) shs) (sblobs d)) in
  mkDb (map (recover_row sd now members (disk d)) (blobs d)) (sblobs d) (streams d)
       (filter (fun f => negb (mem f shs)) (files d) ++ shs)
       (if mem sd (disk d) then disk d else disk d ++ [sd]).

(* ---- configuration layers (lbry/conf.py): a setting is looked up in runtime, command line, environment, config
   file, in that order, then its default (0 for both storage limits); assigning a value writes the runtime layer
   (and the config file inside update_config()) -- ALSO when the value equals the default ---- *)
Record layers := mkLayers { l_runtime : option Z; l_args : option Z; l_env : option Z; l_file : option Z }.
Definition effective (l : layers) : Z :=
  match l_runtime l, l_args l, l_env l, l_file l with
  | Some v, _, _, _ => v
  | None, Some v, _, _ => v
  | None, None, Some v, _ => v
  | None, None, None, Some v => v
  | None, None, None, None => 0%Z
  end.
Definition assign (updating : bool) (v : Z) (l : layers) : layers :=
  mkLayers (Some v) (l_args l) (l_env l) (if updating then Some v else l_file l).

Definition hide_files (hs : list N) (d : db) : db :=
  mkDb (blobs d) (sblobs d) (streams d) (files d) (filter (fun h => negb (mem h hs)) (disk d)).
Fixpoint restore_list (hs dk : list N) : list N :=
  match hs with [] => dk | h :: r => restore_list r (if mem h dk then dk else dk ++ [h]) end.
Definition restore_files (hs : list N) (d : db) : db :=
  mkDb (blobs d) (sblobs d) (streams d) (files d) (restore_list hs (disk d)).

Inductive op :=
| OpPass (net : bool) (limit : Z)
| OpClean (climit nlimit : Z)
| OpAdd (b : blob)
| OpDelete (hs : list N)      (* the user removes blobs through the API: blob_manager.delete_blobs(hs, delete_from_db=True) *)
| OpHide (hs : list N)        (* blob files become invisible (blob directory unavailable, files moved away) *)
| OpRestore (hs : list N)     (* blob files are (back) in the blob directory *)
| OpRecover (sds : list N) (now : N)   (* a restart in which the stream manager recovers the streams whose descriptor
                                         files [sds] are missing and whose blob rows are complete (the rebuilt
                                         descriptor must hash to sd_hash: StreamManager.initialize_from_database) *)
| OpSetup (now : N) (sizes : list (N * N))   (* a restart: BlobManager.setup(); [sizes] = size of each blob file *)
| OpStatus.                   (* a status read (get_space_used_mb / get_free_space_mb): no effect on the database;
                                 the pass recomputes usage itself every time, the model has no cache *)

(* a history: the deletion lists of every pass, in order, and the final state *)
Fixpoint run (ops : list op) (d : db) : list (list N) * db :=
  match ops with
  | [] => ([], d)
  | OpPass net limit :: r =>
      let (dl, d1) := clean_pass net limit d in
      let (tr, d2) := run r d1 in (dl :: tr, d2)
  | OpClean cl nl :: r =>
      let '((dl1, dl2), d1) := clean cl nl d in
      let (tr, d2) := run r d1 in (dl1 :: dl2 :: tr, d2)
  | OpAdd b :: r =>
      let (tr, d2) := run r (add_blob b d) in (tr, d2)
  | OpDelete hs :: r =>
      let (tr, d2) := run r (remove_hashes hs d) in (tr, d2)
  | OpHide hs :: r => run r (hide_files hs d)
  | OpRestore hs :: r => run r (restore_files hs d)
  | OpRecover sds now :: r => run r (fold_left (fun acc sd => recover sd now acc) sds d)
  | OpSetup now sizes :: r => run r (setup now sizes d)
  | OpStatus :: r => run r d
  end.

(* hashes the user removed himself during a history *)
Fixpoint user_deleted (ops : list op) : list N :=
  match ops with
  | [] => []
  | OpDelete hs :: r => hs ++ user_deleted r
  | _ :: r => user_deleted r
  end.
(* files somebody moved out of the blob directory during a history *)
Fixpoint hidden (ops : list op) : list N :=
  match ops with
  | [] => []
  | OpHide hs :: r => hs ++ hidden r
  | _ :: r => hidden r
  end.

(* ---- quantities the theorems speak about ---- *)
Definition credited (dl : list row) : N := nsum (map (fun r => mb (r_len r)) dl).
Definition excess (net : bool) (limit : Z) (d : db) : Z := (Z.of_N (used_mb net d) - limit)%Z.
(* bytes of the blob rows that a deletion list removes *)
Definition freed_bytes (dl : list N) (d : db) : N :=
  nsum (map b_len (filter (fun b => mem (b_hash b) dl) (blobs d))).

(* invariants of the schema / of normal operation that some theorems need *)
Definition sd_small (d : db) : Prop :=
  forall b, In b (blobs d) -> is_sd (streams d) (b_hash b) = true -> b_len b < MiB.
Definition wf (d : db) : Prop :=
  NoDup (map b_hash (blobs d)) /\ NoDup (map fst (streams d)) /\ NoDup (files d) /\ sd_small d.

(* membership in the class a pass works on *)
Definition in_class (net : bool) (d : db) (h : N) : Prop :=
  if net then count_sb (sblobs d) h = O /\ is_sd (streams d) h = false
  else (exists sh, In (sh, h) (sblobs d) /\ In sh (map fst (streams d)) /\ In sh (files d))
       \/ (exists sh, In (sh, h) (streams d) /\ In sh (files d)).

(* ---- further vocabulary of the theorems ---- *)

(* the rows a pass hands to delete_blobs (before projecting to hashes) *)
Definition pass_rows (net : bool) (limit : Z) (d : db) : list row :=
  let avail := (limit - Z.of_N (used_mb net d))%Z in
  if skip net limit avail then [] else fst (sweep avail (cands net d)).

Definition row0 : row := (0, 0, 0).

(* blob_hash is the primary key of table blob *)
Definition hashes_unique (d : db) : Prop := NoDup (map b_hash (blobs d)).

(* what the accounting silently relies on: stream_hash is a key of [stream] (schema) and of [file] (maintained by
   the application, not by the schema), and stream descriptors are below one megabyte *)
Definition tables_ok (d : db) : Prop := NoDup (map fst (streams d)) /\ NoDup (files d) /\ sd_small d.

(* "enough removable blobs": the accounted megabytes of the candidate rows cover the excess *)
Definition enough (net : bool) (limit : Z) (d : db) : Prop :=
  (excess net limit d <= Z.of_N (credited (cands net d)))%Z.

Definition own_hashes (d : db) : list N := map b_hash (filter b_mine (blobs d)).

(* ---- a database created by an older release (db_revision <= 14), upgraded by migrate14to15:
        alter table blob add column added_on integer not null default 0;
        alter table blob add column is_mine integer not null default 1;
   every row that existed before the upgrade becomes the user's own (nothing stored earlier may be evicted) ---- *)
Definition migrate_row (r : N * N * bool) : blob := mkBlob (fst (fst r)) (snd (fst r)) 0 true (snd r).
Definition migrated_db (legacy : list (N * N * bool)) (post : list blob)
                       (sb st : list (N * N)) (fl dk : list N) : db :=
  mkDb (map migrate_row legacy ++ post) sb st fl dk.

(* a list is ordered by a (total, transitive) boolean order *)
Fixpoint sorted_by (le : row -> row -> bool) (l : list row) : Prop :=
  match l with
  | [] => True
  | x :: t => (forall y, In y t -> le x y = true) /\ sorted_by le t
  end.

(* the network candidates before the repair of the query *)
Definition cands_net_old (d : db) : list row := isort net_le (flat_map (net_rows_old (sblobs d)) (blobs d)).

(* ---- example states (used by the Examples of Props/C19.v) ---- *)

(* a downloaded stream (blob 1, descriptor 2) and two seeded blobs below / above 1 MiB; content storage unlimited *)
Definition netsd_db : db :=
  mkDb [mkBlob 1 (2 * MiB) 1 false true; mkBlob 2 300 2 false true; mkBlob 3 (MiB + MiB / 2) 3 false true;
        mkBlob 4 943718 4 false true] [(10, 1)] [(10, 2)] [10] [1; 2; 3; 4].


(* the reproducer of the repaired defect: 3 MB used, limit 100 MB *)
Definition witness_db : db :=
  mkDb [mkBlob 1 (3 * MiB) 1 false true; mkBlob 2 200 2 false true] [(10, 1)] [(10, 2)] [10] [1; 2].

(* an own stream (2 x 2 MiB), a downloaded stream with a file (2 MiB, 2 MiB, 0.5 MiB), two network blobs *)
Definition ex_db : db :=
  mkDb [ mkBlob 20 400 1 true true; mkBlob 21 (2 * MiB) 2 true true; mkBlob 22 (2 * MiB) 3 true true;
         mkBlob 30 300 10 false true; mkBlob 31 (2 * MiB) 11 false true; mkBlob 32 (2 * MiB) 12 false true;
         mkBlob 33 (MiB / 2) 13 false true;
         mkBlob 40 (2 * MiB) 20 false true; mkBlob 41 (MiB + MiB / 2) 21 false true ]
       [(200, 21); (200, 22); (300, 31); (300, 32); (300, 33)]
       [(200, 20); (300, 30)] [200; 300]
       [20; 21; 22; 30; 31; 32; 33; 40; 41].

(* three downloaded streams of one 0.95 MiB blob each: 2 MB used; every blob is accounted as 0 MB *)
Definition sweep_db : db :=
  mkDb [ mkBlob 1 996147 1 false true; mkBlob 2 996147 2 false true; mkBlob 3 996147 3 false true;
         mkBlob 11 500 4 false true; mkBlob 12 500 5 false true; mkBlob 13 500 6 false true ]
       [(101, 1); (102, 2); (103, 3)] [(101, 11); (102, 12); (103, 13)] [101; 102; 103]
       [1; 2; 3; 11; 12; 13].

(* outside [tables_ok]: a stream descriptor of 1 MiB is credited although usage never counted it *)
Definition sd_credit_db : db :=
  mkDb [ mkBlob 1 (MiB + MiB / 2) 1 false true; mkBlob 2 MiB 2 false true; mkBlob 3 (3 * MiB) 3 true true ]
       [(10, 1)] [(10, 2)] [10] [1; 2; 3].

(* outside [tables_ok]: two file rows for one stream credit the same blob twice *)
Definition dup_file_db : db :=
  mkDb [ mkBlob 1 (MiB + MiB / 2) 1 false true; mkBlob 2 300 2 false true; mkBlob 3 (3 * MiB) 3 true true ]
       [(10, 1)] [(10, 2)] [10; 10] [1; 2; 3].
