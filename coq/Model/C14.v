(* C14 model: concurrent transaction builds on one wallet.
   Every build runs the program of Transaction.create / Ledger.get_spendable_utxos as a sequence of
   atomic steps (one per await point):

     PreLock   async with ledger._utxo_reservation_lock      (repaired: the pre-chosen inputs are reserved under the
     Pre       await ledger.reserve_outputs(pre-chosen inputs)  lock; [lock_pre] = false is the code before that repair,
     PreUnlock leaving the `async with`                      where this reservation ran outside the lock).
               The pre-chosen wallet outputs belong to the build's inputs from Pre on.  If they already cover the
               cost the build never enters the lock again and goes on to signing / Finish
     Lock      async with self._utxo_reservation_lock       (blocks while somebody holds it)
     Read      txos = await self.get_effective_amount_estimators(...)   (unreserved, unspent rows)
     Select    spendables = selector.select(txos, strategy)
     Reserve   if spendables: await self.reserve_outputs(...)
     Unlock    leaving the `async with`
       ... another round (Transaction.create loops up to five times), or
     Abort     nothing selected (InsufficientFundsError) or tx.sign raised after the last round:
               the handler runs await ledger.release_tx(tx)
     Finish    the caller broadcasts the transaction (its inputs become spent) or abandons it
               (ledger.release_tx)

   (for the sqlite strategy Read/Select/Reserve happen inside one database transaction, still under
   the lock).  A schedule is an arbitrary list of build numbers; [run] executes one step of the
   named build per element, so every interleaving the event loop can produce is a schedule.
   Executable definitions only. *)
From Coq Require Import NArith ZArith List Bool Arith.
From LV Require Import Model.C03.
Import ListNotations.

Inductive status := Released | Broadcast | Failed.
Inductive phase :=
  PPreLock | PPre | PPreUnlock | PLock | PRead | PSelect | PReserve | PUnlock | PAbort | PFinish | PDone (s : status).

Record build := mkB {
  ph : phase;
  rnd : nat;                 (* how many rounds of the balancing loop are complete *)
  snap : list utxo;          (* what Read returned *)
  sel : list utxo;           (* what Select chose *)
  held : list utxo           (* inputs added to the transaction so far *)
}.

Record state := mkS {
  wal : wallet;              (* spendable rows with their is_reserved flag *)
  lock : option nat;         (* who holds _utxo_reservation_lock *)
  bs : nat -> build
}.

Definition init_build : build := mkB PPreLock 0 [] [] [].
Definition init (w : wallet) : state := mkS w None (fun _ => init_build).

Definition upd (f : nat -> build) (b : nat) (x : build) : nat -> build :=
  fun i => if Nat.eqb i b then x else f i.

(* the outputs of a broadcast transaction are spent: they are no longer rows of the UTXO set *)
Definition spend (ids : list N) (w : wallet) : wallet :=
  filter (fun e => negb (mem_id (uid (fst e)) ids)) w.

Definition crit (p : phase) : bool :=
  match p with PPre | PPreUnlock | PRead | PSelect | PReserve | PUnlock => true | _ => false end.

Section Builds.
  Variable use_lock : bool.                               (* false: the program without its Lock/Unlock steps *)
  Variable lock_pre : bool.                               (* true: the pre-chosen inputs are reserved under the lock (repaired) *)
  Variable n : nat.                                       (* number of builds *)
  Variable choose : nat -> nat -> list utxo -> list utxo. (* build, round, rows read -> selection *)
  Variable more : nat -> nat -> list utxo -> bool.        (* build, round, inputs so far -> one more round *)
  Variable finish : nat -> bool.                          (* build -> true: broadcast, false: abandon *)
  Variable pre : nat -> list utxo.                        (* build -> its pre-chosen inputs that are rows of the wallet *)
  Variable start : nat -> bool.                           (* build -> the pre-chosen inputs do not cover the cost *)
  Variable quits : nat -> nat -> bool.                    (* build, rounds done -> the build is cancelled at this point (waiting for the
                                                             lock of its next round, or after its last round before it is handed out):
                                                             the handler of create releases every input (repaired: BaseException) *)
  Variable can_sign : nat -> list utxo -> bool.           (* build, its inputs -> tx.sign succeeds (true for sign=False) *)

  Definition step (st : state) (b : nat) : state :=
    if n <=? b then st else
    let B := bs st b in
    match ph B with
    | PPreLock =>
      if use_lock && lock_pre then
        match lock st with
        | None => mkS (wal st) (Some b) (upd (bs st) b (mkB PPre (rnd B) (snap B) (sel B) (held B)))
        | Some _ => st
        end
      else mkS (wal st) (lock st) (upd (bs st) b (mkB PPre (rnd B) (snap B) (sel B) (held B)))
    | PPre =>
      mkS (reserve (pre b) (wal st)) (lock st)
          (upd (bs st) b (mkB PPreUnlock (rnd B) (snap B) (sel B) (held B ++ pre b)))
    | PPreUnlock =>
      mkS (wal st) (if use_lock && lock_pre then None else lock st)
          (upd (bs st) b
               (if start b then mkB PLock (rnd B) [] [] (held B)
                else if can_sign b (held B) then mkB PFinish (rnd B) [] [] (held B)
                else mkB PAbort (rnd B) [] [] (held B)))
    | PLock =>
      if quits b (rnd B) then
        mkS (wal st) (lock st) (upd (bs st) b (mkB PAbort (rnd B) [] [] (held B)))
      else
      if use_lock then
        match lock st with
        | None => mkS (wal st) (Some b) (upd (bs st) b (mkB PRead (rnd B) (snap B) (sel B) (held B)))
        | Some _ => st
        end
      else mkS (wal st) (lock st) (upd (bs st) b (mkB PRead (rnd B) (snap B) (sel B) (held B)))
    | PRead =>
      mkS (wal st) (lock st) (upd (bs st) b (mkB PSelect (rnd B) (unreserved (wal st)) [] (held B)))
    | PSelect =>
      mkS (wal st) (lock st)
          (upd (bs st) b (mkB PReserve (rnd B) (snap B) (choose b (rnd B) (snap B)) (held B)))
    | PReserve =>
      mkS (if nonempty (sel B) then reserve (sel B) (wal st) else wal st) (lock st)
          (upd (bs st) b (mkB PUnlock (rnd B) (snap B) (sel B) (held B ++ sel B)))
    | PUnlock =>
      mkS (wal st) (if use_lock then None else lock st)
          (upd (bs st) b
               (if nonempty (sel B) then
                  if more b (rnd B) (held B) then mkB PLock (S (rnd B)) [] [] (held B)
                  else if can_sign b (held B) then mkB PFinish (S (rnd B)) [] [] (held B)
                  else mkB PAbort (S (rnd B)) [] [] (held B)   (* tx.sign raised: handler -> release_tx *)
                else mkB PAbort (rnd B) [] [] (held B)))
    | PAbort =>
      mkS (release (map uid (held B)) (wal st)) (lock st)
          (upd (bs st) b (mkB (PDone Failed) (rnd B) [] [] []))
    | PFinish =>
      if quits b (rnd B) then
        mkS (wal st) (lock st) (upd (bs st) b (mkB PAbort (rnd B) [] [] (held B)))
      else
      if finish b then
        mkS (spend (map uid (held B)) (wal st)) (lock st)
            (upd (bs st) b (mkB (PDone Broadcast) (rnd B) [] [] []))
      else
        mkS (release (map uid (held B)) (wal st)) (lock st)
            (upd (bs st) b (mkB (PDone Released) (rnd B) [] [] []))
    | PDone _ => st
    end.

  Definition run (sched : list nat) (st : state) : state := fold_left step sched st.
End Builds.

(* the chooser of the real code: Model/C03's selection with each build's own strategy and the
   deficit it asks for in each round *)
Definition c03_choose (fpb : Z) (shuffle : list utxo -> list utxo)
           (strat : nat -> strategy) (amount : nat -> nat -> Z) : nat -> nat -> list utxo -> list utxo :=
  fun b r free => choose_from fpb shuffle (strat b) free (amount b r).

(* observables *)
Definition held_ids (st : state) (b : nat) : list N := map uid (held (bs st b)).
Definition wallet_ids (st : state) : list N := map (fun e => uid (fst e)) (wal st).
Definition finished (p : phase) : bool := match p with PDone _ => true | _ => false end.
