(* C09 model: wallet sync (lbry/wallet/ledger.py update_history / _sync / _sync_and_save_batch,
   database.py _transaction_io / save_transaction_io_batch / set_address_history / get_balance /
   get_detailed_balance / get_utxos, account.py HierarchicalDeterministic.ensure_address_gap).
   Executable definitions only.

   Abstractions (checked by the correspondence run, see harness/props/c09.py):
   - a transaction is (id, inputs = (prev id, prev position) list, outputs); an output carries the kind of
     address its script pays (PKH a / SH h / none), its amount, the claim wrapper kind of its script
     (0 plain, 1 stream, 2 channel, 3 support, 5 collection, 6 repost) and whether it is purchase data;
   - wallet addresses are W chain n (n-th key of an address chain), every other pubkey hash is X k;
   - the status hash of a history is represented by the history itself (sha256 of the "txid:height:" string
     is taken to be injective);
   - merkle verification / is_verified is not modelled (C08 covers it);
   - at most one batch (<= 100 transactions) per address sync. *)
From Coq Require Import NArith ZArith List Bool Arith.
Import ListNotations.

(* ---------- addresses, transactions ---------- *)
Inductive addr := W (c : N) (n : nat) | X (k : N).

Definition addr_eqb (a b : addr) : bool :=
  match a, b with
  | W c n, W c' n' => N.eqb c c' && Nat.eqb n n'
  | X k, X k' => N.eqb k k'
  | _, _ => false
  end.

Inductive okind := PKH (a : addr) | SH (h : N) | NoAddr.

Record output := mkOut { o_kind : okind; o_amount : N; o_wrap : N; o_pdata : bool }.
Record tx := mkTx { t_id : N; t_ins : list (N * nat); t_outs : list output }.

Definition entry := (N * Z)%type.          (* one history line: txid, height *)
Definition hist := list entry.
Definition stx := (tx * Z)%type.           (* a transaction with the height the server reports *)

Definition entry_eqb (x y : entry) : bool := N.eqb (fst x) (fst y) && Z.eqb (snd x) (snd y).
Fixpoint hist_eqb (l r : hist) : bool :=
  match l, r with
  | [], [] => true
  | x :: l', y :: r' => entry_eqb x y && hist_eqb l' r'
  | _, _ => false
  end.
Definition mem_entry (e : entry) (l : hist) : bool := existsb (entry_eqb e) l.

Definition pays (a : addr) (o : output) : bool :=
  match o_kind o with PKH b => addr_eqb b a | _ => false end.

Definition find_tx (S : list stx) (p : N) : option tx :=
  match find (fun x => N.eqb (t_id (fst x)) p) S with
  | Some x => Some (fst x)
  | None => None
  end.

Definition out_at (S : list stx) (p : N) (i : nat) : option output :=
  match find_tx S p with Some t => nth_error (t_outs t) i | None => None end.

Definition spends_from (S : list stx) (a : addr) (inp : N * nat) : bool :=
  match out_at S (fst inp) (snd inp) with Some o => pays a o | None => false end.

(* the server lists a transaction in the history of [a] when it pays [a] or spends an output paying [a] *)
Definition touches (S : list stx) (a : addr) (t : tx) : bool :=
  existsb (pays a) (t_outs t) || existsb (spends_from S a) (t_ins t).

Definition server_hist (S : list stx) (a : addr) : hist :=
  map (fun x => (t_id (fst x), snd x)) (filter (fun x => touches S a (fst x)) S).

Definition ids (S : list stx) : list N := map (fun x => t_id (fst x)) S.
Definition mem_id (p : N) (l : list N) : bool := existsb (N.eqb p) l.

(* consistency of a server state: ids unique and non-null, every input's parent is present or external (0),
   listed in the canonical order *)
Fixpoint nodup_ids (l : list N) : bool :=
  match l with [] => true | x :: r => negb (mem_id x r) && nodup_ids r end.
Definition closed_b (S : list stx) : bool :=
  forallb (fun x => forallb (fun inp => N.eqb (fst inp) 0 || mem_id (fst inp) (ids S)) (t_ins (fst x))) S.
(* canonical order of a server's list: confirmed transactions by (height, id), then mempool ones by id *)
Definition entry_lt (x y : entry) : bool :=
  if (0 <? snd x)%Z then
    (if (0 <? snd y)%Z then (snd x <? snd y)%Z || ((snd x =? snd y)%Z && N.ltb (fst x) (fst y)) else true)
  else
    (if (0 <? snd y)%Z then false else N.ltb (fst x) (fst y)).
Fixpoint sorted_b (l : hist) : bool :=
  match l with
  | x :: r => match r with y :: _ => entry_lt x y && sorted_b r | [] => true end
  | [] => true
  end.
Definition entries (S : list stx) : hist := map (fun x => (t_id (fst x), snd x)) S.
Definition server_ok_b (S : list stx) : bool :=
  nodup_ids (ids S) && negb (mem_id 0%N (ids S)) && closed_b S && sorted_b (entries S).

Definition output_eqb (o o' : output) : bool :=
  match o_kind o, o_kind o' with
  | PKH a, PKH b => addr_eqb a b
  | SH h, SH h' => N.eqb h h'
  | NoAddr, NoAddr => true
  | _, _ => false
  end && N.eqb (o_amount o) (o_amount o') && N.eqb (o_wrap o) (o_wrap o') && Bool.eqb (o_pdata o) (o_pdata o').
Fixpoint list_eqb {A} (f : A -> A -> bool) (l r : list A) : bool :=
  match l, r with
  | [], [] => true
  | x :: l', y :: r' => f x y && list_eqb f l' r'
  | _, _ => false
  end.
Definition tx_eqb (t t' : tx) : bool :=
  N.eqb (t_id t) (t_id t')
  && list_eqb (fun x y => N.eqb (fst x) (fst y) && Nat.eqb (snd x) (snd y)) (t_ins t) (t_ins t')
  && list_eqb output_eqb (t_outs t) (t_outs t').
(* the server never retracts: every transaction it had is still there (the height may change) *)
Definition grows_b (S S' : list stx) : bool :=
  forallb (fun x => existsb (fun y => tx_eqb (fst x) (fst y)) S') S.

(* ---------- wallet database ---------- *)
Record txo_row := mkTxo { r_txid : N; r_pos : nat; r_out : output; r_type : N }.
Record txi_row := mkTxi { i_txid : N; i_ipos : nat; i_prev : N; i_ppos : nat; i_addr : addr }.

Inductive stage :=
| Fetched (H : hist) (B : list stx)    (* remote history fetched, transactions to save *)
| Saved (H : hist)                      (* batch saved (history column blanked), history not yet written *)
| HistSet.                              (* history written, gap not yet ensured *)

Record state := mkState {
  server : list stx;
  tx_t : list stx;                      (* tx table: transaction and stored height *)
  txo_t : list txo_row;
  txi_t : list txi_row;
  hists : list (addr * hist);           (* pubkey_address.history, absent = empty *)
  pend : list (addr * stage);           (* addresses whose update_history holds the address lock *)
  gaps : list (N * nat);                (* chain -> gap *)
  kcs : list (N * nat)                  (* chain -> number of generated addresses (n = 0 .. k-1) *)
}.

Fixpoint aget {V} (l : list (addr * V)) (a : addr) : option V :=
  match l with
  | [] => None
  | (b, v) :: r => if addr_eqb b a then Some v else aget r a
  end.
Definition aset {V} (l : list (addr * V)) (a : addr) (v : V) : list (addr * V) :=
  (a, v) :: filter (fun x => negb (addr_eqb (fst x) a)) l.
Definition adel {V} (l : list (addr * V)) (a : addr) : list (addr * V) :=
  filter (fun x => negb (addr_eqb (fst x) a)) l.

Fixpoint nget (l : list (N * nat)) (c : N) : nat :=
  match l with
  | [] => 0
  | (d, v) :: r => if N.eqb d c then v else nget r c
  end.
Definition nset (l : list (N * nat)) (c : N) (v : nat) : list (N * nat) :=
  (c, v) :: filter (fun x => negb (N.eqb (fst x) c)) l.

Definition get_hist (s : state) (a : addr) : hist :=
  match aget (hists s) a with Some h => h | None => [] end.
Definition known (s : state) (a : addr) : bool :=
  match a with W c n => Nat.ltb n (nget (kcs s) c) | X _ => false end.
Definition used (s : state) (a : addr) : bool :=
  match get_hist s a with [] => false | _ => true end.

(* ---------- update_history: compare status, fetch, diff ---------- *)
Fixpoint common_prefix (l r : hist) : hist :=
  match l, r with
  | x :: l', y :: r' => if entry_eqb x y then x :: common_prefix l' r' else []
  | _, _ => []
  end.

Definition fetch_batch (S : list stx) (toreq : hist) : list stx :=
  flat_map (fun e => match find_tx S (fst e) with Some t => [(t, snd e)] | None => [] end) toreq.

Definition set_pend (s : state) (p : list (addr * stage)) : state :=
  mkState (server s) (tx_t s) (txo_t s) (txi_t s) (hists s) p (gaps s) (kcs s).

Definition begin (s : state) (a : addr) (st : hist) : state :=
  let local := get_hist s a in
  if hist_eqb local st then s
  else
    let H := server_hist (server s) a in
    let need := filter (fun e => negb (mem_entry e local)) H in
    match need with
    | [] => s
    | _ =>
      let pre := common_prefix local H in
      let toreq := filter (fun e => negb (mem_entry e pre)) H in
      set_pend s (aset (pend s) a (Fetched H (fetch_batch (server s) toreq)))
    end.

(* ---------- _sync (input resolution) and _transaction_io ---------- *)
Definition find_txo (l : list txo_row) (p : N) (i : nat) : option txo_row :=
  find (fun r => N.eqb (r_txid r) p && Nat.eqb (r_pos r) i) l.

Definition resolve (R : list N) (B : list stx) (txo : list txo_row) (txt : list stx) (inp : N * nat)
  : option output :=
  if mem_id (fst inp) R then
    match find_tx B (fst inp) with
    | Some t => nth_error (t_outs t) (snd inp)
    | None =>
      match find_txo txo (fst inp) (snd inp) with
      | Some r => Some (r_out r)
      | None => match find_tx txt (fst inp) with
                | Some t => nth_error (t_outs t) (snd inp)
                | None => None
                end
      end
    end
  else None.

Definition enum {A} (l : list A) : list (nat * A) := combine (seq 0 (length l)) l.

(* txi rows this transaction contributes when saved for address a *)
Definition new_txi (a : addr) (R : list N) (B : list stx) (txo : list txo_row) (txt : list stx) (t : tx)
  : list txi_row :=
  flat_map (fun ki =>
      match resolve R B txo txt (snd ki) with
      | Some o => if pays a o then [mkTxi (t_id t) (fst ki) (fst (snd ki)) (snd (snd ki)) a] else []
      | None => []
      end) (enum (t_ins t)).

Definition txo_type (t : tx) (pos : nat) (o : output) : N :=
  if N.eqb (o_wrap o) 0 then
    match pos with
    | O => match nth_error (t_outs t) 1 with
           | Some o1 => if o_pdata o1 then 4%N else 0%N
           | None => 0%N
           end
    | _ => 0%N
    end
  else o_wrap o.

Definition store_out (a : addr) (mine : bool) (o : output) : bool :=
  match o_kind o with
  | PKH b => addr_eqb b a || mine
  | SH _ => mine
  | NoAddr => false
  end.

Definition new_txo (a : addr) (mine : bool) (t : tx) : list txo_row :=
  flat_map (fun ko => if store_out a mine (snd ko)
                      then [mkTxo (t_id t) (fst ko) (snd ko) (txo_type t (fst ko) (snd ko))] else [])
           (enum (t_outs t)).

(* insert or ignore / insert or replace *)
Definition has_txo (l : list txo_row) (p : N) (i : nat) : bool :=
  existsb (fun r => N.eqb (r_txid r) p && Nat.eqb (r_pos r) i) l.
Definition ins_txo (l : list txo_row) (r : txo_row) : list txo_row :=
  if has_txo l (r_txid r) (r_pos r) then l else l ++ [r].
Definition has_txi (l : list txi_row) (p : N) (i : nat) : bool :=
  existsb (fun r => N.eqb (i_prev r) p && Nat.eqb (i_ppos r) i) l.
Definition ins_txi (l : list txi_row) (r : txi_row) : list txi_row :=
  if has_txi l (i_prev r) (i_ppos r) then l else l ++ [r].
Definition upsert_tx (l : list stx) (x : stx) : list stx :=
  filter (fun y => negb (N.eqb (t_id (fst y)) (t_id (fst x)))) l ++ [x].

Record db := mkDb { d_tx : list stx; d_txo : list txo_row; d_txi : list txi_row }.

(* one _transaction_io; [rows] are the txi rows resolved beforehand by _sync *)
Definition save_one (a : addr) (d : db) (x : stx) (rows : list txi_row) : db :=
  let mine := match rows with [] => false | _ => true end in
  mkDb (upsert_tx (d_tx d) x)
       (fold_left ins_txo (new_txo a mine (fst x)) (d_txo d))
       (fold_left ins_txi rows (d_txi d)).

Definition save_batch (a : addr) (H : hist) (B : list stx) (d : db) : db :=
  let R := map fst H in
  (* all inputs are resolved (gather of _sync) before the first row is written *)
  let resolved := map (fun x => (x, new_txi a R B (d_txo d) (d_tx d) (fst x))) B in
  fold_left (fun d xr => save_one a d (fst xr) (snd xr)) resolved d.

Definition save (s : state) (a : addr) (H : hist) (B : list stx) : state :=
  let d := save_batch a H B (mkDb (tx_t s) (txo_t s) (txi_t s)) in
  mkState (server s) (d_tx d) (d_txo d) (d_txi d)
          (aset (hists s) a [])            (* save_transaction_io_batch(..., history="") *)
          (aset (pend s) a (Saved H)) (gaps s) (kcs s).

Definition set_history (s : state) (a : addr) (H : hist) : state :=
  mkState (server s) (tx_t s) (txo_t s) (txi_t s) (aset (hists s) a H)
          (aset (pend s) a HistSet) (gaps s) (kcs s).

(* ---------- ensure_address_gap ---------- *)
Fixpoint lead (u : nat -> bool) (k fuel : nat) : nat :=
  match fuel, k with
  | S f, S k' => if u k' then 0 else S (lead u k' f)
  | _, _ => 0
  end.

Definition chain_of (a : addr) : option N := match a with W c _ => Some c | X _ => None end.

Definition ensure_gap (s : state) (c : N) : state :=
  let g := nget (gaps s) c in
  let k := nget (kcs s) c in
  let e := lead (fun n => used s (W c n)) k g in
  if Nat.eqb e g then s
  else mkState (server s) (tx_t s) (txo_t s) (txi_t s) (hists s) (pend s) (gaps s)
               (nset (kcs s) c (k + (g - e))).

(* ---------- steps ---------- *)
Inductive op :=
| Server (S : list stx)        (* the server state changes (new block / mempool transactions) *)
| Begin (a : addr) (st : hist) (* update_history(a, status st) takes the address lock, compares, fetches *)
| Save (a : addr)              (* _sync + save_transaction_io_batch *)
| SetHist (a : addr)           (* set_address_history *)
| Gap (a : addr)               (* ensure_address_gap of a's chain, lock released *)
| GapChain (c : N)             (* ensure_address_gap called outside a sync (subscribe_account) *)
| Restart.                     (* the wallet process stops (every running update dies, locks are gone, the database
                                  keeps what was committed) and starts again: subscribe_accounts ensures the gap of
                                  every chain; the re-subscription's updates follow as ordinary Begin steps *)

Definition restart (s : state) : state :=
  fold_left ensure_gap (map fst (gaps s)) (set_pend s []).

Definition step (s : state) (o : op) : option state :=
  match o with
  | Server S' =>
      if server_ok_b S' && grows_b (server s) S'
      then Some (mkState S' (tx_t s) (txo_t s) (txi_t s) (hists s) (pend s) (gaps s) (kcs s))
      else None
  | Begin a st =>
      if known s a then
        match aget (pend s) a with
        | None => Some (begin s a st)
        | Some _ => None
        end
      else None
  | Save a =>
      match aget (pend s) a with
      | Some (Fetched H B) => Some (save s a H B)
      | _ => None
      end
  | SetHist a =>
      match aget (pend s) a with
      | Some (Saved H) => Some (set_history s a H)
      | _ => None
      end
  | Gap a =>
      match aget (pend s) a, chain_of a with
      | Some HistSet, Some c =>
          Some (ensure_gap (set_pend s (adel (pend s) a)) c)
      | _, _ => None
      end
  | GapChain c => Some (ensure_gap s c)
  | Restart => Some (restart s)
  end.

Fixpoint run (s : state) (ops : list op) : option state :=
  match ops with
  | [] => Some s
  | o :: r => match step s o with Some s' => run s' r | None => None end
  end.

Definition init (g : list (N * nat)) : state := mkState [] [] [] [] [] [] g [].

(* index of the first step that is not enabled (for the driver) *)
Fixpoint run_upto (s : state) (ops : list op) (i : nat) : state * option nat :=
  match ops with
  | [] => (s, None)
  | o :: r => match step s o with Some s' => run_upto s' r (S i) | None => (s, Some i) end
  end.

(* ---------- what the wallet reports ---------- *)
Definition in_chains (cs : list N) (a : addr) : bool :=
  match a with W c _ => existsb (N.eqb c) cs | X _ => false end.

(* a txo row counts for an account when its address is one of the account's generated addresses *)
Definition row_mine (s : state) (cs : list N) (r : txo_row) : bool :=
  match o_kind (r_out r) with PKH a => known s a && in_chains cs a | _ => false end.

Definition utxos (s : state) (cs : list N) : list txo_row :=
  filter (fun r => row_mine s cs r && negb (has_txi (txi_t s) (r_txid r) (r_pos r))) (txo_t s).

Definition sum_amount (l : list txo_row) : N := fold_right (fun r acc => (o_amount (r_out r) + acc)%N) 0%N l.

Definition spendable_type (ty : N) : bool := N.eqb ty 0 || N.eqb ty 4.
Definition claim_type (ty : N) : bool := N.eqb ty 1 || N.eqb ty 2 || N.eqb ty 5 || N.eqb ty 6.

(* account.get_utxos(): spendable set; account.get_balance(): its sum *)
Definition spendable (s : state) (cs : list N) : list txo_row :=
  filter (fun r => spendable_type (r_type r)) (utxos s cs).
Definition balance (s : state) (cs : list N) : N := sum_amount (spendable s cs).

(* get_detailed_balance: LEFT JOIN txi ON (txi.position=0 AND txi.txid=txo.txid), address in the account *)
Definition first_input_mine (s : state) (cs : list N) (txid : N) : bool :=
  existsb (fun i => N.eqb (i_txid i) txid && Nat.eqb (i_ipos i) 0
                    && known s (i_addr i) && in_chains cs (i_addr i)) (txi_t s).

Definition total (s : state) (cs : list N) : N := sum_amount (utxos s cs).
Definition claims_total (s : state) (cs : list N) : N :=
  sum_amount (filter (fun r => claim_type (r_type r)) (utxos s cs)).
Definition supports_total (s : state) (cs : list N) : N :=
  sum_amount (filter (fun r => N.eqb (r_type r) 3) (utxos s cs)).
Definition my_supports_total (s : state) (cs : list N) : N :=
  sum_amount (filter (fun r => N.eqb (r_type r) 3 && first_input_mine s cs (r_txid r)) (utxos s cs)).

(* ---------- the specification the wallet is to converge to ---------- *)
Definition all_outputs (S : list stx) : list txo_row :=
  flat_map (fun x => map (fun ko => mkTxo (t_id (fst x)) (fst ko) (snd ko) (txo_type (fst x) (fst ko) (snd ko)))
                         (enum (t_outs (fst x)))) S.
Definition spent_in (S : list stx) (p : N) (i : nat) : bool :=
  existsb (fun x => existsb (fun inp => N.eqb (fst inp) p && Nat.eqb (snd inp) i) (t_ins (fst x))) S.
Definition spec_utxos (S : list stx) (s : state) (cs : list N) : list txo_row :=
  filter (fun r => row_mine s cs r && negb (spent_in S (r_txid r) (r_pos r))) (all_outputs S).

(* ---------- Ledger.subscribe_addresses: the address list is sent in batches of at most b addresses; every batch
   answer is zipped with THAT batch and one update_history task is started per (address, answered status) ---------- *)
Fixpoint chunks_fuel {A} (fuel b : nat) (l : list A) : list (list A) :=
  match fuel with
  | O => []
  | S f => match l with
           | [] => []
           | _ => firstn b l :: chunks_fuel f b (skipn b l)
           end
  end.
Definition chunks {A} (b : nat) (l : list A) : list (list A) := chunks_fuel (length l) b l.
Definition subscribe_plan (b : nat) (addrs : list addr) (answer : list addr -> list hist) : list (addr * hist) :=
  flat_map (fun batch => combine batch (answer batch)) (chunks b addrs).
