(* C08, checkpointed header chunks fetched on demand while verifying: Headers.get -> ensure_chunk_at ->
   fetch_chunk, as reached from Ledger.maybe_verify_transaction when chunk_getter is set.
   The store consists of checkpointed chunks only (len(headers) = number of checkpoints * chunk size, as
   Headers.open leaves it); a chunk is either present or missing (known_missing_checkpointed_chunks).
   Executable definitions only. *)
From Coq Require Import NArith ZArith List Bool.
From Coq.Strings Require Import Byte.
From LV Require Import Lib.Bytes Model.C08.
Import ListNotations.

Definition chunks := list (nat * list bytes).          (* chunk number -> its headers, for the chunks present *)

Fixpoint find_chunk (k : nat) (present : chunks) : option (list bytes) :=
  match present with
  | [] => None
  | (k', c) :: r => if Nat.eqb k k' then Some c else find_chunk k r
  end.

(* AttDone: maybe_verify_transaction ran to its end (result, whether the chunk getter was asked);
   AttMismatch: fetch_chunk raised "Checkpoint mismatch" (only tx.height has been set) *)
Inductive att_result := AttDone (r : tx_state * outcome * bool) (asked : bool) | AttMismatch (st : tx_state).

(* one verification attempt: what the server would answer to the chunk getter, the transaction, the dict *)
Record attempt_in := { a_served : list bytes; a_raw : bytes; a_height : Z; a_arg : option merkle_resp;
                       a_net : merkle_resp }.

Section Chunk.
Variable dsha : bytes -> bytes.
Variable csize : nat.                       (* 1000 in the code *)
Variable cps : list bytes.                  (* checkpoint of chunk k: dsha of the chunk's bytes *)

Definition total : nat := (length cps * csize)%nat.

(* the header list as the verification sees it when chunk k holds c (other chunks are not read) *)
Definition table (k : nat) (c : list bytes) : list bytes :=
  firstn total (repeat [] (k * csize) ++ c ++ repeat [] total).

Definition is_ret_tx (o : outcome) : bool := match o with RetTx => true | _ => false end.

Definition attempt (present : chunks) (st : tx_state) (a : attempt_in) : chunks * att_result :=
  let h := a_height a in
  let k := (Z.to_nat h / csize)%nat in
  match find_chunk k present with
  | Some c => (present, AttDone (maybe_verify dsha (table k c) st (a_raw a) h (a_arg a) (a_net a)) false)
  | None =>
      (* headers.get is reached exactly when the call, over any header list of this length, would run
         to the comparison *)
      let probe := maybe_verify dsha (repeat [] total) st (a_raw a) h (a_arg a) (a_net a) in
      if ((0 <? h) && (h <? Z.of_nat total))%Z && is_ret_tx (mv_outcome probe) then
        match nth_error cps k with
        | Some cp =>
            if bytes_eqb (dsha (concat (a_served a))) cp
            then ((k, a_served a) :: present,
                  AttDone (maybe_verify dsha (table k (a_served a)) st (a_raw a) h (a_arg a) (a_net a)) true)
            else (present, AttMismatch {| t_height := h; t_position := t_position st; t_verified := t_verified st |})
        | None => (present, AttMismatch {| t_height := h; t_position := t_position st; t_verified := t_verified st |})
        end
      else (present, AttDone probe false)
  end.

(* Headers.open on a header FILE (get_all_missing_headers): whatever the file holds for chunk k, the chunk
   counts as present only if those bytes hash to checkpoint k; everything else is "missing" and will be
   fetched (and checked) again *)
Definition reopen (disk : chunks) : chunks :=
  filter (fun kc => match nth_error cps (fst kc) with
                    | Some cp => bytes_eqb (dsha (concat (snd kc))) cp
                    | None => false
                    end) disk.

(* a sequence of attempts, each with a fresh Transaction object *)
Fixpoint attempts (present : chunks) (l : list attempt_in) : chunks * list att_result :=
  match l with
  | [] => (present, [])
  | a :: r =>
      let (p1, o) := attempt present {| t_height := (-2)%Z; t_position := (-1)%Z; t_verified := false |} a in
      let (p2, os) := attempts p1 r in (p2, o :: os)
  end.

End Chunk.
