(* C05 model: what lbry/wallet/transaction.py exposes as Transaction.raw / Transaction.id /
   Transaction(raw) on top of the wire format in Wire/Tx.v. Executable definitions only.
   sha256 is a Section variable (hashlib.sha256 at run time); it carries no hypothesis. *)
From Coq Require Import NArith ZArith List Bool.
From Coq.Strings Require Import Byte.
From LV Require Import Lib.Bytes Wire.CompactSize Wire.Tx.
Import ListNotations.
Local Open Scope N_scope.

Section Txid.
  Variable sha256 : bytes -> bytes.

  Definition sha256d (b : bytes) : bytes := sha256 (sha256 b).
  (* TXRefMutable.id: hexlify(hash[::-1]) -- the id as bytes, before hex *)
  Definition id_of_bytes (b : bytes) : bytes := rev (sha256d b).

  (* a transaction assembled through the library (Transaction(version=, locktime=).add_inputs().add_outputs()):
     .raw is _serialize() (struct.error on a field out of range), .id hashes it (is_segwit_flag = 0) *)
  Definition build_raw (t : tx) : res bytes := pser (lift t).
  Definition build_id (t : tx) : res bytes := do b <- build_raw t; ROk (id_of_bytes b).

  (* Transaction(raw).id: raw_sans_segwit is _serialize() of the parsed fields when the flag is
     truthy, and the given bytes themselves (trailing bytes included) otherwise *)
  Definition id_of_parsed (raw : bytes) (p : ptx) : res bytes :=
    if truthy (p_flag p) then do b <- pser p; ROk (id_of_bytes b) else ROk (id_of_bytes raw).
  Definition txid_of_raw (raw : bytes) : res bytes :=
    do p <- deserialize raw; id_of_parsed raw p.
End Txid.

(* input.coinbase is set (and input.script is None) iff the outpoint hash is 32 zero bytes *)
Definition NULL_HASH32 : bytes := repeat (byte_of_N 0) 32.
Definition is_coinbase (i : pin) : bool := bytes_eqb (pi_hash i) NULL_HASH32.

(* everything the harness observes of Transaction(raw): parsed fields, _serialize() of them, id *)
Definition observe (sha256 : bytes -> bytes) (raw : bytes)
  : res (ptx * list bool * res bytes * res bytes) :=
  do p <- deserialize raw;
  ROk (p, map is_coinbase (p_ins p), pser p, id_of_parsed sha256 raw p).

(* ---------- the witness-carrying encoding (BIP 144), never written by the library: used to state
   the segwit theorem and, extracted, as a generator-side encoder ---------- *)
Definition ser_witness (w : list bytes) : bytes :=
  cs_encode (N.of_nat (length w)) ++ concat (map ser_string w).
Definition serialize_segwit (t : tx) (flag : N) (wits : list (list bytes)) : bytes :=
  le_encode 4 (tx_version t) ++ [byte_of_N 0; byte_of_N flag] ++
  ser_ins (tx_ins t) ++ ser_outs (tx_outs t) ++
  concat (map ser_witness wits) ++ le_encode 4 (tx_locktime t).

Definition wf_witness (w : list bytes) : Prop :=
  N.of_nat (length w) < 18446744073709551616 /\
  Forall (fun item => N.of_nat (length item) < MAXSIZE1) w.
Definition wf_wits (t : tx) (wits : list (list bytes)) : Prop :=
  length wits = length (tx_ins t) /\ Forall wf_witness wits.

(* sample values for the non-vacuity examples *)
Definition sample_in : txin := mk_txin (repeat (byte_of_N 7) 32) 1 [byte_of_N 81; byte_of_N 172] 4294967294.
Definition sample_out : txout := mk_txout 5000000000 [byte_of_N 118; byte_of_N 169].
Definition sample_tx : tx := mk_tx 2 [sample_in; sample_in] [sample_out] 718285.
Definition sample_wits : list (list bytes) := [[[byte_of_N 1; byte_of_N 2]; []]; []].
(* no inputs, one output: its legacy encoding starts like a segwit marker *)
Definition no_input_tx : tx := mk_tx 1 [] [sample_out] 0.
