(* C16 model, part (b): a generic protobuf wire model -- the "plain protobuf parse" of the property.
   Base-128 varints (at most 10 bytes, value taken mod 2^64 as google.protobuf's decoder does), tags,
   wire types 0 (varint) 1 (64-bit) 2 (length-delimited) 5 (32-bit), and nesting of length-delimited
   fields into sub-messages directed by a schema table (message id -> field number -> kind) that the
   harness reads from the _pb2 descriptors.  Executable definitions only. *)
From Coq Require Import NArith ZArith List Bool.
From Coq.Strings Require Import Byte.
From LV Require Import Lib.Bytes.
Import ListNotations.
Local Open Scope N_scope.

Definition two64 : N := 18446744073709551616.

(* ---------- varint ---------- *)
Fixpoint varint_enc (fuel : nat) (n : N) : bytes :=
  match fuel with
  | O => [byte_of_N (n mod 128)]
  | S f => if n <? 128 then [byte_of_N n]
           else byte_of_N (128 + n mod 128) :: varint_enc f (n / 128)
  end.
(* 9 continuation bytes + 1 final byte cover every n < 2^64 *)
Definition varint_encode (n : N) : bytes := varint_enc 9 n.

(* k = how many more bytes may be read *)
Fixpoint varint_dec (k : nat) (bs : bytes) : option (N * bytes) :=
  match k with
  | O => None                                   (* 'Too many bytes when decoding varint.' *)
  | S k' =>
    match bs with
    | [] => None                                (* 'Truncated message.' *)
    | b :: r =>
      let v := N_of_byte b in
      if v <? 128 then Some (v, r)
      else match varint_dec k' r with
           | Some (hi, r') => Some ((v - 128) + 128 * hi, r')
           | None => None
           end
    end
  end.
Definition varint_decode (bs : bytes) : option (N * bytes) :=
  match varint_dec 10 bs with
  | Some (v, r) => Some (v mod two64, r)
  | None => None
  end.

(* ---------- typed views of a varint ---------- *)
Definition zigzag_enc (z : Z) : N := Z.to_N (if (z <? 0)%Z then (-2 * z - 1)%Z else (2 * z)%Z).
Definition zigzag_dec (n : N) : Z := if N.even n then Z.of_N (n / 2) else (- Z.of_N (n / 2) - 1)%Z.
Definition int64_enc (z : Z) : N := Z.to_N (z mod Z.of_N two64).
Definition int64_dec (n : N) : Z := if n <? 9223372036854775808 then Z.of_N n else (Z.of_N n - Z.of_N two64)%Z.

(* ---------- flat fields ---------- *)
Inductive wval :=
| WVarint (n : N)
| WFix64 (b : bytes)
| WLen (b : bytes)
| WFix32 (b : bytes).

Definition field := (N * wval)%type.

Definition wtype (v : wval) : N :=
  match v with WVarint _ => 0 | WFix64 _ => 1 | WLen _ => 2 | WFix32 _ => 5 end.

Definition ser_value (v : wval) : bytes :=
  match v with
  | WVarint n => varint_encode n
  | WFix64 b => b
  | WLen b => varint_encode (N.of_nat (length b)) ++ b
  | WFix32 b => b
  end.

Definition ser_field (f : field) : bytes :=
  varint_encode (fst f * 8 + wtype (snd f)) ++ ser_value (snd f).

Definition ser_fields (fs : list field) : bytes := concat (map ser_field fs).

(* WErr = google.protobuf.message.DecodeError; WGroup = wire type 3/4 met (groups are outside the model) *)
Inductive wres (A : Type) :=
| WOk (a : A)
| WErr
| WGroup.
Arguments WOk {A} a.
Arguments WErr {A}.
Arguments WGroup {A}.

Definition takeN (n : N) (bs : bytes) : option (bytes * bytes) :=
  if n <=? N.of_nat (length bs) then Some (firstn (N.to_nat n) bs, skipn (N.to_nat n) bs) else None.

Definition parse_value (wt : N) (bs : bytes) : wres (wval * bytes) :=
  if wt =? 0 then
    match varint_decode bs with Some (v, r) => WOk (WVarint v, r) | None => WErr end
  else if wt =? 1 then
    match takeN 8 bs with Some (b, r) => WOk (WFix64 b, r) | None => WErr end
  else if wt =? 2 then
    match varint_decode bs with
    | Some (l, r) => match takeN l r with Some (b, r') => WOk (WLen b, r') | None => WErr end
    | None => WErr
    end
  else if wt =? 5 then
    match takeN 4 bs with Some (b, r) => WOk (WFix32 b, r) | None => WErr end
  else if (wt =? 3) || (wt =? 4) then WGroup
  else WErr.

Fixpoint parse_fields (fuel : nat) (bs : bytes) : wres (list field) :=
  match bs with
  | [] => WOk []
  | _ :: _ =>
    match fuel with
    | O => WErr
    | S f =>
      match varint_decode bs with
      | None => WErr
      | Some (tag, r) =>
        if tag / 8 =? 0 then WErr                 (* 'Field number 0 is illegal.' *)
        else match parse_value (tag mod 8) r with
             | WOk (v, r') =>
                 match parse_fields f r' with
                 | WOk fs => WOk ((tag / 8, v) :: fs)
                 | WErr => WErr
                 | WGroup => WGroup
                 end
             | WErr => WErr
             | WGroup => WGroup
             end
      end
    end
  end.

(* every field consumes at least one byte, so the length is enough fuel *)
Definition wire_parse (bs : bytes) : wres (list field) := parse_fields (length bs) bs.

(* ---------- nesting by schema ---------- *)
Inductive kind := KVarint | KFix64 | KFix32 | KBytes | KMsg (m : N).
Definition schema := list (N * list (N * kind)).

Fixpoint assocN {A} (k : N) (l : list (N * A)) : option A :=
  match l with
  | [] => None
  | (k', a) :: r => if k =? k' then Some a else assocN k r
  end.

Definition lookup_kind (sch : schema) (m fno : N) : option kind :=
  match assocN m sch with
  | Some fl => assocN fno fl
  | None => None
  end.

Definition msg_of (sch : schema) (m fno : N) : option N :=
  match lookup_kind sch m fno with Some (KMsg m') => Some m' | _ => None end.

Inductive tval :=
| TVarint (n : N)
| TFix64 (b : bytes)
| TFix32 (b : bytes)
| TBytes (b : bytes)
| TMsg (fs : list (N * tval)).

Definition tfield := (N * tval)%type.

Fixpoint wmap {A B} (f : A -> wres B) (l : list A) : wres (list B) :=
  match l with
  | [] => WOk []
  | a :: r => match f a with
              | WOk b => match wmap f r with WOk bs => WOk (b :: bs) | WErr => WErr | WGroup => WGroup end
              | WErr => WErr
              | WGroup => WGroup
              end
  end.

(* a length-delimited field declared as a message in the schema is parsed recursively; every other field
   (also an unknown one, or one whose wire type does not fit the declaration) is kept as it is *)
Fixpoint parse_tree (sch : schema) (depth : nat) (m : N) (bs : bytes) : wres (list tfield) :=
  match depth with
  | O => WErr
  | S d =>
    match wire_parse bs with
    | WOk fs =>
        wmap (fun f : field =>
                match snd f with
                | WVarint n => WOk (fst f, TVarint n)
                | WFix64 b => WOk (fst f, TFix64 b)
                | WFix32 b => WOk (fst f, TFix32 b)
                | WLen b =>
                    match msg_of sch m (fst f) with
                    | Some m' => match parse_tree sch d m' b with
                                 | WOk t => WOk (fst f, TMsg t)
                                 | WErr => WErr
                                 | WGroup => WGroup
                                 end
                    | None => WOk (fst f, TBytes b)
                    end
                end) fs
    | WErr => WErr
    | WGroup => WGroup
    end
  end.

Fixpoint flatten (v : tval) : wval :=
  match v with
  | TVarint n => WVarint n
  | TFix64 b => WFix64 b
  | TFix32 b => WFix32 b
  | TBytes b => WLen b
  | TMsg fs => WLen (concat (map (fun kv : tfield => ser_field (fst kv, flatten (snd kv))) fs))
  end.

Definition flatten_field (kv : tfield) : field := (fst kv, flatten (snd kv)).
Definition ser_tree (fs : list tfield) : bytes := ser_fields (map flatten_field fs).

Fixpoint tdepth (v : tval) : nat :=
  match v with
  | TMsg fs => S (list_max (map (fun kv : tfield => tdepth (snd kv)) fs))
  | _ => O
  end.
Definition fdepth (fs : list tfield) : nat := S (list_max (map (fun kv : tfield => tdepth (snd kv)) fs)).

(* canonical flat field: what a serializer emits *)
(* protobuf itself stops at 2^29-1; the round trip only needs the tag k*8+wt to fit 64 bits *)
Definition fno_ok (k : N) : bool := (1 <=? k) && (k <? 2305843009213693952).
Definition wval_ok (v : wval) : bool :=
  match v with
  | WVarint n => n <? two64
  | WFix64 b => (length b =? 8)%nat
  | WFix32 b => (length b =? 4)%nat
  | WLen b => N.of_nat (length b) <? two64
  end.
Definition field_ok (f : field) : bool := fno_ok (fst f) && wval_ok (snd f).

(* a tree that fits the schema: message-valued fields are declared as messages (recursively), byte-valued
   fields are not, numbers are in range *)
Fixpoint tval_ok (sch : schema) (m fno : N) (v : tval) : bool :=
  match v with
  | TVarint n => n <? two64
  | TFix64 b => (length b =? 8)%nat
  | TFix32 b => (length b =? 4)%nat
  | TBytes b => (N.of_nat (length b) <? two64) && match msg_of sch m fno with None => true | Some _ => false end
  | TMsg fs =>
      match msg_of sch m fno with
      | Some m' =>
          (N.of_nat (length (concat (map (fun kv : tfield => ser_field (fst kv, flatten (snd kv))) fs))) <? two64)
          && forallb (fun kv : tfield => fno_ok (fst kv) && tval_ok sch m' (fst kv) (snd kv)) fs
      | None => false
      end
  end.
Definition tfields_ok (sch : schema) (m : N) (fs : list tfield) : bool :=
  forallb (fun kv : tfield => fno_ok (fst kv) && tval_ok sch m (fst kv) (snd kv)) fs.

