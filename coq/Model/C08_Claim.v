(* C08, legacy part: lbry/wallet/claim_proofs.py verify_proof (claim-trie proof checker).
   CORRESPONDENCE ONLY: this model is run against the real function on generated trie paths; no
   theorem is stated about it.  Executable definitions only.  Input space of the model: hex fields
   and names are ASCII text; a computed name containing a byte >= 128 is outside the model
   (the original decodes it as UTF-8) and yields CpOther. *)
From Coq Require Import NArith ZArith List Bool.
From Coq.Strings Require Import Byte.
From LV Require Import Lib.Bytes Lib.Decimal Model.C08.
Import ListNotations.

Record child := { c_char : Z; c_node_hash : option bytes }.          (* 'character', 'nodeHash' (hex text) *)
Record node := { n_children : list child; n_value_hash : option bytes }.   (* 'children', 'valueHash' *)
Record claim_proof := { p_nodes : list node; p_txhash : option bytes; p_nout : option Z;
                        p_takeover : option Z }.                     (* 'nodes','txhash','nOut','last takeover height' *)

(* CpTrue: returns True.  CpInvalid: raises InvalidProofError.  CpOther: another exception
   (binascii.Error, struct.error) or an input outside the modelled space. *)
Inductive cp_result := CpTrue | CpInvalid | CpOther.

Section Claim.
Variable dsha : bytes -> bytes.

(* get_hash_for_outpoint(txhash, nout, height); None = struct.error for '>Q' *)
Definition outpoint_hash (txhash : bytes) (nout height : Z) : option bytes :=
  if ((0 <=? height) && (height <? 2 ^ 64))%Z
  then Some (dsha (dsha txhash ++ dsha (dec_of_Z nout) ++ dsha (be_encode 8 (Z.to_N height))))
  else None.

(* state of the loop over one node's children *)
Record cstate := { cs_hash : bytes; cs_found : bool; cs_last : option Z; cs_name : bytes }.

Inductive step A := Go (a : A) | Stop (r : cp_result).
Arguments Go {A} a.
Arguments Stop {A} r.

Fixpoint children_loop (prev : option bytes) (cs : list child) (st : cstate) : step cstate :=
  match cs with
  | [] => Go st
  | c :: rest =>
      let ch := c_char c in
      if ((ch <? 0) || (255 <? ch))%Z then Stop CpInvalid
      else if (match cs_last st with
               | Some p => negb (p =? 0)%Z && (ch <=? p)%Z     (* `if previous: if previous >= character` *)
               | None => false end) then Stop CpInvalid
      else
        let h1 := cs_hash st ++ [byte_of_N (Z.to_N ch)] in
        match c_node_hash c with
        | Some nh =>
            if negb (length nh =? 64)%nat then Stop CpInvalid
            else match unhexlify nh with
                 | None => Stop CpOther
                 | Some b => children_loop prev rest
                               {| cs_hash := h1 ++ rev b; cs_found := cs_found st; cs_last := Some ch;
                                  cs_name := cs_name st |}
                 end
        | None =>
            match prev with
            | None => Stop CpInvalid
            | Some p =>
                if cs_found st then Stop CpInvalid
                else children_loop prev rest
                       {| cs_hash := h1 ++ p; cs_found := true; cs_last := Some ch;
                          cs_name := cs_name st ++ [byte_of_N (Z.to_N ch)] |}
            end
        end
  end.

(* state across nodes: previous computed hash, reverse computed name, verified_value *)
Record nstate := { ns_prev : option bytes; ns_name : bytes; ns_verified : bool }.

Definition node_step (pf : claim_proof) (first : bool) (nd : node) (st : nstate) : step nstate :=
  match children_loop (ns_prev st) (n_children nd)
          {| cs_hash := []; cs_found := false; cs_last := None; cs_name := ns_name st |} with
  | Stop r => Stop r
  | Go cs =>
      if negb (cs_found cs) && negb first then Stop CpInvalid
      else
        let plain :=
          match n_value_hash nd with
          | Some vh =>
              if negb (length vh =? 64)%nat then Stop CpInvalid
              else match unhexlify vh with
                   | None => Stop CpOther
                   | Some b => Go {| ns_prev := Some (dsha (cs_hash cs ++ rev b)); ns_name := cs_name cs;
                                     ns_verified := ns_verified st |}
                   end
          | None => Go {| ns_prev := Some (dsha (cs_hash cs)); ns_name := cs_name cs;
                          ns_verified := ns_verified st |}
          end in
        if first then
          match p_txhash pf, p_nout pf, p_takeover pf with
          | Some th, Some nout, Some tk =>
              if negb (length th =? 64)%nat then Stop CpInvalid
              else match unhexlify th with
                   | None => Stop CpOther
                   | Some b =>
                       match outpoint_hash (rev b) nout tk with
                       | None => Stop CpOther
                       | Some oh => Go {| ns_prev := Some (dsha (cs_hash cs ++ oh)); ns_name := cs_name cs;
                                          ns_verified := true |}
                       end
                   end
          | _, _, _ => plain
          end
        else plain
  end.

Fixpoint nodes_loop (pf : claim_proof) (first : bool) (nds : list node) (st : nstate) : step nstate :=
  match nds with
  | [] => Go st
  | nd :: rest =>
      match node_step pf first nd st with
      | Stop r => Stop r
      | Go st' => nodes_loop pf false rest st'
      end
  end.

Fixpoint is_prefix (p s : bytes) : bool :=
  match p, s with
  | [], _ => true
  | a :: p', b :: s' => byte_eqb a b && is_prefix p' s'
  | _ :: _, [] => false
  end.

Definition verify_proof (pf : claim_proof) (root_hash name : bytes) : cp_result :=
  match nodes_loop pf true (rev (p_nodes pf)) {| ns_prev := None; ns_name := []; ns_verified := false |} with
  | Stop r => r
  | Go st =>
      match unhexlify root_hash with
      | None => CpOther
      | Some rb =>
          let same := match ns_prev st with Some p => bytes_eqb p (rev rb) | None => false end in
          if negb same then CpInvalid
          else
            let claims := match p_txhash pf, p_nout pf with Some _, Some _ => true | _, _ => false end in
            if claims && negb (ns_verified st) then CpInvalid
            else
              let target := rev (ns_name st) in
              if existsb (fun b => (128 <=? N_of_byte b)%N) target then CpOther
              else if claims && negb (bytes_eqb name target) then CpInvalid
              else if negb (is_prefix target name) then CpInvalid
              else CpTrue
      end
  end.

End Claim.
