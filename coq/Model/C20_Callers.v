(* C20 model, part 2: the callers through which amounts enter and leave the daemon.
   storage.calculate_effective_amount(amount, supports) = dewies_to_lbc(lbc_to_dewies(amount) + sum(lbc_to_dewies(s)))
   with a ValueError (None) as soon as one string is refused by the strict parser. Definitions only. *)
From Coq Require Import NArith ZArith List Bool.
From LV Require Import Lib.Bytes Lib.Decimal Model.C20.
Import ListNotations.
Local Open Scope N_scope.

Fixpoint parse_all (ss : list bytes) : option (list N) :=
  match ss with
  | [] => Some []
  | s :: r => match parse s, parse_all r with
              | Some n, Some ns => Some (n :: ns)
              | _, _ => None
              end
  end.

Definition nsum (ns : list N) : N := fold_right N.add 0 ns.

Definition effective (amount : bytes) (supports : list bytes) : option bytes :=
  match parse_all (amount :: supports) with
  | Some ns => Some (format (Z.of_N (nsum ns)))
  | None => None
  end.
