(* C08, the state around maybe_verify_transaction: the wallet's header list and the transaction cache
   used by Ledger.request_transactions(cached=True), with the cache eviction of Ledger.update_headers.
   Executable definitions only.
   Abstractions (each exercised by the correspondence): one request = one txid (the code batches, keys
   are independent); the cache key is the txid under which the reply is filed, which for an honest
   reply is the id of the returned bytes; LRU eviction (capacity 1024) is not modelled; header
   validation itself is C07 -- OpExtend / OpReorg receive the headers that connect() accepted. *)
From Coq Require Import NArith ZArith List Bool.
From Coq.Strings Require Import Byte.
From LV Require Import Lib.Bytes Model.C08.
Import ListNotations.

(* what a cache item holds once a transaction has been stored in it: the bytes, the proof dict that was
   used and the transaction's fields *)
Record centry := { c_raw : bytes; c_resp : merkle_resp; c_st : tx_state }.
(* None = TransactionCacheItem() placeholder without a transaction *)
Definition cache := list (bytes * option centry).

Fixpoint lookup (k : bytes) (c : cache) : option (option centry) :=
  match c with
  | [] => None
  | (k', v) :: r => if bytes_eqb k k' then Some v else lookup k r
  end.

Fixpoint upsert (k : bytes) (v : option centry) (c : cache) : cache :=
  match c with
  | [] => [(k, v)]
  | (k', v') :: r => if bytes_eqb k k' then (k, v) :: r else (k', v') :: upsert k v r
  end.

Record wstate := { w_headers : list bytes; w_cache : cache }.

Inductive wop :=
| OpRequest (key raw : bytes) (h : Z) (arg : option merkle_resp) (net : merkle_resp)
    (* request_transactions([(txid, h)], cached=True); the server answers (raw, arg) *)
| OpExtend (newh : list bytes)            (* update_headers: connect() appended newh, no rewind *)
| OpReorg (fork : nat) (newh : list bytes) (* update_headers: rewound to height fork (< len), connected newh there *)
| OpReplace (fork : nat) (newh : list bytes)
    (* update_headers / receive_header: connect(fork, newh) succeeded at once at a height BELOW the tip
       (a competing tip of the same height, any k-for-k replacement): stored headers overwritten without
       the rewind loop; since fix af7a9e2 the transaction cache is cleared here as well *)
| OpRestart.   (* Headers.close writes the chain held in memory to the header file, the process ends, a new
                  Ledger opens the file: the same header list, an empty transaction cache *)

Inductive req_result :=
| Hit (st : tx_state)                         (* served from the cache, the server is not asked *)
| Fetched (st : tx_state) (out : outcome).    (* downloaded and passed to maybe_verify_transaction *)

Section Cache.
Variable dsha : bytes -> bytes.

Definition fresh (h : Z) : tx_state := {| t_height := h; t_position := (-1)%Z; t_verified := false |}.

Definition request (s : wstate) (key raw : bytes) (h : Z) (arg : option merkle_resp) (net : merkle_resp)
  : wstate * req_result :=
  let hit := match lookup key (w_cache s) with
             | Some (Some e) => if t_verified (c_st e) then Some (c_st e) else None
             | _ => None
             end in
  match hit with
  | Some st => (s, Hit st)
  | None =>
      let r := maybe_verify dsha (w_headers s) (fresh h) raw h arg net in
      let st' := mv_state r in
      match mv_outcome r with
      | RetTx | RetNone =>
          ({| w_headers := w_headers s;
              w_cache := upsert key (Some {| c_raw := raw; c_resp := effective arg net; c_st := st' |}) (w_cache s) |},
           Fetched st' (mv_outcome r))
      | out =>   (* the exception leaves the placeholder (or the old, unverified item) in the cache *)
          ({| w_headers := w_headers s;
              w_cache := match lookup key (w_cache s) with
                         | Some _ => w_cache s
                         | None => upsert key None (w_cache s)
                         end |},
           Fetched st' out)
      end
  end.

Definition step (s : wstate) (op : wop) : wstate * option req_result :=
  match op with
  | OpRequest key raw h arg net => let (s', r) := request s key raw h arg net in (s', Some r)
  | OpExtend newh => ({| w_headers := w_headers s ++ newh; w_cache := w_cache s |}, None)
  | OpReorg fork newh => ({| w_headers := firstn fork (w_headers s) ++ newh; w_cache := [] |}, None)
  | OpReplace fork newh => ({| w_headers := firstn fork (w_headers s) ++ newh; w_cache := [] |}, None)
  | OpRestart => ({| w_headers := w_headers s; w_cache := [] |}, None)
  end.

(* the behaviour BEFORE fix af7a9e2, kept only to state its refutation: replacement keeps the cache *)
Definition old_replace (s : wstate) (fork : nat) (newh : list bytes) : wstate :=
  {| w_headers := firstn fork (w_headers s) ++ newh; w_cache := w_cache s |}.

Fixpoint run (s : wstate) (ops : list wop) : wstate * list (option req_result) :=
  match ops with
  | [] => (s, [])
  | op :: rest => let (s1, o) := step s op in let (s2, os) := run s1 rest in (s2, o :: os)
  end.

Definition final (s : wstate) (ops : list wop) : wstate := fst (run s ops).

End Cache.
