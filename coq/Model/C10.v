(* C10 model: blob exchange.  Executable definitions only.

   Mirrors (as they are now, after `fix: blob client treats bytes after a delivered response as blob data`)
     lbry/blob_exchange/serialization.py  _parse_blob_response (the '}' scan), BlobResponse.deserialize
     lbry/blob_exchange/client.py         data_received, _write, _download_blob, download_blob, close,
                                          connection_lost
     lbry/blob/writer.py                  HashBlobWriter.write / close_handle   (interface of C01 only)
     lbry/blob/blob_file.py               AbstractBlob.set_length, the writer-finished callback (verified)
     lbry/blob_exchange/server.py         BlobServerProtocol.data_received (cap, '}' framing), handle_request,
                                          close_on_idle / transfer timeout

   Primitives that are NOT modelled are Section variables:
     H          : sha384 hexdigest of a byte string (ascii bytes)
     json_loads : what json.loads + the key-set rule of _parse_blob_response + the response constructors
                  make of ONE exact byte string (no scanning)
     req_loads  : what BlobRequest.deserialize makes of one exact byte string
     store      : the server's verified blobs (blob hash -> bytes) *)
From Coq Require Import NArith ZArith List Bool.
From Coq.Strings Require Import Byte.
From LV Require Import Lib.Bytes.
Import ListNotations.
Local Open Scope Z_scope.

Definition zlen {A} (l : list A) : Z := Z.of_nat (length l).
Definition rbrace : byte := byte_of_N 125.      (* '}' *)
Definition MAX_BLOB_SIZE : Z := 2097152.
Definition MAX_REQUEST_SIZE : Z := 1200.
Definition MAX_RESPONSE_SIZE : Z := 16384.     (* serialization.MAX_RESPONSE_SIZE = 16 * 1024 *)

(* ---------------------------------------------------------------- responses (client side) *)

(* the JSON value announced as "length": an int, or anything that is not a number (str/null/list/dict) *)
Inductive lenv := LInt (z : Z) | LOther.
(* "available_blobs": key absent / falsy value / exactly a one-element list [s] / any other truthy value *)
Inductive avail := AvAbsent | AvFalsy | AvSingle (h : bytes) | AvOther.
Inductive price := PrAbsent | PrAccepted | PrRejected.
(* "incoming_blob": key absent / truthy error / {blob_hash, length} (hash None = not a string, or falsy error) *)
Inductive blobr := BrAbsent | BrError | BrIncoming (h : option bytes) (l : lenv).
Record response := mkResp { r_avail : avail; r_price : price; r_blob : blobr }.

(* outcome of json.loads(exact string) + key-set rule + constructors *)
Inductive jres :=
| JInvalid              (* ValueError: not JSON (the scan continues with the next '}') *)
| JNotResp              (* JSON, but not a non-empty dict over the four response keys (the scan stops: no response) *)
| JRaise                (* a response-shaped dict whose constructors raise, or json raising a non-ValueError *)
| JResp (r : response).

Inductive parsed := PNone | PRaise | PResp (r : response) (consumed : nat).

(* ---------------------------------------------------------------- writer (C01 interface) *)
Inductive wfin := WPending | WResult | WBadData | WBadHash | WCancelled.
Record writer := mkW { w_data : bytes; w_closed : bool; w_fin : wfin }.
Definition new_writer : writer := mkW [] false WPending.
Inductive wout := WoOk | WoOSError | WoInvalidState.

Definition close_handle (w : writer) : writer :=
  mkW (w_data w) true (match w_fin w with WPending => WCancelled | f => f end).

(* ---------------------------------------------------------------- client state *)
Inductive fut := FutPending | FutResult (r : response) | FutExc | FutCancelled.
Inductive dlres := DlOk (n : Z) | DlClosed (n : Z) | DlCancelled | DlOSError.
Inductive phase := PhIdle | PhAwaitResp (deadline : Z) | PhAwaitFin (deadline : Z) | PhDone (res : dlres).

Record client := mkC {
  c_open : bool;            (* transport attached and not closing *)
  c_lost : bool;            (* a connection_lost call is queued in the loop *)
  c_closed_ev : bool;       (* self.closed *)
  c_att : bool;             (* self._response_fut / self.blob are not None *)
  c_fut : fut;              (* state of the future object of the current download *)
  c_received : Z;           (* self._blob_bytes_received *)
  c_buf : bytes;            (* self.buf *)
  c_has_w : bool;           (* self.writer is not None *)
  c_w : writer;             (* the writer object of the current download *)
  c_hash : bytes;           (* blob.blob_hash *)
  c_len : option Z;         (* blob.length *)
  c_verified : option bytes;(* blob.verified and the bytes saved *)
  c_phase : phase;          (* where the download_blob coroutine is suspended *)
  c_now : Z;                (* virtual clock, seconds *)
  c_T : Z;                  (* peer_timeout *)
  c_delivered : nat;        (* number of successful _response_fut.set_result calls *)
  c_unk : bool              (* ghost, not in the code: blob.length was None when this download started *)
}.

Definition set_open v c := mkC v (c_lost c) (c_closed_ev c) (c_att c) (c_fut c) (c_received c) (c_buf c) (c_has_w c) (c_w c) (c_hash c) (c_len c) (c_verified c) (c_phase c) (c_now c) (c_T c) (c_delivered c) (c_unk c).
Definition set_att v c := mkC (c_open c) (c_lost c) (c_closed_ev c) v (c_fut c) (c_received c) (c_buf c) (c_has_w c) (c_w c) (c_hash c) (c_len c) (c_verified c) (c_phase c) (c_now c) (c_T c) (c_delivered c) (c_unk c).
Definition set_lost v c := mkC (c_open c) v (c_closed_ev c) (c_att c) (c_fut c) (c_received c) (c_buf c) (c_has_w c) (c_w c) (c_hash c) (c_len c) (c_verified c) (c_phase c) (c_now c) (c_T c) (c_delivered c) (c_unk c).
Definition set_fut v c := mkC (c_open c) (c_lost c) (c_closed_ev c) (c_att c) v (c_received c) (c_buf c) (c_has_w c) (c_w c) (c_hash c) (c_len c) (c_verified c) (c_phase c) (c_now c) (c_T c) (c_delivered c) (c_unk c).
Definition set_buf v c := mkC (c_open c) (c_lost c) (c_closed_ev c) (c_att c) (c_fut c) (c_received c) v (c_has_w c) (c_w c) (c_hash c) (c_len c) (c_verified c) (c_phase c) (c_now c) (c_T c) (c_delivered c) (c_unk c).
Definition set_len v c := mkC (c_open c) (c_lost c) (c_closed_ev c) (c_att c) (c_fut c) (c_received c) (c_buf c) (c_has_w c) (c_w c) (c_hash c) v (c_verified c) (c_phase c) (c_now c) (c_T c) (c_delivered c) (c_unk c).
Definition set_w v c := mkC (c_open c) (c_lost c) (c_closed_ev c) (c_att c) (c_fut c) (c_received c) (c_buf c) (c_has_w c) v (c_hash c) (c_len c) (c_verified c) (c_phase c) (c_now c) (c_T c) (c_delivered c) (c_unk c).
Definition set_has_w v c := mkC (c_open c) (c_lost c) (c_closed_ev c) (c_att c) (c_fut c) (c_received c) (c_buf c) v (c_w c) (c_hash c) (c_len c) (c_verified c) (c_phase c) (c_now c) (c_T c) (c_delivered c) (c_unk c).
Definition set_received v c := mkC (c_open c) (c_lost c) (c_closed_ev c) (c_att c) (c_fut c) v (c_buf c) (c_has_w c) (c_w c) (c_hash c) (c_len c) (c_verified c) (c_phase c) (c_now c) (c_T c) (c_delivered c) (c_unk c).
Definition set_verified v c := mkC (c_open c) (c_lost c) (c_closed_ev c) (c_att c) (c_fut c) (c_received c) (c_buf c) (c_has_w c) (c_w c) (c_hash c) (c_len c) v (c_phase c) (c_now c) (c_T c) (c_delivered c) (c_unk c).
Definition set_phase v c := mkC (c_open c) (c_lost c) (c_closed_ev c) (c_att c) (c_fut c) (c_received c) (c_buf c) (c_has_w c) (c_w c) (c_hash c) (c_len c) (c_verified c) v (c_now c) (c_T c) (c_delivered c) (c_unk c).
Definition set_now v c := mkC (c_open c) (c_lost c) (c_closed_ev c) (c_att c) (c_fut c) (c_received c) (c_buf c) (c_has_w c) (c_w c) (c_hash c) (c_len c) (c_verified c) (c_phase c) v (c_T c) (c_delivered c) (c_unk c).
Definition set_delivered v c := mkC (c_open c) (c_lost c) (c_closed_ev c) (c_att c) (c_fut c) (c_received c) (c_buf c) (c_has_w c) (c_w c) (c_hash c) (c_len c) (c_verified c) (c_phase c) (c_now c) (c_T c) v (c_unk c).

(* a protocol object just connected (connection_made), no download started *)
Definition fresh_client (now T : Z) : client :=
  mkC true false false false FutPending 0 [] false new_writer [] None None PhIdle now T O false.

(* download_blob up to the first await: new future, new writer, request written, wait_for(fut, T) *)
Definition start_download (hash : bytes) (known : option Z) (c : client) : client :=
  mkC (c_open c) (c_lost c) false true FutPending 0 (c_buf c) true new_writer hash known None
      (PhAwaitResp (c_now c + c_T c)) (c_now c) (c_T c) O (match known with None => true | Some _ => false end).

(* BlobExchangeClientProtocol.close *)
Definition close (c : client) : client :=
  mkC false (c_lost c) true false
      (match c_fut c with FutPending => if c_att c then FutCancelled else FutPending | f => f end)
      (c_received c) [] false
      (if c_has_w c && negb (w_closed (c_w c)) then close_handle (c_w c) else c_w c)
      (c_hash c) (c_len c) (c_verified c) (c_phase c) (c_now c) (c_T c) (c_delivered c) (c_unk c).

Definition fut_done (f : fut) : bool := match f with FutPending => false | _ => true end.

(* data[:k] with Python's meaning of a negative k *)
Definition pyslice_to (data : bytes) (k : Z) : bytes :=
  if k <? 0 then firstn (Z.to_nat (zlen data + k)) data else firstn (Z.to_nat k) data.

(* AbstractBlob.set_length; true = TypeError escapes (0 <= "x") *)
Definition set_length (l : lenv) (c : client) : client * bool :=
  match l, c_len c with
  | LInt z, Some k => (c, false)                       (* same length: return; other length: warning only *)
  | LInt z, None => if (0 <=? z) && (z <=? MAX_BLOB_SIZE) then (set_len (Some z) c, false) else (c, false)
  | LOther, Some k => (c, false)
  | LOther, None => (c, true)
  end.

Section Model.
Variable H : bytes -> bytes.
Variable json_loads : bytes -> jres.

(* _parse_blob_response: try every prefix ending in '}' from the left, but only '}' at an index below
   MAX_RESPONSE_SIZE; racc = bytes already passed (reversed), pos = their number *)
Fixpoint scan (pos : Z) (racc : bytes) (rest : bytes) : parsed :=
  match rest with
  | [] => PNone
  | b :: rest' =>
      if byte_eqb b rbrace then
        if pos >=? MAX_RESPONSE_SIZE then PNone
        else
        match json_loads (rev_append (b :: racc) []) with
        | JInvalid => scan (pos + 1) (b :: racc) rest'
        | JNotResp => PNone
        | JRaise => PRaise
        | JResp r => PResp r (S (length racc))
        end
      else scan (pos + 1) (b :: racc) rest'
  end.
Definition parse_prefix (msg : bytes) : parsed := scan 0 [] msg.

(* HashBlobWriter.write *)
Definition writer_write (hash : bytes) (explen : option Z) (w : writer) (data : bytes) : writer * wout :=
  match explen with
  | None => (w, WoOSError)
  | Some L =>
    if L =? 0 then (w, WoOSError)
    else if w_closed w then
      match w_fin w with
      | WPending => (mkW (w_data w) true WCancelled, WoOk)
      | _ => (w, WoOSError)
      end
    else
      let d := w_data w ++ data in
      if zlen d >? L then
        match w_fin w with
        | WPending => (mkW d true WBadData, WoOk)
        | _ => (mkW d false (w_fin w), WoInvalidState)
        end
      else if zlen d =? L then
        if bytes_eqb (H d) hash then
          match w_fin w with
          | WPending => (mkW d true WResult, WoOk)
          | f => (mkW d true f, WoOk)
          end
        else
          match w_fin w with
          | WPending => (mkW d true WBadHash, WoOk)
          | _ => (mkW d false (w_fin w), WoInvalidState)
          end
      else (mkW d false (w_fin w), WoOk)
  end.

(* BlobExchangeClientProtocol._write ; true = an exception escapes *)
Definition cl_write (c : client) (data : bytes) : client * bool :=
  match c_len c with
  | None => (c, true)                                  (* None - int *)
  | Some L =>
      let room := L - c_received c in
      let data' := if zlen data >? room then pyslice_to data room else data in
      let c1 := set_received (c_received c + zlen data') c in
      let '(w', out) := writer_write (c_hash c) (Some L) (c_w c) data' in
      let c2 := set_w w' c1 in
      match out with
      | WoOk => (c2, false)
      | WoOSError => (if c_att c2 && negb (fut_done (c_fut c2)) then set_fut FutExc c2 else c2, false)
      | WoInvalidState => (c2, true)
      end
  end.

Definition write_if_open (c : client) (data : bytes) : client * bool :=
  match data with
  | [] => (c, false)
  | _ => if c_has_w c && negb (w_closed (c_w c)) then cl_write c data else (c, false)
  end.

(* the part of data_received from `response = BlobResponse.deserialize(self.buf + data)` on *)
Definition parse_path (c : client) (data : bytes) : client * bool :=
  let msg := c_buf c ++ data in
  match parse_prefix msg with
  | PRaise => (c, true)
  | PNone =>
      if negb (fut_done (c_fut c)) then
        (* self.buf += data; more than MAX_RESPONSE_SIZE unrecognised bytes: close *)
        if zlen msg >? MAX_RESPONSE_SIZE then (close (set_buf msg c), false) else (set_buf msg c, false)
      else write_if_open (set_buf [] c) msg
  | PResp r n =>
      let c0 := set_buf [] c in
      let blob_data := skipn n msg in
      let deliver (c1 : client) : client * bool :=
        match c_fut c1 with
        | FutPending =>
            write_if_open (set_delivered (S (c_delivered c1)) (set_fut (FutResult r) c1)) blob_data
        | _ => (c1, true)                               (* InvalidStateError *)
        end in
      match (if c_att c0 then r_blob r else BrAbsent) with
      | BrIncoming h l =>
          if match h with Some h' => bytes_eqb h' (c_hash c0) | None => false end then
            let '(c1, raised) := set_length l c0 in
            if raised then (c1, true) else deliver c1
          else (c0, false)                              (* "started sending blob we didn't request": dropped *)
      | _ => deliver c0
      end
  end.

(* data_received ; true = an exception escapes (asyncio then force-closes the connection) *)
Definition data_received (c : client) (data : bytes) : client * bool :=
  if negb (c_open c) then
    ((if c_att c && negb (fut_done (c_fut c)) then set_fut FutCancelled c else c), false)
  else if negb (c_att c) then (close c, false)
  else if negb (c_received c =? 0) || fut_done (c_fut c) then
    if negb (c_has_w c) then (c, true)                  (* None.closed() *)
    else if negb (w_closed (c_w c)) then cl_write c data
    else parse_path c data
  else parse_path c data.

(* the condition before the repair: only `self._blob_bytes_received and not self.writer.closed()` *)
Definition data_received_old (c : client) (data : bytes) : client * bool :=
  if negb (c_open c) then
    ((if c_att c && negb (fut_done (c_fut c)) then set_fut FutCancelled c else c), false)
  else if negb (c_att c) then (close c, false)
  else if negb (c_received c =? 0) then
    if negb (c_has_w c) then (c, true)
    else if negb (w_closed (c_w c)) then cl_write c data
    else parse_path c data
  else parse_path c data.

(* _download_blob: the checks between the two awaits *)
Definition acceptable (hash : bytes) (known : option Z) (r : response) : bool :=
  let br_bad := match r_blob r with BrIncoming _ _ => false | _ => true end in
  let av_none := match r_avail r with AvAbsent | AvFalsy => true | _ => false end in
  if br_bad && av_none then false
  else if match r_avail r with
          | AvSingle h => negb (bytes_eqb h hash)
          | AvOther => true
          | _ => false end then false
  else if match r_avail r with AvAbsent => true | _ => false end then false
  else if match r_price r with PrAccepted => false | _ => true end then false
  else match r_blob r with
       | BrIncoming h l =>
           if match h with Some h' => bytes_eqb h' hash | None => false end then
             match known with
             | None => true
             | Some k => match l with LInt z => z =? k | LOther => false end
             end
           else false
       | _ => false
       end.

(* done-callback of writer.finished: save_verified_blob *)
Definition run_callbacks (c : client) : client :=
  match w_fin (c_w c), c_verified c with
  | WResult, None => set_verified (Some (w_data (c_w c))) c
  | _, _ => c
  end.

Definition finish (res : dlres) (c : client) : client :=
  (* download_blob's finally: close the writer handle if still open *)
  let c1 := if c_has_w c && negb (w_closed (c_w c)) then set_has_w false (set_w (close_handle (c_w c)) c) else c in
  (* blob.length is NOT touched: a length learned from a peer stays in the shared blob (known finding race-length-poison).
     The request is over: `self._response_fut = None` - whatever arrives on the idle kept connection is unsolicited
     and takes data_received's "received data before expected" branch, which closes (fix a1a028a) *)
  set_phase (PhDone res) (set_att false c1).

(* the coroutine runs until it has to wait again *)
Definition co_await_fin (c : client) : client :=
  match w_fin (c_w c) with
  | WPending => c
  | WResult => finish (DlOk (c_received c)) (run_callbacks c)
  | WBadData | WBadHash => finish (DlClosed (c_received c)) (close c)
  | WCancelled => finish DlCancelled (close c)
  end.

Definition co_step (c : client) : client :=
  match c_phase c with
  | PhAwaitResp d =>
      match c_fut c with
      | FutPending => c
      | FutCancelled => finish DlCancelled (close c)
      | FutExc => finish DlOSError c
      | FutResult r =>
          if c_closed_ev c then finish DlCancelled (close c)
          else if acceptable (c_hash c) (c_len c) r then
            co_await_fin (set_phase (PhAwaitFin (c_now c + c_T c)) c)
          else finish (DlClosed (c_received c)) (close c)
      end
  | PhAwaitFin d => co_await_fin c
  | _ => c
  end.

(* one "run the loop until nothing is ready" *)
Definition drain (c : client) : client :=
  let c1 := co_step (run_callbacks c) in
  if c_lost c1 then co_step (run_callbacks (close (set_lost false c1))) else c1.

(* a timer of wait_for expires *)
Definition fire_timeouts (c : client) : client :=
  match c_phase c with
  | PhAwaitResp d =>
      if d <=? c_now c then
        (* the future is cancelled by wait_for, TimeoutError is caught: return received, self.close() *)
        match c_fut c with
        | FutPending => finish (DlClosed (c_received c)) (close (set_fut FutCancelled c))
        | _ => c
        end
      else c
  | PhAwaitFin d =>
      if d <=? c_now c then
        finish (DlClosed (c_received c)) (close (set_w (close_handle (c_w c)) c))
      else c
  | _ => c
  end.

(* the task running download_blob is cancelled (another peer finished the blob first, the stream was stopped):
   CancelledError is raised at the await the coroutine is suspended in; download_blob closes and re-raises *)
Definition cancel_download (c : client) : client :=
  match c_phase c with
  | PhAwaitResp _ =>
      finish DlCancelled (close (match c_fut c with FutPending => set_fut FutCancelled c | _ => c end))
  | PhAwaitFin _ => finish DlCancelled (close (set_w (close_handle (c_w c)) c))
  | _ => c
  end.

Inductive event :=
| EvData (d : bytes)      (* the transport delivers a segment (dropped when the transport is closing) *)
| EvLate (d : bytes)      (* data_received called although the transport is closing *)
| EvDrain
| EvAdvance (dt : Z)      (* drain, move the clock, fire expired timers, drain *)
| EvLost                  (* the peer closes the connection *)
| EvCancel.               (* task.cancel() on the download, then the loop runs *)

Definition force_close (c : client) : client := set_lost true (set_open false c).

Definition step_with (dr : client -> bytes -> client * bool) (c : client) (e : event) : client :=
  match e with
  | EvData d =>
      if c_open c then
        let '(c1, raised) := dr c d in
        if raised then force_close c1 else c1
      else c
  | EvLate d =>
      let '(c1, raised) := dr c d in
      if raised then force_close c1 else c1
  | EvDrain => drain c
  | EvAdvance dt =>
      let c1 := drain c in
      drain (fire_timeouts (set_now (c_now c1 + Z.max dt 0) c1))
  | EvLost => if c_open c then force_close c else c
  | EvCancel => drain (cancel_download c)
  end.

Definition step := step_with data_received.
Definition step_old := step_with data_received_old.
Definition run (c : client) (evs : list event) : client := fold_left step evs c.
Definition run_old (c : client) (evs : list event) : client := fold_left step_old evs c.

(* delivering a list of segments straight into data_received (a raise force-closes; later segments
   are then dropped by the transport) *)
Definition feed (c : client) (frags : list bytes) : client := run c (map EvData frags).

(* several requests on one connection, request_blob's reuse rule: a closed protocol is replaced *)
Definition request (hash : bytes) (known : option Z) (c : client) : client :=
  if c_open c then start_download hash known c
  else start_download hash known (fresh_client (c_now c) (c_T c)).

(* ---------------------------------------------------------------- server *)
Inductive breq := BqHash (h : bytes) | BqBad.     (* BqBad: get_blob raises inside the task *)
Record request_msg := mkReq { q_addr : bool; q_avail : option (list bytes); q_price : bool; q_blob : option breq }.
Inductive rres := RBadJson | RRaise | REmpty | RReq (q : request_msg).

Record header := mkHdr { h_incoming : option (bytes * Z); h_price : bool; h_avail : option (list bytes); h_addr : bool }.
Inductive sout := SHeader (h : header) | SBlob (b : bytes) | SClose | STaskError.

Variable req_loads : bytes -> rres.
Variable store : bytes -> option bytes.
(* blob_manager.completed_blob_hashes: what availability answers are taken from (a blob file adopted at start-up is
   verified - store - without being in this index) *)
Variable completed : bytes -> bool.

Record server := mkS { s_buf : bytes; s_open : bool }.

Definition held (h : bytes) : bool := match store h with Some _ => true | None => false end.

(* handle_request, run to completion against a peer that reads everything *)
Definition handle_request (q : request_msg) : list sout :=
  let av := match q_avail q with Some l => Some (filter completed l) | None => None end in
  let any := q_addr q || (match q_avail q with Some _ => true | None => false end) || q_price q in
  match q_blob q with
  | Some (BqHash h) =>
      match store h with
      | Some b =>
          [SHeader (mkHdr (Some (h, zlen b)) (q_price q) av (q_addr q)); SBlob b]
          ++ (if zlen b >? 0 then [] else [SClose])
      | None => if any then [SHeader (mkHdr None (q_price q) av (q_addr q))] else []
      end
  | Some BqBad => [STaskError]
  | None => if any then [SHeader (mkHdr None (q_price q) av (q_addr q))] else []
  end.

(* bytes after the last '}' of data, None when data has no '}' *)
Fixpoint after_last_brace (data : bytes) : option bytes :=
  match data with
  | [] => None
  | b :: r =>
      match after_last_brace r with
      | Some t => Some t
      | None => if byte_eqb b rbrace then Some r else None
      end
  end.

(* BlobServerProtocol.data_received *)
Definition srv_data (s : server) (data : bytes) : server * list sout :=
  if zlen (s_buf s) + zlen data >=? MAX_REQUEST_SIZE then (mkS (s_buf s) false, [SClose])
  else match data with
  | [] => (mkS (s_buf s) false, [SClose])               (* request is None: AttributeError escapes *)
  | _ =>
    match after_last_brace data with
    | None => (mkS (s_buf s ++ data) (s_open s), [])
    | Some remainder =>
        match req_loads (s_buf s ++ data) with
        | RBadJson => (mkS (s_buf s) false, [SClose])
        | RRaise => (mkS (s_buf s) false, [SClose])
        | REmpty => (mkS remainder false, [SClose])
        | RReq q =>
            let out := handle_request q in
            (mkS remainder (s_open s && negb (existsb (fun o => match o with SClose => true | _ => false end) out)), out)
        end
    end
  end.

Definition srv_step (st : server * list sout) (data : bytes) : server * list sout :=
  let '(s, acc) := st in
  if s_open s then let '(s', out) := srv_data s data in (s', acc ++ out) else (s, acc).
Definition srv_run (s : server) (frags : list bytes) : server * list sout :=
  fold_left srv_step frags (s, []).
Definition fresh_server : server := mkS [] true.

End Model.

(* ---------------------------------------------------------------- server timers (close_on_idle / transfer timeout)
   One connection.  TmIdle d: the watchdog waits for started_transfer until d.  TmTransfer d: a blob is being
   sent (started_transfer was set before the sendfile await; the watchdog waits for transfer_finished, the
   transfer itself is bounded by wait_for(sendfile, transfer_timeout) until d). *)
Inductive tmode := TmIdle (deadline : Z) | TmTransfer (deadline : Z) | TmClosed.
Record tsrv := mkT { t_now : Z; t_mode : tmode }.
Inductive tev :=
| TvStart            (* handle_request starts sending a held blob *)
| TvDone             (* sendfile returns: transfer_finished.set() *)
| TvAdvance (dt : Z)
| TvOther.           (* any request that starts no transfer: the idle deadline is NOT moved *)

Definition tsrv_fresh (idleT now : Z) : tsrv := mkT now (TmIdle (now + idleT)).
Definition tsrv_open (s : tsrv) : bool := match t_mode s with TmClosed => false | _ => true end.

Definition tsrv_step (idleT transT : Z) (s : tsrv) (e : tev) : tsrv :=
  match e, t_mode s with
  | TvStart, TmIdle _ => mkT (t_now s) (TmTransfer (t_now s + transT))
  | TvDone, TmTransfer _ => mkT (t_now s) (TmIdle (t_now s + idleT))
  | TvAdvance dt, TmIdle d =>
      let now := t_now s + Z.max dt 0 in mkT now (if d <=? now then TmClosed else TmIdle d)
  | TvAdvance dt, TmTransfer d =>
      let now := t_now s + Z.max dt 0 in mkT now (if d <=? now then TmClosed else TmTransfer d)
  | TvAdvance dt, TmClosed => mkT (t_now s + Z.max dt 0) TmClosed
  | _, _ => s
  end.

Definition tsrv_run (idleT transT : Z) (s : tsrv) (evs : list tev) : tsrv := fold_left (tsrv_step idleT transT) evs s.

Fixpoint tsrv_trace (idleT transT : Z) (s : tsrv) (evs : list tev) : list bool :=
  match evs with
  | [] => []
  | e :: r => let s' := tsrv_step idleT transT s e in tsrv_open s' :: tsrv_trace idleT transT s' r
  end.

(* ---------------------------------------------------------------- several writers of ONE blob (the peer race)
   AbstractBlob.writers + writer_finished_callback: only a writer that finished with verified bytes closes the
   handles of the others; a writer that failed (hash mismatch, too much data, cancelled) touches nobody. *)
Fixpoint close_others (i : nat) (ws : list writer) : list writer :=
  match ws, i with
  | [], _ => []
  | w :: r, O => w :: map close_handle r
  | w :: r, S i' => close_handle w :: close_others i' r
  end.

Fixpoint set_nth (i : nat) (w : writer) (ws : list writer) : list writer :=
  match ws, i with
  | [], _ => []
  | _ :: r, O => w :: r
  | x :: r, S i' => x :: set_nth i' w r
  end.

Definition finished_callback (i : nat) (ws : list writer) : list writer :=
  match nth_error ws i with
  | Some w => match w_fin w with WResult => close_others i ws | _ => ws end
  | None => ws
  end.

(* writer i of the blob is handed data, then the loop runs its done-callbacks *)
Definition blob_write (H : bytes -> bytes) (hash : bytes) (len : option Z) (ws : list writer) (i : nat) (data : bytes)
  : list writer :=
  match nth_error ws i with
  | Some w => finished_callback i (set_nth i (fst (writer_write H hash len w data)) ws)
  | None => ws
  end.

(* ---------------------------------------------------------------- a memory-only node (save_blobs = False)
   Its copy of a blob is a BlobBuffer: reading it (sendfile to a peer, or decrypting it) consumes it and clears
   `verified`; the node then no longer holds the blob. *)
Definition forget (store : bytes -> option bytes) (h : bytes) : bytes -> option bytes :=
  fun x => if bytes_eqb x h then None else store x.

Definition mem_handle_request (store : bytes -> option bytes) (completed : bytes -> bool) (q : request_msg)
  : list sout * (bytes -> option bytes) :=
  (handle_request store completed q,
   match q_blob q with Some (BqHash h) => forget store h | _ => store end).
