(* C08 model: SPV Merkle verification.  Mirrors lbry/wallet/ledger.py
   Ledger.get_root_of_merkle_tree / Ledger.maybe_verify_transaction and the part of
   lbry/wallet/header.py that reads a header's merkle root (Headers.deserialize, __len__).
   Executable definitions only.  The double SHA-256 is a Section variable. *)
From Coq Require Import NArith ZArith List Bool.
From Coq.Strings Require Import Byte.
From LV Require Import Lib.Bytes.
Import ListNotations.

(* ---------- binascii.hexlify / unhexlify (ASCII) ---------- *)
Definition hexdigit (n : N) : byte := byte_of_N (if (n <? 10)%N then 48 + n else 87 + n)%N.

Fixpoint hexlify (b : bytes) : bytes :=
  match b with
  | [] => []
  | x :: r => hexdigit (N_of_byte x / 16) :: hexdigit (N_of_byte x mod 16) :: hexlify r
  end.

Definition hexval (c : byte) : option N :=
  let v := N_of_byte c in
  if ((48 <=? v) && (v <=? 57))%N then Some (v - 48)%N
  else if ((97 <=? v) && (v <=? 102))%N then Some (v - 87)%N
  else if ((65 <=? v) && (v <=? 70))%N then Some (v - 55)%N
  else None.

(* None = binascii.Error (odd length or non-hexadecimal digit) *)
Fixpoint unhexlify (s : bytes) : option bytes :=
  match s with
  | [] => Some []
  | [_] => None
  | a :: b :: r =>
      match hexval a, hexval b, unhexlify r with
      | Some x, Some y, Some t => Some (byte_of_N (16 * x + y) :: t)
      | _, _, _ => None
      end
  end.

Section Merkle.
Variable dsha : bytes -> bytes.

(* `combined = other + working if other_branch_on_left else working + other` *)
Definition combine (other_on_left : bool) (other working : bytes) : bytes :=
  if other_on_left then other ++ working else working ++ other.

(* the loop of get_root_of_merkle_tree on already decoded (internal byte order) siblings:
   at iteration i the side is bit i of the position, `(branch_positions >> i) & 1`
   (Z.testbit is two's complement, like Python's >> on negative ints) *)
Fixpoint fold_from (i : nat) (branches : list bytes) (pos : Z) (working : bytes) : bytes :=
  match branches with
  | [] => working
  | b :: r => fold_from (S i) r pos (dsha (combine (Z.testbit pos (Z.of_nat i)) b working))
  end.
Definition fold_branch (branches : list bytes) (pos : Z) (working : bytes) : bytes :=
  fold_from 0 branches pos working.

(* `unhexlify(branch)[::-1]` for every element; None = binascii.Error *)
Fixpoint decode_branches (bs : list bytes) : option (list bytes) :=
  match bs with
  | [] => Some []
  | b :: r =>
      match unhexlify b, decode_branches r with
      | Some x, Some t => Some (rev x :: t)
      | _, _ => None
      end
  end.

(* Ledger.get_root_of_merkle_tree(branches, branch_positions, working_branch):
   wire-format siblings (hex of the reversed hash), result hexlify(root[::-1]) *)
Definition get_root_of_merkle_tree (branches : list bytes) (pos : Z) (working : bytes) : option bytes :=
  match decode_branches branches with
  | Some br => Some (hexlify (rev (fold_branch br pos working)))
  | None => None
  end.

(* ---------- the tree a block builds (Bitcoin style: duplicate the last node on odd levels) ---------- *)
Fixpoint pair_up (l : list bytes) : list bytes :=
  match l with
  | [] => []
  | [a] => [dsha (a ++ a)]
  | a :: b :: r => dsha (a ++ b) :: pair_up r
  end.

(* fuel = number of leaves is always enough (each level at least halves) *)
Fixpoint root_fuel (fuel : nat) (l : list bytes) : option bytes :=
  match l with
  | [] => None
  | [a] => Some a
  | _ :: _ :: _ => match fuel with O => None | S f => root_fuel f (pair_up l) end
  end.
Definition merkle_root (l : list bytes) : option bytes := root_fuel (length l) l.

Definition sibling (l : list bytes) (idx : nat) : bytes :=
  let self := nth idx l [] in
  if Nat.even idx then nth (S idx) l self else nth (pred idx) l self.

Fixpoint branch_fuel (fuel : nat) (l : list bytes) (idx : nat) : list bytes :=
  match l with
  | [] => []
  | [_] => []
  | _ :: _ :: _ =>
      match fuel with
      | O => []
      | S f => sibling l idx :: branch_fuel f (pair_up l) (Nat.div2 idx)
      end
  end.
Definition branch (l : list bytes) (idx : nat) : list bytes := branch_fuel (length l) l idx.

(* wire form of one hash: hexlify(h[::-1]) *)
Definition wire (h : bytes) : bytes := hexlify (rev h).

(* ---------- explicit collision extraction (used by the binding theorems) ----------
   walks two folds of equal length level by level and returns the first pair of different hash
   inputs that have the same hash *)
Fixpoint collision_from (i : nat) (br1 br2 : list bytes) (p1 p2 : Z) (w1 w2 : bytes)
  : option (bytes * bytes) :=
  match br1, br2 with
  | b1 :: r1, b2 :: r2 =>
      let c1 := combine (Z.testbit p1 (Z.of_nat i)) b1 w1 in
      let c2 := combine (Z.testbit p2 (Z.of_nat i)) b2 w2 in
      if negb (bytes_eqb c1 c2) && bytes_eqb (dsha c1) (dsha c2) then Some (c1, c2)
      else collision_from (S i) r1 r2 p1 p2 (dsha c1) (dsha c2)
  | _, _ => None
  end.
Definition collision (br1 br2 : list bytes) (p1 p2 : Z) (w1 w2 : bytes) : option (bytes * bytes) :=
  collision_from 0 br1 br2 p1 p2 w1 w2.

(* ---------- Headers: reading the merkle root of the header at a height ---------- *)
(* Headers.deserialize: 'merkle_root': hexlify(header[36:68][::-1]) *)
Definition header_root_raw (raw : bytes) : bytes := firstn 32 (skipn 36 raw).
Definition header_merkle_root (raw : bytes) : bytes := hexlify (rev (header_root_raw raw)).

(* `0 <= merkle['pos'] < (1 << len(merkle['merkle']))` *)
Definition pos_fits {A} (brs : list A) (pos : Z) : bool :=
  ((0 <=? pos) && (pos <? 2 ^ Z.of_nat (length brs)))%Z.

(* ---------- Ledger.maybe_verify_transaction ---------- *)
(* the merkle dict: m_merkle = None <-> no 'merkle' key; m_pos = None <-> no 'pos' key *)
Record merkle_resp := { m_merkle : option (list bytes); m_pos : option Z }.
Record tx_state := { t_height : Z; t_position : Z; t_verified : bool }.
Inductive outcome := RetTx | RetNone | RaiseKeyError | RaiseHexError.

(* headers: the stored 112-byte headers, index = height (len(self.headers) = length headers).
   arg = None stands for a falsy `merkle` argument (None or {}): the dict is then fetched from
   the network (net).  Result: new tx fields, how the call ended, whether the network was asked. *)
Definition maybe_verify (headers : list bytes) (st : tx_state) (raw_tx : bytes) (remote_height : Z)
           (arg : option merkle_resp) (net : merkle_resp) : tx_state * outcome * bool :=
  let st1 := {| t_height := remote_height; t_position := t_position st; t_verified := t_verified st |} in
  if ((0 <? remote_height) && (remote_height <? Z.of_nat (length headers)))%Z then
    let m := match arg with Some m => m | None => net end in
    let fetched := match arg with Some _ => false | None => true end in
    match m_merkle m with
    | None => (st1, RetNone, fetched)
    | Some brs =>
        match m_pos m with
        | None => (st1, RaiseKeyError, fetched)
        | Some pos =>
            if negb (pos_fits brs pos) then
              (* fix 3419b3f: the branch cannot address this position -- not a proof; the position is NOT
                 recorded and the flag is forced to False *)
              ({| t_height := remote_height; t_position := t_position st; t_verified := false |}, RetTx, fetched)
            else
            match get_root_of_merkle_tree brs pos (dsha raw_tx) with
            | None => (st1, RaiseHexError, fetched)
            | Some root =>
                ({| t_height := remote_height; t_position := pos;
                    t_verified := bytes_eqb root
                                    (header_merkle_root (nth (Z.to_nat remote_height) headers [])) |},
                 RetTx, fetched)
            end
        end
    end
  else (st1, RetTx, false).

(* the dict the verification actually uses, and projections of the result *)
Definition effective (arg : option merkle_resp) (net : merkle_resp) : merkle_resp :=
  match arg with Some m => m | None => net end.
Definition mv_state (r : tx_state * outcome * bool) : tx_state := fst (fst r).
Definition mv_outcome (r : tx_state * outcome * bool) : outcome := snd (fst r).
Definition mv_fetched (r : tx_state * outcome * bool) : bool := snd r.

End Merkle.
