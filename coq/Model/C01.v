(* C01 model: blob integrity.  Mirrors lbry/blob/writer.py (HashBlobWriter) and lbry/blob/blob_file.py
   (AbstractBlob.set_length / get_blob_writer / writer_finished_callback / save_verified_blob / close,
   BlobFile and BlobBuffer _write_blob) together with the part of asyncio that decides the outcome:
   Future.set_result / set_exception / cancel schedule the done-callbacks with call_soon, i.e. they are
   appended to the loop's FIFO ready queue in registration order and run at a later loop iteration.

   One blob, any number of writers.  Executable definitions only (proofs are in Proofs/C01.v).
   Primitive: H (sha384) is a Section variable; no hypothesis about it is ever used. *)
From Coq Require Import NArith ZArith List Bool.
From Coq.Strings Require Import Byte.
From LV Require Import Lib.Bytes.
Import ListNotations.
Local Open Scope N_scope.

Definition MAX_BLOB_SIZE : N := 2097152.          (* lbry/blob/__init__.py: 2 * 2 ** 20 *)

(* state of a writer's [finished] future *)
Inductive fut := FPending | FOk (b : bytes) | FErrLen | FErrHash | FCancelled.
Definition fut_done (f : fut) : bool := match f with FPending => false | _ => true end.

(* HashBlobWriter: w_open = "buffer is not None", w_buf = buffer contents, w_seen = everything fed to
   _hashsum.update (len_so_far = length w_seen), w_key = (peer_address, peer_port) *)
Record writer := mkW { w_key : N; w_open : bool; w_buf : bytes; w_seen : bytes; w_fut : fut }.

(* entries of the event loop's ready queue *)
Inductive qitem :=
| QClose (i : nat)      (* finished.add_done_callback(lambda: self.close_handle())   registered 1st *)
| QRemove (k : N) (i : nat)  (* remove_writer: deletes writers[k] only if it still is writer i   registered 2nd *)
| QWfc (i : nat)        (* writer_finished_callback                                  registered 3rd *)
| QTask (b : bytes)     (* first step of the task created by _write_blob(b) *)
| QSetState             (* BlobFile: executor future finished -> call_soon_threadsafe(_set_state) *)
| QNop                  (* BlobFile: _chain_future's _call_check_cancel on the wrapped future *)
| QWakeup               (* BlobFile: task wakeup, the coroutine returns, the task is done *)
| QUpdate               (* update_events: verified.set(); writing.clear() *)
| QCompleted            (* blob_completed_callback(self) *)
(* the same three hops when the executor job FAILED (disk full, no permission, ...): the write task ends with the
   exception, and - as repaired - both done-callbacks look at the task's outcome *)
| QSetStateF            (* executor future finished with an exception *)
| QWakeupF              (* the task is resumed with the exception and ends with it *)
| QUpdateF.             (* update_events(failed task): writing.clear() only; the completion lambda does nothing *)

Inductive kind := KFile | KBuffer.

Record state := mkS {
  s_len : option N;               (* blob.length *)
  s_ws : list writer;             (* every writer ever created, by creation index *)
  s_map : list (N * nat);         (* blob.writers: insertion-ordered dict key -> writer index *)
  s_q : list qitem;               (* ready queue, head runs first *)
  s_writing : bool;               (* blob.writing *)
  s_verified : bool;              (* blob.verified *)
  s_io : option bytes;            (* BlobFile: job handed to the executor, not run yet *)
  s_store : option bytes;         (* BlobFile: bytes of <blob_dir>/<hash>; BlobBuffer: _verified_bytes *)
  s_completed : nat }.            (* number of blob_completed_callback invocations *)

Definition init : state := mkS None [] [] [] false false None None O.

Definition set_len x s := mkS x (s_ws s) (s_map s) (s_q s) (s_writing s) (s_verified s) (s_io s) (s_store s) (s_completed s).
Definition set_ws x s := mkS (s_len s) x (s_map s) (s_q s) (s_writing s) (s_verified s) (s_io s) (s_store s) (s_completed s).
Definition set_map x s := mkS (s_len s) (s_ws s) x (s_q s) (s_writing s) (s_verified s) (s_io s) (s_store s) (s_completed s).
Definition set_q x s := mkS (s_len s) (s_ws s) (s_map s) x (s_writing s) (s_verified s) (s_io s) (s_store s) (s_completed s).
Definition enq l s := set_q (s_q s ++ l) s.
Definition set_writing x s := mkS (s_len s) (s_ws s) (s_map s) (s_q s) x (s_verified s) (s_io s) (s_store s) (s_completed s).
Definition set_verified x s := mkS (s_len s) (s_ws s) (s_map s) (s_q s) (s_writing s) x (s_io s) (s_store s) (s_completed s).
Definition set_io x s := mkS (s_len s) (s_ws s) (s_map s) (s_q s) (s_writing s) (s_verified s) x (s_store s) (s_completed s).
Definition set_store x s := mkS (s_len s) (s_ws s) (s_map s) (s_q s) (s_writing s) (s_verified s) (s_io s) x (s_completed s).
Definition set_completed x s := mkS (s_len s) (s_ws s) (s_map s) (s_q s) (s_writing s) (s_verified s) (s_io s) (s_store s) x.

Fixpoint upd {A} (i : nat) (x : A) (l : list A) : list A :=
  match l, i with
  | [], _ => []
  | _ :: r, O => x :: r
  | y :: r, S j => y :: upd j x r
  end.

(* the writers dict *)
Fixpoint lookup (k : N) (m : list (N * nat)) : option nat :=
  match m with [] => None | (k', j) :: r => if k' =? k then Some j else lookup k r end.
Fixpoint map_set (k : N) (i : nat) (m : list (N * nat)) : list (N * nat) :=
  match m with
  | [] => [(k, i)]
  | (k', j) :: r => if k' =? k then (k, i) :: r else (k', j) :: map_set k i r
  end.
Fixpoint map_del (k : N) (m : list (N * nat)) : list (N * nat) :=
  match m with [] => [] | (k', j) :: r => if k' =? k then r else (k', j) :: map_del k r end.

(* remove_writer (as repaired by 597bcef): `if self.writers.get(key) is writer: del self.writers[key]` *)
Definition map_del_if (k : N) (i : nat) (m : list (N * nat)) : list (N * nat) :=
  match lookup k m with
  | Some j => if Nat.eqb j i then map_del k m else m
  | None => m
  end.

(* the three done-callbacks of writer i's future, in registration order *)
Definition cbs (i : nat) (k : N) : list qitem := [QClose i; QRemove k i; QWfc i].
Definition fire (i : nat) (w : writer) (f : bool) : list qitem := if f then cbs i (w_key w) else [].

(* apply a writer-level transition (new writer, "the future just became done") to writer i *)
Definition app_w (f : writer -> writer * bool) (i : nat) (s : state) : state :=
  match nth_error (s_ws s) i with
  | None => s
  | Some w => let (w', fi) := f w in enq (fire i w fi) (set_ws (upd i w' (s_ws s)) s)
  end.

(* HashBlobWriter.close_handle *)
Definition close_handle_w (w : writer) : writer * bool :=
  if fut_done (w_fut w) then (mkW (w_key w) false (w_buf w) (w_seen w) (w_fut w), false)
  else (mkW (w_key w) false (w_buf w) (w_seen w) FCancelled, true).
Definition close_handle := app_w close_handle_w.

(* writer.finished.cancel() *)
Definition cancel_w (w : writer) : writer * bool :=
  if fut_done (w_fut w) then (w, false)
  else (mkW (w_key w) (w_open w) (w_buf w) (w_seen w) FCancelled, true).
Definition cancel := app_w cancel_w.

Inductive res := ROk | ROSError | RInvalid | RNew (i : nat) | RBadId | RRead (b : bytes) | RSkipped | RBool (b : bool).

Section C01.
Variable H : bytes -> bytes.     (* sha384 *)
Variable h : bytes.              (* the blob's name (digest) *)
Variable kd : kind.              (* BlobFile or BlobBuffer *)
Variable cb : bool.              (* a blob_completed_callback was given *)

(* HashBlobWriter.write, branch by branch *)
Definition wr_write (len : option N) (w : writer) (d : bytes) : writer * bool * res :=
  match len with
  | None => (w, false, ROSError)                                     (* unknown blob length *)
  | Some L =>
    if L =? 0 then (w, false, ROSError) else                         (* `not expected_length` *)
    if negb (w_open w) then
      (if fut_done (w_fut w) then (w, false, ROSError)               (* I/O operation on closed file *)
       else (mkW (w_key w) false (w_buf w) (w_seen w) FCancelled, true, ROk))
    else
      let seen' := w_seen w ++ d in
      let n := N.of_nat (length seen') in
      if L <? n then
        (if fut_done (w_fut w)
         then (mkW (w_key w) true (w_buf w) seen' (w_fut w), false, RInvalid)  (* set_exception on a done future *)
         else (mkW (w_key w) false (w_buf w) seen' FErrLen, true, ROk))
      else
        let buf' := w_buf w ++ d in
        if n =? L then
          if bytes_eqb (H seen') h then
            (if fut_done (w_fut w)
             then (mkW (w_key w) false buf' seen' (w_fut w), false, ROk)
             else (mkW (w_key w) false buf' seen' (FOk buf'), true, ROk))
          else
            (if fut_done (w_fut w)
             then (mkW (w_key w) true buf' seen' (w_fut w), false, RInvalid)
             else (mkW (w_key w) false buf' seen' FErrHash, true, ROk))
        else (mkW (w_key w) true buf' seen' (w_fut w), false, ROk)
  end.

Definition write (i : nat) (d : bytes) (s : state) : state * res :=
  match nth_error (s_ws s) i with
  | None => (s, RBadId)
  | Some w => (app_w (fun x => fst (wr_write (s_len s) x d)) i s, snd (wr_write (s_len s) w d))
  end.

(* AbstractBlob.set_length: the equal-length branch and the warning branch leave everything unchanged *)
Definition set_length (n : Z) (s : state) : state :=
  match s_len s with
  | Some _ => s
  | None => if ((0 <=? n)%Z && (n <=? Z.of_N MAX_BLOB_SIZE)%Z)%bool then set_len (Some (Z.to_N n)) s else s
  end.

Definition file_exists (s : state) : bool :=
  match kd, s_store s with KFile, Some _ => true | _, _ => false end.

(* BlobFile.get_blob_writer / AbstractBlob.get_blob_writer *)
Definition open_writer (k : N) (s : state) : state * res :=
  if file_exists s then (s, ROSError) else
  let busy := match lookup k (s_map s) with
              | Some j => match nth_error (s_ws s) j with Some w => w_open w | None => false end
              | None => false end in
  if busy then (s, ROSError) else
  let i := length (s_ws s) in
  (set_map (map_set k i (s_map s)) (set_ws (s_ws s ++ [mkW k true [] [] FPending]) s), RNew i).

(* AbstractBlob.close: popitem takes the most recently inserted key first *)
Definition close_blob (s : state) : state :=
  set_map [] (fold_right (fun kj st => cancel (snd kj) st) s (s_map s)).

(* the popitem loop of writer_finished_callback *)
Definition close_others (i : nat) (s : state) : state :=
  set_map [] (fold_right (fun kj st => if Nat.eqb (snd kj) i then st else close_handle (snd kj) st) s (s_map s)).

Definition writeable (s : state) : bool := negb (s_writing s) && negb (file_exists s).

Definition save_verified (b : bytes) (s : state) : state :=
  if s_verified s then s
  else if writeable s then enq [QTask b] (set_writing true s)
  else s.

Definition done_cbs : list qitem := QUpdate :: (if cb then [QCompleted] else []).
(* the same two done-callbacks when the write task failed: writing.clear() only, and a completion lambda that does nothing *)
Definition fail_cbs : list qitem := QUpdateF :: (if cb then [QNop] else []).

Definition run_item (it : qitem) (s : state) : state :=
  match it with
  | QClose i => close_handle i s
  | QRemove k i => set_map (map_del_if k i (s_map s)) s
  | QWfc i => match nth_error (s_ws s) i with
              | Some w => match w_fut w with
                          | FOk b => save_verified b (close_others i s)
                          | _ => s
                          end
              | None => s
              end
  | QTask b => match kd with
               | KFile => set_io (Some b) s                        (* run_in_executor submits the job *)
               | KBuffer => match s_store s with
                            | Some _ => enq fail_cbs s          (* OSError("already have bytes for blob") *)
                            | None => enq done_cbs (set_store (Some b) s)
                            end
               end
  | QSetState => enq [QNop; QWakeup] s
  | QNop => s
  | QWakeup => enq done_cbs s
  | QUpdate => set_writing false (set_verified true s)
  | QCompleted => set_completed (S (s_completed s)) s
  | QSetStateF => enq [QNop; QWakeupF] s
  | QWakeupF => enq fail_cbs s
  | QUpdateF => set_writing false s
  end.

(* run the callback at the head of the ready queue *)
Definition step1 (s : state) : state :=
  match s_q s with [] => s | it :: r => run_item it (set_q r s) end.

Fixpoint iter (n : nat) (s : state) : state :=
  match n with O => s | S m => iter m (step1 s) end.

(* enough steps to empty the queue (Proofs.C01.drain_quiescent) *)
Definition wt (it : qitem) : nat :=
  match it with
  | QClose _ | QRemove _ _ | QNop | QUpdate | QCompleted => 1
  | QWfc _ => 4 | QTask _ => 3 | QWakeup => 3 | QSetState => 5
  | QUpdateF => 1 | QWakeupF => 3 | QSetStateF => 5
  end.
Definition qweight (q : list qitem) : nat := fold_right (fun it a => (wt it + a)%nat) O q.
Definition pending_count (ws : list writer) : nat :=
  length (filter (fun w => negb (fut_done (w_fut w))) ws).
Definition fuel (s : state) : nat := (qweight (s_q s) + 6 * pending_count (s_ws s))%nat.

Definition tick (s : state) : state := iter (length (s_q s)) s.      (* one loop iteration *)
Definition drain (s : state) : state := iter (fuel s) s.             (* iterate until nothing is ready *)

(* the executor runs the submitted job: the file is written, the loop is notified *)
Definition io_done (s : state) : state :=
  match s_io s with
  | None => s
  | Some b => enq [QSetState] (set_store (Some b) (set_io None s))
  end.

(* `with blob.reader_context() as r: r.read()`: refused unless verified; a BlobBuffer hands its bytes out once
   (its _reader_context closes the buffer and clears verified), a BlobFile just reads the file *)
Definition read_blob (s : state) : state * res :=
  if s_verified s then
    match s_store s with
    | Some b => (match kd with KBuffer => set_verified false (set_store None s) | KFile => s end, RRead b)
    | None => (s, ROSError)
    end
  else (s, ROSError).

(* blob.delete() - modelled only when nothing of this blob is in flight (empty ready queue, no executor job, not
   writing); otherwise the operation is skipped (by the harness too).  close(), verified.clear(), length = None,
   the file / the buffer is removed. *)
Definition settled (s : state) : bool :=
  match s_q s, s_io s with [], None => negb (s_writing s) | _, _ => false end.
Definition delete_blob (s : state) : state * res :=
  if settled s then (set_len None (set_store None (set_verified false (close_blob s))), ROk)
  else (s, RSkipped).

(* The object as BlobManager.get_blob(hash, expected) creates it over a blob directory that may already hold a file
   named after the hash (restart).  BlobFile.__init__: the expected length is taken as it is; an existing file
   whose size differs from a (non-zero) expected length is deleted (delete() also forgets the length); otherwise
   the file is taken over: length = file size, verified.  BlobBuffer.__init__ only records the length. *)
Definition start (file : option bytes) (expected : option N) : state :=
  match kd, file with
  | KFile, Some f =>
      let size := N.of_nat (length f) in
      let mismatch := match expected with Some L => negb (L =? 0) && negb (L =? size) | None => false end in
      if mismatch then init
      else mkS (Some size) [] [] [] false true None (Some f) O
  | _, _ => mkS expected [] [] [] false false None None O
  end.

(* BlobManager.is_blob_verified for a cached blob: a file is in the directory and the object is verified *)
Definition manager_verified (s : state) : bool := file_exists s && s_verified s.

(* the executor job fails: nothing appears under the blob's name (the write is atomic: temp file + rename), the
   loop is notified of the exception *)
Definition io_fail (s : state) : state :=
  match s_io s with
  | None => s
  | Some _ => enq [QSetStateF] (set_io None s)
  end.

Inductive op :=
| SetLength (n : Z) | Open (k : N) | Write (i : nat) (d : bytes) | CloseW (i : nat) | CloseBlob
| Tick | Drain | IoDone | Read | Delete
| Advance (dt : N)    (* time passes on the loop's clock: nothing of a blob depends on it *)
| IsVerified (n : option N)   (* BlobManager.is_blob_verified(hash, n) for the cached object: a pure query *)
| Ensure                      (* BlobManager.ensure_completed_blobs_status([hash]): does it record 'finished'? *)
| IoFail.                     (* the executor job raises (ENOSPC, EACCES, ...) *)

Definition step (o : op) (s : state) : state * res :=
  match o with
  | SetLength n => (set_length n s, ROk)
  | Open k => open_writer k s
  | Write i d => write i d s
  | CloseW i => (close_handle i s, ROk)
  | CloseBlob => (close_blob s, ROk)
  | Tick => (tick s, ROk)
  | Drain => (drain s, ROk)
  | IoDone => (io_done s, ROk)
  | Read => read_blob s
  | Delete => delete_blob s
  | Advance _ => (s, ROk)
  | IsVerified _ => (s, RBool (manager_verified s))
  | Ensure => (s, RBool (manager_verified s))
  | IoFail => (io_fail s, ROk)
  end.

Definition run (ops : list op) (s : state) : state := fold_left (fun st o => fst (step o st)) ops s.

(* same, keeping every intermediate (state, result) for the correspondence *)
Fixpoint run_log (ops : list op) (s : state) : list (state * res) :=
  match ops with
  | [] => []
  | o :: r => let sr := step o s in sr :: run_log r (fst sr)
  end.

End C01.
