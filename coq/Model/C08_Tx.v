(* C08, the leaf: Transaction(raw).hash is the double SHA-256 of the TXID PREIMAGE, which for a
   witness-serialised transaction (marker 00, non-zero flag) is the re-serialisation of the parsed fields
   without marker, flag and witnesses (Transaction.raw_sans_segwit -> _serialize), and the given bytes
   themselves otherwise.  Reader and writer are the shared wire model Wire/Tx.v (property C05).
   Executable definitions only. *)
From Coq Require Import NArith ZArith List Bool.
From Coq.Strings Require Import Byte.
From LV Require Import Lib.Bytes Wire.CompactSize Wire.Tx Model.C08.
Import ListNotations.

(* None: Transaction(raw) raises while parsing, or re-serialising the parsed fields raises *)
Definition txid_preimage (raw : bytes) : option bytes :=
  match deserialize raw with
  | ROk p => if truthy (p_flag p)
             then match pser p with ROk b => Some b | RErr _ => None end
             else Some raw
  | RErr _ => None
  end.

Section TxLeaf.
Variable dsha : bytes -> bytes.

(* maybe_verify_transaction on the Transaction object built from the bytes the server returned *)
Definition maybe_verify_raw (headers : list bytes) (st : tx_state) (raw : bytes) (h : Z)
           (arg : option merkle_resp) (net : merkle_resp) : option (tx_state * outcome * bool) :=
  match txid_preimage raw with
  | Some pre => Some (maybe_verify dsha headers st pre h arg net)
  | None => None
  end.
End TxLeaf.
