(* C11 specification vocabulary (definitions only): what "well-formed Kademlia tree" and "exact closest-K"
   mean, written without reference to how the model computes. *)
From Coq Require Import NArith ZArith List Bool.
From LV Require Import Model.C11.
Import ListNotations.
Local Open Scope N_scope.

(* buckets are contiguous from [lo] to [hi], each with a non-empty range *)
Fixpoint chain (lo : N) (t : table) (hi : N) : Prop :=
  match t with
  | [] => lo = hi
  | b :: r => blo b = lo /\ blo b < bhi b /\ chain (bhi b) r hi
  end.

Definition pkey (q : peer) : N * N := (paddr q, pport q).

(* every contact lies in its bucket's range; at most K contacts per bucket *)
Definition bucket_ok (own : N) (b : bucket) : Prop :=
  Forall (fun q => blo b <= dist own (pid q) < bhi b) (bpeers b) /\ (length (bpeers b) <= K)%nat.

Record WF (own : N) (t : table) : Prop := mkWF {
  wf_chain : chain 0 t M;
  wf_ok : Forall (bucket_ok own) t;
  wf_ids : NoDup (map pid (contacts t));
  wf_keys : NoDup (map pkey (contacts t))
}.

(* number of buckets whose range contains distance d *)
Definition covering (t : table) (d : N) : nat :=
  length (filter (fun b => (blo b <=? d) && (d <? bhi b)) t).

(* histories the property quantifies over: node ids are 48-byte strings *)
Definition op_valid (o : op) : Prop :=
  match o with
  | Add p _ => pid p < M
  | Remove p => pid p < M
  | _ => True
  end.

Definition out_ok (x : out) : Prop :=
  match x with
  | OAdd (Ret _) _ => True
  | OAdd ErrProbe _ => True          (* the probe's own exception; only with a PLocalFail outcome, see C11_probe_error_only_local *)
  | ORemove true => True
  | _ => False
  end.

(* strictly ascending by XOR distance to key *)
Fixpoint ascending (key : N) (l : list peer) : Prop :=
  match l with
  | [] => True
  | x :: r => Forall (fun y => dist key (pid x) < dist key (pid y)) r /\ ascending key r
  end.

(* a contact that find_close_peers may return *)
Definition eligible (own : N) (sender : option N) (t : table) (q : peer) : Prop :=
  In q (contacts t) /\ pid q <> own /\ (forall s, sender = Some s -> pid q <> s).

(* number of known contacts at least as close to the own id as p *)
Definition at_least_as_close (own : N) (t : table) (p : peer) : nat :=
  length (filter (fun c => dist own (pid c) <=? dist own (pid p)) (contacts t)).

(* s is exactly the c nearest eligible contacts in ascending order *)
Definition exact_closest (own : N) (sender : option N) (t : table) (key : N) (c : nat) (s : list peer) : Prop :=
  ascending key s /\
  (forall q, In q s -> eligible own sender t q) /\
  (forall q y, eligible own sender t q -> ~ In q s -> In y s -> dist key (pid y) < dist key (pid q)) /\
  (exists cands, NoDup cands /\ (forall q, In q cands <-> eligible own sender t q) /\
                 length s = Nat.min c (length cands)).

Definition sop_valid (o : sop) : Prop :=
  match o with
  | SAdd p _ => pid p < M
  | SAddReal p _ _ => pid p < M
  | SReport p => pid p < M
  | SDrainPick p _ _ => pid p < M
  | SRemove p => pid p < M
  | _ => True
  end.

(* no probe outcome of this operation is a local failure *)
Definition op_nofail (o : op) : Prop :=
  match o with
  | Add _ e => forall q, probe e q <> PLocalFail
  | _ => True
  end.

(* a system history in which the table is only reached through the protocol (KademliaProtocol._add_peer directly or
   through the queue of routing_table_task), never through a caller-supplied probe *)
Definition sop_proto (o : sop) : Prop := match o with SAdd _ _ => False | _ => True end.
