(* C20 model, part 3: dewies.dict_values_to_lbc -- the (nested) balance dictionaries of the daemon API.
   A value is an int (bool is an int in Python: True prints as 1 dewy), a dict, or anything else (strings, None,
   floats, lists: returned as they are; a list is NOT descended into).  Definitions only. *)
From Coq Require Import NArith ZArith List Bool.
From LV Require Import Lib.Bytes Lib.Decimal Model.C20.
Import ListNotations.

Inductive jv :=
| JVInt (z : Z)
| JVBool (b : bool)
| JVStr (s : bytes)
| JVOther (tag : bytes)
| JVDict (kvs : list (bytes * jv)).

Fixpoint to_lbc (v : jv) : jv :=
  match v with
  | JVInt z => JVStr (format z)
  | JVBool b => JVStr (format (if b then 1 else 0)%Z)
  | JVStr s => JVStr s
  | JVOther t => JVOther t
  | JVDict kvs => JVDict (map (fun kx => (fst kx, to_lbc (snd kx))) kvs)
  end.

(* the value found by following a list of keys (the first entry with that key, as the harness builds duplicate-free dicts) *)
Fixpoint assoc (k : bytes) (kvs : list (bytes * jv)) : option jv :=
  match kvs with
  | [] => None
  | (k', x) :: r => if bytes_eqb k k' then Some x else assoc k r
  end.

Fixpoint lookup (path : list bytes) (v : jv) : option jv :=
  match path with
  | [] => Some v
  | k :: p => match v with
              | JVDict kvs => match assoc k kvs with Some x => lookup p x | None => None end
              | _ => None
              end
  end.
