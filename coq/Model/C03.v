(* C03 model: transaction funding.
   Mirrors lbry/wallet/coinselection.py (CoinSelector, every strategy), lbry/wallet/database.py
   (get_and_reserve_spendable_utxos / _get_spendable_utxos = the `sqlite` strategy),
   lbry/wallet/ledger.py (get_spendable_utxos, reserve/release) and lbry/wallet/transaction.py
   (Transaction.create: the balancing loop, change / dust rule, release on failure), as repaired
   (random_draw shuffles with self.random.shuffle; the sqlite floor is at least 1).
   Executable definitions only.  Amounts are in Z (Python ints). *)
From Coq Require Import NArith ZArith List Bool.
Import ListNotations.
Local Open Scope Z_scope.

(* ---------------------------------------------------------------- constants and sizes *)
Definition DUST : Z := 1000.                       (* constants.py *)
Definition MAXIMUM_TRIES : N := 100000.            (* coinselection.py *)
Definition SQLITE_MAX_INTEGER : Z := 9223372036854775807.   (* database.py *)
(* Input.spend(txo): outpoint 36 + script length byte 1 + (push 72 + push 33 = 107) + sequence 4 *)
Definition IN_SIZE : Z := 148.
(* a real change output: amount 8 + script length 1 + 25-byte P2PKH script *)
Definition P2PKH_SIZE : Z := 34.
(* Output.pay_pubkey_hash(COIN, NULL_HASH32): the placeholder "hash" is 32 bytes, so the script is
   37 bytes and the output 46 bytes; this is the size used for cost_of_change and the selector fee *)
Definition CHANGE_EST_SIZE : Z := 46.

(* BCDataStream.write_compact_size *)
Definition compact_size (n : Z) : Z :=
  if n <? 253 then 1 else if n <=? 65535 then 3 else if n <=? 4294967295 then 5 else 9.

(* Transaction.base_size: version + count of inputs + count of outputs + locktime *)
Definition base_size (n_in n_out : Z) : Z := 4 + compact_size n_in + compact_size n_out + 4.

(* ---------------------------------------------------------------- spendable outputs *)
(* one row of the txo table that the wallet may spend *)
Record utxo := mkU {
  uid : N;            (* outpoint, abstracted to a number *)
  uamount : Z;
  uheight : Z;        (* tx.height: > 0 means confirmed for CoinSelector *)
  uverified : bool;   (* tx.is_verified: "confirmed" for the sqlite chooser *)
  utype0 : bool;      (* txo_type = 0 (the sqlite chooser ignores purchase outputs) *)
  urow : N            (* txo.rowid: sqlite's tie break under ORDER BY amount ASC, height DESC *)
}.

Inductive strategy :=
  Sqlite | PreferConfirmed | OnlyConfirmed | Standard | BranchAndBound | ClosestMatch | RandomDraw.

Definition nonempty {A} (l : list A) : bool := match l with [] => false | _ => true end.

Section Funding.
  Variable fpb : Z.                                (* ledger.fee_per_byte *)
  Variable fpnc : Z.                               (* ledger.fee_per_name_char *)
  Variable shuffle : list utxo -> list utxo.       (* Random.shuffle as observed *)

  (* OutputEffectiveAmountEstimator *)
  Definition in_fee : Z := IN_SIZE * fpb.
  Definition eff (u : utxo) : Z := uamount u - in_fee.
  Definition est_fee (u : utxo) : Z := in_fee.

  Fixpoint sum_eff (l : list utxo) : Z :=
    match l with [] => 0 | u :: r => eff u + sum_eff r end.

  (* txos.sort(reverse=True) with __lt__ on effective_amount: stable, descending *)
  Fixpoint insert_desc (x : utxo) (l : list utxo) : list utxo :=
    match l with
    | [] => [x]
    | y :: r => if eff y <=? eff x then x :: l else y :: insert_desc x r
    end.
  Fixpoint sort_desc (l : list utxo) : list utxo :=
    match l with [] => [] | x :: r => insert_desc x (sort_desc r) end.

  Section Selector.
    Variable target : Z.          (* CoinSelector.target *)
    Variable coc : Z.             (* CoinSelector.cost_of_change *)

    (* ---- branch_and_bound.  current_selection is kept as a stack [done] (last decision first)
       of (txo, include) pairs, [rest] are the txos not yet decided: txos = rev (map fst done) ++ rest *)
    Definition entry := (utxo * bool)%type.

    Fixpoint sum_incl (d : list entry) : Z :=
      match d with
      | [] => 0
      | (u, true) :: r => eff u + sum_incl r
      | (_, false) :: r => sum_incl r
      end.

    (* while current_selection and not current_selection[-1]: pop, give the value back *)
    Fixpoint pop_false (done : list entry) (rest : list utxo) (ca : Z) : list entry * list utxo * Z :=
      match done with
      | (u, false) :: d => pop_false d (u :: rest) (ca + eff u)
      | _ => (done, rest, ca)
      end.

    (* one iteration per unit of fuel (= MAXIMUM_TRIES - self.tries); returns best_selection and the
       fuel left (self.tries survives into a second call from prefer_confirmed) *)
    Fixpoint bnb_loop (fuel : nat) (cv ca : Z) (done : list entry) (rest : list utxo)
             (bw : Z) (best : list entry) : list entry * nat :=
      match fuel with
      | O => (best, O)
      | S f =>
        let '(bt, bw1, best1) :=
          if (cv + ca <? target) || (cv >? target + coc) then (true, bw, best)
          else if cv >=? target then
                 (if cv - target <=? bw then (true, cv - target, done) else (true, bw, best))
               else (false, bw, best) in
        if bt : bool then
          let '(done1, rest1, ca1) := pop_false done rest ca in
          match done1 with
          | [] => (best1, f)
          | (u, _) :: d => bnb_loop f (cv - eff u) ca1 ((u, false) :: d) rest1 bw1 best1
          end
        else
          match rest with
          | [] => (best1, f)      (* txos[len(current_selection)] out of range: shown unreachable *)
          | u :: r =>
            let skip := match done with
                        | (p, false) :: _ => (eff u =? eff p) && (est_fee u =? est_fee p)
                        | _ => false
                        end in
            if skip then bnb_loop f cv (ca - eff u) ((u, false) :: done) r bw1 best1
            else bnb_loop f (cv + eff u) (ca - eff u) ((u, true) :: done) r bw1 best1
          end
      end.

    (* [txos[i] for i, include in enumerate(best_selection) if include] *)
    Definition bnb_result (best : list entry) : list utxo := map fst (filter snd (rev best)).

    Definition bnb (fuel : nat) (txos : list utxo) (avail : Z) : list utxo * nat :=
      let '(best, f) := bnb_loop fuel 0 avail [] (sort_desc txos) coc [] in
      (bnb_result best, f).

    (* ---- closest_match *)
    Fixpoint closest_loop (l : list utxo) (best : option (Z * utxo)) : option (Z * utxo) :=
      match l with
      | [] => best
      | u :: r =>
        if eff u >=? target + coc then
          let ch := eff u - (target + coc) in
          match best with
          | None => closest_loop r (Some (ch, u))
          | Some (c, _) => if ch <? c then closest_loop r (Some (ch, u)) else closest_loop r best
          end
        else closest_loop r best
      end.
    Definition closest (l : list utxo) : list utxo :=
      match closest_loop l None with Some (_, u) => [u] | None => [] end.

    (* ---- random_draw *)
    Fixpoint draw (l : list utxo) (amount : Z) : option (list utxo) :=
      match l with
      | [] => None
      | c :: r =>
        let a := amount + eff c in
        if a >=? target + coc then Some [c]
        else match draw r a with Some s => Some (c :: s) | None => None end
      end.
    Definition random_draw (l : list utxo) : list utxo :=
      match draw (shuffle l) 0 with Some s => s | None => [] end.

    (* ---- standard: branch_and_bound or closest_match or random_draw; branch_and_bound sorted the
       list in place, so the two later strategies see the sorted list *)
    Definition standard (fuel : nat) (txos : list utxo) (avail : Z) : list utxo * nat :=
      let '(r, f) := bnb fuel txos avail in
      if nonempty r then (r, f)
      else let s := sort_desc txos in
           let c := closest s in
           if nonempty c then (c, f) else (random_draw s, f).

    Definition only_confirmed (fuel : nat) (txos : list utxo) : list utxo * nat :=
      let conf := filter (fun u => uheight u >? 0) txos in
      if nonempty conf then
        let ca := sum_eff conf in
        if target >? ca then ([], fuel) else standard fuel conf ca
      else ([], fuel).

    Definition FUEL : nat := N.to_nat MAXIMUM_TRIES.

    (* CoinSelector.select(txos, strategy_name); Sqlite never comes here *)
    Definition select (s : strategy) (txos : list utxo) : list utxo :=
      if nonempty txos then
        let avail := sum_eff txos in
        if target >? avail then []
        else match s with
             | PreferConfirmed =>
               let '(r, f) := only_confirmed FUEL txos in
               if nonempty r then r else fst (standard f txos avail)
             | OnlyConfirmed => fst (only_confirmed FUEL txos)
             | Standard | Sqlite => fst (standard FUEL txos avail)
             | BranchAndBound => fst (bnb FUEL txos avail)
             | ClosestMatch => closest txos
             | RandomDraw => random_draw txos
             end
      else [].
  End Selector.

  (* ---------------------------------------------------------------- the sqlite chooser *)
  (* ORDER BY txo.amount ASC, tx.height DESC (ties: rowid, as sqlite's sorter is stable here) *)
  Definition sq_le (a b : utxo) : bool :=
    (uamount a <? uamount b) ||
    ((uamount a =? uamount b) &&
     ((uheight b <? uheight a) || ((uheight a =? uheight b) && (urow a <=? urow b)%N))).
  Fixpoint sq_insert (x : utxo) (l : list utxo) : list utxo :=
    match l with
    | [] => [x]
    | y :: r => if sq_le x y then x :: l else y :: sq_insert x r
    end.
  Fixpoint sq_sort (l : list utxo) : list utxo :=
    match l with [] => [] | x :: r => sq_insert x (sq_sort r) end.

  (* _get_spendable_utxos, first pass over one window: verified rows are taken at once (returning as
     soon as enough is reserved), unverified ones are remembered in the order seen.
     [taken] is accumulated in reverse. *)
  Fixpoint sq_scan (rows : list utxo) (a ra : Z) (taken unconf : list utxo)
    : Z * list utxo * list utxo * bool :=
    match rows with
    | [] => (ra, taken, unconf, false)
    | u :: r =>
      if uverified u then
        let ra1 := ra + uamount u - in_fee in
        if ra1 >=? a then (ra1, u :: taken, unconf, true)
        else sq_scan r a ra1 (u :: taken) unconf
      else sq_scan r a ra taken (u :: unconf)
    end.
  (* second pass: while unconfirmed and reserved_amount < amount_to_reserve *)
  Fixpoint sq_unconf (l : list utxo) (a ra : Z) (taken : list utxo) : Z * list utxo :=
    match l with
    | [] => (ra, taken)
    | u :: r => if ra <? a then sq_unconf r a (ra + uamount u - in_fee) (u :: taken) else (ra, taken)
    end.
  Definition sq_get (win : list utxo) (a ra : Z) (taken : list utxo) : Z * list utxo :=
    let '(ra1, taken1, unconf, early) := sq_scan win a ra taken [] in
    if early : bool then (ra1, taken1) else sq_unconf (rev unconf) a ra1 taken1.

  Definition in_window (lo hi : Z) (u : utxo) : bool := (lo <=? uamount u) && (uamount u <? hi).

  (* get_and_reserve_spendable_utxos: windows [floor, floor*multiplier), the multiplier is squared
     after an empty window (gap) and reset to 100 after a hit; at most 5 gaps; the fuel is only there
     for termination (floor >= 1 grows at least hundredfold per round below 2^63) *)
  Fixpoint sq_loop (fuel : nat) (rows : list utxo) (a rd : Z) (taken : list utxo)
           (floor mult gap : Z) : Z * list utxo :=
    match fuel with
    | O => (rd, taken)
    | S f =>
      if (rd <? a) && (gap <? 5) && (floor * mult <? SQLITE_MAX_INTEGER) then
        let '(rd1, taken1) := sq_get (filter (in_window floor (floor * mult)) rows) a rd taken in
        if rd =? rd1 then sq_loop f rows a rd1 taken1 (floor * mult) (mult * mult) (gap + 1)
        else sq_loop f rows a rd1 taken1 (floor * mult) 100 0
      else (rd, taken)
    end.

  Definition SQ_FUEL : nat := 80.

  Definition sqlite_select (rows : list utxo) (a floor : Z) : list utxo :=
    let sorted := sq_sort (filter utype0 rows) in
    let '(rd, taken) := sq_loop SQ_FUEL sorted a 0 [] floor 100 0 in
    if rd >=? a then rev taken else [].

  (* ---------------------------------------------------------------- wallet and ledger *)
  (* the spendable rows with their is_reserved flag, in the order account.get_utxos returns them *)
  Definition wallet := list (utxo * bool).

  Definition unreserved (w : wallet) : list utxo :=
    map fst (filter (fun e => negb (snd e)) w).
  Definition mem_id (i : N) (ids : list N) : bool := existsb (N.eqb i) ids.
  Definition set_reserved (flag : bool) (ids : list N) (w : wallet) : wallet :=
    map (fun e => if mem_id (uid (fst e)) ids then (fst e, flag) else e) w.
  Definition reserve (sel : list utxo) (w : wallet) : wallet := set_reserved true (map uid sel) w.
  Definition release (ids : list N) (w : wallet) : wallet := set_reserved false ids w.
  Definition reserved_ids (w : wallet) : list N := map (fun e => uid (fst e)) (filter snd w).

  (* Ledger.get_spendable_utxos: what is selected from the unreserved rows read under the lock
     (the reservation itself is done by the caller below) *)
  Definition choose_from (s : strategy) (free : list utxo) (amount : Z) : list utxo :=
    let fee := CHANGE_EST_SIZE * fpb in
    match s with
    | Sqlite => sqlite_select free (amount + fee) (Z.min (Z.max (amount / 10) 1) 1)
    | _ => select amount fee s free
    end.
  Definition spendable (s : strategy) (w : wallet) (amount : Z) : list utxo :=
    choose_from s (unreserved w) amount.

  (* ---------------------------------------------------------------- Transaction.create *)
  Record outp := mkO { oamount : Z; osize : Z; oname : option Z }.   (* oname: claim_name length *)
  Record inp := mkI { iid : N; iamount : Z; isize : Z }.

  Definition out_fee (o : outp) : Z :=
    match oname o with
    | Some n => Z.max (n * fpnc) (osize o * fpb)
    | None => osize o * fpb
    end.
  Definition inp_fee (i : inp) : Z := isize i * fpb.

  Fixpoint sum_out_total (l : list outp) : Z :=
    match l with [] => 0 | o :: r => (oamount o + out_fee o) + sum_out_total r end.
  Fixpoint sum_in_eff (l : list inp) : Z :=
    match l with [] => 0 | i :: r => (iamount i - inp_fee i) + sum_in_eff r end.

  Inductive result :=
  | Ok (added : list utxo) (change : option Z) (w : wallet)
  | Refused (w : wallet).         (* InsufficientFundsError, after release_tx *)

  Section Create.
    Variable strat : strategy.
    Variable pre : list inp.
    Variable outs : list outp.

    Definition zlen {A} (l : list A) : Z := Z.of_nat (length l).

    Definition cost_of_change (n_added : Z) : Z :=
      base_size (zlen pre + n_added) (zlen outs) * fpb + CHANGE_EST_SIZE * fpb.

    (* for _ in range(5): ... *)
    Fixpoint rounds (k : nat) (w : wallet) (added : list utxo) (payment cost : Z) : result :=
      match k with
      | O => Ok added None w
      | S k' =>
        let st :=
          if payment <? cost then
            let sel := spendable strat w (cost - payment) in
            if nonempty sel then Some (reserve sel w, added ++ sel, payment + sum_eff sel)
            else None
          else Some (w, added, payment) in
        match st with
        | None => Refused (release (map iid pre ++ map uid added) w)
        | Some (w1, added1, payment1) =>
          let coc := cost_of_change (zlen added1) in
          let change_amount := payment1 - cost - coc in
          if (payment1 >? cost) && (change_amount >? DUST) then Ok added1 (Some change_amount) w1
          else if nonempty outs then Ok added1 None w1
          else rounds k' w1 added1 payment1 (cost + coc + 1)
        end
      end.

    Definition cost0 : Z := base_size (zlen pre) (zlen outs) * fpb + sum_out_total outs.
    Definition payment0 : Z := sum_in_eff pre.

    (* await ledger.reserve_outputs(pre-chosen inputs) comes first (repaired: they must not be picked again);
       outpoints that are not rows of the wallet are not affected *)
    Definition create (w : wallet) : result :=
      rounds 5 (set_reserved true (map iid pre) w) [] payment0 cost0.

    (* create(..., sign=True): after the loop, still inside the try, `await tx.sign(funding_accounts)`.
       Signing changes no wallet state; it either succeeds or raises (locked account, no private key for
       the address of an input, ...), and then the handler releases every input of the transaction.
       [can_sign] says whether the final input list can be signed (always true for sign=False). *)
    Variable can_sign : list N -> bool.

    Inductive outcome :=
    | Built (added : list utxo) (change : option Z) (w : wallet)
    | Insufficient (w : wallet)      (* InsufficientFundsError, after release_tx *)
    | SignFails (w : wallet).        (* any exception out of tx.sign, after release_tx *)

    Definition create_signed (w : wallet) : outcome :=
      match create w with
      | Ok added ch w' =>
        if can_sign (map iid pre ++ map uid added) then Built added ch w'
        else SignFails (release (map iid pre ++ map uid added) w')
      | Refused w' => Insufficient w'
      end.

    (* the behaviour before that repair, kept for the refutation lemma *)
    Definition create_old (w : wallet) : result := rounds 5 w [] payment0 cost0.
  End Create.

  (* ---------------------------------------------------------------- what the theorems talk about *)
  Fixpoint sum_amount (l : list utxo) : Z :=
    match l with [] => 0 | u :: r => uamount u + sum_amount r end.
  Fixpoint sum_iamount (l : list inp) : Z :=
    match l with [] => 0 | i :: r => iamount i + sum_iamount r end.
  Fixpoint sum_oamount (l : list outp) : Z :=
    match l with [] => 0 | o :: r => oamount o + sum_oamount r end.
  Fixpoint sum_inp_fee (l : list inp) : Z :=
    match l with [] => 0 | i :: r => inp_fee i + sum_inp_fee r end.
  Fixpoint sum_out_fee (l : list outp) : Z :=
    match l with [] => 0 | o :: r => out_fee o + sum_out_fee r end.

  Definition change_value (c : option Z) : Z := match c with Some x => x | None => 0 end.
  Definition change_count (c : option Z) : Z := match c with Some _ => 1 | None => 0 end.

  (* tx.fee = input_sum - output_sum *)
  Definition tx_fee (pre : list inp) (outs : list outp) (added : list utxo) (c : option Z) : Z :=
    sum_iamount pre + sum_amount added - sum_oamount outs - change_value c.

  (* what the finished transaction must pay: its own base size, every input, every output at the
     larger of byte-size fee and name fee, and 34 bytes for the change output if there is one *)
  Definition required_fee (pre : list inp) (outs : list outp) (added : list utxo) (c : option Z) : Z :=
    base_size (zlen pre + zlen added) (zlen outs + change_count c) * fpb
    + sum_inp_fee pre + zlen added * in_fee + sum_out_fee outs + change_count c * (P2PKH_SIZE * fpb).
End Funding.
