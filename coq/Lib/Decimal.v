(* Decimal ASCII rendering of N and Z (Python's '%d' / str(int)) and its inverse. No axioms. *)
From Coq Require Import NArith ZArith List Lia Bool.
From Coq.Strings Require Import Byte.
From LV Require Import Lib.Bytes.
Import ListNotations.
Local Open Scope N_scope.

Definition digit_byte (d : N) : byte := byte_of_N (48 + d).
Definition is_digit (b : byte) : bool := (48 <=? N_of_byte b) && (N_of_byte b <=? 57).
Definition digit_val (b : byte) : N := N_of_byte b - 48.

Lemma is_digit_digit_byte d : d < 10 -> is_digit (digit_byte d) = true.
Proof. intro H. unfold is_digit, digit_byte. rewrite byte_of_N_small by lia.
  apply andb_true_iff; split; apply N.leb_le; lia. Qed.
Lemma digit_val_digit_byte d : d < 10 -> digit_val (digit_byte d) = d.
Proof. intro H. unfold digit_val, digit_byte. rewrite byte_of_N_small by lia. lia. Qed.
Lemma digit_byte_digit_val b : is_digit b = true -> digit_byte (digit_val b) = b.
Proof. unfold is_digit, digit_byte, digit_val. intro H. apply andb_true_iff in H as [H1 H2].
  apply N.leb_le in H1. apply N.leb_le in H2.
  replace (48 + (N_of_byte b - 48)) with (N_of_byte b) by lia. apply byte_of_N_of_byte. Qed.
Lemma digit_val_lt b : is_digit b = true -> digit_val b < 10.
Proof. unfold is_digit, digit_val. intro H. apply andb_true_iff in H as [H1 H2].
  apply N.leb_le in H1. apply N.leb_le in H2. lia. Qed.

(* most-significant-first digit list *)
Fixpoint digits_fuel (fuel : nat) (n : N) (acc : list N) : list N :=
  match fuel with
  | O => acc
  | S f => if n <? 10 then n :: acc else digits_fuel f (n / 10) (n mod 10 :: acc)
  end.
Definition digits (n : N) : list N := digits_fuel (S (N.to_nat (N.log2 n))) n [].

Definition value (ds : list N) : N := fold_left (fun a d => a * 10 + d) ds 0.

Lemma fold_value_app ds a : fold_left (fun a d => a * 10 + d) ds a =
  a * 10 ^ N.of_nat (length ds) + value ds.
Proof.
  unfold value. revert a. induction ds as [|d r IH]; intro a.
  - simpl. lia.
  - cbn [fold_left length]. rewrite IH, (IH (0 * 10 + d)). rewrite Nat2N.inj_succ, N.pow_succ_r'. lia.
Qed.

Lemma value_app a b : value (a ++ b) = value a * 10 ^ N.of_nat (length b) + value b.
Proof. unfold value at 1. rewrite fold_left_app. rewrite fold_value_app. reflexivity. Qed.

Lemma digits_fuel_spec fuel : forall n acc, n < 2 ^ N.of_nat (S fuel) ->
  exists pre, digits_fuel (S fuel) n acc = pre ++ acc /\ value pre = n /\ Forall (fun d => d < 10) pre
              /\ pre <> [] /\ (0 < n -> hd 0 pre <> 0) /\ (n = 0 -> pre = [0]).
Proof.
  assert (Base : forall n acc f, n < 10 -> exists pre, digits_fuel (S f) n acc = pre ++ acc /\ value pre = n /\ Forall (fun d => d < 10) pre
              /\ pre <> [] /\ (0 < n -> hd 0 pre <> 0) /\ (n = 0 -> pre = [0])).
  { intros n acc f E. cbn [digits_fuel]. apply N.ltb_lt in E. rewrite E. apply N.ltb_lt in E.
    exists [n]. split; [reflexivity|]. split; [unfold value; simpl; lia|].
    split; [constructor; [exact E | constructor]|]. split; [discriminate|].
    split; [simpl; lia | intros ->; reflexivity]. }
  induction fuel as [|f IH]; intros n acc H.
  - apply Base. simpl in H. lia.
  - destruct (n <? 10) eqn:E.
    + apply N.ltb_lt in E. apply Base. exact E.
    + change (digits_fuel (S (S f)) n acc) with (if n <? 10 then n :: acc else digits_fuel (S f) (n / 10) (n mod 10 :: acc)).
      rewrite E. apply N.ltb_ge in E.
      assert (Hq : n / 10 < 2 ^ N.of_nat (S f)).
      { rewrite (Nat2N.inj_succ (S f)), N.pow_succ_r' in H.
        generalize dependent (2 ^ N.of_nat (S f)). intros. lia. }
      destruct (IH (n / 10) (n mod 10 :: acc) Hq) as (pre & Hd & Hv & Hf & Hne & Hhd & _).
      exists (pre ++ [n mod 10]).
      split; [rewrite Hd; rewrite <- app_assoc; reflexivity|].
      split; [rewrite value_app; rewrite Hv; unfold value; simpl; lia|].
      split; [apply Forall_app; split; [exact Hf|]; constructor; [lia | constructor]|].
      split; [destruct pre; discriminate|].
      split; [intros _; destruct pre as [|p pre']; [congruence|]; simpl; apply Hhd; lia|].
      intros ->; simpl in E; lia.
Qed.

Lemma digits_spec n : value (digits n) = n /\ Forall (fun d => d < 10) (digits n) /\ digits n <> []
   /\ (0 < n -> hd 0 (digits n) <> 0) /\ (n = 0 -> digits n = [0]).
Proof.
  unfold digits.
  assert (H : n < 2 ^ N.of_nat (S (N.to_nat (N.log2 n)))).
  { rewrite Nat2N.inj_succ, N2Nat.id. destruct n as [|p]; [simpl; lia|].
    apply N.log2_spec. lia. }
  destruct (digits_fuel_spec (N.to_nat (N.log2 n)) n [] H) as (pre & Hd & Hv & Hf & Hne & Hhd & Hz).
  rewrite app_nil_r in Hd. rewrite Hd. repeat split; assumption.
Qed.

Definition dec_of_N (n : N) : bytes := map digit_byte (digits n).

Fixpoint dec_acc (bs : bytes) (acc : N) : option N :=
  match bs with
  | [] => Some acc
  | b :: r => if is_digit b then dec_acc r (acc * 10 + digit_val b) else None
  end.
Definition N_of_dec (bs : bytes) : option N :=
  match bs with [] => None | _ => dec_acc bs 0 end.

Lemma dec_acc_map ds acc : Forall (fun d => d < 10) ds ->
  dec_acc (map digit_byte ds) acc = Some (fold_left (fun a d => a * 10 + d) ds acc).
Proof.
  revert acc. induction ds as [|d r IH]; intros acc H; [reflexivity|].
  inversion H as [|? ? Hd Hr]; subst. cbn [map dec_acc fold_left].
  rewrite is_digit_digit_byte, digit_val_digit_byte by exact Hd. apply IH. exact Hr.
Qed.

Lemma N_of_dec_map ds : ds <> [] -> N_of_dec (map digit_byte ds) = dec_acc (map digit_byte ds) 0.
Proof. destruct ds; [congruence | reflexivity]. Qed.

Theorem N_of_dec_of_N n : N_of_dec (dec_of_N n) = Some n.
Proof.
  destruct (digits_spec n) as (Hv & Hf & Hne & _).
  unfold dec_of_N. rewrite N_of_dec_map by exact Hne. rewrite dec_acc_map by exact Hf. 
  f_equal. exact Hv.
Qed.

Lemma dec_of_N_all_digits n : forallb is_digit (dec_of_N n) = true.
Proof.
  destruct (digits_spec n) as (_ & Hf & _). unfold dec_of_N.
  induction Hf as [|d r Hd Hr IH]; [reflexivity|]. cbn [map forallb].
  rewrite is_digit_digit_byte by exact Hd. exact IH.
Qed.

Lemma dec_of_N_nonempty n : dec_of_N n <> [].
Proof. destruct (digits_spec n) as (_ & _ & Hne & _). unfold dec_of_N. destruct (digits n); [congruence | discriminate]. Qed.

Lemma dec_of_N_0 : dec_of_N 0 = [digit_byte 0].
Proof. destruct (digits_spec 0) as (_ & _ & _ & _ & Hz). unfold dec_of_N. rewrite Hz by reflexivity. reflexivity. Qed.

Lemma dec_of_N_no_leading_zero n : 0 < n -> hd x00 (dec_of_N n) <> digit_byte 0.
Proof.
  intro Hn. destruct (digits_spec n) as (_ & Hf & Hne & Hhd & _). specialize (Hhd Hn).
  unfold dec_of_N. destruct (digits n) as [|d r]; [congruence|]. simpl in *.
  inversion Hf as [|? ? Hd _]; subst. intro E.
  apply (f_equal digit_val) in E. rewrite !digit_val_digit_byte in E by lia. contradiction.
Qed.

(* ---------- signed ---------- *)
Definition minus_byte : byte := byte_of_N 45.
Definition dec_of_Z (z : Z) : bytes :=
  match z with
  | Z0 => dec_of_N 0
  | Zpos p => dec_of_N (Npos p)
  | Zneg p => minus_byte :: dec_of_N (Npos p)
  end.
(* strict inverse: optional '-', then digits; (Python's int() is laxer; see C17 model) *)
Definition Z_of_dec (bs : bytes) : option Z :=
  match bs with
  | b :: r => if byte_eqb b minus_byte
              then match N_of_dec r with Some n => Some (- Z.of_N n)%Z | None => None end
              else match N_of_dec bs with Some n => Some (Z.of_N n) | None => None end
  | [] => None
  end.

Lemma digit_not_minus b : is_digit b = true -> byte_eqb b minus_byte = false.
Proof.
  intro H. apply byte_eqb_neq. intro E. subst. unfold is_digit, minus_byte in H.
  rewrite byte_of_N_small in H by lia. simpl in H. discriminate.
Qed.

Theorem Z_of_dec_of_Z z : Z_of_dec (dec_of_Z z) = Some z.
Proof.
  assert (Hpos : forall n, Z_of_dec (dec_of_N n) = Some (Z.of_N n)).
  { intro n. unfold Z_of_dec. pose proof (dec_of_N_all_digits n) as Hd. pose proof (N_of_dec_of_N n) as Hr.
    destruct (dec_of_N n) as [|b r] eqn:E; [exfalso; eapply dec_of_N_nonempty; eauto|].
    cbn [forallb] in Hd. apply andb_true_iff in Hd as [Hb _].
    rewrite digit_not_minus by exact Hb. rewrite Hr. reflexivity. }
  destruct z as [|p|p]; cbn [dec_of_Z].
  - apply (Hpos 0).
  - apply (Hpos (Npos p)).
  - unfold Z_of_dec. rewrite byte_eqb_refl. rewrite N_of_dec_of_N. reflexivity.
Qed.
