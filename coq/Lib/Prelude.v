(* Entry points every extracted model carries so that ocaml/proto.ml (textually appended after
   the extracted model) can convert between OCaml values and the extracted inductive types. *)
From Coq Require Import NArith ZArith List.
From Coq.Strings Require Import Byte.
From LV Require Import Lib.Bytes.

Definition prelude_byte_of_N : N -> byte := byte_of_N.
Definition prelude_N_of_byte : byte -> N := N_of_byte.
Definition prelude_Z_of_N : N -> Z := Z.of_N.
Definition prelude_Z_opp : Z -> Z := Z.opp.
Definition prelude_nat_of_N : N -> nat := N.to_nat.
Definition prelude_N_of_nat : nat -> N := N.of_nat.
