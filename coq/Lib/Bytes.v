(* Shared byte-string library: bytes = list byte, numeric views, fixed-width
   little/big-endian integers with both round trips. No axioms. *)
From Coq Require Import NArith ZArith List Lia Bool.
From Coq.Strings Require Import Byte.
Import ListNotations.
Local Open Scope N_scope.

Ltac Zify.zify_post_hook ::= Z.to_euclidean_division_equations.

Definition bytes := list byte.

Definition N_of_byte (b : byte) : N := Byte.to_N b.
Definition byte_of_N (n : N) : byte :=
  match Byte.of_N (n mod 256) with Some b => b | None => x00 end.

Lemma N_of_byte_lt b : N_of_byte b < 256.
Proof. unfold N_of_byte. pose proof (Byte.to_N_bounded b). lia. Qed.

Lemma N_of_byte_of_N n : N_of_byte (byte_of_N n) = n mod 256.
Proof.
  unfold byte_of_N, N_of_byte.
  destruct (Byte.of_N (n mod 256)) as [b|] eqn:E.
  - apply Byte.to_of_N in E. exact E.
  - apply Byte.of_N_None_iff in E. assert (n mod 256 < 256) by (apply N.mod_lt; lia). lia.
Qed.

Lemma byte_of_N_of_byte b : byte_of_N (N_of_byte b) = b.
Proof.
  unfold byte_of_N, N_of_byte.
  rewrite N.mod_small by (pose proof (Byte.to_N_bounded b); lia).
  rewrite Byte.of_to_N. reflexivity.
Qed.

Lemma N_of_byte_inj a b : N_of_byte a = N_of_byte b -> a = b.
Proof. intro H. rewrite <- (byte_of_N_of_byte a), <- (byte_of_N_of_byte b), H. reflexivity. Qed.

Lemma byte_of_N_small n : n < 256 -> N_of_byte (byte_of_N n) = n.
Proof. intro H. rewrite N_of_byte_of_N. apply N.mod_small. exact H. Qed.

Global Opaque byte_of_N N_of_byte.

Definition byte_eqb (a b : byte) : bool := Byte.eqb a b.
Lemma byte_eqb_eq a b : byte_eqb a b = true <-> a = b.
Proof. split; [apply Byte.byte_dec_bl | apply Byte.byte_dec_lb]. Qed.
Lemma byte_eqb_refl a : byte_eqb a a = true.
Proof. apply byte_eqb_eq. reflexivity. Qed.
Lemma byte_eqb_neq a b : byte_eqb a b = false <-> a <> b.
Proof.
  split.
  - intros H E. apply byte_eqb_eq in E. congruence.
  - intro H. destruct (byte_eqb a b) eqn:E; [apply byte_eqb_eq in E; contradiction | reflexivity].
Qed.

Fixpoint bytes_eqb (a b : bytes) : bool :=
  match a, b with
  | [], [] => true
  | x :: a', y :: b' => byte_eqb x y && bytes_eqb a' b'
  | _, _ => false
  end.
Lemma bytes_eqb_eq a b : bytes_eqb a b = true <-> a = b.
Proof.
  revert b. induction a as [|x a IH]; intros [|y b]; simpl; split; intro H; try congruence; try reflexivity.
  - apply andb_true_iff in H as [H1 H2]. apply byte_eqb_eq in H1. apply IH in H2. congruence.
  - inversion H; subst. apply andb_true_iff. split; [apply byte_eqb_refl | apply IH; reflexivity].
Qed.
Lemma bytes_eqb_refl a : bytes_eqb a a = true.
Proof. apply bytes_eqb_eq. reflexivity. Qed.
Lemma bytes_eqb_neq a b : bytes_eqb a b = false <-> a <> b.
Proof.
  split.
  - intros H E. apply bytes_eqb_eq in E. congruence.
  - intro H. destruct (bytes_eqb a b) eqn:E; [apply bytes_eqb_eq in E; contradiction | reflexivity].
Qed.

(* ---------- little endian, fixed width ---------- *)

Fixpoint le_encode (w : nat) (v : N) : bytes :=
  match w with
  | O => []
  | S w' => byte_of_N v :: le_encode w' (v / 256)
  end.

Fixpoint le_decode (bs : bytes) : N :=
  match bs with
  | [] => 0
  | b :: r => N_of_byte b + 256 * le_decode r
  end.

Lemma le_encode_length w v : length (le_encode w v) = w.
Proof. revert v. induction w as [|w IH]; intro v; simpl; [reflexivity | rewrite IH; reflexivity]. Qed.

Lemma le_decode_encode w v : v < 256 ^ N.of_nat w -> le_decode (le_encode w v) = v.
Proof.
  revert v. induction w as [|w IH]; intros v H.
  - simpl in *. lia.
  - cbn [le_encode le_decode]. rewrite N_of_byte_of_N.
    rewrite IH.
    + pose proof (N.div_mod v 256). lia.
    + rewrite Nat2N.inj_succ, N.pow_succ_r' in H.
      apply N.div_lt_upper_bound; lia.
Qed.

Lemma le_decode_lt bs : le_decode bs < 256 ^ N.of_nat (length bs).
Proof.
  induction bs as [|b r IH]; cbn [le_decode length].
  - simpl. lia.
  - rewrite Nat2N.inj_succ, N.pow_succ_r'. pose proof (N_of_byte_lt b). lia.
Qed.

Lemma le_encode_decode bs : le_encode (length bs) (le_decode bs) = bs.
Proof.
  induction bs as [|b r IH]; cbn [le_decode length le_encode]; [reflexivity|].
  pose proof (N_of_byte_lt b) as Hb.
  f_equal.
  - rewrite <- (byte_of_N_of_byte b) at 2.
    apply N_of_byte_inj. rewrite !N_of_byte_of_N.
    generalize dependent (le_decode r). generalize dependent (N_of_byte b). intros. lia.
  - replace ((N_of_byte b + 256 * le_decode r) / 256) with (le_decode r); [exact IH|].
    generalize dependent (le_decode r). generalize dependent (N_of_byte b). intros. lia.
Qed.

Lemma le_encode_inj w a b : a < 256 ^ N.of_nat w -> b < 256 ^ N.of_nat w ->
  le_encode w a = le_encode w b -> a = b.
Proof. intros Ha Hb H. rewrite <- (le_decode_encode w a Ha), <- (le_decode_encode w b Hb), H. reflexivity. Qed.

(* ---------- big endian ---------- *)
Definition be_encode (w : nat) (v : N) : bytes := rev (le_encode w v).
Definition be_decode (bs : bytes) : N := le_decode (rev bs).

Lemma be_encode_length w v : length (be_encode w v) = w.
Proof. unfold be_encode. rewrite rev_length. apply le_encode_length. Qed.
Lemma be_decode_encode w v : v < 256 ^ N.of_nat w -> be_decode (be_encode w v) = v.
Proof. intro H. unfold be_decode, be_encode. rewrite rev_involutive. apply le_decode_encode. exact H. Qed.
Lemma be_encode_decode bs : be_encode (length bs) (be_decode bs) = bs.
Proof.
  unfold be_encode, be_decode. rewrite <- (rev_length bs).
  rewrite le_encode_decode. apply rev_involutive.
Qed.
Lemma be_decode_lt bs : be_decode bs < 256 ^ N.of_nat (length bs).
Proof. unfold be_decode. rewrite <- (rev_length bs). apply le_decode_lt. Qed.

(* ---------- firstn / skipn helpers ---------- *)
Lemma firstn_app_exact {A} (a b : list A) : firstn (length a) (a ++ b) = a.
Proof. induction a as [|x a IH]; simpl; [destruct b; reflexivity | rewrite IH; reflexivity]. Qed.
Lemma skipn_app_exact {A} (a b : list A) : skipn (length a) (a ++ b) = b.
Proof. induction a as [|x a IH]; simpl; [reflexivity | exact IH]. Qed.
Lemma firstn_app_exact' {A} n (a b : list A) : n = length a -> firstn n (a ++ b) = a.
Proof. intros ->. apply firstn_app_exact. Qed.
Lemma skipn_app_exact' {A} n (a b : list A) : n = length a -> skipn n (a ++ b) = b.
Proof. intros ->. apply skipn_app_exact. Qed.
