From Coq Require Import Extraction ExtrOcamlBasic.
From LV Require Import Lib.Bytes Lib.Prelude Model.C08 Model.C08_Claim Model.C08_Cache Model.C08_Chunk Model.C08_Db Model.C08_Tx.
Extraction Language OCaml.
Extraction "c08_model.ml"
  prelude_byte_of_N prelude_N_of_byte prelude_Z_of_N prelude_Z_opp prelude_nat_of_N prelude_N_of_nat
  hexlify unhexlify fold_branch get_root_of_merkle_tree merkle_root branch wire collision
  header_merkle_root maybe_verify verify_proof run attempts reopen drun txid_preimage maybe_verify_raw.
