From Coq Require Import Extraction ExtrOcamlBasic.
From LV Require Import Lib.Bytes Lib.Prelude Model.C09.
Extraction Language OCaml.
Extraction "c09_model.ml"
  prelude_byte_of_N prelude_N_of_byte prelude_Z_of_N prelude_Z_opp prelude_nat_of_N prelude_N_of_nat
  init step run run_upto known get_hist nget server_hist server_ok_b grows_b
  utxos spendable balance total claims_total supports_total my_supports_total spec_utxos subscribe_plan.
