From Coq Require Import Extraction ExtrOcamlBasic.
From LV Require Import Lib.Bytes Lib.Prelude Wire.CompactSize Wire.Tx Model.C05 Model.C05Cache.
Extraction Language OCaml.
Extraction "c05_model.ml"
  prelude_byte_of_N prelude_N_of_byte prelude_Z_of_N prelude_Z_opp prelude_nat_of_N prelude_N_of_nat
  cs_encode read_cs serialize build_raw build_id deserialize observe serialize_segwit
  tx_size base_size in_size out_size cache_run cache_run_parsed.
