From Coq Require Import Extraction ExtrOcamlBasic.
From LV Require Import Lib.Bytes Lib.Prelude Model.C06.
Extraction Language OCaml.
Extraction "c06_model.ml"
  prelude_byte_of_N prelude_N_of_byte prelude_Z_of_N prelude_Z_opp prelude_nat_of_N prelude_N_of_nat
  b58_encode b58_decode b58_encode_check b58_decode_check
  xk_serialize xk_parse xk_from_extended xk_to_string xk_of_string priv_valid
  priv_add index_bytes fingerprint identifier neuter ckd_priv ckd_pub ckd derive from_seed
  address address_to_hash160 is_version_address valid_address chain_address
  ensure_gap set_used gstep grun sstep srun manager_view rows_of address_records max_gap
  normalize_text collapse_ws rm_cjk_spaces is_cjk split_ws join_sp mnemonic_words mnemonic_encode mnemonic_decode digits_lsb val_lsb int_to_bytes.
