From Coq Require Import Extraction ExtrOcamlBasic.
From LV Require Import Lib.Bytes Lib.Prelude Wire.Push Wire.Script Model.C15.
Extraction Language OCaml.
Extraction "c15_model.ml"
  prelude_byte_of_N prelude_N_of_byte prelude_Z_of_N prelude_Z_opp prelude_nat_of_N prelude_N_of_nat
  push tokenize parse_output parse_input parse_sub generate_named
  tname_str field_str all_tnames all_fields flags class_of row_type int_bytes is_script_hash frame unframe tx_view internal_at.
