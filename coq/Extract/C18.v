From Coq Require Import Extraction ExtrOcamlBasic.
From LV Require Import Lib.Bytes Lib.Prelude Model.C18.
Extraction Language OCaml.
Extraction "c18_model.ml"
  prelude_byte_of_N prelude_N_of_byte prelude_Z_of_N prelude_Z_opp prelude_nat_of_N prelude_N_of_nat
  init step restart restart_with valid_name listed disk db completed cache alive save marked announce_list.
