From Coq Require Import Extraction ExtrOcamlBasic.
From LV Require Import Lib.Bytes Lib.Decimal Lib.Prelude Model.C17.
Extraction Language OCaml.
Extraction "c17_model.ml"
  prelude_byte_of_N prelude_N_of_byte prelude_Z_of_N prelude_Z_opp prelude_nat_of_N prelude_N_of_nat
  py_int_of_bytes utf8_valid bdecode decode_datagram benc enc_defined ref_benc
  value_of_message encode_message raw_of_message contacts_val peers_val dict_of_items
  make_compact_ip make_compact_address decode_compact_address
  probe_receive probe_failures probe_processed request_valid invalid_method_text lru_run failures_run.
