From Coq Require Import Extraction ExtrOcamlBasic.
From LV Require Import Lib.Bytes Lib.Prelude Model.C03 Model.C14.
Extraction Language OCaml.
Extraction "c14_model.ml"
  prelude_byte_of_N prelude_N_of_byte prelude_Z_of_N prelude_Z_opp prelude_nat_of_N prelude_N_of_nat
  run step init c03_choose held_ids wallet_ids reserved_ids finished create create_signed.
