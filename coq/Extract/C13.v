From Coq Require Import Extraction ExtrOcamlBasic.
From LV Require Import Lib.Bytes Lib.Decimal Lib.Prelude Model.C13.
Extraction Language OCaml.
Extraction "c13_model.ml"
  prelude_byte_of_N prelude_N_of_byte prelude_Z_of_N prelude_Z_opp prelude_nat_of_N prelude_N_of_nat
  step run_ops apply_op storage_write storage_write_fallback crash_at render_file rcompact sortkeys
  wallet_to_dict save_dict to_json aes_encrypt aes_decrypt better_aes_encrypt better_aes_decrypt
  pack unpack is_locked is_encrypted pref_on default_wallet fs_set temp_path
  account_encrypt account_decrypt account_to_dict wallet_of_dict unlock lock channel_view merge_payload two_writers.
