From Coq Require Import Extraction ExtrOcamlBasic.
From LV Require Import Lib.Bytes Lib.Prelude Model.C11.
Extraction Language OCaml.
Extraction "c11_model.ml"
  prelude_byte_of_N prelude_N_of_byte prelude_Z_of_N prelude_Z_opp prelude_nat_of_N prelude_N_of_nat
  init contacts step add_peer remove_peer find_close get_peer join should_split split_bucket FUEL
  sys_init sys_step triple_is_good lr_of env_of_pm compile rpc_find_node rpc_find_value_contacts.
