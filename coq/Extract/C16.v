From Coq Require Import Extraction ExtrOcamlBasic.
From LV Require Import Lib.Bytes Lib.Prelude Model.C16_Env Model.C16_Wire Model.C16_Url Model.C16_All Model.C16_Attrs Model.C16_Embed Model.C16_Fee.
Extraction Language OCaml.
Extraction "c16_model.ml"
  prelude_byte_of_N prelude_N_of_byte prelude_Z_of_N prelude_Z_opp prelude_nat_of_N prelude_N_of_nat
  env_encode env_decode claim_format purchase_encode purchase_decode
  varint_encode varint_decode zigzag_enc zigzag_dec int64_enc int64_dec
  ser_fields wire_parse parse_tree ser_tree tfields_ok fdepth
  encode_all decode_all purchase_encode_all purchase_decode_all v1_unsigned_payload
  url_parse url_print canon forbidden hard_forbidden
  hexlify unhexlify claim_id_of_hash hash_of_claim_id
  embed extract_payload media_step
  fee_address fee_address_bytes sig_run sig_to_bytes sig_of_env claim_view.
