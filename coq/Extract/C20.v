From Coq Require Import Extraction ExtrOcamlBasic.
From LV Require Import Lib.Bytes Lib.Decimal Lib.Prelude Model.C20 Model.C20_Callers Model.C20_Dict.
Extraction Language OCaml.
Extraction "c20_model.ml"
  prelude_byte_of_N prelude_N_of_byte prelude_Z_of_N prelude_Z_opp prelude_nat_of_N prelude_N_of_nat
  format parse dec_exact effective to_lbc lookup.
