From Coq Require Import Extraction ExtrOcamlBasic.
From LV Require Import Lib.Bytes Lib.Prelude Model.C03.
Extraction Language OCaml.
Extraction "c03_model.ml"
  prelude_byte_of_N prelude_N_of_byte prelude_Z_of_N prelude_Z_opp prelude_nat_of_N prelude_N_of_nat
  create create_signed spendable select sqlite_select reserve release reserved_ids unreserved
  base_size compact_size tx_fee required_fee cost_of_change
  IN_SIZE P2PKH_SIZE CHANGE_EST_SIZE DUST MAXIMUM_TRIES SQLITE_MAX_INTEGER.
