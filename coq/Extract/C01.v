From Coq Require Import Extraction ExtrOcamlBasic.
From LV Require Import Lib.Bytes Lib.Prelude Model.C01 Model.C01Announce.
Extraction Language OCaml.
Extraction "c01_model.ml"
  prelude_byte_of_N prelude_N_of_byte prelude_Z_of_N prelude_Z_opp prelude_nat_of_N prelude_N_of_nat
  init start step run run_log fuel astep arun to_announce.
