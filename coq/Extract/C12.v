From Coq Require Import Extraction ExtrOcamlBasic.
From LV Require Import Lib.Bytes Lib.Prelude Model.C12.
Extraction Language OCaml.
Extraction "c12_model.ml"
  prelude_byte_of_N prelude_N_of_byte prelude_Z_of_N prelude_Z_opp prelude_nat_of_N prelude_N_of_nat
  ds_add ds_expire ds_get ds_has ds_contacts bad_of
  pages_announced pages_announced_old serve_page walk honest_with honest delivered delivered_old real_cap good_count_old MAX_VALUE_PAGES
  public_ip decode_compact valid_compact
  f_init fstep frun total_pages
  guess_udp producer_action find_value_reply_size MSG_SIZE_LIMIT store_port_ok pq_enqueue pq_pop_due.
