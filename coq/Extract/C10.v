From Coq Require Import Extraction ExtrOcamlBasic.
From LV Require Import Lib.Bytes Lib.Prelude Model.C10.
Extraction Language OCaml.
Extraction "c10_model.ml"
  prelude_byte_of_N prelude_N_of_byte prelude_Z_of_N prelude_Z_opp prelude_nat_of_N prelude_N_of_nat
  parse_prefix fresh_client request run drain acceptable writer_write new_writer
  fresh_server srv_run handle_request tsrv_fresh tsrv_trace.
