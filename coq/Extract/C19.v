From Coq Require Import Extraction ExtrOcamlBasic.
From LV Require Import Lib.Bytes Lib.Prelude Model.C19.
Extraction Language OCaml.
Extraction "c19_model.ml"
  prelude_byte_of_N prelude_N_of_byte prelude_Z_of_N prelude_Z_opp prelude_nat_of_N prelude_N_of_nat
  run clean_pass clean_pass_old clean add_blob cands used_mb
  net_bytes content_bytes private_bytes total_bytes mb credited freed_bytes migrated_db setup recover effective assign.
