From Coq Require Import Extraction ExtrOcamlBasic.
From LV Require Import Lib.Bytes Lib.Prelude Wire.CompactSize Wire.Tx Model.C04 Model.C04_Obj.
Extraction Language OCaml.
Extraction "c04_model.ml"
  prelude_byte_of_N prelude_N_of_byte prelude_Z_of_N prelude_Z_opp prelude_nat_of_N prelude_N_of_nat
  sighash_preimage sighash_spec channel_pieces legacy_pieces outpoint_bytes serialize ostep obj_pieces.
