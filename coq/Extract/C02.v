From Coq Require Import Extraction ExtrOcamlBasic.
From LV Require Import Lib.Bytes Lib.Decimal Lib.Prelude Model.C02.
Extraction Language OCaml.
Extraction "c02_model.ml"
  prelude_byte_of_N prelude_N_of_byte prelude_Z_of_N prelude_Z_opp prelude_nat_of_N prelude_N_of_nat
  hex unhex utf8_ok utf8_enc splitext strip sanitize basename py_strip suggested_save_name save_file_name recovered_file_name
  split blob_hashsum get_stream_hash as_json sd_hash old_sort_json old_sd_hash validate to_sdj
  blob_hashsum build_stream create_stream create_stream_layout create_stream_in decrypt_stream read_blob run_reads save_loop range_plan range_read range_read_old expected_lengths.
