From Coq Require Import Extraction ExtrOcamlBasic.
From LV Require Import Lib.Bytes Lib.Prelude Model.C07.
Extraction Language OCaml.
Extraction "c07_model.ml"
  prelude_byte_of_N prelude_N_of_byte prelude_Z_of_N prelude_Z_opp prelude_nat_of_N prelude_N_of_nat
  compact compact_asserts from_compact div_round53 next_target serialize deserialize
  dsha pow_hash pow_value check_header validate connect repair_links tip_check repair load_repair hopen hclose
  ensure_checkpointed_size get_all_missing has_header fetch_chunk ensure_chunk_at lookup_header do_write visited_end.
