(* Wire/Script.v -- script templates of lbry/wallet/script.py: template opcodes, Template.generate,
   Parser.parse (including consume_many_non_greedy for PUSH_MANY and the lazily parsed
   PUSH_SUBSCRIPT), Script.parse over a template list with an optional template hint, and the
   InputScript / OutputScript template tables in their ORDER.  Executable definitions only. *)
From Coq Require Import NArith ZArith List Bool Lia.
From Coq.Strings Require Import Byte.
From LV Require Import Lib.Bytes Wire.Push.
Import ListNotations.
Local Open Scope N_scope.

(* names of template values *)
Inductive field :=
| F_signature | F_pubkey | F_height | F_pubkey_hash | F_script_hash | F_data
| F_claim_name | F_claim | F_claim_id | F_support | F_script
| F_signatures | F_pubkeys | F_signatures_count | F_pubkeys_count.

Definition field_code (f : field) : N :=
  match f with
  | F_signature => 0 | F_pubkey => 1 | F_height => 2 | F_pubkey_hash => 3 | F_script_hash => 4
  | F_data => 5 | F_claim_name => 6 | F_claim => 7 | F_claim_id => 8 | F_support => 9
  | F_script => 10 | F_signatures => 11 | F_pubkeys => 12 | F_signatures_count => 13
  | F_pubkeys_count => 14
  end.
Definition field_eqb (a b : field) : bool := field_code a =? field_code b.

(* templates a PUSH_SUBSCRIPT can carry *)
Inductive subtmpl := SubTimeLock | SubMultiSig.

(* template opcodes: a literal opcode or one of the matching pseudo-opcodes *)
Inductive topcode :=
| OpLit (o : N)
| PushSingle (n : field)
| PushInteger (n : field)
| PushMany (n : field)
| PushSub (n : field) (t : subtmpl)
| SmallInt (n : field).

Inductive value :=
| VBytes (d : bytes)                       (* PUSH_SINGLE *)
| VInt (v : N)                             (* PUSH_INTEGER (non-negative) *)
| VList (l : list bytes)                   (* PUSH_MANY *)
| VSub (t : subtmpl) (src : bytes)         (* PUSH_SUBSCRIPT: Script(source, template_hint=t), parsed lazily *)
| VSmall (k : N).                          (* SMALL_INTEGER *)

Definition values := list (field * value).

Fixpoint lookup (n : field) (vs : values) : option value :=
  match vs with
  | [] => None
  | (k, v) :: r => if field_eqb k n then Some v else lookup n r
  end.

(* ---------------------------------------------------------------------------------------- *)
(* Template.generate                                                                        *)
(* ---------------------------------------------------------------------------------------- *)
(* data.to_bytes((data.bit_length() + 8) // 8, 'little', signed=True) for data >= 0 *)
Definition int_bytes (v : N) : bytes := le_encode (N.to_nat ((N.size v + 8) / 8)) v.

(* None = KeyError / failed assert (missing or ill-typed value) *)
Fixpoint generate (ops : list topcode) (vs : values) : option bytes :=
  match ops with
  | [] => Some []
  | op :: r =>
    let chunk :=
      match op with
      | OpLit o => Some [byte_of_N o]
      | PushSingle n => match lookup n vs with Some (VBytes d) => Some (push d) | _ => None end
      | PushInteger n => match lookup n vs with Some (VInt v) => Some (push (int_bytes v)) | _ => None end
      | PushSub n _ => match lookup n vs with Some (VSub _ src) => Some (push src) | _ => None end
      | PushMany n => match lookup n vs with Some (VList l) => Some (concat (map push l)) | _ => None end
      | SmallInt n => match lookup n vs with
                      | Some (VSmall k) => if (1 <=? k) && (k <=? 16) then Some [byte_of_N (OP_1 + (k - 1))] else None
                      | _ => None end
      end in
    match chunk, generate r vs with
    | Some c, Some s => Some (c ++ s)
    | _, _ => None
    end
  end.

(* ---------------------------------------------------------------------------------------- *)
(* Parser                                                                                   *)
(* ---------------------------------------------------------------------------------------- *)
Inductive presult := PMatch (vs : values) | PNoMatch | PFuel.

Definition pcons (kv : values) (r : presult) : presult :=
  match r with PMatch vs => PMatch (kv ++ vs) | other => other end.

Definition is_push_op (op : topcode) : bool :=
  match op with PushSingle _ | PushInteger _ | PushMany _ | PushSub _ _ => true | _ => false end.
Definition is_many (op : topcode) : bool := match op with PushMany _ => true | _ => false end.

(* Parser.push_single *)
Definition push_single (op : topcode) (d : bytes) : option (field * value) :=
  match op with
  | PushSingle n => Some (n, VBytes d)
  | PushInteger n => Some (n, VInt (le_decode d))
  | PushSub n t => Some (n, VSub t d)
  | _ => None
  end.

(* longest prefix of data tokens / of push opcodes *)
Fixpoint span_data (toks : list token) : list bytes * list token :=
  match toks with
  | TData d :: r => let (a, b) := span_data r in (d :: a, b)
  | _ => ([], toks)
  end.
Fixpoint span_push (ops : list topcode) : list topcode * list topcode :=
  match ops with
  | op :: r => if is_push_op op then let (a, b) := span_push r in (op :: a, b) else ([], ops)
  | [] => ([], [])
  end.

Fixpoint zip_singles (ops : list topcode) (ds : list bytes) : option values :=
  match ops, ds with
  | [], _ => Some []
  | op :: r, d :: ds' =>
      match push_single op d, zip_singles r ds' with
      | Some kv, Some vs => Some (kv :: vs)
      | _, _ => None
      end
  | _ :: _, [] => None
  end.

(* consume_many_non_greedy, entered on (PUSH_MANY name) facing a data token: returns the values
   and the opcodes / tokens left for the main loop *)
Definition consume_many (name : field) (ops : list topcode) (toks : list token)
  : option (values * list topcode * list token) :=
  let (datas, rest_toks) := span_data toks in
  let (pushes, rest_ops) := span_push ops in
  if (1 <? length (filter is_many pushes))%nat then None
  else if (length datas <? length pushes)%nat then None
  else
    let singles := tl pushes in
    let k := (length datas - length singles)%nat in
    match zip_singles singles (skipn k datas) with
    | Some vs => Some ((name, VList (firstn k datas)) :: vs, rest_ops, rest_toks)
    | None => None
    end.

Fixpoint parse_fuel (fuel : nat) (ops : list topcode) (toks : list token) : presult :=
  match fuel with
  | O => PFuel
  | S f =>
    match ops, toks with
    | [], [] => PMatch []
    | [], _ :: _ => PNoMatch         (* "without all tokens being consumed" *)
    | _ :: _, [] => PNoMatch         (* "without all opcodes being consumed" *)
    | op :: ops', t :: toks' =>
      let t1 := match t, op with TOp 0, PushSingle _ => TData [] | _, _ => t end in
      match t1 with
      | TData d =>
        match op with
        | PushMany name =>
            match consume_many name ops (t1 :: toks') with
            | Some (vs, rest_ops, rest_toks) => pcons vs (parse_fuel f rest_ops rest_toks)
            | None => PNoMatch
            end
        | _ => match push_single op d with
               | Some kv => pcons [kv] (parse_fuel f ops' toks')
               | None => PNoMatch
               end
        end
      | TSmall k =>
        match op with
        | SmallInt n => pcons [(n, VSmall k)] (parse_fuel f ops' toks')
        | _ => PNoMatch
        end
      | TOp v =>
        match op with
        | OpLit o => if v =? o then parse_fuel f ops' toks' else PNoMatch
        | _ => PNoMatch
        end
      end
    end
  end.

Definition parse (ops : list topcode) (toks : list token) : presult :=
  parse_fuel (S (length ops)) ops toks.

(* Template.parse: a template without opcodes matches anything with no values *)
Definition template_parse (ops : list topcode) (toks : list token) : presult :=
  match ops with [] => PMatch [] | _ => parse ops toks end.

(* ---------------------------------------------------------------------------------------- *)
(* templates                                                                                *)
(* ---------------------------------------------------------------------------------------- *)
Inductive tname :=
| T_no_script
(* InputScript *)
| T_pubkey | T_pubkey_hash | T_multi_sig | T_script_hash_multi_sig | T_timelock | T_script_hash_timelock
(* OutputScript *)
| T_pay_pubkey_full | T_pay_pubkey_hash | T_pay_script_hash | T_pay_segwit | T_return_data
| T_claim_name_pkh | T_claim_name_sh | T_support_claim_pkh | T_support_claim_sh
| T_support_claim_data_pkh | T_support_claim_data_sh | T_update_claim_pkh | T_update_claim_sh.

Definition tname_code (t : tname) : N :=
  match t with
  | T_no_script => 0 | T_pubkey => 1 | T_pubkey_hash => 2 | T_multi_sig => 3
  | T_script_hash_multi_sig => 4 | T_timelock => 5 | T_script_hash_timelock => 6
  | T_pay_pubkey_full => 7 | T_pay_pubkey_hash => 8 | T_pay_script_hash => 9 | T_pay_segwit => 10
  | T_return_data => 11 | T_claim_name_pkh => 12 | T_claim_name_sh => 13
  | T_support_claim_pkh => 14 | T_support_claim_sh => 15 | T_support_claim_data_pkh => 16
  | T_support_claim_data_sh => 17 | T_update_claim_pkh => 18 | T_update_claim_sh => 19
  end.

Definition template := (tname * list topcode)%type.

Definition NO_SCRIPT : template := (T_no_script, []).

(* InputScript *)
Definition REDEEM_PUBKEY : template := (T_pubkey, [PushSingle F_signature]).
Definition REDEEM_PUBKEY_HASH : template := (T_pubkey_hash, [PushSingle F_signature; PushSingle F_pubkey]).
Definition MULTI_SIG_SCRIPT : template :=
  (T_multi_sig, [SmallInt F_signatures_count; PushMany F_pubkeys; SmallInt F_pubkeys_count; OpLit OP_CHECKMULTISIG]).
Definition REDEEM_SCRIPT_HASH_MULTI_SIG : template :=
  (T_script_hash_multi_sig, [OpLit OP_0; PushMany F_signatures; PushSub F_script SubMultiSig]).
Definition PAY_PUBKEY_HASH_OPS : list topcode :=
  [OpLit OP_DUP; OpLit OP_HASH160; PushSingle F_pubkey_hash; OpLit OP_EQUALVERIFY; OpLit OP_CHECKSIG].
Definition TIME_LOCK_SCRIPT : template :=
  (T_timelock, [PushInteger F_height; OpLit OP_CHECKLOCKTIMEVERIFY; OpLit OP_DROP] ++ PAY_PUBKEY_HASH_OPS).
Definition REDEEM_SCRIPT_HASH_TIME_LOCK : template :=
  (T_script_hash_timelock, [PushSingle F_signature; PushSingle F_pubkey; PushSub F_script SubTimeLock]).

Definition input_templates : list template :=
  [REDEEM_PUBKEY; REDEEM_PUBKEY_HASH; REDEEM_SCRIPT_HASH_TIME_LOCK; REDEEM_SCRIPT_HASH_MULTI_SIG].

Definition sub_template (t : subtmpl) : template :=
  match t with SubTimeLock => TIME_LOCK_SCRIPT | SubMultiSig => MULTI_SIG_SCRIPT end.

(* OutputScript *)
Definition PAY_SCRIPT_HASH_OPS : list topcode := [OpLit OP_HASH160; PushSingle F_script_hash; OpLit OP_EQUAL].
Definition PAY_PUBKEY_FULL : template := (T_pay_pubkey_full, [PushSingle F_pubkey; OpLit OP_CHECKSIG]).
Definition PAY_PUBKEY_HASH : template := (T_pay_pubkey_hash, PAY_PUBKEY_HASH_OPS).
Definition PAY_SCRIPT_HASH : template := (T_pay_script_hash, PAY_SCRIPT_HASH_OPS).
Definition PAY_SEGWIT : template := (T_pay_segwit, [OpLit OP_0; PushSingle F_script_hash]).
Definition RETURN_DATA : template := (T_return_data, [OpLit OP_RETURN; PushSingle F_data]).

Definition CLAIM_NAME_OPCODES : list topcode :=
  [OpLit OP_CLAIM_NAME; PushSingle F_claim_name; PushSingle F_claim; OpLit OP_2DROP; OpLit OP_DROP].
Definition SUPPORT_CLAIM_OPCODES : list topcode :=
  [OpLit OP_SUPPORT_CLAIM; PushSingle F_claim_name; PushSingle F_claim_id; OpLit OP_2DROP; OpLit OP_DROP].
Definition SUPPORT_CLAIM_DATA_OPCODES : list topcode :=
  [OpLit OP_SUPPORT_CLAIM; PushSingle F_claim_name; PushSingle F_claim_id; PushSingle F_support;
   OpLit OP_2DROP; OpLit OP_2DROP].
Definition UPDATE_CLAIM_OPCODES : list topcode :=
  [OpLit OP_UPDATE_CLAIM; PushSingle F_claim_name; PushSingle F_claim_id; PushSingle F_claim;
   OpLit OP_2DROP; OpLit OP_2DROP].

Definition CLAIM_NAME_PUBKEY : template := (T_claim_name_pkh, CLAIM_NAME_OPCODES ++ PAY_PUBKEY_HASH_OPS).
Definition CLAIM_NAME_SCRIPT : template := (T_claim_name_sh, CLAIM_NAME_OPCODES ++ PAY_SCRIPT_HASH_OPS).
Definition SUPPORT_CLAIM_PUBKEY : template := (T_support_claim_pkh, SUPPORT_CLAIM_OPCODES ++ PAY_PUBKEY_HASH_OPS).
Definition SUPPORT_CLAIM_SCRIPT : template := (T_support_claim_sh, SUPPORT_CLAIM_OPCODES ++ PAY_SCRIPT_HASH_OPS).
Definition SUPPORT_CLAIM_DATA_PUBKEY : template :=
  (T_support_claim_data_pkh, SUPPORT_CLAIM_DATA_OPCODES ++ PAY_PUBKEY_HASH_OPS).
Definition SUPPORT_CLAIM_DATA_SCRIPT : template :=
  (T_support_claim_data_sh, SUPPORT_CLAIM_DATA_OPCODES ++ PAY_SCRIPT_HASH_OPS).
Definition UPDATE_CLAIM_PUBKEY : template := (T_update_claim_pkh, UPDATE_CLAIM_OPCODES ++ PAY_PUBKEY_HASH_OPS).
Definition UPDATE_CLAIM_SCRIPT : template := (T_update_claim_sh, UPDATE_CLAIM_OPCODES ++ PAY_SCRIPT_HASH_OPS).

Definition output_templates : list template :=
  [PAY_PUBKEY_FULL; PAY_PUBKEY_HASH; PAY_SCRIPT_HASH; PAY_SEGWIT; RETURN_DATA;
   CLAIM_NAME_PUBKEY; CLAIM_NAME_SCRIPT; SUPPORT_CLAIM_PUBKEY; SUPPORT_CLAIM_SCRIPT;
   SUPPORT_CLAIM_DATA_PUBKEY; SUPPORT_CLAIM_DATA_SCRIPT; UPDATE_CLAIM_PUBKEY; UPDATE_CLAIM_SCRIPT].

(* ---------------------------------------------------------------------------------------- *)
(* Script.parse                                                                             *)
(* ---------------------------------------------------------------------------------------- *)
Inductive sresult :=
| SMatch (name : tname) (vs : values)
| SNoMatch                         (* ValueError: 'No matching templates for source' / 'Malformed push in script' *)
| SFuel.                           (* model artefact, proved unreachable *)

(* for template in chain((hint,), templates): first one that parses *)
Fixpoint first_match (tpls : list template) (toks : list token) : sresult :=
  match tpls with
  | [] => SNoMatch
  | (name, ops) :: r =>
      match template_parse ops toks with
      | PMatch vs => SMatch name vs
      | PNoMatch => first_match r toks
      | PFuel => SFuel
      end
  end.

Definition script_parse (hint : option template) (tpls : list template) (src : bytes) : sresult :=
  match tokenize src with
  | TokErr StructError => SNoMatch   (* struct.error of the tokenizer is re-raised as ValueError *)
  | TokErr TokFuel => SFuel
  | TokOk toks =>
      let hint' := match toks, hint with [], None => Some NO_SCRIPT | _, _ => hint end in
      first_match (match hint' with Some t => [t] | None => [] end ++ tpls) toks
  end.

Definition parse_output (src : bytes) : sresult := script_parse None output_templates src.
Definition parse_input (src : bytes) : sresult := script_parse None input_templates src.
(* values['script'].values of a PUSH_SUBSCRIPT value: class Script has no templates of its own *)
Definition parse_sub (t : subtmpl) (src : bytes) : sresult := script_parse (Some (sub_template t)) [] src.
