(* Wire/Push.v -- script tokens, push-data encoding (lbry/wallet/script.py push_data) and the
   tokenizer (token_producer / read_data over BCDataStream), including its behaviour on
   truncated input:
     * a push whose declared length runs past the end of the script is an error (read_data compares
       len(data) with the declared size; BytesIO.read alone would silently return fewer bytes),
     * a missing length field after OP_PUSHDATA1/2/4 (_read_struct returns None) is the same error,
     * _read_struct raises struct.error when 1..size-1 bytes of a length field are left.
   Definitions first, then the library lemmas (fuel independence, tokenize over push). No axioms. *)
From Coq Require Import NArith ZArith List Bool Lia.
From Coq.Strings Require Import Byte.
From LV Require Import Lib.Bytes.
Import ListNotations.
Local Open Scope N_scope.
Ltac Zify.zify_post_hook ::= Z.to_euclidean_division_equations.

(* ---------------------------------------------------------------------------------------- *)
(* opcodes (values of the Python module constants)                                          *)
(* ---------------------------------------------------------------------------------------- *)
Definition OP_0 : N := 0.
Definition OP_PUSHDATA1 : N := 76.
Definition OP_PUSHDATA2 : N := 77.
Definition OP_PUSHDATA4 : N := 78.
Definition OP_1 : N := 81.
Definition OP_16 : N := 96.
Definition OP_RETURN : N := 106.
Definition OP_2DROP : N := 109.
Definition OP_DROP : N := 117.
Definition OP_DUP : N := 118.
Definition OP_EQUAL : N := 135.
Definition OP_EQUALVERIFY : N := 136.
Definition OP_HASH160 : N := 169.
Definition OP_CHECKSIG : N := 172.
Definition OP_CHECKMULTISIG : N := 174.
Definition OP_CHECKLOCKTIMEVERIFY : N := 177.
Definition OP_CLAIM_NAME : N := 181.
Definition OP_SUPPORT_CLAIM : N := 182.
Definition OP_UPDATE_CLAIM : N := 183.

(* Token / DataToken / SmallIntegerToken *)
Inductive token :=
| TData (d : bytes)
| TSmall (n : N)
| TOp (v : N).

(* ---------------------------------------------------------------------------------------- *)
(* push_data                                                                                 *)
(* ---------------------------------------------------------------------------------------- *)
Definition push_header (size : N) : bytes :=
  if size <? OP_PUSHDATA1 then [byte_of_N size]
  else if size <=? 255 then [byte_of_N OP_PUSHDATA1; byte_of_N size]
  else if size <=? 65535 then byte_of_N OP_PUSHDATA2 :: le_encode 2 size
  else byte_of_N OP_PUSHDATA4 :: le_encode 4 size.

Definition push (d : bytes) : bytes := push_header (N.of_nat (length d)) ++ d.

(* ---------------------------------------------------------------------------------------- *)
(* stream reads                                                                              *)
(* ---------------------------------------------------------------------------------------- *)
(* BytesIO.read(n): the first n bytes (fewer when the stream is shorter) and the remainder *)
Fixpoint take (s : bytes) (n : N) : bytes * bytes :=
  match s with
  | [] => ([], [])
  | b :: r => if n =? 0 then ([], s)
              else let (a, c) := take r (N.pred n) in (b :: a, c)
  end.

Inductive rd := RdNone | RdErr | RdVal (v : N) (rest : bytes).

(* read_uint8/16/32 = _read_struct: None on an exhausted stream, struct.error on a short one *)
Definition read_uint (w : nat) (s : bytes) : rd :=
  match s with
  | [] => RdNone
  | _ => let h := firstn w s in
         if (length h <? w)%nat then RdErr else RdVal (le_decode h) (skipn w s)
  end.

(* stream.read(size) followed by the check len(data) == size *)
Definition take_exact (s : bytes) (n : N) : option (bytes * bytes) :=
  let (a, c) := take s n in if N.of_nat (length a) =? n then Some (a, c) else None.

(* read_data; None = struct.error (partial or missing length field, or data running past the end) *)
Definition read_data (t : N) (s : bytes) : option (bytes * bytes) :=
  if t <? OP_PUSHDATA1 then take_exact s t
  else
    let w := if t =? OP_PUSHDATA1 then 1%nat else if t =? OP_PUSHDATA2 then 2%nat else 4%nat in
    match read_uint w s with
    | RdNone => None
    | RdErr => None
    | RdVal n rest => take_exact rest n
    end.

Inductive tok_error := StructError | TokFuel.
Inductive tok_result := TokOk (l : list token) | TokErr (e : tok_error).

Definition tcons (t : token) (r : tok_result) : tok_result :=
  match r with TokOk l => TokOk (t :: l) | TokErr e => TokErr e end.

Definition is_push_data_token (t : N) : bool := (1 <=? t) && (t <=? OP_PUSHDATA4).
Definition is_small_integer (t : N) : bool := (OP_1 <=? t) && (t <=? OP_16).

(* token_producer; every step consumes at least one byte, so fuel = length suffices *)
Fixpoint tok_fuel (fuel : nat) (s : bytes) : tok_result :=
  match s with
  | [] => TokOk []
  | b :: r =>
    match fuel with
    | O => TokErr TokFuel
    | S f =>
      let t := N_of_byte b in
      if is_push_data_token t then
        match read_data t r with
        | None => TokErr StructError
        | Some (d, r') => tcons (TData d) (tok_fuel f r')
        end
      else if is_small_integer t then tcons (TSmall (t - OP_1 + 1)) (tok_fuel f r)
      else tcons (TOp t) (tok_fuel f r)
    end
  end.

Definition tokenize (s : bytes) : tok_result := tok_fuel (length s) s.

(* the token a pushed datum reads back as: push_data(b'') is the single byte OP_0 *)
Definition dtok (d : bytes) : token := match d with [] => TOp OP_0 | _ => TData d end.

(* The four length-prefix forms read_data accepts for a datum of [n] bytes *)
Inductive push_form : bytes -> N -> Prop :=
| pf_direct n : n < OP_PUSHDATA1 -> push_form [byte_of_N n] n
| pf_1 n : n < 256 -> push_form [byte_of_N OP_PUSHDATA1; byte_of_N n] n
| pf_2 n : n < 65536 -> push_form (byte_of_N OP_PUSHDATA2 :: le_encode 2 n) n
| pf_4 n : n < 4294967296 -> push_form (byte_of_N OP_PUSHDATA4 :: le_encode 4 n) n.

(* ======================================================================================== *)
(* Lemmas                                                                                    *)
(* ======================================================================================== *)

Arguments push_header : simpl never.
Arguments read_data : simpl never.

Lemma take_length_rest s : forall n, (length (snd (take s n)) <= length s)%nat.
Proof.
  induction s as [|b r IH]; intro n; cbn [take]; [simpl; lia|].
  destruct (n =? 0); [simpl; lia|].
  specialize (IH (N.pred n)). destruct (take r (N.pred n)) as [a c]. simpl in *. lia.
Qed.

Lemma take_app_exact d : forall r, take (d ++ r) (N.of_nat (length d)) = (d, r).
Proof.
  induction d as [|b d IH]; intro r.
  - cbn [length app]. destruct r; reflexivity.
  - cbn [length app take]. rewrite Nat2N.inj_succ.
    destruct (N.succ (N.of_nat (length d)) =? 0) eqn:E; [apply N.eqb_eq in E; lia|].
    rewrite N.pred_succ, IH. reflexivity.
Qed.

Lemma take_exact_app d r : take_exact (d ++ r) (N.of_nat (length d)) = Some (d, r).
Proof. unfold take_exact. rewrite take_app_exact, N.eqb_refl. reflexivity. Qed.

Lemma take_exact_rest s n a c : take_exact s n = Some (a, c) -> (length c <= length s)%nat.
Proof.
  unfold take_exact. pose proof (take_length_rest s n) as L. destruct (take s n) as [x y].
  destruct (N.of_nat (length x) =? n); [|discriminate]. intro H. inversion H; subst. exact L.
Qed.

Lemma take_spec s : forall n, take s n = (firstn (N.to_nat n) s, skipn (N.to_nat n) s).
Proof.
  induction s as [|b r IH]; intro n; cbn [take].
  - destruct (N.to_nat n); reflexivity.
  - destruct (n =? 0) eqn:E.
    + apply N.eqb_eq in E. subst. reflexivity.
    + apply N.eqb_neq in E. rewrite IH.
      replace (N.to_nat n) with (S (N.to_nat (N.pred n))) by lia. reflexivity.
Qed.

Lemma read_uint_rest w s v rest : read_uint w s = RdVal v rest -> (length rest <= length s)%nat.
Proof.
  unfold read_uint. destruct s as [|b r]; [discriminate|].
  destruct (length (firstn w (b :: r)) <? w)%nat; [discriminate|].
  intro H. inversion H; subst. rewrite skipn_length. lia.
Qed.

Lemma read_data_rest t s d r' : read_data t s = Some (d, r') -> (length r' <= length s)%nat.
Proof.
  unfold read_data. destruct (t <? OP_PUSHDATA1).
  - apply take_exact_rest.
  - destruct (read_uint _ s) as [| |n rest] eqn:E; try discriminate.
    intro H. apply take_exact_rest in H. apply read_uint_rest in E. lia.
Qed.

(* fuel independence: any fuel >= length gives the same answer *)
Lemma tok_fuel_indep : forall f1 f2 s, (length s <= f1)%nat -> (length s <= f2)%nat ->
  tok_fuel f1 s = tok_fuel f2 s.
Proof.
  induction f1 as [|f1 IH]; intros f2 s H1 H2.
  - destruct s; [destruct f2; reflexivity | simpl in H1; lia].
  - destruct s as [|b r]; [destruct f2; reflexivity|].
    destruct f2 as [|f2]; [simpl in H2; lia|].
    cbn [tok_fuel]. simpl in H1, H2.
    destruct (is_push_data_token (N_of_byte b)).
    + destruct (read_data (N_of_byte b) r) as [[d r']|] eqn:E; [|reflexivity].
      apply read_data_rest in E. rewrite (IH f2 r') by lia. reflexivity.
    + destruct (is_small_integer (N_of_byte b)); rewrite (IH f2 r) by lia; reflexivity.
Qed.

Lemma tok_fuel_tokenize f s : (length s <= f)%nat -> tok_fuel f s = tokenize s.
Proof. intro H. unfold tokenize. apply tok_fuel_indep; [exact H | lia]. Qed.

(* the tokenizer never runs out of fuel *)
Lemma tok_fuel_no_fuel : forall f s, (length s <= f)%nat -> tok_fuel f s <> TokErr TokFuel.
Proof.
  induction f as [|f IH]; intros s H.
  - destruct s; [discriminate | simpl in H; lia].
  - destruct s as [|b r]; [discriminate|]. cbn [tok_fuel]. simpl in H.
    assert (T : forall t x, (length x <= f)%nat -> tcons t (tok_fuel f x) <> TokErr TokFuel).
    { intros t x Hx. specialize (IH x Hx). destruct (tok_fuel f x) as [l|e]; simpl; [discriminate|].
      intro K. inversion K. subst. apply IH. reflexivity. }
    destruct (is_push_data_token (N_of_byte b)).
    + destruct (read_data (N_of_byte b) r) as [[d r']|] eqn:E; [|discriminate].
      apply read_data_rest in E. apply T. lia.
    + destruct (is_small_integer (N_of_byte b)); apply T; lia.
Qed.

Lemma tokenize_no_fuel s : tokenize s <> TokErr TokFuel.
Proof. apply tok_fuel_no_fuel. lia. Qed.

Lemma tokenize_nil : tokenize [] = TokOk [].
Proof. reflexivity. Qed.

(* one step of the tokenizer, stated on [tokenize] itself *)
Lemma tokenize_cons b r :
  tokenize (b :: r) =
    let t := N_of_byte b in
    if is_push_data_token t then
      match read_data t r with
      | None => TokErr StructError
      | Some (d, r') => tcons (TData d) (tokenize r')
      end
    else if is_small_integer t then tcons (TSmall (t - OP_1 + 1)) (tokenize r)
    else tcons (TOp t) (tokenize r).
Proof.
  unfold tokenize at 1. cbn [length tok_fuel]. cbv zeta.
  destruct (is_push_data_token (N_of_byte b)).
  - destruct (read_data (N_of_byte b) r) as [[d r']|] eqn:E; [|reflexivity].
    apply read_data_rest in E. rewrite tok_fuel_tokenize by exact E. reflexivity.
  - destruct (is_small_integer (N_of_byte b)); rewrite tok_fuel_tokenize by lia; reflexivity.
Qed.

(* a plain opcode byte: 0, 79, 80, or above OP_16 *)
Definition plain_op (o : N) : bool :=
  (o <? 256) && negb (is_push_data_token o) && negb (is_small_integer o).

Lemma tokenize_plain_op o r : plain_op o = true ->
  tokenize (byte_of_N o :: r) = tcons (TOp o) (tokenize r).
Proof.
  unfold plain_op. intro H. apply andb_true_iff in H as [H H3]. apply andb_true_iff in H as [H1 H2].
  apply N.ltb_lt in H1. rewrite tokenize_cons. cbv zeta. rewrite byte_of_N_small by exact H1.
  apply negb_true_iff in H2. apply negb_true_iff in H3. rewrite H2, H3. reflexivity.
Qed.

Lemma firstn_le_encode_app w v r : firstn w (le_encode w v ++ r) = le_encode w v.
Proof. apply firstn_app_exact'. symmetry. apply le_encode_length. Qed.
Lemma skipn_le_encode_app w v r : skipn w (le_encode w v ++ r) = r.
Proof. apply skipn_app_exact'. symmetry. apply le_encode_length. Qed.

Lemma read_uint_encode w v r : (0 < w)%nat -> v < 256 ^ N.of_nat w ->
  read_uint w (le_encode w v ++ r) = RdVal v r.
Proof.
  intros Hw Hv. unfold read_uint.
  destruct (le_encode w v ++ r) as [|x y] eqn:E.
  - apply (f_equal (@length byte)) in E. rewrite app_length, le_encode_length in E. simpl in E. lia.
  - rewrite <- E. rewrite firstn_le_encode_app, skipn_le_encode_app, le_encode_length.
    rewrite Nat.ltb_irrefl. rewrite le_decode_encode by exact Hv. reflexivity.
Qed.


Definition read_sized (w : nat) (s : bytes) : option (bytes * bytes) :=
  match read_uint w s with
  | RdNone => None
  | RdErr => None
  | RdVal n rest => take_exact rest n
  end.
Lemma read_data_direct t s : t < 76 -> read_data t s = take_exact s t.
Proof. intro H. unfold read_data, OP_PUSHDATA1. apply N.ltb_lt in H. rewrite H. reflexivity. Qed.
Lemma read_data_pd1 s : read_data 76 s = read_sized 1 s.
Proof. reflexivity. Qed.
Lemma read_data_pd2 s : read_data 77 s = read_sized 2 s.
Proof. reflexivity. Qed.
Lemma read_data_pd4 s : read_data 78 s = read_sized 4 s.
Proof. reflexivity. Qed.
Lemma read_sized_encode w n d r : (0 < w)%nat -> n < 256 ^ N.of_nat w -> n = N.of_nat (length d) ->
  read_sized w (le_encode w n ++ d ++ r) = Some (d, r).
Proof.
  intros Hw Hn E. unfold read_sized. rewrite read_uint_encode by assumption.
  rewrite E, take_exact_app. reflexivity.
Qed.

(* reading a header written by push_header gives back the size and leaves the stream after it *)
Lemma read_data_push_header n d r : n = N.of_nat (length d) -> 0 < n -> n < 4294967296 ->
  match push_header n with
  | [] => False
  | b :: h => is_push_data_token (N_of_byte b) = true /\
              read_data (N_of_byte b) (h ++ d ++ r) = Some (d, r)
  end.
Proof.
  intros Hn Hpos Hlt. unfold push_header.
  destruct (n <? OP_PUSHDATA1) eqn:E1.
  - apply N.ltb_lt in E1. unfold OP_PUSHDATA1 in E1. rewrite byte_of_N_small by lia. split.
    + unfold is_push_data_token, OP_PUSHDATA4. apply andb_true_iff. split; apply N.leb_le; lia.
    + rewrite read_data_direct by exact E1. cbn [app]. rewrite Hn, take_exact_app. reflexivity.
  - apply N.ltb_ge in E1. unfold OP_PUSHDATA1 in E1.
    destruct (n <=? 255) eqn:E2; [|destruct (n <=? 65535) eqn:E3].
    + apply N.leb_le in E2. unfold OP_PUSHDATA1. rewrite byte_of_N_small by lia. split; [reflexivity|].
      rewrite read_data_pd1. change ([byte_of_N n] ++ d ++ r) with (le_encode 1 n ++ d ++ r).
      apply read_sized_encode; [lia | simpl; lia | exact Hn].
    + apply N.leb_le in E3. unfold OP_PUSHDATA2. rewrite byte_of_N_small by lia. split; [reflexivity|].
      rewrite read_data_pd2. apply read_sized_encode; [lia | simpl; lia | exact Hn].
    + unfold OP_PUSHDATA4. rewrite byte_of_N_small by lia. split; [reflexivity|].
      rewrite read_data_pd4. apply read_sized_encode; [lia | simpl; lia | exact Hn].
Qed.

(* push_data followed by anything tokenizes to the datum followed by the tokens of the rest *)
Theorem tokenize_push d r : N.of_nat (length d) < 4294967296 ->
  tokenize (push d ++ r) = tcons (dtok d) (tokenize r).
Proof.
  intro Hlt. destruct d as [|x d].
  - unfold push. cbn [length N.of_nat app]. unfold push_header. cbn [N.ltb N.compare OP_PUSHDATA1].
    cbn [app dtok]. apply tokenize_plain_op. reflexivity.
  - set (dd := x :: d) in *.
    pose proof (read_data_push_header (N.of_nat (length dd)) dd r eq_refl) as H.
    assert (Hpos : 0 < N.of_nat (length dd)) by (unfold dd; simpl; lia).
    specialize (H Hpos Hlt). unfold push.
    destruct (push_header (N.of_nat (length dd))) as [|b h]; [contradiction|].
    destruct H as [H1 H2].
    rewrite <- app_assoc. cbn [app]. rewrite tokenize_cons. cbv zeta. rewrite H1, H2. reflexivity.
Qed.

(* ---- minimality of the header ---- *)
Lemma push_header_form n : n < 4294967296 -> push_form (push_header n) n.
Proof.
  intro H. unfold push_header.
  destruct (n <? OP_PUSHDATA1) eqn:E1; [apply N.ltb_lt in E1; constructor; exact E1|].
  destruct (n <=? 255) eqn:E2; [apply N.leb_le in E2; constructor; lia|].
  destruct (n <=? 65535) eqn:E3; [apply N.leb_le in E3; constructor; lia|].
  constructor. exact H.
Qed.

Lemma push_header_length n :
  length (push_header n) =
    if n <? 76 then 1%nat else if n <=? 255 then 2%nat else if n <=? 65535 then 3%nat else 5%nat.
Proof.
  unfold push_header, OP_PUSHDATA1.
  destruct (n <? 76); [reflexivity|]. destruct (n <=? 255); [reflexivity|].
  destruct (n <=? 65535); reflexivity.
Qed.

Theorem push_header_minimal h n : push_form h n -> (length (push_header n) <= length h)%nat.
Proof.
  intro F. rewrite push_header_length.
  destruct F as [n H|n H|n H|n H]; unfold OP_PUSHDATA1 in *; cbn [length le_encode];
    destruct (N.ltb_spec n 76); try lia;
    destruct (N.leb_spec n 255); try lia;
    destruct (N.leb_spec n 65535); lia.
Qed.

(* every accepted form reads back the datum (soundness of push_form w.r.t. the tokenizer) *)
Lemma push_form_tokenize h d r : push_form h (N.of_nat (length d)) -> d <> [] ->
  tokenize (h ++ d ++ r) = tcons (TData d) (tokenize r).
Proof.
  intros F Hd.
  assert (Hpos : 0 < N.of_nat (length d)) by (destruct d; [congruence | simpl; lia]).
  remember (N.of_nat (length d)) as n eqn:Hn.
  destruct F as [n H|n H|n H|n H]; cbn [app]; rewrite tokenize_cons; cbv zeta.
  - unfold OP_PUSHDATA1 in H. rewrite byte_of_N_small by lia.
    replace (is_push_data_token n) with true
      by (symmetry; unfold is_push_data_token, OP_PUSHDATA4; apply andb_true_iff; split; apply N.leb_le; lia).
    rewrite read_data_direct by exact H. rewrite Hn, take_exact_app. reflexivity.
  - unfold OP_PUSHDATA1. rewrite byte_of_N_small by lia.
    change (is_push_data_token 76) with true. cbv iota. rewrite read_data_pd1.
    change (byte_of_N n :: d ++ r) with (le_encode 1 n ++ d ++ r).
    rewrite read_sized_encode; [reflexivity | lia | simpl; lia | exact Hn].
  - unfold OP_PUSHDATA2. rewrite byte_of_N_small by lia.
    change (is_push_data_token 77) with true. cbv iota. rewrite read_data_pd2.
    rewrite read_sized_encode; [reflexivity | lia | simpl; lia | exact Hn].
  - unfold OP_PUSHDATA4. rewrite byte_of_N_small by lia.
    change (is_push_data_token 78) with true. cbv iota. rewrite read_data_pd4.
    rewrite read_sized_encode; [reflexivity | lia | simpl; lia | exact Hn].
Qed.

(* ---- every data token stands for a complete push: header of one of the four forms, then exactly
        the declared number of bytes (nothing is read past the end of the script) ---- *)
Lemma take_exact_split s n a c : take_exact s n = Some (a, c) -> s = a ++ c /\ N.of_nat (length a) = n.
Proof.
  unfold take_exact. rewrite take_spec.
  destruct (N.of_nat (length (firstn (N.to_nat n) s)) =? n) eqn:E; [|discriminate].
  intro H. inversion H; subst. split; [symmetry; apply firstn_skipn | apply N.eqb_eq; exact E].
Qed.

Lemma read_uint_split w s v rest : read_uint w s = RdVal v rest ->
  exists h, s = h ++ rest /\ length h = w /\ v = le_decode h.
Proof.
  unfold read_uint. destruct s as [|b r]; [discriminate|].
  destruct (length (firstn w (b :: r)) <? w)%nat eqn:E; [discriminate|].
  intro H. inversion H; subst. exists (firstn w (b :: r)).
  split; [symmetry; apply firstn_skipn|]. split; [|reflexivity].
  apply Nat.ltb_ge in E. pose proof (firstn_le_length w (b :: r)). lia.
Qed.

Theorem read_data_full_push t s d r : is_push_data_token t = true -> read_data t s = Some (d, r) ->
  exists h, push_form (byte_of_N t :: h) (N.of_nat (length d)) /\ s = h ++ d ++ r.
Proof.
  unfold is_push_data_token, OP_PUSHDATA4. intro Ht. apply andb_true_iff in Ht as [H1 H2].
  apply N.leb_le in H1. apply N.leb_le in H2. unfold read_data, OP_PUSHDATA1, OP_PUSHDATA2.
  destruct (N.ltb_spec t 76) as [Hlt|Hge].
  - intro H. apply take_exact_split in H as [-> L]. exists []. split; [|reflexivity].
    rewrite L. constructor. exact Hlt.
  - assert (W : forall w, (0 < w)%nat ->
               match read_uint w s with RdNone => None | RdErr => None | RdVal n rest => take_exact rest n end = Some (d, r) ->
               exists h, length h = w /\ le_decode h = N.of_nat (length d) /\ s = h ++ d ++ r).
    { intros w Hw H. destruct (read_uint w s) as [| |n rest] eqn:E; try discriminate.
      apply read_uint_split in E as (h & -> & Lh & ->). apply take_exact_split in H as [-> L].
      exists h. auto. }
    destruct (t =? 76) eqn:E1; [|destruct (t =? 77) eqn:E2].
    + apply N.eqb_eq in E1. subst t. intro H. apply W in H as (h & Lh & Dh & ->); [|lia].
      exists h. split; [|reflexivity].
      destruct h as [|b [|? ?]]; try discriminate. cbn [le_decode] in Dh.
      rewrite <- Dh. replace (N_of_byte b + 256 * 0) with (N_of_byte b) by lia.
      pose proof (pf_1 (N_of_byte b) (N_of_byte_lt b)) as F. rewrite byte_of_N_of_byte in F. exact F.
    + apply N.eqb_eq in E2. subst t. intro H. apply W in H as (h & Lh & Dh & ->); [|lia].
      exists h. split; [|reflexivity]. rewrite <- Dh.
      pose proof (le_decode_lt h) as B. rewrite Lh in B.
      pose proof (pf_2 (le_decode h) B) as F. rewrite <- Lh in F at 1. rewrite le_encode_decode in F. exact F.
    + apply N.eqb_neq in E1. apply N.eqb_neq in E2. assert (t = 78) by lia. subst t.
      intro H. apply W in H as (h & Lh & Dh & ->); [|lia].
      exists h. split; [|reflexivity]. rewrite <- Dh.
      pose proof (le_decode_lt h) as B. rewrite Lh in B.
      pose proof (pf_4 (le_decode h) B) as F. rewrite <- Lh in F at 1. rewrite le_encode_decode in F. exact F.
Qed.

(* consequence for whole scripts: the bytes of all tokens add up to the script -- no datum is cut short *)
Fixpoint tok_weight_ok (toks : list token) (s : bytes) : Prop :=
  match toks with
  | [] => s = []
  | TData d :: r => exists h rest, push_form h (N.of_nat (length d)) /\ s = h ++ d ++ rest /\ tok_weight_ok r rest
  | _ :: r => exists b rest, s = b :: rest /\ tok_weight_ok r rest
  end.

Lemma tok_fuel_complete : forall f s toks, tok_fuel f s = TokOk toks -> tok_weight_ok toks s.
Proof.
  induction f as [|f IH]; intros s toks H.
  - destruct s; [inversion H; reflexivity | discriminate].
  - destruct s as [|b r]; [inversion H; reflexivity|]. cbn [tok_fuel] in H.
    destruct (is_push_data_token (N_of_byte b)) eqn:P.
    + destruct (read_data (N_of_byte b) r) as [[d r']|] eqn:E; [|discriminate].
      destruct (tok_fuel f r') as [l|e] eqn:T; [|discriminate]. inversion H; subst.
      destruct (read_data_full_push _ _ _ _ P E) as (h & F & ->).
      rewrite byte_of_N_of_byte in F. cbn [tok_weight_ok].
      exists (b :: h), r'. split; [exact F|]. split; [reflexivity | apply IH; exact T].
    + destruct (is_small_integer (N_of_byte b));
        destruct (tok_fuel f r) as [l|e] eqn:T; try discriminate; inversion H; subst;
        cbn [tok_weight_ok]; exists b, r; (split; [reflexivity | apply IH; exact T]).
Qed.

Theorem tokenize_complete s toks : tokenize s = TokOk toks -> tok_weight_ok toks s.
Proof. apply tok_fuel_complete. Qed.
