(* Wire/Tx.v -- Bitcoin/LBRY transaction wire format as lbry/wallet/transaction.py reads and
   writes it (Transaction._serialize / _deserialize, Input/Output.serialize_to / deserialize_from).
   Scripts are opaque byte strings here.

   Interface for other properties:
     records   txin, txout, tx                       (well-typed transaction)
     serialize : tx -> bytes                         (legacy encoding; the code never writes witnesses)
     wf_tx     : tx -> Prop                          (field ranges under which the writer does not raise)
     deserialize : bytes -> res ptx                  (faithful reader: Python None, short reads,
                                                      segwit marker/flag, witness drain, error classes)
     lift : tx -> ptx
     deserialize_serialize, serialize_injective, serialize_prefix_free, pser_lift
   No axioms. *)
From Coq Require Import NArith ZArith List Bool Lia.
From Coq.Strings Require Import Byte.
From LV Require Import Lib.Bytes Wire.CompactSize.
Import ListNotations.
Local Open Scope N_scope.

Ltac Zify.zify_post_hook ::= Z.to_euclidean_division_equations.

(* ---------- transactions ---------- *)
Record txin := mk_txin { ti_hash : bytes; ti_index : N; ti_script : bytes; ti_seq : N }.
Record txout := mk_txout { to_amount : N; to_script : bytes }.
Record tx := mk_tx { tx_version : N; tx_ins : list txin; tx_outs : list txout; tx_locktime : N }.

(* Input.serialize_to / Output.serialize_to / Transaction._serialize *)
Definition ser_in (i : txin) : bytes :=
  ti_hash i ++ le_encode 4 (ti_index i) ++ ser_string (ti_script i) ++ le_encode 4 (ti_seq i).
Definition ser_out (o : txout) : bytes :=
  le_encode 8 (to_amount o) ++ ser_string (to_script o).
Definition ser_ins (l : list txin) : bytes := cs_encode (N.of_nat (length l)) ++ concat (map ser_in l).
Definition ser_outs (l : list txout) : bytes := cs_encode (N.of_nat (length l)) ++ concat (map ser_out l).
Definition serialize (t : tx) : bytes :=
  le_encode 4 (tx_version t) ++ ser_ins (tx_ins t) ++ ser_outs (tx_outs t) ++ le_encode 4 (tx_locktime t).

(* ranges under which struct.pack accepts every field; at least one input (a transaction without
   inputs is indistinguishable from the segwit marker, see [no_input_ambiguous] in Proofs/C05.v) *)
Definition wf_in (i : txin) : Prop :=
  length (ti_hash i) = 32%nat /\ ti_index i < 4294967296 /\
  N.of_nat (length (ti_script i)) < MAXSIZE1 /\ ti_seq i < 4294967296.
Definition wf_out (o : txout) : Prop :=
  to_amount o < 18446744073709551616 /\ N.of_nat (length (to_script o)) < MAXSIZE1.
Definition wf_tx (t : tx) : Prop :=
  tx_version t < 4294967296 /\ tx_locktime t < 4294967296 /\
  tx_ins t <> [] /\
  N.of_nat (length (tx_ins t)) < 18446744073709551616 /\
  N.of_nat (length (tx_outs t)) < 18446744073709551616 /\
  Forall wf_in (tx_ins t) /\ Forall wf_out (tx_outs t).

(* ---------- what the reader produces: any fixed-width field may be Python's None ---------- *)
Record pin := mk_pin { pi_hash : bytes; pi_index : option N; pi_script : bytes; pi_seq : option N }.
Record pout := mk_pout { po_amount : option N; po_script : bytes }.
Record ptx := mk_ptx {
  p_version : option N;
  p_flag : option N;            (* Transaction.is_segwit_flag: 0 unless the marker byte was seen *)
  p_ins : list pin;
  p_outs : list pout;
  p_wits : list bytes;          (* Transaction.witnesses: flat list *)
  p_locktime : option N }.

Definition lift_in (i : txin) : pin :=
  mk_pin (ti_hash i) (Some (ti_index i)) (ti_script i) (Some (ti_seq i)).
Definition lift_out (o : txout) : pout := mk_pout (Some (to_amount o)) (to_script o).
Definition lift_with (flag : N) (wits : list bytes) (t : tx) : ptx :=
  mk_ptx (Some (tx_version t)) (Some flag) (map lift_in (tx_ins t)) (map lift_out (tx_outs t))
         wits (Some (tx_locktime t)).
Definition lift (t : tx) : ptx := lift_with 0 [] t.

(* the writer applied to reader output (Transaction._serialize on a parsed transaction):
   struct.error on None or out-of-range fields; never writes marker, flag or witnesses *)
Definition pser_in (i : pin) : res bytes :=
  do a <- enc_uint 4 (pi_index i);
  do b <- enc_uint 4 (pi_seq i);
  ROk (pi_hash i ++ a ++ ser_string (pi_script i) ++ b).
Definition pser_out (o : pout) : res bytes :=
  do a <- enc_uint 8 (po_amount o);
  ROk (a ++ ser_string (po_script o)).
Fixpoint pser_list {A} (f : A -> res bytes) (l : list A) : res bytes :=
  match l with
  | [] => ROk []
  | x :: r => do a <- f x; do b <- pser_list f r; ROk (a ++ b)
  end.
Definition pser (p : ptx) : res bytes :=
  do v <- enc_uint 4 (p_version p);
  do i <- pser_list pser_in (p_ins p);
  do o <- pser_list pser_out (p_outs p);
  do l <- enc_uint 4 (p_locktime p);
  ROk (v ++ (cs_encode (N.of_nat (length (p_ins p))) ++ i)
         ++ (cs_encode (N.of_nat (length (p_outs p))) ++ o) ++ l).

(* ---------- reader ---------- *)
(* Input.deserialize_from: read(32) may be short, the rest as in the stream primitives *)
Definition parse_in (s : bytes) : res (pin * bytes) :=
  let (h, s1) := take 32 s in
  do (idx, s2) <- read_uint 4 s1;
  do (scr, s3) <- read_string s2;
  do (sq, s4) <- read_uint 4 s3;
  ROk (mk_pin h idx scr sq, s4).

Definition parse_out (s : bytes) : res (pout * bytes) :=
  do (amt, s1) <- read_uint 8 s;
  do (scr, s2) <- read_string s1;
  ROk (mk_pout amt scr, s2).

(* [f(stream) for _ in range(count)]: every successful element consumes at least one byte, so
   fuel = S (length of the whole input) always suffices (parse_total in Proofs/C05.v) *)
Fixpoint parse_many {A} (f : bytes -> res (A * bytes)) (fuel : nat) (count : N) (s : bytes)
  : res (list A * bytes) :=
  if count =? 0 then ROk ([], s) else
  match fuel with
  | O => RErr EOutOfFuel
  | S fuel' =>
      do (x, r) <- f s;
      do (l, r') <- parse_many f fuel' (N.pred count) r;
      ROk (x :: l, r')
  end.

(* for _ in range(input_count): for _ in range(read_compact_size()): witnesses.append(read(read_compact_size())) *)
Definition parse_witness (fuel0 : nat) (s : bytes) : res (list bytes * bytes) :=
  do (n, r) <- read_cs s;
  match n with
  | None => RErr ETypeError
  | Some k => parse_many read_string fuel0 k r
  end.

Definition truthy (f : option N) : bool :=
  match f with Some n => negb (n =? 0) | None => false end.
Definition is_zero (f : option N) : bool :=
  match f with Some n => n =? 0 | None => false end.

Definition deserialize (raw : bytes) : res ptx :=
  let fuel := S (length raw) in
  do (ver, s1) <- read_uint 4 raw;
  do (ic0, s2) <- read_cs s1;
  do (fl, s3) <- (if is_zero ic0
                  then do (f, a) <- read_uint 1 s2; do (ic1, b) <- read_cs a; ROk ((f, ic1), b)
                  else ROk ((Some 0, ic0), s2));
  match snd fl with
  | None => RErr ETypeError
  | Some n =>
    do (ins, s4) <- parse_many parse_in fuel n s3;
    do (oc, s5) <- read_cs s4;
    match oc with
    | None => RErr ETypeError
    | Some m =>
      do (outs, s6) <- parse_many parse_out fuel m s5;
      do (wits, s7) <- (if truthy (fst fl)
                        then do (ws, r) <- parse_many (parse_witness fuel) fuel n s6; ROk (concat ws, r)
                        else ROk ([], s6));
      do (lt, s8) <- read_uint 4 s7;
      ROk (mk_ptx ver (fst fl) ins outs wits lt)
    end
  end.

(* ====================================================================================== *)
(* round trip *)

Lemma parse_in_ser i rest : wf_in i -> parse_in (ser_in i ++ rest) = ROk (lift_in i, rest).
Proof.
  intros (Hh & Hi & Hs & Hq). unfold parse_in, ser_in.
  rewrite <- app_assoc. rewrite take_app' by (rewrite Hh; reflexivity).
  rewrite <- app_assoc. rewrite read_uint_encode by (rewrite pow256_4; lia). cbn [bind].
  rewrite <- app_assoc. rewrite read_string_encode by exact Hs. cbn [bind].
  rewrite read_uint_encode by (rewrite pow256_4; lia). cbn [bind]. reflexivity.
Qed.

Lemma parse_out_ser o rest : wf_out o -> parse_out (ser_out o ++ rest) = ROk (lift_out o, rest).
Proof.
  intros (Ha & Hs). unfold parse_out, ser_out.
  rewrite <- app_assoc. rewrite read_uint_encode by (rewrite pow256_8; lia). cbn [bind].
  rewrite read_string_encode by exact Hs. cbn [bind]. reflexivity.
Qed.

Lemma parse_many_ser {A B} (ser : A -> bytes) (f : bytes -> res (B * bytes)) (lf : A -> B)
      (P : A -> Prop) :
  (forall x rest, P x -> f (ser x ++ rest) = ROk (lf x, rest)) ->
  forall l fuel rest, (length l <= fuel)%nat -> Forall P l ->
  parse_many f fuel (N.of_nat (length l)) (concat (map ser l) ++ rest) = ROk (map lf l, rest).
Proof.
  intros Hf. induction l as [|x l IH]; intros fuel rest Hfuel Hall.
  - destruct fuel; reflexivity.
  - destruct fuel as [|fuel]; [cbn in Hfuel; lia|].
    cbn [length map concat]. cbn [parse_many].
    replace (N.of_nat (S (length l)) =? 0) with false by (symmetry; apply N.eqb_neq; lia).
    replace (N.pred (N.of_nat (S (length l)))) with (N.of_nat (length l)) by lia.
    inversion Hall as [|? ? Hx Hl]; subst.
    rewrite <- app_assoc. rewrite Hf by exact Hx. cbn [bind].
    rewrite IH by (cbn in Hfuel; try lia; assumption). cbn [bind]. reflexivity.
Qed.

Lemma ser_in_length i : (1 <= length (ser_in i))%nat.
Proof.
  unfold ser_in. rewrite !app_length, le_encode_length. lia.
Qed.
Lemma ser_out_length o : (1 <= length (ser_out o))%nat.
Proof. unfold ser_out. rewrite !app_length, le_encode_length. lia. Qed.

Lemma concat_length_ge {A} (ser : A -> bytes) l :
  (forall x, 1 <= length (ser x))%nat -> (length l <= length (concat (map ser l)))%nat.
Proof.
  intro H. induction l as [|x l IH]; cbn [map concat length]; [lia|].
  rewrite app_length. specialize (H x). lia.
Qed.

Lemma cs_encode_count_nonzero n : n <> 0 -> n < 18446744073709551616 ->
  forall rest, read_cs (cs_encode n ++ rest) = ROk (Some n, rest) /\ is_zero (Some n) = false.
Proof.
  intros Hn Hlt rest. split; [apply read_cs_encode; exact Hlt|].
  cbn. apply N.eqb_neq. exact Hn.
Qed.

(* the reader on the legacy encoding of a well-formed transaction, trailing bytes ignored *)
Theorem deserialize_serialize t rest : wf_tx t -> deserialize (serialize t ++ rest) = ROk (lift t).
Proof.
  intros (Hv & Hl & Hne & Hni & Hno & Hins & Houts).
  unfold deserialize.
  set (fuel := S (length (serialize t ++ rest))).
  assert (Hfi : (length (tx_ins t) <= fuel)%nat).
  { subst fuel. unfold serialize, ser_ins. rewrite !app_length.
    pose proof (concat_length_ge ser_in (tx_ins t) ser_in_length). lia. }
  assert (Hfo : (length (tx_outs t) <= fuel)%nat).
  { subst fuel. unfold serialize, ser_outs. rewrite !app_length.
    pose proof (concat_length_ge ser_out (tx_outs t) ser_out_length). lia. }
  clearbody fuel.
  unfold serialize. rewrite <- app_assoc.
  rewrite read_uint_encode by (rewrite pow256_4; lia). cbn [bind].
  unfold ser_ins. rewrite <- !app_assoc.
  rewrite read_cs_encode by exact Hni. cbn [bind].
  assert (Hz : is_zero (Some (N.of_nat (length (tx_ins t)))) = false).
  { cbn. apply N.eqb_neq. destruct (tx_ins t); [congruence | cbn; lia]. }
  rewrite Hz. cbn [bind snd fst].
  rewrite (parse_many_ser ser_in parse_in lift_in wf_in) by (try assumption; intros; apply parse_in_ser; assumption).
  cbn [bind]. unfold ser_outs. rewrite <- !app_assoc.
  rewrite read_cs_encode by exact Hno. cbn [bind].
  rewrite (parse_many_ser ser_out parse_out lift_out wf_out) by (try assumption; intros; apply parse_out_ser; assumption).
  cbn [bind]. change (truthy (Some 0)) with false. cbv iota. cbn [bind].
  rewrite read_uint_encode by (rewrite pow256_4; lia). cbn [bind]. reflexivity.
Qed.

Lemma lift_in_inj a b : lift_in a = lift_in b -> a = b.
Proof. destruct a, b. unfold lift_in. cbn. intro H. inversion H. reflexivity. Qed.
Lemma lift_out_inj a b : lift_out a = lift_out b -> a = b.
Proof. destruct a, b. unfold lift_out. cbn. intro H. inversion H. reflexivity. Qed.
Lemma map_inj {A B} (f : A -> B) : (forall a b, f a = f b -> a = b) ->
  forall l1 l2, map f l1 = map f l2 -> l1 = l2.
Proof.
  intros Hf. induction l1 as [|x l1 IH]; intros [|y l2] H; cbn in H; try discriminate; [reflexivity|].
  inversion H. f_equal; [apply Hf; assumption | apply IH; assumption].
Qed.
Lemma lift_inj a b : lift a = lift b -> a = b.
Proof.
  destruct a, b. unfold lift, lift_with. cbn. intro H. inversion H.
  f_equal; [apply (map_inj lift_in lift_in_inj) | apply (map_inj lift_out lift_out_inj)]; assumption.
Qed.

(* the encoding determines the transaction, even when followed by arbitrary bytes *)
Theorem serialize_prefix_free t1 t2 r1 r2 : wf_tx t1 -> wf_tx t2 ->
  serialize t1 ++ r1 = serialize t2 ++ r2 -> t1 = t2 /\ r1 = r2.
Proof.
  intros H1 H2 E.
  pose proof (deserialize_serialize t1 r1 H1) as D1.
  pose proof (deserialize_serialize t2 r2 H2) as D2.
  rewrite E in D1. rewrite D1 in D2. assert (L : lift t1 = lift t2) by congruence. apply lift_inj in L. subst t2.
  split; [reflexivity|]. apply app_inv_head in E. exact E.
Qed.

Theorem serialize_injective t1 t2 : wf_tx t1 -> wf_tx t2 -> serialize t1 = serialize t2 -> t1 = t2.
Proof.
  intros H1 H2 E. apply (serialize_prefix_free t1 t2 [] [] H1 H2). rewrite E. reflexivity.
Qed.

(* writing what was read *)
Lemma pser_list_lift {A B} (f : B -> res bytes) (lf : A -> B) (ser : A -> bytes) (P : A -> Prop) :
  (forall x, P x -> f (lf x) = ROk (ser x)) ->
  forall l, Forall P l -> pser_list f (map lf l) = ROk (concat (map ser l)).
Proof.
  intros Hf. induction l as [|x l IH]; intro Hall; [reflexivity|].
  inversion Hall; subst. cbn [map pser_list concat]. rewrite Hf by assumption. cbn [bind].
  rewrite IH by assumption. cbn [bind]. reflexivity.
Qed.

Lemma pser_in_lift i : wf_in i -> pser_in (lift_in i) = ROk (ser_in i).
Proof.
  intros (Hh & Hi & Hs & Hq). unfold pser_in, lift_in, ser_in. cbn [pi_index pi_seq pi_hash pi_script].
  rewrite !enc_uint_some by (rewrite pow256_4; lia). cbn [bind]. reflexivity.
Qed.
Lemma pser_out_lift o : wf_out o -> pser_out (lift_out o) = ROk (ser_out o).
Proof.
  intros (Ha & Hs). unfold pser_out, lift_out, ser_out. cbn [po_amount po_script].
  rewrite enc_uint_some by (rewrite pow256_8; lia). cbn [bind]. reflexivity.
Qed.

(* the Python-faithful writer on a well-formed transaction is [serialize]; flag and witnesses
   are never written *)
Theorem pser_lift_with t flag wits : wf_tx t -> pser (lift_with flag wits t) = ROk (serialize t).
Proof.
  intros (Hv & Hl & Hne & Hni & Hno & Hins & Houts).
  unfold pser, lift_with, serialize, ser_ins, ser_outs.
  cbn [p_version p_ins p_outs p_locktime].
  rewrite !enc_uint_some by (rewrite pow256_4; lia). cbn [bind].
  rewrite (pser_list_lift pser_in lift_in ser_in wf_in pser_in_lift) by assumption. cbn [bind].
  rewrite (pser_list_lift pser_out lift_out ser_out wf_out pser_out_lift) by assumption. cbn [bind].
  rewrite !map_length. reflexivity.
Qed.

Corollary pser_lift t : wf_tx t -> pser (lift t) = ROk (serialize t).
Proof. apply pser_lift_with. Qed.

(* ---------- sizes (InputOutput.size, Transaction.size, Transaction.base_size) ---------- *)
Definition string_size (s : bytes) : nat := (cs_width (N.of_nat (length s)) + length s)%nat.
Definition in_size (i : txin) : nat := (length (ti_hash i) + 4 + string_size (ti_script i) + 4)%nat.
Definition out_size (o : txout) : nat := (8 + string_size (to_script o))%nat.
Definition base_size (t : tx) : nat :=
  (4 + cs_width (N.of_nat (length (tx_ins t))) + cs_width (N.of_nat (length (tx_outs t))) + 4)%nat.
Definition tx_size (t : tx) : nat :=
  (base_size t + list_sum (map in_size (tx_ins t)) + list_sum (map out_size (tx_outs t)))%nat.

Lemma ser_string_size s : length (ser_string s) = string_size s.
Proof. unfold ser_string, string_size. rewrite app_length, cs_encode_length. reflexivity. Qed.
Lemma ser_in_size i : length (ser_in i) = in_size i.
Proof. unfold ser_in, in_size. rewrite !app_length, !le_encode_length, ser_string_size. lia. Qed.
Lemma ser_out_size o : length (ser_out o) = out_size o.
Proof. unfold ser_out, out_size. rewrite !app_length, !le_encode_length, ser_string_size. lia. Qed.
Lemma concat_map_length {A} (ser : A -> bytes) (sz : A -> nat) :
  (forall x, length (ser x) = sz x) -> forall l, length (concat (map ser l)) = list_sum (map sz l).
Proof.
  intros H l. induction l as [|x l IH]; [reflexivity|].
  cbn [map concat list_sum]. rewrite app_length, H, IH. reflexivity.
Qed.

(* the number of bytes written is the sum of the parts, for every transaction *)
Theorem serialize_length t : length (serialize t) = tx_size t.
Proof.
  unfold serialize, tx_size, base_size, ser_ins, ser_outs.
  rewrite !app_length, !le_encode_length, !cs_encode_length.
  rewrite (concat_map_length ser_in in_size ser_in_size).
  rewrite (concat_map_length ser_out out_size ser_out_size). lia.
Qed.
