(* Wire/CompactSize.v -- stream primitives of lbry/wallet/bcd_data_stream.py (BCDataStream):
   short-read aware [take], fixed-width little-endian reads that return Python's None on an
   exhausted stream and struct.error on a short one, Bitcoin's compact size, length-prefixed strings.
   Definitions and their lemmas live together here (shared wire library, like Lib/Bytes.v).
   No axioms. *)
From Coq Require Import NArith ZArith List Bool Lia.
From Coq.Strings Require Import Byte.
From LV Require Import Lib.Bytes.
Import ListNotations.
Local Open Scope N_scope.

Ltac Zify.zify_post_hook ::= Z.to_euclidean_division_equations.

(* ---------- result type: the error class the Python code raises ---------- *)
Inductive err := ETypeError | EStructError | EOverflowError | EOutOfFuel.
Inductive res (A : Type) := ROk (a : A) | RErr (e : err).
Arguments ROk {A} a.
Arguments RErr {A} e.

Definition bind {A B : Type} (r : res A) (f : A -> res B) : res B :=
  match r with ROk a => f a | RErr e => RErr e end.

Notation "'do' p <- a ; b" := (bind a (fun p => b))
  (at level 200, p pattern, a at level 100, b at level 200, right associativity).

(* ---------- BytesIO.read(n): at most n bytes, fewer when the stream is short ---------- *)
Fixpoint take (n : N) (s : bytes) : bytes * bytes :=
  match s with
  | [] => ([], [])
  | b :: r => if n =? 0 then ([], s)
              else let (a, c) := take (N.pred n) r in (b :: a, c)
  end.

(* _read_struct(fmt): b'' is falsy -> returns None; a short buffer makes fmt.unpack raise
   struct.error; otherwise the little-endian value. *)
Definition read_uint (w : nat) (s : bytes) : res (option N * bytes) :=
  match s with
  | [] => ROk (None, [])
  | _ :: _ => let (a, r) := take (N.of_nat w) s in
              if Nat.eqb (length a) w then ROk (Some (le_decode a), r) else RErr EStructError
  end.

(* write_uintN(val): struct.error when val is None or does not fit *)
Definition enc_uint (w : nat) (v : option N) : res bytes :=
  match v with
  | None => RErr EStructError
  | Some n => if n <? 256 ^ N.of_nat w then ROk (le_encode w n) else RErr EStructError
  end.

(* write_compact_size *)
Definition cs_encode (n : N) : bytes :=
  if n <? 253 then [byte_of_N n]
  else if n <=? 65535 then byte_of_N 253 :: le_encode 2 n
  else if n <=? 4294967295 then byte_of_N 254 :: le_encode 4 n
  else byte_of_N 255 :: le_encode 8 n.

(* read_compact_size: `size < 253` on None raises TypeError; the wide reads may themselves
   return None (exhausted stream). Non-minimal encodings are accepted, as in the code. *)
Definition read_cs (s : bytes) : res (option N * bytes) :=
  do (first, r) <- read_uint 1 s;
  match first with
  | None => RErr ETypeError
  | Some size =>
      if size <? 253 then ROk (Some size, r)
      else if size =? 253 then read_uint 2 r
      else if size =? 254 then read_uint 4 r
      else read_uint 8 r
  end.

(* stream.read(n): n = None reads everything; n > sys.maxsize (2^63-1) raises OverflowError *)
Definition MAXSIZE1 : N := 9223372036854775808.
Definition read_bytes (n : option N) (s : bytes) : res (bytes * bytes) :=
  match n with
  | None => ROk (s, [])
  | Some k => if k <? MAXSIZE1 then ROk (take k s) else RErr EOverflowError
  end.

(* read_string / write_string *)
Definition read_string (s : bytes) : res (bytes * bytes) :=
  do (n, r) <- read_cs s; read_bytes n r.
Definition ser_string (s : bytes) : bytes := cs_encode (N.of_nat (length s)) ++ s.

(* ====================================================================================== *)
(* lemmas *)

Lemma take_0 s : take 0 s = ([], s).
Proof. destruct s; reflexivity. Qed.

Lemma take_app a r : take (N.of_nat (length a)) (a ++ r) = (a, r).
Proof.
  induction a as [|x a IH].
  - apply take_0.
  - cbn [length app take].
    replace (N.of_nat (S (length a)) =? 0) with false by (symmetry; apply N.eqb_neq; lia).
    replace (N.pred (N.of_nat (S (length a)))) with (N.of_nat (length a)) by lia.
    rewrite IH. reflexivity.
Qed.

Lemma take_app' n a r : n = N.of_nat (length a) -> take n (a ++ r) = (a, r).
Proof. intros ->. apply take_app. Qed.

(* what [take] returns in general: a split of the input, no longer than asked, and short only
   when the stream ended *)
Lemma take_spec n s a c : take n s = (a, c) ->
  s = a ++ c /\ N.of_nat (length a) <= n /\ (N.of_nat (length a) = n \/ c = []).
Proof.
  revert n a c. induction s as [|b r IH]; intros n a c H.
  - cbn in H. inversion H; subst. cbn. split; [reflexivity|]. split; [lia|]. right. reflexivity.
  - cbn [take] in H. destruct (N.eqb_spec n 0) as [E|E].
    + inversion H; subst. cbn. split; [reflexivity|]. split; [lia|]. left. reflexivity.
    + destruct (take (N.pred n) r) as [a' c'] eqn:T. inversion H; subst.
      destruct (IH _ _ _ T) as (H1 & H2 & H3). subst r.
      cbn [length app]. split; [reflexivity|]. split; [lia|].
      destruct H3 as [H3|H3]; [left; lia | right; exact H3].
Qed.

Lemma take_length_rest n s a c : take n s = (a, c) -> (length c <= length s)%nat.
Proof. intro H. apply take_spec in H as (-> & _). rewrite app_length. lia. Qed.

Lemma read_uint_nonempty w s : s <> [] ->
  read_uint w s = let (a, r) := take (N.of_nat w) s in
                  if Nat.eqb (length a) w then ROk (Some (le_decode a), r) else RErr EStructError.
Proof. destruct s; [congruence | reflexivity]. Qed.

Lemma le_encode_S_nonempty w v rest : le_encode (S w) v ++ rest <> [].
Proof. cbn [le_encode app]. discriminate. Qed.

(* reading back a fixed-width integer that was written *)
Lemma read_uint_encode w v rest : v < 256 ^ N.of_nat (S w) ->
  read_uint (S w) (le_encode (S w) v ++ rest) = ROk (Some v, rest).
Proof.
  intro H. rewrite read_uint_nonempty by apply le_encode_S_nonempty.
  rewrite take_app' by (rewrite le_encode_length; reflexivity).
  rewrite le_encode_length, Nat.eqb_refl. rewrite le_decode_encode by exact H. reflexivity.
Qed.

Lemma read_uint1_cons b s : read_uint 1 (b :: s) = ROk (Some (N_of_byte b), s).
Proof.
  unfold read_uint. cbn [take N.of_nat Pos.of_succ_nat].
  change (1 =? 0) with false. cbv iota. change (N.pred 1) with 0. rewrite take_0.
  cbn [length Nat.eqb le_decode]. f_equal. f_equal. f_equal. lia.
Qed.

Lemma enc_uint_some w v : v < 256 ^ N.of_nat w -> enc_uint w (Some v) = ROk (le_encode w v).
Proof. intro H. unfold enc_uint. apply N.ltb_lt in H. rewrite H. reflexivity. Qed.

Lemma enc_uint_ok w v b : enc_uint w v = ROk b ->
  exists n, v = Some n /\ n < 256 ^ N.of_nat w /\ b = le_encode w n.
Proof.
  unfold enc_uint. destruct v as [n|]; [|discriminate].
  destruct (N.ltb_spec n (256 ^ N.of_nat w)); [|discriminate].
  intro E. inversion E. exists n. split; [reflexivity|]. split; [assumption | reflexivity].
Qed.

(* ---------- compact size ---------- *)

Lemma pow256_1 : 256 ^ N.of_nat 1 = 256. Proof. reflexivity. Qed.
Lemma pow256_2 : 256 ^ N.of_nat 2 = 65536. Proof. reflexivity. Qed.
Lemma pow256_4 : 256 ^ N.of_nat 4 = 4294967296. Proof. reflexivity. Qed.
Lemma pow256_8 : 256 ^ N.of_nat 8 = 18446744073709551616. Proof. reflexivity. Qed.

(* width of the encoding: 1, 3, 5 or 9 bytes, the minimal one for the value *)
Definition cs_width (n : N) : nat :=
  if n <? 253 then 1 else if n <=? 65535 then 3 else if n <=? 4294967295 then 5 else 9.

Lemma cs_encode_length n : length (cs_encode n) = cs_width n.
Proof.
  unfold cs_encode, cs_width.
  destruct (n <? 253); [reflexivity|].
  destruct (n <=? 65535); [cbn [length]; rewrite le_encode_length; reflexivity|].
  destruct (n <=? 4294967295); cbn [length]; rewrite le_encode_length; reflexivity.
Qed.

Lemma cs_encode_nonempty n rest : cs_encode n ++ rest <> [].
Proof.
  unfold cs_encode. destruct (n <? 253); [discriminate|].
  destruct (n <=? 65535); [discriminate|]. destruct (n <=? 4294967295); discriminate.
Qed.

Lemma read_cs_cons b s : read_cs (b :: s) =
  let size := N_of_byte b in
  if size <? 253 then ROk (Some size, s)
  else if size =? 253 then read_uint 2 s
  else if size =? 254 then read_uint 4 s
  else read_uint 8 s.
Proof. unfold read_cs. rewrite read_uint1_cons. reflexivity. Qed.

Theorem read_cs_encode n rest : n < 18446744073709551616 ->
  read_cs (cs_encode n ++ rest) = ROk (Some n, rest).
Proof.
  intro H. unfold cs_encode.
  destruct (N.ltb_spec n 253) as [H1|H1].
  - cbn [app]. rewrite read_cs_cons. cbv zeta.
    rewrite byte_of_N_small by lia. apply N.ltb_lt in H1. rewrite H1. reflexivity.
  - destruct (N.leb_spec n 65535) as [H2|H2]; [|destruct (N.leb_spec n 4294967295) as [H3|H3]].
    + cbn [app]. rewrite read_cs_cons. cbv zeta. rewrite byte_of_N_small by lia.
      change (253 <? 253) with false. change (253 =? 253) with true. cbv iota.
      apply read_uint_encode. rewrite pow256_2. lia.
    + cbn [app]. rewrite read_cs_cons. cbv zeta. rewrite byte_of_N_small by lia.
      change (254 <? 253) with false. change (254 =? 253) with false. change (254 =? 254) with true.
      cbv iota. apply read_uint_encode. rewrite pow256_4. lia.
    + cbn [app]. rewrite read_cs_cons. cbv zeta. rewrite byte_of_N_small by lia.
      change (255 <? 253) with false. change (255 =? 253) with false. change (255 =? 254) with false.
      cbv iota. apply read_uint_encode. rewrite pow256_8. lia.
Qed.

(* minimality: no shorter compact-size form decodes to n (the three wide forms hold at most
   2, 4, 8 bytes; a value needing the wider form does not fit the narrower) *)
Lemma cs_width_minimal n : n < 18446744073709551616 ->
  (cs_width n = 1%nat /\ n < 253) \/
  (cs_width n = 3%nat /\ 253 <= n < 65536) \/
  (cs_width n = 5%nat /\ 65536 <= n < 4294967296) \/
  (cs_width n = 9%nat /\ 4294967296 <= n).
Proof.
  intro H. unfold cs_width.
  destruct (N.ltb_spec n 253); [left; split; [reflexivity | lia]|].
  destruct (N.leb_spec n 65535); [right; left; split; [reflexivity | lia]|].
  destruct (N.leb_spec n 4294967295); [right; right; left; split; [reflexivity | lia]|].
  right; right; right. split; [reflexivity | lia].
Qed.

(* whatever read_cs returns as a value is below 2^64 *)
Lemma read_uint_lt w s v r : read_uint w s = ROk (Some v, r) -> v < 256 ^ N.of_nat w.
Proof.
  unfold read_uint. destruct s as [|b s]; [discriminate|].
  destruct (take (N.of_nat w) (b :: s)) as [a c].
  destruct (Nat.eqb_spec (length a) w) as [E|E]; [|discriminate].
  intro H. inversion H; subst. apply le_decode_lt.
Qed.

Lemma read_uint_rest w s v r : read_uint w s = ROk (v, r) -> (length r <= length s)%nat.
Proof.
  unfold read_uint. destruct s as [|b s]; [intro H; inversion H; cbn; lia|].
  destruct (take (N.of_nat w) (b :: s)) as [a c] eqn:T.
  destruct (Nat.eqb (length a) w); [|discriminate].
  intro H. inversion H; subst. eapply take_length_rest; eassumption.
Qed.

Lemma read_cs_lt s v r : read_cs s = ROk (Some v, r) -> v < 18446744073709551616.
Proof.
  destruct s as [|b s]; [discriminate|]. rewrite read_cs_cons. cbv zeta.
  pose proof (N_of_byte_lt b) as Hb.
  destruct (N.ltb_spec (N_of_byte b) 253).
  - intro G; inversion G; subst. lia.
  - destruct (N_of_byte b =? 253); [intro G; apply read_uint_lt in G; rewrite pow256_2 in G; lia|].
    destruct (N_of_byte b =? 254); intro G; apply read_uint_lt in G;
      [rewrite pow256_4 in G | rewrite pow256_8 in G]; lia.
Qed.

(* a successful read_cs consumes at least one byte *)
Lemma read_cs_rest s v r : read_cs s = ROk (v, r) -> (length r < length s)%nat.
Proof.
  destruct s as [|b s]; [discriminate|]. rewrite read_cs_cons. cbv zeta. cbn [length].
  destruct (N_of_byte b <? 253).
  - intro H; inversion H; subst. lia.
  - destruct (N_of_byte b =? 253); [intro H; apply read_uint_rest in H; lia|].
    destruct (N_of_byte b =? 254); intro H; apply read_uint_rest in H; lia.
Qed.

Lemma read_bytes_rest n s a r : read_bytes n s = ROk (a, r) -> (length r <= length s)%nat.
Proof.
  unfold read_bytes. destruct n as [k|].
  - destruct (k <? MAXSIZE1); [|discriminate]. intro H. inversion H as [T].
    eapply take_length_rest; eassumption.
  - intro H; inversion H; subst. cbn. lia.
Qed.

Lemma read_string_rest s a r : read_string s = ROk (a, r) -> (length r < length s)%nat.
Proof.
  unfold read_string. destruct (read_cs s) as [[n r0]|e] eqn:E; cbn [bind]; [|discriminate].
  intro H. apply read_cs_rest in E. apply read_bytes_rest in H. lia.
Qed.

(* ---------- strings ---------- *)
Theorem read_string_encode s rest : N.of_nat (length s) < MAXSIZE1 ->
  read_string (ser_string s ++ rest) = ROk (s, rest).
Proof.
  intro H. unfold read_string, ser_string. rewrite <- app_assoc.
  rewrite read_cs_encode by (unfold MAXSIZE1 in H; lia). cbn [bind].
  unfold read_bytes. apply N.ltb_lt in H. rewrite H. rewrite take_app. reflexivity.
Qed.

Lemma ser_string_nonempty s rest : ser_string s ++ rest <> [].
Proof. unfold ser_string. rewrite <- app_assoc. apply cs_encode_nonempty. Qed.
