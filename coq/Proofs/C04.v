(* C04 proofs: the code-shaped preimage equals the declarative SIGHASH_ALL preimage; equal preimages bind
   every signed field; the channel digest pieces are injective under their fixed widths. *)
From Coq Require Import NArith ZArith List Bool Lia.
From Coq.Strings Require Import Byte.
From LV Require Import Lib.Bytes Wire.CompactSize Wire.Tx Model.C04.
Import ListNotations.
Local Open Scope N_scope.

(* ---------- preimage = spec ---------- *)
Lemma sig_ins_length ins : forall i s, length (sig_ins ins i s) = length ins.
Proof.
  induction ins as [|x r IH]; intros i s; [reflexivity|].
  destruct i; cbn [sig_ins length]; [rewrite map_length; reflexivity | rewrite IH; reflexivity].
Qed.

Lemma spec_inputs_blank r : forall j i s, (j > i)%nat ->
  spec_inputs r j i s = concat (map ser_in (map (fun y => set_script y []) r)).
Proof.
  induction r as [|x r IH]; intros j i s H; [reflexivity|].
  cbn [spec_inputs map concat]. replace (Nat.eqb j i) with false by (symmetry; apply Nat.eqb_neq; lia).
  unfold ser_in at 1. cbn [set_script ti_hash ti_index ti_script ti_seq].
  rewrite (IH (S j) i s) by lia. rewrite <- !app_assoc. reflexivity.
Qed.

Lemma spec_inputs_sig ins : forall j i s,
  spec_inputs ins j (j + i) s = concat (map ser_in (sig_ins ins i s)).
Proof.
  induction ins as [|x r IH]; intros j i s; [reflexivity|].
  destruct i as [|i'].
  - cbn [spec_inputs sig_ins map concat]. rewrite Nat.add_0_r, Nat.eqb_refl.
    unfold ser_in at 1. cbn [set_script ti_hash ti_index ti_script ti_seq].
    rewrite (spec_inputs_blank r (S j) j s) by lia. rewrite <- !app_assoc. reflexivity.
  - cbn [spec_inputs sig_ins map concat].
    replace (Nat.eqb j (j + S i')) with false by (symmetry; apply Nat.eqb_neq; lia).
    unfold ser_in at 1. cbn [set_script ti_hash ti_index ti_script ti_seq].
    replace (j + S i')%nat with (S j + i')%nat by lia. rewrite IH. rewrite <- !app_assoc. reflexivity.
Qed.

Theorem preimage_is_spec t i s : sighash_preimage t i s = sighash_spec t i s.
Proof.
  unfold sighash_preimage, sighash_spec, serialize, sig_tx, ser_ins.
  cbn [tx_version tx_ins tx_outs tx_locktime].
  rewrite sig_ins_length. rewrite <- (spec_inputs_sig (tx_ins t) 0 i s). cbn [Nat.add].
  rewrite <- !app_assoc. reflexivity.
Qed.

(* ---------- binding ---------- *)
Definition outpoint (x : txin) : bytes * N := (ti_hash x, ti_index x).

Lemma wf_set_script x s : wf_in x -> N.of_nat (length s) < MAXSIZE1 -> wf_in (set_script x s).
Proof. unfold wf_in, set_script. cbn. intros (A & B & C & D) H. repeat split; assumption. Qed.

Lemma MAXSIZE1_pos : N.of_nat (@length byte []) < MAXSIZE1.
Proof. reflexivity. Qed.

Lemma wf_sig_ins ins : forall i s, Forall wf_in ins -> N.of_nat (length s) < MAXSIZE1 ->
  Forall wf_in (sig_ins ins i s).
Proof.
  induction ins as [|x r IH]; intros i s H Hs; [constructor|].
  inversion H as [|? ? Hx Hr]; subst. destruct i; cbn [sig_ins].
  - constructor; [apply wf_set_script; assumption|].
    apply Forall_map. eapply Forall_impl; [|exact Hr]. intros y Hy. apply wf_set_script; [exact Hy | exact MAXSIZE1_pos].
  - constructor; [apply wf_set_script; [exact Hx | exact MAXSIZE1_pos] | apply IH; assumption].
Qed.

Lemma wf_sig_tx t i s : wf_tx t -> N.of_nat (length s) < MAXSIZE1 -> wf_tx (sig_tx t i s).
Proof.
  unfold wf_tx, sig_tx. cbn [tx_version tx_ins tx_outs tx_locktime].
  intros (A & B & C & D & E & F & G) Hs. rewrite sig_ins_length.
  split; [exact A|]. split; [exact B|]. split.
  - destruct (tx_ins t) as [|x r]; [congruence|]. destruct i; discriminate.
  - split; [exact D|]. split; [exact E|]. split; [apply wf_sig_ins; assumption | exact G].
Qed.

Lemma sig_ins_outpoints ins : forall i s,
  map outpoint (sig_ins ins i s) = map outpoint ins /\ map ti_seq (sig_ins ins i s) = map ti_seq ins.
Proof.
  induction ins as [|x r IH]; intros i s; [split; reflexivity|].
  destruct i; cbn [sig_ins map].
  - rewrite !map_map. split; reflexivity.
  - destruct (IH i s) as [A B]. rewrite A, B. split; reflexivity.
Qed.

(* where the non-empty script sits *)
Lemma sig_ins_scripts ins : forall i s, (i < length ins)%nat ->
  map ti_script (sig_ins ins i s) = repeat [] i ++ s :: repeat [] (length ins - S i).
Proof.
  induction ins as [|x r IH]; intros i s H; [simpl in H; lia|].
  destruct i; cbn [sig_ins map length].
  - rewrite map_map. cbn [set_script ti_script repeat app]. f_equal.
    replace (S (length r) - 1)%nat with (length r) by lia.
    clear. induction r; simpl; [reflexivity | f_equal; assumption].
  - cbn [length] in H. rewrite IH by lia. cbn [set_script ti_script repeat app]. reflexivity.
Qed.

Lemma repeat_nil_split (i1 i2 : nat) (s1 s2 : bytes) (a b : list bytes) :
  s1 <> [] -> s2 <> [] ->
  repeat [] i1 ++ s1 :: a = repeat [] i2 ++ s2 :: b -> i1 = i2 /\ s1 = s2.
Proof.
  revert i2. induction i1 as [|i1 IH]; intros i2 H1 H2 H.
  - destruct i2; cbn in H; inversion H; subst; [split; reflexivity | congruence].
  - destruct i2; cbn in H; inversion H; subst; [congruence|].
    destruct (IH i2 H1 H2 H3) as [A B]. split; congruence.
Qed.

Theorem preimage_binds t1 t2 i1 i2 s1 s2 :
  wf_tx t1 -> wf_tx t2 ->
  N.of_nat (length s1) < MAXSIZE1 -> N.of_nat (length s2) < MAXSIZE1 ->
  sighash_preimage t1 i1 s1 = sighash_preimage t2 i2 s2 ->
  tx_version t1 = tx_version t2 /\ tx_locktime t1 = tx_locktime t2 /\ tx_outs t1 = tx_outs t2 /\
  map outpoint (tx_ins t1) = map outpoint (tx_ins t2) /\ map ti_seq (tx_ins t1) = map ti_seq (tx_ins t2) /\
  ((i1 < length (tx_ins t1))%nat -> (i2 < length (tx_ins t2))%nat -> s1 <> [] -> s2 <> [] -> i1 = i2 /\ s1 = s2).
Proof.
  intros W1 W2 L1 L2 H. unfold sighash_preimage in H.
  apply serialize_prefix_free in H; [|apply wf_sig_tx; assumption|apply wf_sig_tx; assumption].
  destruct H as [H _]. unfold sig_tx in H. injection H as Hv Hi Ho Hl.
  split; [exact Hv|]. split; [exact Hl|]. split; [exact Ho|].
  destruct (sig_ins_outpoints (tx_ins t1) i1 s1) as [A1 B1].
  destruct (sig_ins_outpoints (tx_ins t2) i2 s2) as [A2 B2].
  split; [rewrite <- A1, <- A2, Hi; reflexivity|]. split; [rewrite <- B1, <- B2, Hi; reflexivity|].
  intros I1 I2 N1 N2.
  pose proof (f_equal (map ti_script) Hi) as Hs.
  rewrite sig_ins_scripts in Hs by exact I1. rewrite (sig_ins_scripts (tx_ins t2)) in Hs by exact I2.
  eapply repeat_nil_split; eassumption.
Qed.

(* ---------- channel digest pieces ---------- *)
Lemma app_inj_length {A} (a a' b b' : list A) : length a = length a' -> a ++ b = a' ++ b' -> a = a' /\ b = b'.
Proof.
  revert a'. induction a as [|x a IH]; intros [|y a'] HL H; simpl in *; try lia.
  - split; [reflexivity | exact H].
  - inversion H; subst. destruct (IH a' ltac:(lia) H2) as [E1 E2]. split; congruence.
Qed.

Lemma app_inj_length_r {A} (a a' b b' : list A) : length b = length b' -> a ++ b = a' ++ b' -> a = a' /\ b = b'.
Proof.
  intros HL H. assert (length a = length a').
  { apply (f_equal (@length A)) in H. rewrite !app_length in H. lia. }
  apply app_inj_length; assumption.
Qed.

Theorem channel_pieces_inj fo fo' ch ch' m m' :
  length fo = 36%nat -> length fo' = 36%nat -> length ch = 20%nat -> length ch' = 20%nat ->
  channel_pieces fo ch m = channel_pieces fo' ch' m' -> fo = fo' /\ ch = ch' /\ m = m'.
Proof.
  unfold channel_pieces. intros A A' B B' H.
  apply app_inj_length in H; [|congruence]. destruct H as [E1 H].
  apply app_inj_length in H; [|congruence]. destruct H as [E2 E3]. auto.
Qed.

Theorem legacy_pieces_inj a a' p p' ch ch' :
  length a = 25%nat -> length a' = 25%nat -> length ch = 20%nat -> length ch' = 20%nat ->
  legacy_pieces a p ch = legacy_pieces a' p' ch' -> a = a' /\ p = p' /\ ch = ch'.
Proof.
  unfold legacy_pieces. intros A A' B B' H.
  apply app_inj_length in H; [|congruence]. destruct H as [E1 H].
  apply app_inj_length_r in H; [|rewrite !rev_length; congruence]. destruct H as [E2 E3].
  split; [exact E1|]. split; [exact E2|].
  rewrite <- (rev_involutive ch), <- (rev_involutive ch'), E3. reflexivity.
Qed.

Theorem outpoint_bytes_inj h h' p p' : length h = 32%nat -> length h' = 32%nat -> p < 4294967296 -> p' < 4294967296 ->
  outpoint_bytes h p = outpoint_bytes h' p' -> h = h' /\ p = p'.
Proof.
  unfold outpoint_bytes. intros A A' B B' H. apply app_inj_length in H; [|congruence].
  destruct H as [E1 E2]. split; [exact E1|]. apply (le_encode_inj 4); assumption.
Qed.

Lemma outpoint_bytes_length h p : length h = 32%nat -> length (outpoint_bytes h p) = 36%nat.
Proof. intro H. unfold outpoint_bytes. rewrite app_length, le_encode_length, H. reflexivity. Qed.

(* ---------- signing / validating at the model level ---------- *)
Section Signing.
  Variable sha256 : bytes -> bytes.
  Variable pub : bytes -> bytes.
  Variable sign : bytes -> bytes -> bytes.
  Variable verify : bytes -> bytes -> bytes -> bool.
  Hypothesis verify_sign : forall sk d, verify (pub sk) d (sign sk d) = true.

  Theorem signed_validates sk fo ch m :
    is_signed_by sha256 verify (pub sk) fo ch m (sign_claim sha256 sign sk fo ch m) = true.
  Proof. unfold is_signed_by, sign_claim. apply verify_sign. Qed.

  Theorem input_signature_validates sk t i script :
    exists sg, input_signature sha256 sign sk t i script = sg ++ [byte_of_N 1] /\
               verify (pub sk) (input_digest sha256 t i script) sg = true.
  Proof. eexists. split; [reflexivity | apply verify_sign]. Qed.

  (* if validation distinguishes nothing but the digest, a changed signed object that still validates
     under the same signature exhibits either an unchanged preimage or a digest collision *)
  Theorem validation_depends_on_pieces pk fo ch m fo' ch' m' sg :
    is_signed_by sha256 verify pk fo ch m sg = true ->
    is_signed_by sha256 verify pk fo' ch' m' sg = false ->
    channel_pieces fo ch m <> channel_pieces fo' ch' m'.
  Proof. unfold is_signed_by, channel_digest. intros H1 H2 E. rewrite E in H1. congruence. Qed.
End Signing.

(* non-vacuity sample *)
Definition sample_in (k : N) : txin := mk_txin (repeat (byte_of_N k) 32) k [byte_of_N 7] 4294967295.
Definition sample_tx4 : tx := mk_tx 1 [sample_in 1; sample_in 2; sample_in 3] [mk_txout 5000 [byte_of_N 118; byte_of_N 169]] 0.
Lemma sample_tx4_wf : wf_tx sample_tx4.
Proof.
  unfold wf_tx, sample_tx4. cbn [tx_version tx_ins tx_outs tx_locktime].
  split; [reflexivity|]. split; [reflexivity|]. split; [discriminate|].
  split; [reflexivity|]. split; [reflexivity|]. split.
  - repeat constructor.
  - repeat constructor.
Qed.
