(* C08: genuine proofs of witness-serialised transactions are accepted (the leaf is the hash of the legacy
   encoding, whatever the sizes of scripts and the numbers of inputs/outputs). *)
From Coq Require Import NArith ZArith List Bool Lia.
From Coq.Strings Require Import Byte.
From LV Require Import Lib.Bytes Wire.CompactSize Wire.Tx Model.C05 Proofs.C05 Model.C08 Model.C08_Tx Proofs.C08.
Import ListNotations.
Local Open Scope N_scope.

Lemma preimage_segwit t flag wits rest : wf_tx t -> wf_wits t wits -> 0 < flag < 256 ->
  txid_preimage (serialize_segwit t flag wits ++ rest) = Some (serialize t).
Proof.
  intros Ht Hw Hf.
  (* C05's theorem holds for EVERY function in the place of sha256: instantiate it with the identity *)
  destruct (segwit_full (fun x => x) t flag wits rest Ht Hw Hf) as [Hd [Hid _]].
  unfold txid_preimage. rewrite Hd.
  unfold txid_of_raw in Hid. rewrite Hd in Hid. cbn [bind] in Hid. unfold id_of_parsed in Hid.
  assert (Htr : truthy (p_flag (lift_with flag (concat wits) t)) = true).
  { cbn [lift_with p_flag truthy]. destruct (flag =? 0) eqn:E; [apply N.eqb_eq in E; lia | reflexivity]. }
  rewrite Htr in *.
  destruct (pser (lift_with flag (concat wits) t)) as [b|e]; cbn [bind] in Hid; [|discriminate].
  assert (Hb : id_of_bytes (fun x : bytes => x) b = rev (serialize t)) by congruence.
  unfold id_of_bytes, sha256d in Hb. apply rev_inj in Hb. rewrite Hb. reflexivity.
Qed.

Lemma preimage_legacy t : wf_tx t -> tx_ins t <> [] -> txid_preimage (serialize t) = Some (serialize t).
Proof.
  intros Ht Hne. destruct (roundtrip_reserialize t [] Ht) as [p [Hd [Hp _]]]. rewrite app_nil_r in Hd.
  unfold txid_preimage. rewrite Hd, Hp. reflexivity.
Qed.

Section TxLeaf.
Variable dsha : bytes -> bytes.

(* END TO END for a witness-serialised transaction: block = the txid preimages of its transactions, the
   idx-th is the legacy encoding of t; the server returns t witness-serialised (any non-zero flag, any
   witnesses, trailing bytes) with the genuine proof: verified, position idx recorded *)
Theorem witness_tx_genuine_verified headers st pres idx t flag wits rest h arg net r :
  wf_tx t -> wf_wits t wits -> 0 < flag < 256 ->
  (idx < length pres)%nat -> nth idx pres [] = serialize t ->
  in_range headers h ->
  merkle_root dsha (map dsha pres) = Some r ->
  header_root_raw (nth (Z.to_nat h) headers []) = r ->
  effective arg net = {| m_merkle := Some (map wire (branch dsha (map dsha pres) idx));
                         m_pos := Some (Z.of_nat idx) |} ->
  exists res, maybe_verify_raw dsha headers st (serialize_segwit t flag wits ++ rest) h arg net = Some res /\
    t_verified (mv_state res) = true /\ t_position (mv_state res) = Z.of_nat idx /\
    t_height (mv_state res) = h /\ mv_outcome res = RetTx.
Proof.
  intros Ht Hw Hf Hi Hn Hr Hroot Hh He.
  unfold maybe_verify_raw. rewrite preimage_segwit by assumption.
  eexists. split; [reflexivity|]. rewrite <- Hn.
  apply (genuine_verified dsha headers st pres idx h arg net r); assumption.
Qed.
End TxLeaf.
