(* C01 announce clause: a hash is handed to the announcer only if add_blobs(..., finished=True) was called for it,
   i.e. only if the completion callback of a BlobFile fired for it (and, by Props C01 theorem 1, such a blob holds
   bytes of the announced length hashing to its name). *)
From Coq Require Import NArith List Bool Lia.
From LV Require Import Model.C01Announce.
Import ListNotations.
Local Open Scope N_scope.

(* every finished row was reported finished *)
Definition fin_ok (done : list N) (t : table) : Prop :=
  forall r, In r t -> is_fin r = true -> In (r_hash r) done.

Lemma in_upd_rows h f t r : In r (upd_rows h f t) ->
  In r t \/ exists r0, In r0 t /\ r_hash r0 = h /\ r = f r0.
Proof.
  unfold upd_rows. intros Hin. apply in_map_iff in Hin. destruct Hin as (r0 & E & Hin).
  destruct (N.eqb_spec (r_hash r0) h); subst; eauto.
Qed.

Fixpoint completed_of (ops : list aop) : list N :=
  match ops with
  | [] => []
  | AAdd h true :: r => h :: completed_of r
  | _ :: r => completed_of r
  end.

Lemma completed_app a b : completed_of (a ++ b) = completed_of a ++ completed_of b.
Proof. induction a as [|o a IH]; simpl; auto. destruct o; simpl; auto. destruct finished; simpl; congruence. Qed.

Lemma fin_ok_mono d d' t : (forall x, In x d -> In x d') -> fin_ok d t -> fin_ok d' t.
Proof. intros M F r Hin Hf. apply M. eapply F; eauto. Qed.

Lemma fin_ok_step o d t : fin_ok d t -> fin_ok (d ++ completed_of [o]) (astep o t).
Proof.
  intros F. destruct o; simpl.
  - (* AAdd *)
    unfold add_blob. destruct finished.
    + intros r Hin Hf. apply in_upd_rows in Hin. destruct Hin as [Hin|(r0 & Hin & Eh & Er)].
      * destruct (has h t).
        -- apply in_or_app; left. eapply F; eauto.
        -- apply in_app_or in Hin. destruct Hin as [Hin|[Hin|[]]].
           ++ apply in_or_app; left. eapply F; eauto.
           ++ subst r. simpl. apply in_or_app; right; simpl; auto.
      * subst r. simpl. rewrite Eh. apply in_or_app; right; simpl; auto.
    + simpl. rewrite app_nil_r. destruct (has h t); auto.
      intros r Hin Hf. apply in_app_or in Hin. destruct Hin as [Hin|[Hin|[]]]; [eapply F; eauto|].
      subst r. discriminate.
  - rewrite app_nil_r. intros r Hin Hf. apply in_upd_rows in Hin. destruct Hin as [Hin|(r0 & Hin & Eh & Er)].
    eapply F; eauto. subst r. simpl in *. apply (F r0); auto.
  - rewrite app_nil_r. intros r Hin Hf. apply in_upd_rows in Hin. destruct Hin as [Hin|(r0 & Hin & Eh & Er)].
    eapply F; eauto. subst r. destruct (is_fin r0) eqn:E0; [|rewrite E0 in Hf; discriminate].
    simpl. apply (F r0); auto.
  - rewrite app_nil_r. intros r Hin Hf. apply in_upd_rows in Hin. destruct Hin as [Hin|(r0 & Hin & Eh & Er)].
    eapply F; eauto. subst r. simpl in *. apply (F r0); auto.
  - rewrite app_nil_r. intros r Hin Hf. apply in_upd_rows in Hin. destruct Hin as [Hin|(r0 & Hin & Eh & Er)].
    eapply F; eauto. subst r. discriminate.
  - rewrite app_nil_r. intros r Hin Hf. unfold delete_row in Hin. apply filter_In in Hin. destruct Hin. eapply F; eauto.
Qed.

Lemma fin_ok_run ops : forall d t, fin_ok d t -> fin_ok (d ++ completed_of ops) (arun ops t).
Proof.
  induction ops as [|o ops IH]; intros d t F.
  - simpl. rewrite app_nil_r; auto.
  - change (arun (o :: ops) t) with (arun ops (astep o t)).
    replace (d ++ completed_of (o :: ops)) with ((d ++ completed_of [o]) ++ completed_of ops).
    + apply IH. apply fin_ok_step; auto.
    + rewrite <- app_assoc. f_equal. symmetry. apply (completed_app [o] ops).
Qed.

Lemma announce_only_completed ops head now h :
  In h (to_announce head now (arun ops [])) -> In h (completed_of ops).
Proof.
  intros Hin. unfold to_announce in Hin. apply in_map_iff in Hin. destruct Hin as (r & E & Hin).
  apply filter_In in Hin. destruct Hin as (Hin & Hc).
  apply andb_true_iff in Hc. destruct Hc as (Hc & _). apply andb_true_iff in Hc. destruct Hc as (_ & Hf).
  assert (F : fin_ok ([] ++ completed_of ops) (arun ops [])) by (apply fin_ok_run; intros r0 []).
  subst h. apply (F r); auto.
Qed.

(* the head-and-sd-only list is a sub-list of the announce-everything list *)
Lemma head_only_subset now t h : In h (to_announce true now t) -> In h (to_announce false now t).
Proof.
  unfold to_announce. intros Hin. apply in_map_iff in Hin. destruct Hin as (r & E & Hin).
  apply filter_In in Hin. destruct Hin as (Hin & Hc). apply in_map_iff. exists r. split; auto.
  apply filter_In. split; auto. apply andb_true_iff in Hc. destruct Hc as (Hc & _). rewrite Hc. reflexivity.
Qed.

(* a blob only known from a stream descriptor, or whose download failed, is never handed out: its row is pending *)
Lemma pending_not_announced head now t h :
  (forall r, In r t -> r_hash r = h -> is_fin r = false) -> ~ In h (to_announce head now t).
Proof.
  intros P Hin. unfold to_announce in Hin. apply in_map_iff in Hin. destruct Hin as (r & E & Hin).
  apply filter_In in Hin. destruct Hin as (Hin & Hc).
  apply andb_true_iff in Hc. destruct Hc as (Hc & _). apply andb_true_iff in Hc. destruct Hc as (_ & Hf).
  rewrite (P r Hin E) in Hf. discriminate.
Qed.
