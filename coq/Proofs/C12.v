(* C12 proofs.  Part B (paging) first, then D (finder), A (data store), C (compact addresses). *)
From Coq Require Import NArith ZArith List Bool Arith Lia Permutation.
From Coq.Strings Require Import Byte.
From LV Require Import Lib.Bytes Model.C12.
Import ListNotations.
Ltac Zify.zify_post_hook ::= Z.to_euclidean_division_equations.

(* ------------------------------------------------------------------------------------------ *)
(* list facts                                                                                  *)
(* ------------------------------------------------------------------------------------------ *)
Lemma NoDup_app_inv {A} (a b : list A) :
  NoDup (a ++ b) -> NoDup a /\ NoDup b /\ (forall x, In x a -> ~ In x b).
Proof.
  induction a as [|x a IH]; simpl; intro H.
  - repeat split; auto. constructor.
  - inversion H as [|? ? Hn Hd]; subst. destruct (IH Hd) as (Ha & Hb & Hab).
    split; [|split]; auto.
    + constructor; auto. intro Hi. apply Hn. apply in_or_app. now left.
    + intros y [->|Hy]; auto. intro Hy. apply Hn. apply in_or_app. now right.
Qed.

Lemma NoDup_app_intro {A} (a b : list A) :
  NoDup a -> NoDup b -> (forall x, In x a -> ~ In x b) -> NoDup (a ++ b).
Proof.
  induction a as [|x a IH]; simpl; intros Ha Hb Hab; auto.
  inversion Ha as [|? ? Hn Hd]; subst. constructor.
  - intro Hi. apply in_app_or in Hi. destruct Hi as [Hi|Hi]; [contradiction|].
    exact (Hab x (or_introl eq_refl) Hi).
  - apply IH; auto; intros y Hy; apply Hab; now right.
Qed.

Lemma firstn_add {A} (a b : nat) (l : list A) : firstn a l ++ firstn b (skipn a l) = firstn (a + b) l.
Proof.
  revert l. induction a as [|a IH]; intro l; simpl; auto.
  destruct l as [|x l]; simpl.
  - now rewrite firstn_nil.
  - now rewrite IH.
Qed.

Lemma NoDup_firstn {A} n (l : list A) : NoDup l -> NoDup (firstn n l).
Proof.
  intro H. rewrite <- (firstn_skipn n l) in H. now apply NoDup_app_inv in H.
Qed.

Lemma firstn_ge_all {A} n (l : list A) : length l <= n -> firstn n l = l.
Proof. apply firstn_all2. Qed.

(* ------------------------------------------------------------------------------------------ *)
(* B. paging                                                                                   *)
(* ------------------------------------------------------------------------------------------ *)
Section PagingProofs.
  Context {A : Type}.
  Variable eqb : A -> A -> bool.
  Hypothesis eqb_spec : forall x y, eqb x y = true <-> x = y.

  Lemma mem_In x l : mem eqb x l = true <-> In x l.
  Proof.
    unfold mem. rewrite existsb_exists. split.
    - intros (y & Hy & He). apply eqb_spec in He. now subst.
    - intro H. exists x. split; auto. now apply eqb_spec.
  Qed.

  Lemma mem_notIn x l : mem eqb x l = false <-> ~ In x l.
  Proof. rewrite <- mem_In. destruct (mem eqb x l); split; congruence. Qed.

  Lemma union_set_fresh l items :
    NoDup items -> (forall x, In x items -> ~ In x l) -> union_set eqb l items = l ++ items.
  Proof.
    revert l. induction items as [|x items IH]; intros l Hnd Hfr; simpl.
    - now rewrite app_nil_r.
    - inversion Hnd; subst. unfold union_set in *. simpl. unfold add_set at 2.
      assert (Hm : mem eqb x l = false) by (apply mem_notIn; apply Hfr; now left).
      rewrite Hm. rewrite IH; auto.
      + now rewrite <- app_assoc.
      + intros y Hy Hin. apply in_app_or in Hin. destruct Hin as [Hin|[->|[]]].
        * apply (Hfr y); auto. now right.
        * contradiction.
  Qed.

  Lemma yield_new_fresh_gen items : forall seen out,
    NoDup items -> (forall x, In x items -> ~ In x seen) ->
    fold_left (fun sa x => if mem eqb x (fst sa) then sa else (fst sa ++ [x], snd sa ++ [x])) items (seen, out)
    = (seen ++ items, out ++ items).
  Proof.
    induction items as [|x items IH]; intros seen out Hnd Hfr; simpl.
    - now rewrite !app_nil_r.
    - inversion Hnd; subst.
      assert (Hm : mem eqb x seen = false) by (apply mem_notIn; apply Hfr; now left).
      rewrite Hm. rewrite IH; auto.
      + now rewrite <- !app_assoc.
      + intros y Hy Hin. apply in_app_or in Hin. destruct Hin as [Hin|[->|[]]].
        * apply (Hfr y); auto. now right.
        * contradiction.
  Qed.

  Lemma yield_new_fresh seen items :
    NoDup items -> (forall x, In x items -> ~ In x seen) -> yield_new eqb seen items = (seen ++ items, items).
  Proof. intros. unfold yield_new. now rewrite yield_new_fresh_gen. Qed.

  Lemma serve_page_spec (l : list A) p : firstn (p * K) l ++ serve_page l p = firstn (p * K + K) l.
  Proof. unfold serve_page. apply firstn_add. Qed.

  Lemma serve_page_fresh (l : list A) p :
    NoDup l -> NoDup (serve_page l p) /\ (forall x, In x (serve_page l p) -> ~ In x (firstn (p * K) l)).
  Proof.
    intro Hnd. pose proof (NoDup_firstn (p * K + K) l Hnd) as H. rewrite <- serve_page_spec in H.
    apply NoDup_app_inv in H. destruct H as (_ & Hb & Hab). split; auto.
    intros x Hx Hin. exact (Hab x Hin Hx).
  Qed.

  Lemma serve_page_length (l : list A) p : length (serve_page l p) = Nat.min K (length l - p * K).
  Proof. unfold serve_page. now rewrite firstn_length, skipn_length. Qed.

  Variable cap : option nat.
  Variable pf : nat -> nat.

  Lemma walk_honest (l : list A) : NoDup l ->
    forall fuel p asked, let lim := page_limit cap (pf (length l)) in
    p <= lim -> lim + 2 <= fuel + p ->
    let r := walk eqb cap fuel (honest_with pf l) {| pg := p; disc := firstn (p * K) l |} (firstn (p * K) l) asked in
    fst (fst r) = firstn (K * (lim + 1)) l /\ snd r = true.
  Proof.
    intros Hnd fuel. induction fuel as [|fuel IH]; intros p asked lim Hp Hf; [lia|].
    cbn [walk honest_with]. unfold page_step. cbn [pg disc].
    destruct (serve_page_fresh l p Hnd) as (Hnd_it & Hfresh).
    pose proof (serve_page_length l p) as Hlen.
    pose proof (serve_page_spec l p) as Hspec.
    destruct (serve_page l p) as [|x items] eqn:Eit.
    - (* nothing on this page *)
      cbn [is_nil yield_new fold_left fst snd]. split; auto.
      cbn [length] in Hlen. assert (length l <= p * K) by (unfold K in *; lia).
      rewrite firstn_ge_all by auto. rewrite firstn_ge_all; auto. unfold K in *. nia.
    - cbn [is_nil]. rewrite <- Eit in *. clear Eit.
      rewrite union_set_fresh by auto.
      rewrite app_length, Nat.eqb_refl.
      rewrite yield_new_fresh by auto. cbn [fst].
      rewrite Hspec.
      destruct (K <=? length (serve_page l p)) eqn:Efull; cbn [andb].
      + fold lim. destruct (p <? lim) eqn:Elt.
        * (* ask for the next page *)
          apply Nat.ltb_lt in Elt.
          replace (p * K + K) with (S p * K) by lia.
          apply IH; lia.
        * apply Nat.ltb_ge in Elt. cbn [fst snd]. split; auto.
          assert (p = lim) by lia. subst p. f_equal. lia.
      + apply Nat.leb_gt in Efull. cbn [fst snd]. split; auto.
        assert (length l < p * K + K) by lia.
        rewrite firstn_ge_all by lia. rewrite firstn_ge_all; auto. unfold K in *. nia.
  Qed.

  Theorem delivered_with_firstn (l : list A) :
    NoDup l -> page_limit cap (pf (length l)) <= length l ->
    delivered_with eqb cap pf l = firstn (K * (page_limit cap (pf (length l)) + 1)) l.
  Proof.
    intros Hnd Hle. unfold delivered_with.
    pose proof (walk_honest l Hnd (S (S (length l))) 0 []) as H. cbn zeta in H.
    simpl firstn in H. apply H; lia.
  Qed.
End PagingProofs.

Ltac divfacts x d := pose proof (Nat.div_mod x d); pose proof (Nat.mod_upper_bound x d).

(* the page loop against ANY server *)
Section PagingAnyServer.
  Context {A : Type}.
  Variable eqb : A -> A -> bool.
  Hypothesis eqb_spec : forall x y, eqb x y = true <-> x = y.

  Lemma page_step_pg cap (st : pstate) items pages :
    let r := page_step eqb cap st items pages in
    (snd r = true -> pg (fst r) = S (pg st) /\ pg st < page_limit cap pages) /\
    (snd r = false -> pg (fst r) = pg st).
  Proof.
    unfold page_step. destruct (is_nil items); cbn [fst snd pg disc]; [split; [intros HH; discriminate HH|auto]|].
    destruct (Nat.eqb _ _); cbn [fst snd pg disc]; [|split; [intros HH; discriminate HH|auto]].
    destruct (K <=? length items); cbn [fst snd pg disc]; [|split; [intros HH; discriminate HH|auto]].
    destruct (pg st <? page_limit cap pages) eqn:E; cbn [fst snd pg disc]; [|split; [intros HH; discriminate HH|auto]].
    apply Nat.ltb_lt in E. split; auto. intros HH; discriminate HH.
  Qed.

  (* with the cap, whatever the storing node answers, the client stops asking after at most c+1 requests *)
  Theorem walk_capped_terminates c (srv : nat -> list A * nat) : forall fuel st acc asked,
    pg st <= c -> c + 2 <= fuel + pg st ->
    let r := walk eqb (Some c) fuel srv st acc asked in
    snd r = true /\ length (snd (fst r)) + pg st <= length asked + c + 1.
  Proof.
    induction fuel as [|fuel IH]; intros st acc asked Hp Hf; [lia|].
    cbn [walk]. destruct (srv (pg st)) as [items pages].
    pose proof (page_step_pg (Some c) st items pages) as Hs. cbv zeta in Hs.
    destruct (page_step eqb (Some c) st items pages) as [st' again]. cbn [fst snd] in Hs.
    destruct Hs as (Hs1 & Hs2). destruct again.
    - destruct (Hs1 eq_refl) as (E1 & E2). cbn [page_limit] in E2.
      assert (Hp' : pg st' <= c) by lia. assert (Hf' : c + 2 <= fuel + pg st') by lia.
      specialize (IH st' (fst (yield_new eqb acc items)) (asked ++ [pg st]) Hp' Hf').
      cbv zeta in IH. destruct IH as (I1 & I2). split; auto.
      rewrite app_length in I2. simpl in I2. lia.
    - cbn [fst snd]. split; auto. rewrite app_length. simpl. lia.
  Qed.

  (* the loop before fac7223: a fresh full page that announces one more page always makes it ask again *)
  Lemma page_step_uncapped_again (st : pstate) items pages :
    items <> [] -> NoDup items -> (forall x, In x items -> ~ In x (disc st)) ->
    K <= length items -> pg st < pages ->
    page_step eqb None st items pages = ({| pg := S (pg st); disc := disc st ++ items |}, true).
  Proof.
    intros Hne Hnd Hfr Hk Hp. unfold page_step. destruct items as [|x items]; [congruence|]. cbn [is_nil].
    rewrite (union_set_fresh eqb eqb_spec) by auto. rewrite app_length, Nat.eqb_refl.
    apply Nat.leb_le in Hk. rewrite Hk. cbn [page_limit andb].
    apply Nat.ltb_lt in Hp. now rewrite Hp.
  Qed.

  Lemma page_step_capped_stops c (st : pstate) items pages :
    c <= pg st -> snd (page_step eqb (Some c) st items pages) = false.
  Proof.
    intro Hc. pose proof (page_step_pg (Some c) st items pages) as Hs. cbv zeta in Hs.
    destruct (page_step eqb (Some c) st items pages) as [st' again]. cbn [fst snd] in *.
    destruct again; auto. destruct Hs as (Hs1 & _). destruct (Hs1 eq_refl) as (_ & E). cbn [page_limit] in E. lia.
  Qed.
End PagingAnyServer.

Lemma paging_terminates_any_server (srv : nat -> list N * nat) (fuel : nat) :
  MAX_VALUE_PAGES + 2 <= fuel ->
  let r := walk N.eqb real_cap fuel srv {| pg := 0; disc := [] |} [] [] in
  snd r = true /\ length (snd (fst r)) <= MAX_VALUE_PAGES + 1.
Proof.
  intro H. cbv zeta. unfold real_cap.
  pose proof (walk_capped_terminates N.eqb MAX_VALUE_PAGES srv fuel {| pg := 0; disc := [] |} [] []) as W.
  cbn [pg length] in W. cbv zeta in W. destruct W as (W1 & W2); [lia|lia|]. split; auto. lia.
Qed.

Lemma pages_announced_le n : pages_announced n <= n.
Proof. unfold pages_announced, K. divfacts (n + 8 - 1) 8. lia. Qed.

Lemma pages_announced_old_le n : pages_announced_old n <= n.
Proof.
  unfold pages_announced_old, K. destruct (Nat.eqb_spec n 0); [lia|].
  change (8 + 1) with 9. divfacts n 9. lia.
Qed.

Section PagingResults.
  Context {A : Type}.
  Variable eqb : A -> A -> bool.
  Hypothesis eqb_spec : forall x y, eqb x y = true <-> x = y.

  Lemma delivered_firstn (l : list A) : NoDup l ->
    delivered eqb l = firstn (K * (Nat.min (pages_announced (length l)) MAX_VALUE_PAGES + 1)) l.
  Proof.
    intro Hnd. unfold delivered, real_cap. rewrite (delivered_with_firstn eqb eqb_spec); auto.
    unfold page_limit. pose proof (pages_announced_le (length l)). lia.
  Qed.

  (* all n <= K * (MAX_VALUE_PAGES + 1) = 264 *)
  Theorem paging_complete (l : list A) :
    NoDup l -> length l <= K * (MAX_VALUE_PAGES + 1) -> delivered eqb l = l.
  Proof.
    intros Hnd Hle. rewrite delivered_firstn by auto. apply firstn_ge_all.
    unfold pages_announced, K, MAX_VALUE_PAGES in *.
    change (4 * 8) with 32 in *. divfacts (length l + 8 - 1) 8. lia.
  Qed.

  Theorem paging_cap_exceeded (l : list A) :
    NoDup l -> K * (MAX_VALUE_PAGES + 1) < length l -> length (delivered eqb l) = K * (MAX_VALUE_PAGES + 1).
  Proof.
    intros Hnd Hlt. rewrite delivered_firstn by auto. rewrite firstn_length.
    unfold pages_announced, K, MAX_VALUE_PAGES in *.
    change (4 * 8) with 32 in *. divfacts (length l + 8 - 1) 8. lia.
  Qed.

  Theorem paging_complete_shuffled (stored shuffled : list A) :
    NoDup stored -> Permutation shuffled stored -> length stored <= K * (MAX_VALUE_PAGES + 1) ->
    Permutation (delivered eqb shuffled) stored /\ NoDup (delivered eqb shuffled).
  Proof.
    intros Hnd Hp Hle.
    assert (Hnd' : NoDup shuffled) by (eapply Permutation_NoDup; [apply Permutation_sym; eauto|auto]).
    rewrite paging_complete; auto. rewrite (Permutation_length Hp). auto.
  Qed.

  (* the code before bd444d0: complete iff n/9 + n mod 9 <= 16 *)
  Lemma delivered_old_firstn (l : list A) : NoDup l ->
    delivered_old eqb l = firstn (K * (pages_announced_old (length l) + 1)) l.
  Proof.
    intro Hnd. unfold delivered_old. rewrite (delivered_with_firstn eqb eqb_spec); auto.
    unfold page_limit. apply pages_announced_old_le.
  Qed.

  Theorem paging_old_refuted (l : list A) :
    NoDup l -> (delivered_old eqb l = l <-> good_count_old (length l) = true).
  Proof.
    intro Hnd. rewrite delivered_old_firstn by auto. unfold good_count_old. rewrite Nat.leb_le.
    unfold pages_announced_old, K. change (8 + 1) with 9.
    divfacts (length l) 9.
    destruct (Nat.eqb_spec (length l) 0) as [E0|E0].
    - rewrite E0. destruct l; [|discriminate]. simpl. split; auto. intros _. lia.
    - split.
      + intro Hq. apply (f_equal (@length A)) in Hq. rewrite firstn_length in Hq. lia.
      + intro Hq. apply firstn_ge_all. lia.
  Qed.

  Theorem paging_old_withholds (l : list A) :
    NoDup l -> good_count_old (length l) = false -> length (delivered_old eqb l) < length l.
  Proof.
    intros Hnd Hg. rewrite delivered_old_firstn by auto. rewrite firstn_length.
    unfold good_count_old in Hg. apply Nat.leb_gt in Hg.
    unfold pages_announced_old, K. change (8 + 1) with 9. divfacts (length l) 9.
    destruct (Nat.eqb_spec (length l) 0) as [E0|E0]; [rewrite E0 in Hg; simpl in Hg; lia|]. lia.
  Qed.
End PagingResults.

(* ------------------------------------------------------------------------------------------ *)
(* D. finder bookkeeping                                                                       *)
(* ------------------------------------------------------------------------------------------ *)
Lemma memN_In x l : memN x l = true <-> In x l.
Proof. apply (mem_In N.eqb). intros; apply N.eqb_eq. Qed.
Lemma memN_notIn x l : memN x l = false <-> ~ In x l.
Proof. apply (mem_notIn N.eqb). intros; apply N.eqb_eq. Qed.

Lemma addN_In x y l : In y (addN x l) <-> y = x \/ In y l.
Proof.
  unfold addN, add_set. fold (memN x l). destruct (memN x l) eqn:E.
  - apply memN_In in E. split; [now right|]. intros [->|H]; auto.
  - rewrite in_app_iff. simpl. split; intros [H|H]; auto. destruct H as [->|[]]; auto.
Qed.
Lemma addN_NoDup x l : NoDup l -> NoDup (addN x l).
Proof.
  intro H. unfold addN, add_set. fold (memN x l). destruct (memN x l) eqn:E; auto.
  apply memN_notIn in E. apply NoDup_app_intro; auto.
  - constructor; [intros []|constructor].
  - intros y Hy [->|[]]. contradiction.
Qed.
Lemma addN_length_fresh x l : ~ In x l -> length (addN x l) = S (length l).
Proof.
  intro H. apply memN_notIn in H. unfold addN, add_set. fold (memN x l). rewrite H.
  rewrite app_length. simpl. lia.
Qed.
Lemma addN_length_le x l : length l <= length (addN x l).
Proof.
  unfold addN, add_set. fold (memN x l). destruct (memN x l); auto. rewrite app_length. lia.
Qed.
Lemma addN_length_ub x l : length (addN x l) <= S (length l).
Proof.
  unfold addN, add_set. fold (memN x l). destruct (memN x l); auto. rewrite app_length. simpl. lia.
Qed.
Lemma addN_nonempty x l : addN x l <> [].
Proof.
  unfold addN, add_set. fold (memN x l). destruct (memN x l) eqn:E.
  - apply memN_In in E. destruct l; [contradiction|discriminate].
  - destruct l; discriminate.
Qed.

Lemma removeN_In x y l : In y (removeN x l) -> In y l.
Proof. unfold removeN, remove_set. rewrite filter_In. tauto. Qed.
Lemma removeN_NoDup x l : NoDup l -> NoDup (removeN x l).
Proof. apply NoDup_filter. Qed.
Lemma removeN_length x l : NoDup l -> length l <= S (length (removeN x l)).
Proof.
  unfold removeN, remove_set. induction l as [|y l IH]; intro H; simpl; [lia|].
  inversion H as [|? ? Hn Hd]; subst. destruct (N.eqb_spec x y) as [->|Ne]; simpl.
  - (* the removed element: it does not occur in the tail *)
    assert (E : filter (fun y0 => negb (y =? y0)%N) l = l).
    { clear -Hn. induction l as [|z l IH]; simpl; auto.
      destruct (N.eqb_spec y z) as [->|Nz]; simpl.
      - exfalso. apply Hn. now left.
      - f_equal. apply IH. intro Hi. apply Hn. now right. }
    rewrite E. lia.
  - specialize (IH Hd). lia.
Qed.

(* field lemmas *)
Lemma ins_active_In p q l : In q (ins_active p l) <-> q = p \/ In q l.
Proof.
  induction l as [|r l IH]; simpl.
  - intuition.
  - destruct (pdist p <? pdist r)%N; simpl; [intuition|]. rewrite IH. intuition.
Qed.

Lemma add_active_fields st p f b :
  let st' := add_active st p f b in
  f_contacted st' = f_contacted st /\ f_running st' = f_running st /\ f_on st' = f_on st /\
  f_yielded st' = f_yielded st /\ f_blob st' = f_blob st /\ f_pages st' = f_pages st /\
  f_disc st' = f_disc st /\ f_sched st' = f_sched st /\ f_seeds st' = f_seeds st /\
  (forall q, In q (f_active st') -> q = p \/ In q (f_active st)) /\
  (forall q, In q (f_active st) -> In q (f_active st')).
Proof.
  unfold add_active. cbv zeta.
  destruct (negb f && b); [repeat split; auto|].
  destruct (memN (pid p) (f_contacted st)); [repeat split; auto|].
  destruct (negb (in_active (pid p) (f_active st)) && has_id p && negb (self_id p)) eqn:E;
    [|repeat split; auto].
  unfold set_active; cbn. repeat split; auto.
  - intros q Hq. now apply ins_active_In in Hq.
  - intros q Hq. apply ins_active_In. now right.
Qed.

Lemma add_contacts_fields cs : forall st,
  let st' := add_contacts st cs in
  f_contacted st' = f_contacted st /\ f_running st' = f_running st /\ f_on st' = f_on st /\
  f_yielded st' = f_yielded st /\ f_blob st' = f_blob st /\ f_pages st' = f_pages st /\
  f_disc st' = f_disc st /\ f_sched st' = f_sched st /\ f_seeds st' = f_seeds st /\
  (forall q, In q (f_active st') -> In (pid q) (peers_of_contacts cs) \/ In q (f_active st)) /\
  (forall q, In q (f_active st) -> In q (f_active st')).
Proof.
  unfold add_contacts. induction cs as [|[c b] cs IH]; intro st; cbn [fold_left].
  - repeat split; auto.
  - specialize (IH (add_active st c false b)). cbv zeta in IH.
    destruct IH as (H1 & H2 & H3 & H4 & H5 & H6 & H7 & H8 & H9 & H10 & H11).
    destruct (add_active_fields st c false b) as (G1 & G2 & G3 & G4 & G5 & G6 & G7 & G8 & G9 & G10 & G11).
    cbn [fst snd] in *. cbv zeta.
    repeat split; try congruence.
    + intros q Hq. destruct (H10 q Hq) as [Hi|Hi].
      * left. simpl. now right.
      * destruct (G10 q Hi) as [->|Hj]; [left; simpl; now left|now right].
    + intros q Hq. apply H11. now apply G11.
Qed.

Lemma total_pages_set k l :
  fold_right (fun kv a => snd kv + a) 0 (assoc_set_nat k (S (assoc_nat k l)) l)
  = S (fold_right (fun kv a => snd kv + a) 0 l).
Proof.
  induction l as [|[k' v] l IH]; simpl; auto.
  destruct (N.eqb_spec k' k); simpl; auto. rewrite IH. lia.
Qed.

Lemma assoc_set_nat_keys k v l :
  forall x, In x (map fst (assoc_set_nat k v l)) <-> x = k \/ In x (map fst l).
Proof.
  induction l as [|[k' v'] l IH]; intro x; simpl.
  - intuition.
  - destruct (N.eqb_spec k' k) as [->|Ne]; simpl; [intuition|]. rewrite IH. intuition.
Qed.

Lemma assoc_set_nat_NoDup k v l : NoDup (map fst l) -> NoDup (map fst (assoc_set_nat k v l)).
Proof.
  induction l as [|[k' v'] l IH]; simpl; intro H.
  - constructor; [intros []|constructor].
  - inversion H as [|? ? Hn Hd]; subst. destruct (N.eqb_spec k' k) as [->|Ne]; simpl.
    + constructor; auto.
    + constructor; auto. rewrite assoc_set_nat_keys. intros [->|Hi]; auto.
Qed.

Lemma assoc_set_nat_vals k v l k0 v0 :
  In (k0, v0) (assoc_set_nat k v l) -> (k0 = k /\ v0 = v) \/ In (k0, v0) l.
Proof.
  induction l as [|[k' v'] l IH]; simpl.
  - intros [H|[]]. inversion H; auto.
  - destruct (N.eqb_spec k' k) as [->|Ne]; simpl.
    + intros [H|H]; [inversion H; auto|auto].
    + intros [H|H]; [auto|]. destruct (IH H); auto.
Qed.

Ltac inv_con := constructor; unfold total_pages in *.

Ltac conj_split := repeat match goal with |- _ /\ _ => split end.

Ltac fcbn := cbn [f_active f_contacted f_running f_on f_yielded f_blob f_pages f_disc f_sched f_seeds f_task f_pending fst snd
                    schedule set_active set_on_running set_paging set_blob set_tasks].
Ltac fcbn_in H := cbn [f_active f_contacted f_running f_on f_yielded f_blob f_pages f_disc f_sched f_seeds f_task f_pending fst snd
                    schedule set_active set_on_running set_paging set_blob set_tasks] in H.

Section FinderInv.
  Variable prm : fparams.
  Variable c : nat.
  Hypothesis Hcap : fp_cap prm = Some c.

  Record finv (st : fstate) (U : list N) : Prop := {
    inv_nd : NoDup (f_contacted st);
    inv_cU : incl (f_contacted st) U;
    inv_aU : forall q, In q (f_active st) -> In (pid q) U;
    inv_sched : f_sched st <= f_seeds st + length (f_contacted st) + total_pages st;
    inv_pk : NoDup (map fst (f_pages st));
    inv_pU : incl (map fst (f_pages st)) U;
    inv_pc : forall k v, In (k, v) (f_pages st) -> v <= c;
    inv_run : length (f_running st) <= ALPHA + f_seeds st
  }.

  Lemma finv_mono st U U' : incl U U' -> finv st U -> finv st U'.
  Proof.
    intros Hi [a b d e f g h i]. constructor; auto.
    - eapply incl_tran; eauto.
    - eapply incl_tran; eauto.
  Qed.

  Lemma finv_add_active st U p f b : In (pid p) U -> finv st U -> finv (add_active st p f b) U.
  Proof.
    intros Hp [a b' d e f' g h i].
    destruct (add_active_fields st p f b) as (G1 & G2 & G3 & G4 & G5 & G6 & G7 & G8 & G9 & G10 & G11).
    unfold total_pages in *. inv_con; rewrite ?G1, ?G2, ?G6, ?G8, ?G9; auto.
    intros q Hq. destruct (G10 q Hq) as [->|Hi]; auto.
  Qed.

  Lemma finv_add_contacts st U cs : incl (peers_of_contacts cs) U -> finv st U -> finv (add_contacts st cs) U.
  Proof.
    intros Hp [a b' d e f' g h i].
    destruct (add_contacts_fields cs st) as (G1 & G2 & G3 & G4 & G5 & G6 & G7 & G8 & G9 & G10 & G11).
    unfold total_pages in *. inv_con; rewrite ?G1, ?G2, ?G6, ?G8, ?G9; auto.
    intros q Hq. destruct (G10 q Hq) as [Hi|Hi]; auto.
  Qed.

  Lemma finv_reset st U p : finv st U -> finv (reset_closest st p) U.
  Proof.
    intros [a b d e f g h i]. unfold reset_closest, set_active, total_pages in *. inv_con; fcbn; auto.
    intros q Hq. apply filter_In in Hq. apply d. tauto.
  Qed.

  (* the loop of _search_round *)
  Lemma round_loop_inv l : forall idx st added outs st' added' outs' U,
    round_loop l idx st added outs = (st', added', outs') ->
    (forall q, In q l -> In (pid q) U) -> finv st U ->
    finv st' U /\ f_active st' = f_active st /\ f_on st' = f_on st /\ f_seeds st' = f_seeds st /\
    f_yielded st' = f_yielded st /\ f_blob st' = f_blob st /\
    length (f_running st') <= Nat.max (length (f_running st)) ALPHA /\
    (f_running st <> [] -> f_running st' <> []) /\
    (added' = added /\ st' = st \/ f_running st' <> []) /\
    (forall x, In x (f_contacted st) -> In x (f_contacted st')) /\
    f_pages st' = f_pages st /\
    (forall o, In o outs' -> In o outs \/ exists x, o = OSched x).
  Proof.
    induction l as [|p l IH]; intros idx st added outs st' added' outs' U Hr Hl Hinv; cbn [round_loop] in Hr.
    - inversion Hr; subst. conj_split; auto. lia.
    - assert (Hl' : forall q, In q l -> In (pid q) U) by (intros; apply Hl; now right).
      destruct (memN (pid p) (f_contacted st)) eqn:Ec; [eapply IH; eauto|].
      destruct (ALPHA <=? length (f_running st)) eqn:Ea; [inversion Hr; subst; conj_split; auto; lia|].
      destruct (K + length (f_running st) <? idx) eqn:Ek; [inversion Hr; subst; conj_split; auto; lia|].
      destruct (self_id p); [eapply IH; eauto|].
      destruct (self_addr p); [eapply IH; eauto|].
      apply Nat.leb_gt in Ea. apply memN_notIn in Ec.
      assert (Hinv2 : finv (schedule st (pid p) false) U).
      { destruct Hinv as [a b d e f g h i]. unfold schedule, total_pages in *. inv_con; fcbn; auto.
        - now apply addN_NoDup.
        - intros x Hx. apply addN_In in Hx. destruct Hx as [->|Hx]; auto. apply Hl. now left.
        - rewrite addN_length_fresh by auto. lia.
        - pose proof (addN_length_ub (pid p) (f_running st)). lia. }
      specialize (IH _ _ _ _ _ _ _ U Hr Hl' Hinv2).
      destruct IH as (I1 & I2 & I3 & I4 & I5 & I6 & I7 & I8 & I9 & I10 & I11 & I12).
      fcbn_in I2; fcbn_in I3; fcbn_in I4; fcbn_in I5; fcbn_in I6; fcbn_in I7; fcbn_in I8; fcbn_in I11.
      conj_split; auto.
      + pose proof (addN_length_ub (pid p) (f_running st)). lia.
      + intros _. apply I8. apply addN_nonempty.
      + right. apply I8. apply addN_nonempty.
      + intros x Hx. apply I10. fcbn. apply addN_In. now right.
      + intros o Ho. destruct (I12 o Ho) as [Hi|Hi]; auto. apply in_app_or in Hi.
        destruct Hi as [Hi|[<-|[]]]; eauto.
  Qed.

  Lemma put_result_fields st good fin st' outs :
    put_result prm st good fin = (st', outs) ->
    f_active st' = f_active st /\ f_contacted st' = f_contacted st /\ f_running st' = f_running st /\
    f_on st' = f_on st /\ f_pages st' = f_pages st /\ f_sched st' = f_sched st /\ f_seeds st' = f_seeds st /\
    f_blob st' = f_blob st /\ (fin = true -> In OFinish outs).
  Proof.
    unfold put_result. cbv zeta. intro H. inversion H; subst; clear H.
    destruct (is_nil _); conj_split; auto; intros ->; apply in_or_app; right; now left.
  Qed.

  Lemma finv_put_result st U good fin st' outs :
    put_result prm st good fin = (st', outs) -> finv st U -> finv st' U.
  Proof.
    intros H [a b d e f g h i]. apply put_result_fields in H.
    destruct H as (G1 & G2 & G3 & G4 & G5 & G6 & G7 & G8 & _).
    unfold total_pages in *. inv_con; rewrite ?G1, ?G2, ?G3, ?G5, ?G6, ?G7; auto.
  Qed.

  Lemma exhausted_fields st good st' outs :
    exhausted prm st good = (st', outs) ->
    f_active st' = f_active st /\ f_contacted st' = f_contacted st /\ f_running st' = f_running st /\
    f_on st' = f_on st /\ f_pages st' = f_pages st /\ f_sched st' = f_sched st /\ f_seeds st' = f_seeds st /\
    f_blob st' = f_blob st /\ In OFinish outs.
  Proof.
    unfold exhausted. destruct (fp_kind prm).
    - intro H. apply put_result_fields in H. intuition.
    - intro H. inversion H; subst. conj_split; auto. now left.
  Qed.

  Lemma search_round_inv st good st' outs U :
    search_round prm st good = (st', outs) -> finv st U ->
    finv st' U /\ f_on st' = f_on st /\
    length (f_running st') <= Nat.max (length (f_running st)) ALPHA /\
    (f_running st' = [] -> In OFinish outs) /\
    (forall x, In x (f_contacted st) -> In x (f_contacted st')) /\
    f_pages st' = f_pages st /\ f_seeds st' = f_seeds st.
  Proof.
    unfold search_round. intros H Hinv.
    destruct (round_loop (f_active st) 0 st 0 []) as [[st1 added] outs1] eqn:Er.
    pose proof (round_loop_inv _ _ _ _ _ _ _ _ U Er (inv_aU _ _ Hinv) Hinv)
      as (I1 & I2 & I3 & I4 & I5 & I6 & I7 & I8 & I9 & I10 & I11 & I12).
    destruct (Nat.eqb added 0 && is_nil (f_running st1)) eqn:Ex.
    - destruct (exhausted prm st1 good) as [st2 o2] eqn:Ee. inversion H; subst; clear H.
      pose proof (exhausted_fields _ _ _ _ Ee) as (G1 & G2 & G3 & G4 & G5 & G6 & G7 & G8 & G9).
      conj_split.
      + destruct I1 as [a b d e f g h i]. unfold total_pages in *.
        inv_con; rewrite ?G1, ?G2, ?G3, ?G5, ?G6, ?G7; auto.
      + congruence.
      + rewrite G3. auto.
      + intros _. apply in_or_app. now right.
      + rewrite G2. auto.
      + congruence.
      + congruence.
    - inversion H; subst; clear H. conj_split; auto.
      intro Hn. exfalso. destruct I9 as [[-> _]|Hne]; [|contradiction].
      rewrite Hn in Ex. simpl in Ex. discriminate.
  Qed.

  Lemma finv_set_on_running st U on r :
    length r <= length (f_running st) -> finv st U -> finv (set_on_running st on r) U.
  Proof.
    intros Hr [a b d e f g h i]. unfold set_on_running, total_pages in *. inv_con; fcbn; auto. lia.
  Qed.

  Lemma removeN_length_le x l : length (removeN x l) <= length l.
  Proof.
    unfold removeN, remove_set. induction l as [|y l IH]; simpl; auto.
    destruct (negb (x =? y)%N); simpl; lia.
  Qed.

  Lemma seeds_fold sl : forall st outs st' outs' U,
    fold_left (fun so p =>
          if has_id p then (add_active (fst so) p true false, snd so)
          else (schedule (fst so) (pid p) true, snd so ++ [OSched (pid p)])) sl (st, outs) = (st', outs') ->
    incl (map pid sl) U -> finv st U -> finv st' U.
  Proof.
    induction sl as [|p sl IH]; intros st outs st' outs' U H Hi Hinv; cbn [fold_left] in H.
    - inversion H; subst; auto.
    - assert (Hp : In (pid p) U) by (apply Hi; now left).
      assert (Hi' : incl (map pid sl) U) by (intros x Hx; apply Hi; now right).
      cbn [fst snd] in H. destruct (has_id p).
      + eapply IH; eauto. now apply finv_add_active.
      + eapply IH; eauto.
        destruct Hinv as [a b d e f g h i]. unfold schedule, total_pages in *. inv_con; fcbn; auto.
        * now apply addN_NoDup.
        * intros x Hx. apply addN_In in Hx. destruct Hx as [->|Hx]; auto.
        * pose proof (addN_length_le (pid p) (f_contacted st)). lia.
        * pose proof (addN_length_ub (pid p) (f_running st)). lia.
  Qed.


  Lemma finv_set_tasks st U t pd : finv st U -> finv (set_tasks st t pd) U.
  Proof. intros [a b d e f g h i]. unfold set_tasks, total_pages in *. inv_con; fcbn; auto. Qed.

  Lemma done_state_fields st p tid :
    let s1 := done_state prm st p tid in
    f_active s1 = f_active st /\ f_contacted s1 = f_contacted st /\ f_on s1 = f_on st /\ f_yielded s1 = f_yielded st /\
    f_pages s1 = f_pages st /\ f_seeds s1 = f_seeds st /\ f_sched s1 = f_sched st /\ f_blob s1 = f_blob st /\
    f_pending s1 = f_pending st /\ length (f_running s1) <= length (f_running st).
  Proof.
    unfold done_state. cbv zeta. destruct (_ || _); cbn; conj_split; auto. apply removeN_length_le.
  Qed.

  Lemma finv_done_state st U p tid : finv st U -> finv (done_state prm st p tid) U.
  Proof.
    intro H. unfold done_state. cbv zeta. destruct (_ || _); auto.
    apply finv_set_tasks. apply finv_set_on_running; auto. apply removeN_length_le.
  Qed.

  Theorem fstep_inv st ev st' outs tag U :
    fstep_core prm st ev = (st', outs, tag) -> finv st U -> finv st' (U ++ mentioned_ev ev).
  Proof.
    intros H Hinv.
    assert (HU : incl U (U ++ mentioned_ev ev)) by (apply incl_appl, incl_refl).
    assert (HM : incl (mentioned_ev ev) (U ++ mentioned_ev ev)) by (apply incl_appr, incl_refl).
    pose proof (finv_mono _ _ _ HU Hinv) as Hinv'.
    destruct ev; cbn [fstep_core] in H.
    - (* EInit *)
      match type of H with (let '(_, _) := ?f in _) = _ => destruct f as [s1 o1] eqn:Ef end.
      inversion H; subst; clear H. eapply seeds_fold; eauto.
    - (* EStart *)
      destruct (search_round prm _ good) as [s1 o1] eqn:Es. inversion H; subst; clear H.
      eapply search_round_inv in Es; [apply Es|]. apply finv_set_on_running; auto.
    - (* EDone *)
      assert (Hs : finv (done_state prm st p tid) (U ++ mentioned_ev (EDone p tid good))) by (now apply finv_done_state).
      destruct (f_on st).
      + destruct (search_round prm _ good) as [s1 o1] eqn:Es. inversion H; subst; clear H.
        eapply search_round_inv in Es; [apply Es|]. exact Hs.
      + inversion H; subst; auto.
    - inversion H; subst. now apply finv_reset.
    - inversion H; subst. auto.
    - unfold aclose in H. inversion H; subst. apply finv_set_tasks. apply finv_set_on_running; auto. simpl. lia.
    - (* ENodeReply *)
      assert (Hs : finv (add_contacts (add_active st p false selfbad) contacts)
                        (U ++ mentioned_ev (ENodeReply p selfbad contacts checked found_key good))).
      { apply finv_add_contacts; [intros x Hx; apply HM; simpl; now right|].
        apply finv_add_active; auto. apply HM. simpl. now left. }
      destruct checked; [|inversion H; subst; auto].
      destruct (found_key && negb (fp_key_is_self prm)); [|inversion H; subst; auto].
      destruct (put_result prm _ good true) as [s1 o1] eqn:Ep. inversion H; subst; clear H.
      eapply finv_put_result; eauto.
    - (* EValueReply *)
      set (sc := if is_nil raw then (DOk, []) else scan_values raw []) in H.
      destruct sc as [verdict items].
      set (U' := U ++ mentioned_ev (EValueReply p selfbad raw pages contacts checked)) in *.
      assert (Hp : In (pid p) U') by (apply HM; simpl; now left).
      (* the paging part *)
      set (st1 := if negb (is_nil items) then _ else st) in H.
      assert (H1 : finv st1 U').
      { subst st1. destruct (negb (is_nil items)); auto.
        destruct (page_step eqc (fp_cap prm) _ items pages) as [nxt again] eqn:Eps.
        unfold page_step in Eps. cbn [pg disc] in Eps.
        destruct (is_nil items); [inversion Eps; subst|].
        { destruct Hinv' as [a b d e f g h i]. unfold set_paging, total_pages in *. inv_con; fcbn; auto. }
        destruct (Nat.eqb _ _); [|inversion Eps; subst].
        2:{ destruct Hinv' as [a b d e f g h i]. unfold set_paging, total_pages in *. inv_con; fcbn; auto. }
        destruct ((K <=? length items) && (assoc_nat (pid p) (f_pages st) <? page_limit (fp_cap prm) pages)) eqn:Eadv;
          inversion Eps; subst; clear Eps.
        2:{ destruct Hinv' as [a b d e f g h i]. unfold set_paging, total_pages in *. inv_con; fcbn; auto. }
        apply andb_prop in Eadv. destruct Eadv as [_ Elt]. apply Nat.ltb_lt in Elt.
        rewrite Hcap in Elt. cbn [page_limit] in Elt.
        destruct Hinv' as [a b d e f g h i]. unfold set_paging, total_pages in *. inv_con; cbn [f_contacted f_active f_sched f_seeds f_pages f_running pg]; auto.
        - now apply removeN_NoDup.
        - intros x Hx. apply b. eapply removeN_In; eauto.
        - rewrite total_pages_set. pose proof (removeN_length (pid p) _ a). lia.
        - now apply assoc_set_nat_NoDup.
        - intros x Hx. apply assoc_set_nat_keys in Hx. destruct Hx as [->|Hx]; auto.
        - intros k v Hkv. apply assoc_set_nat_vals in Hkv. destruct Hkv as [[-> ->]|Hkv]; [lia|eauto]. }
      assert (H2 : finv (add_contacts (add_active st1 p false selfbad) contacts) U').
      { apply finv_add_contacts; [intros x Hx; apply HM; simpl; now right|]. now apply finv_add_active. }
      destruct verdict.
      + inversion H; subst. exact Hinv'.
      + destruct checked; [|inversion H; subst; auto].
        destruct (negb (is_nil items)); [|inversion H; subst; auto].
        destruct (yield_new eqc _ items) as [seen fresh]. inversion H; subst; clear H.
        destruct H2 as [a b d e f g h i]. unfold set_blob, total_pages in *. inv_con; fcbn; auto.
      + destruct checked; [|inversion H; subst; auto].
        destruct (negb (is_nil items)); [|inversion H; subst; auto].
        destruct (yield_new eqc _ items) as [seen fresh]. inversion H; subst; clear H.
        destruct H2 as [a b d e f g h i]. unfold set_blob, total_pages in *. inv_con; fcbn; auto.
    - unfold aclose in H. inversion H; subst. apply finv_set_tasks. apply finv_set_on_running; auto. simpl. lia.
  Qed.

  Definition seeds_ev (ev : fev) : nat :=
    match ev with EInit sl => length (filter (fun p => negb (has_id p)) sl) | _ => 0 end.
  Definition is_vreply (ev : fev) : bool :=
    match ev with EValueReply _ _ _ _ _ _ => true | _ => false end.

  Lemma seeds_fold_fields sl : forall st outs st' outs',
    fold_left (fun so p =>
          if has_id p then (add_active (fst so) p true false, snd so)
          else (schedule (fst so) (pid p) true, snd so ++ [OSched (pid p)])) sl (st, outs) = (st', outs') ->
    f_seeds st' = f_seeds st + length (filter (fun p => negb (has_id p)) sl) /\
    f_pages st' = f_pages st /\ (forall x, In x (f_contacted st) -> In x (f_contacted st')).
  Proof.
    induction sl as [|p sl IH]; intros st outs st' outs' H; cbn [fold_left] in H.
    - inversion H; subst. simpl. conj_split; auto.
    - cbn [fst snd] in H. cbn [filter]. destruct (has_id p); cbn [negb].
      + apply IH in H. destruct H as (H1 & H2 & H3).
        destruct (add_active_fields st p true false) as (G1 & G2 & G3 & G4 & G5 & G6 & G7 & G8 & G9 & _).
        rewrite G9 in H1. rewrite G6 in H2. rewrite G1 in H3. conj_split; auto.
      + apply IH in H. destruct H as (H1 & H2 & H3). fcbn_in H1. fcbn_in H2. fcbn_in H3.
        cbn [length]. conj_split; auto; [lia|]. intros x Hx. apply H3. apply addN_In. now right.
  Qed.

  Theorem fstep_aux st ev st' outs tag U :
    fstep_core prm st ev = (st', outs, tag) -> finv st U ->
    f_seeds st' = f_seeds st + seeds_ev ev /\
    (is_vreply ev = false -> f_pages st' = f_pages st /\ (forall x, In x (f_contacted st) -> In x (f_contacted st'))).
  Proof.
    intros H Hinv. destruct ev; cbn [fstep_core] in H; cbn [seeds_ev is_vreply].
    - match type of H with (let '(_, _) := ?f in _) = _ => destruct f as [s1 o1] eqn:Ef end.
      inversion H; subst; clear H. apply seeds_fold_fields in Ef. destruct Ef as (E1 & E2 & E3). auto.
    - destruct (search_round prm _ good) as [s1 o1] eqn:Es. inversion H; subst; clear H.
      eapply search_round_inv in Es; [|apply finv_set_on_running; [|exact Hinv]; auto].
      destruct Es as (_ & _ & _ & _ & E5 & E6 & E7). fcbn_in E5. fcbn_in E6. fcbn_in E7.
      split; [lia|]. auto.
    - destruct (done_state_fields st p tid) as (D1 & D2 & D3 & D4 & D5 & D6 & _). cbv zeta in *.
      destruct (f_on st).
      + destruct (search_round prm _ good) as [s1 o1] eqn:Es. inversion H; subst; clear H.
        eapply search_round_inv in Es; [|apply finv_done_state; exact Hinv].
        destruct Es as (_ & _ & _ & _ & E5 & E6 & E7). rewrite D2 in E5. rewrite D5 in E6. rewrite D6 in E7.
        split; [lia|]. auto.
      + inversion H; subst. rewrite D6, D5, D2. split; [lia|]. auto.
    - inversion H; subst. unfold reset_closest. fcbn. split; [lia|]. auto.
    - inversion H; subst. split; [lia|]. auto.
    - unfold aclose in H. inversion H; subst. unfold set_tasks. fcbn. split; [lia|]. auto.
    - destruct (add_contacts_fields contacts (add_active st p false selfbad))
        as (G1 & G2 & G3 & G4 & G5 & G6 & G7 & G8 & G9 & _).
      destruct (add_active_fields st p false selfbad) as (A1 & A2 & A3 & A4 & A5 & A6 & A7 & A8 & A9 & _).
      cbv zeta in *.
      assert (Hb : f_seeds (add_contacts (add_active st p false selfbad) contacts) = f_seeds st + 0 /\
                   (false = false -> f_pages (add_contacts (add_active st p false selfbad) contacts) = f_pages st /\
                    (forall x, In x (f_contacted st) -> In x (f_contacted (add_contacts (add_active st p false selfbad) contacts))))).
      { split; [lia|]. intros _. split; [congruence|]. intros x Hx. rewrite G1, A1. auto. }
      destruct checked; [|inversion H; subst; auto].
      destruct (found_key && negb (fp_key_is_self prm)); [|inversion H; subst; auto].
      destruct (put_result prm _ good true) as [s1 o1] eqn:Ep. inversion H; subst; clear H.
      apply put_result_fields in Ep. destruct Ep as (P1 & P2 & P3 & P4 & P5 & P6 & P7 & _).
      destruct Hb as (B1 & B2). specialize (B2 eq_refl). destruct B2 as (B2 & B3).
      split; [lia|]. intros _. split; [congruence|]. intros x Hx. rewrite P2. auto.
    - split; [|discriminate].
      set (sc := if is_nil raw then (DOk, []) else scan_values raw []) in H.
      destruct sc as [verdict items].
      set (st1 := if negb (is_nil items) then _ else st) in H.
      assert (H1 : f_seeds st1 = f_seeds st).
      { subst st1. destruct (negb (is_nil items)); auto.
        destruct (page_step eqc (fp_cap prm) _ items pages) as [nxt again]. reflexivity. }
      destruct (add_contacts_fields contacts (add_active st1 p false selfbad))
        as (G1 & G2 & G3 & G4 & G5 & G6 & G7 & G8 & G9 & _).
      destruct (add_active_fields st1 p false selfbad) as (A1 & A2 & A3 & A4 & A5 & A6 & A7 & A8 & A9 & _).
      cbv zeta in *.
      destruct verdict.
      + inversion H; subst. lia.
      + destruct checked; [|inversion H; subst; lia].
        destruct (negb (is_nil items)) eqn:En; [|inversion H; subst; lia].
        destruct (yield_new eqc _ items) as [seen fresh]. inversion H; subst; clear H. fcbn. lia.
      + destruct checked; [|inversion H; subst; lia].
        destruct (negb (is_nil items)) eqn:En; [|inversion H; subst; lia].
        destruct (yield_new eqc _ items) as [seen fresh]. inversion H; subst; clear H. fcbn. lia.
    - unfold aclose in H. inversion H; subst. unfold set_tasks. fcbn. split; [lia|]. auto.
  Qed.

  Lemma fstep_unfold st ev st' outs tag :
    fstep prm st ev = (st', outs, tag) ->
    exists s1, fstep_core prm st ev = (s1, outs, tag) /\ st' = settle_pending s1 ev.
  Proof.
    unfold fstep. destruct (fstep_core prm st ev) as [[s1 o1] t1]. intro H. inversion H; subst. eauto.
  Qed.

  Lemma settle_fields st ev :
    let s := settle_pending st ev in
    f_active s = f_active st /\ f_contacted s = f_contacted st /\ f_running s = f_running st /\ f_on s = f_on st /\
    f_yielded s = f_yielded st /\ f_pages s = f_pages st /\ f_seeds s = f_seeds st /\ f_sched s = f_sched st /\
    f_blob s = f_blob st /\ f_task s = f_task st.
  Proof. destruct ev; cbn; conj_split; auto. Qed.

  Lemma finv_settle st ev U : finv st U -> finv (settle_pending st ev) U.
  Proof. destruct ev; cbn [settle_pending]; auto; apply finv_set_tasks. Qed.

  Theorem fstep_inv' st ev st' outs tag U :
    fstep prm st ev = (st', outs, tag) -> finv st U -> finv st' (U ++ mentioned_ev ev).
  Proof.
    intros H Hinv. apply fstep_unfold in H. destruct H as (s1 & H & ->).
    apply finv_settle. eapply fstep_inv; eauto.
  Qed.

  Theorem fstep_aux' st ev st' outs tag U :
    fstep prm st ev = (st', outs, tag) -> finv st U ->
    f_seeds st' = f_seeds st + seeds_ev ev /\
    (is_vreply ev = false -> f_pages st' = f_pages st /\ (forall x, In x (f_contacted st) -> In x (f_contacted st'))).
  Proof.
    intros H Hinv. apply fstep_unfold in H. destruct H as (s1 & H & ->).
    destruct (settle_fields s1 ev) as (_ & S2 & _ & _ & _ & S6 & S7 & _). cbv zeta in *.
    rewrite S2, S6, S7. eapply fstep_aux; eauto.
  Qed.
End FinderInv.

(* ---- run level ---- *)
Definition seeds_of (evs : list fev) : nat := fold_right (fun e a => seeds_ev e + a) 0 evs.

Lemma finv_init c : finv c f_init [].
Proof.
  constructor; cbn; try (constructor; fail); try (intros ? []); auto; try lia.
Qed.

Lemma frun_inv prm c (Hcap : fp_cap prm = Some c) evs : forall st U,
  finv c st U ->
  finv c (fst (frun prm st evs)) (U ++ mentioned evs) /\
  f_seeds (fst (frun prm st evs)) = f_seeds st + seeds_of evs /\
  (forallb (fun e => negb (is_vreply e)) evs = true ->
     f_pages (fst (frun prm st evs)) = f_pages st /\
     (forall x, In x (f_contacted st) -> In x (f_contacted (fst (frun prm st evs))))).
Proof.
  induction evs as [|e evs IH]; intros st U Hinv; cbn [frun mentioned flat_map seeds_of fold_right forallb].
  - rewrite app_nil_r. conj_split; auto.
  - destruct (fstep prm st e) as [[st1 o1] t1] eqn:Es.
    pose proof (fstep_inv' prm c Hcap _ _ _ _ _ _ Es Hinv) as H1.
    pose proof (fstep_aux' prm c _ _ _ _ _ _ Es Hinv) as (H2 & H3).
    specialize (IH st1 _ H1). destruct (frun prm st1 evs) as [stf rest] eqn:Er. cbn [fst] in *.
    destruct IH as (I1 & I2 & I3). fold (mentioned evs) in *. fold (seeds_of evs) in *.
    conj_split.
    + now rewrite app_assoc.
    + lia.
    + intro Hb. apply andb_prop in Hb. destruct Hb as [Hb1 Hb2].
      apply negb_true_iff in Hb1. specialize (H3 Hb1). specialize (I3 Hb2).
      destruct H3 as (H3a & H3b). destruct I3 as (I3a & I3b). split; [congruence|auto].
Qed.

Lemma total_pages_le c l : (forall k v, In (k, v) l -> v <= c) ->
  fold_right (fun (kv : N * nat) a => snd kv + a) 0 l <= c * length l.
Proof.
  induction l as [|[k v] l IH]; intro H; simpl; [lia|].
  assert (v <= c) by (apply (H k); now left).
  assert (fold_right (fun (kv : N * nat) a => snd kv + a) 0 l <= c * length l)
    by (apply IH; intros; eapply H; right; eauto).
  nia.
Qed.

(* the number of probes ever scheduled is bounded by the seeds plus (1 + page cap) per distinct peer learned *)
Theorem finder_probe_bound prm c evs : fp_cap prm = Some c ->
  f_sched (final_state prm evs) <= seeds_of evs + (1 + c) * length (nodup N.eq_dec (mentioned evs)).
Proof.
  intro Hcap. unfold final_state.
  destruct (frun_inv prm c Hcap evs f_init [] (finv_init c)) as (Hinv & Hs & _).
  cbn [app] in Hinv. cbn in Hs. destruct Hinv as [a b d e f g h i].
  set (stf := fst (frun prm f_init evs)) in *.
  set (D := nodup N.eq_dec (mentioned evs)).
  assert (Hc : length (f_contacted stf) <= length D).
  { apply NoDup_incl_length; auto. intros x Hx. apply nodup_In. auto. }
  assert (Hp : length (f_pages stf) <= length D).
  { rewrite <- (map_length fst). apply NoDup_incl_length; auto. intros x Hx. apply nodup_In. auto. }
  pose proof (total_pages_le c (f_pages stf) h) as Ht. unfold total_pages in e.
  rewrite Hs in e. nia.
Qed.

(* without value replies (every node lookup): one probe per distinct peer learned, and contacted only grows *)
Theorem finder_probe_bound_node prm c evs : fp_cap prm = Some c ->
  forallb (fun e => negb (is_vreply e)) evs = true ->
  f_sched (final_state prm evs) <= seeds_of evs + length (nodup N.eq_dec (mentioned evs)).
Proof.
  intros Hcap Hnv. unfold final_state.
  destruct (frun_inv prm c Hcap evs f_init [] (finv_init c)) as (Hinv & Hs & Hp).
  specialize (Hp Hnv). destruct Hp as (Hp & _). cbn in Hp.
  cbn [app] in Hinv. cbn in Hs. destruct Hinv as [a b d e f g h i].
  set (stf := fst (frun prm f_init evs)) in *.
  assert (Hc : length (f_contacted stf) <= length (nodup N.eq_dec (mentioned evs))).
  { apply NoDup_incl_length; auto. intros x Hx. apply nodup_In. auto. }
  unfold total_pages in e. rewrite Hp in e. simpl in e. lia.
Qed.

Theorem finder_alpha prm c evs : fp_cap prm = Some c ->
  length (f_running (final_state prm evs)) <= ALPHA + seeds_of evs.
Proof.
  intro Hcap. unfold final_state.
  destruct (frun_inv prm c Hcap evs f_init [] (finv_init c)) as (Hinv & Hs & _).
  destruct Hinv as [a b d e f g h i]. cbn in Hs. lia.
Qed.

Theorem finder_pages_capped prm c evs k v : fp_cap prm = Some c ->
  In (k, v) (f_pages (final_state prm evs)) -> v <= c.
Proof.
  intros Hcap. unfold final_state.
  destruct (frun_inv prm c Hcap evs f_init [] (finv_init c)) as (Hinv & _ & _).
  destruct Hinv as [a b d e f g h i]. apply h.
Qed.

(* reachable states satisfy the invariant, so the per-step facts below apply along every run *)
Lemma reachable_inv prm c evs : fp_cap prm = Some c -> finv c (final_state prm evs) (mentioned evs).
Proof.
  intro Hcap. destruct (frun_inv prm c Hcap evs f_init [] (finv_init c)) as (Hinv & _). exact Hinv.
Qed.

(* contacted only grows on every event that is not a value reply *)
Theorem contacted_monotone prm c evs ev st' outs tag : fp_cap prm = Some c -> is_vreply ev = false ->
  fstep prm (final_state prm evs) ev = (st', outs, tag) ->
  forall x, In x (f_contacted (final_state prm evs)) -> In x (f_contacted st').
Proof.
  intros Hcap Hv Hs. pose proof (reachable_inv prm c evs Hcap) as Hinv.
  destruct (fstep_aux' prm c _ _ _ _ _ _ Hs Hinv) as (_ & H). destruct (H Hv). auto.
Qed.

(* after every search round either a probe is still running or the finish marker has been queued *)
Theorem round_progress prm c evs ev st' outs tag : fp_cap prm = Some c ->
  (exists good, ev = EStart good) \/
  (exists p tid good, ev = EDone p tid good /\ f_on (final_state prm evs) = true) ->
  fstep prm (final_state prm evs) ev = (st', outs, tag) ->
  f_running st' <> [] \/ In OFinish outs.
Proof.
  intros Hcap Hev Hs. pose proof (reachable_inv prm c evs Hcap) as Hinv.
  apply fstep_unfold in Hs. destruct Hs as (s1 & Hs & ->).
  destruct (settle_fields s1 ev) as (_ & _ & S3 & _). cbv zeta in S3. rewrite S3.
  set (st := final_state prm evs) in *.
  destruct Hev as [(good & ->)|(p & tid & good & -> & Hon)]; cbn [fstep_core] in Hs.
  - destruct (search_round prm _ good) as [s2 o1] eqn:Es. inversion Hs; subst; clear Hs.
    eapply search_round_inv in Es; [|apply finv_set_on_running; [|exact Hinv]; auto].
    destruct Es as (_ & _ & _ & E4 & _). destruct (f_running s1) eqn:Er; [right; auto|left; discriminate].
  - rewrite Hon in Hs.
    destruct (search_round prm _ good) as [s2 o1] eqn:Es. inversion Hs; subst; clear Hs.
    eapply search_round_inv in Es; [|apply finv_done_state; exact Hinv].
    destruct Es as (_ & _ & _ & E4 & _). destruct (f_running s1) eqn:Er; [right; auto|left; discriminate].
Qed.

(* ---- outputs ---- *)
Lemma In_firstn {A} n (l : list A) x : In x (firstn n l) -> In x l.
Proof. intro H. rewrite <- (firstn_skipn n l). apply in_or_app. now left. Qed.

Lemma put_result_yield prm st good fin st' outs ps x :
  put_result prm st good fin = (st', outs) -> In (OYield ps) outs -> In x ps ->
  In x good /\ ~ In x (f_yielded st) /\ exists q, In q (f_active st) /\ pid q = x /\ self_id q = false.
Proof.
  unfold put_result. cbv zeta. intros H Hin Hx. inversion H; subst; clear H.
  apply in_app_or in Hin. destruct Hin as [Hin|Hin].
  2:{ destruct fin; [destruct Hin as [Hin|[]]; discriminate|destruct Hin]. }
  destruct (is_nil _); [destruct Hin|]. destruct Hin as [Hin|[]]. inversion Hin; subst; clear Hin.
  apply in_map_iff in Hx. destruct Hx as (q & <- & Hq). apply In_firstn in Hq.
  apply filter_In in Hq. destruct Hq as (Hq & Hc).
  apply andb_prop in Hc. destruct Hc as (Hc & Hg). apply andb_prop in Hc. destruct Hc as (Hy & Hs).
  apply negb_true_iff in Hy, Hs. apply memN_In in Hg. apply memN_notIn in Hy. eauto 8.
Qed.

Lemma put_result_no_v prm st good fin st' outs cs :
  put_result prm st good fin = (st', outs) -> ~ In (OVYield cs) outs.
Proof.
  unfold put_result. cbv zeta. intros H Hin. inversion H; subst; clear H.
  apply in_app_or in Hin. destruct Hin as [Hin|Hin].
  - destruct (is_nil _); [destruct Hin|]. destruct Hin as [Hin|[]]. discriminate.
  - destruct fin; [destruct Hin as [Hin|[]]; discriminate|destruct Hin].
Qed.

Lemma round_loop_light l : forall idx st added outs st' added' outs',
  round_loop l idx st added outs = (st', added', outs') ->
  f_active st' = f_active st /\ f_yielded st' = f_yielded st /\
  (forall o, In o outs' -> In o outs \/ exists x, o = OSched x).
Proof.
  induction l as [|p l IH]; intros idx st added outs st' added' outs' Hr; cbn [round_loop] in Hr.
  - inversion Hr; subst. auto.
  - destruct (memN (pid p) (f_contacted st)); [eapply IH; eauto|].
    destruct (ALPHA <=? length (f_running st)); [inversion Hr; subst; auto|].
    destruct (K + length (f_running st) <? idx); [inversion Hr; subst; auto|].
    destruct (self_id p); [eapply IH; eauto|].
    destruct (self_addr p); [eapply IH; eauto|].
    apply IH in Hr. destruct Hr as (H1 & H2 & H3). cbn in H1, H2. conj_split; auto.
    intros o Ho. destruct (H3 o Ho) as [Hi|Hi]; auto. apply in_app_or in Hi.
    destruct Hi as [Hi|[<-|[]]]; eauto.
Qed.

Lemma search_round_yield prm st good st' outs :
  search_round prm st good = (st', outs) ->
  f_active st' = f_active st /\
  (forall ps x, In (OYield ps) outs -> In x ps ->
     In x good /\ ~ In x (f_yielded st) /\ exists q, In q (f_active st) /\ pid q = x /\ self_id q = false) /\
  (forall cs, ~ In (OVYield cs) outs).
Proof.
  unfold search_round. intro H.
  destruct (round_loop (f_active st) 0 st 0 []) as [[st1 added] outs1] eqn:Er.
  apply round_loop_light in Er. destruct Er as (E1 & E2 & E3).
  assert (Hno : forall o, In o outs1 -> exists x, o = OSched x).
  { intros o Ho. destruct (E3 o Ho) as [[]|]; auto. }
  destruct (Nat.eqb added 0 && is_nil (f_running st1)).
  - destruct (exhausted prm st1 good) as [st2 o2] eqn:Ee. inversion H; subst; clear H.
    unfold exhausted in Ee. destruct (fp_kind prm).
    + pose proof (put_result_fields prm _ _ _ _ _ Ee) as (G1 & _).
      conj_split; [congruence| |].
      * intros ps x Hin Hx. apply in_app_or in Hin. destruct Hin as [Hin|Hin].
        { destruct (Hno _ Hin) as (y & Hy). discriminate. }
        rewrite <- E1, <- E2. eapply put_result_yield; eauto.
      * intros cs Hin. apply in_app_or in Hin. destruct Hin as [Hin|Hin].
        { destruct (Hno _ Hin) as (y & Hy). discriminate. }
        eapply put_result_no_v; eauto.
    + inversion Ee; subst. conj_split; auto.
      * intros ps x Hin Hx. apply in_app_or in Hin. destruct Hin as [Hin|[Hin|[]]]; [|discriminate].
        destruct (Hno _ Hin) as (y & Hy). discriminate.
      * intros cs Hin. apply in_app_or in Hin. destruct Hin as [Hin|[Hin|[]]]; [|discriminate].
        destruct (Hno _ Hin) as (y & Hy). discriminate.
  - inversion H; subst; clear H. conj_split; auto.
    + intros ps x Hin Hx. destruct (Hno _ Hin) as (y & Hy). discriminate.
    + intros cs Hin. destruct (Hno _ Hin) as (y & Hy). discriminate.
Qed.

Definition good_of (ev : fev) : list N :=
  match ev with
  | EStart g => g | EDone _ _ g => g | ENodeReply _ _ _ _ _ g => g | _ => []
  end.

(* node lookup: whatever is yielded was reported good (= it replied), was not yielded before, and its
   record is not the searching node *)
Theorem node_yield_valid prm st ev st' outs tag ps x :
  fstep_core prm st ev = (st', outs, tag) -> In (OYield ps) outs -> In x ps ->
  In x (good_of ev) /\ ~ In x (f_yielded st) /\
  exists q, In q (f_active st') /\ pid q = x /\ self_id q = false.
Proof.
  intros H Hin Hx. destruct ev; cbn [fstep_core] in H; cbn [good_of].
  - match type of H with (let '(_, _) := ?f in _) = _ => destruct f as [s1 o1] eqn:Ef end.
    inversion H; subst; clear H. exfalso. assert (Hgen : forall sl st o0 s1 o1,
      fold_left (fun so p => if has_id p then (add_active (fst so) p true false, snd so)
                 else (schedule (fst so) (pid p) true, snd so ++ [OSched (pid p)])) sl (st, o0) = (s1, o1) ->
      forall o, In o o1 -> In o o0 \/ exists y, o = OSched y).
    { clear. induction sl as [|p sl IH]; intros st o0 s1 o1 Hf o Ho; cbn [fold_left] in Hf.
      - inversion Hf; subst; auto.
      - cbn [fst snd] in Hf. destruct (has_id p).
        + eapply IH; eauto.
        + destruct (IH _ _ _ _ Hf o Ho) as [Hi|Hi]; auto. apply in_app_or in Hi.
          destruct Hi as [Hi|[<-|[]]]; eauto. }
    destruct (Hgen _ _ _ _ _ Ef _ Hin) as [[]|(y & Hy)]. discriminate.
  - destruct (search_round prm _ good) as [s1 o1] eqn:Es. inversion H; subst; clear H.
    apply search_round_yield in Es. destruct Es as (E1 & E2 & _).
    destruct (E2 _ _ Hin Hx) as (A1 & A2 & q & A3 & A4 & A5). cbn in A2, A3.
    conj_split; auto. exists q. rewrite E1. cbn. auto.
  - destruct (f_on st); [|inversion H; subst; destruct Hin].
    destruct (search_round prm _ good) as [s1 o1] eqn:Es. inversion H; subst; clear H.
    apply search_round_yield in Es. destruct Es as (E1 & E2 & _).
    destruct (E2 _ _ Hin Hx) as (A1 & A2 & q & A3 & A4 & A5).
    destruct (done_state_fields prm st p tid) as (D1 & _ & _ & D4 & _). cbv zeta in D1, D4.
    rewrite D4 in A2. rewrite D1 in A3.
    conj_split; auto. exists q. rewrite E1, D1. auto.
  - inversion H; subst. destruct Hin.
  - inversion H; subst. destruct Hin.
  - unfold aclose in H. inversion H; subst. destruct Hin as [Hin|[]]. discriminate.
  - destruct checked; [|inversion H; subst; destruct Hin].
    destruct (found_key && negb (fp_key_is_self prm)); [|inversion H; subst; destruct Hin].
    destruct (put_result prm _ good true) as [s1 o1] eqn:Ep. inversion H; subst; clear H.
    pose proof (put_result_fields prm _ _ _ _ _ Ep) as (G1 & _).
    destruct (put_result_yield _ _ _ _ _ _ _ _ Ep Hin Hx) as (A1 & A2 & q & A3 & A4 & A5).
    destruct (add_contacts_fields contacts (add_active st p false selfbad)) as (_ & _ & _ & C4 & _).
    destruct (add_active_fields st p false selfbad) as (_ & _ & _ & D4 & _).
    cbv zeta in *. rewrite C4, D4 in A2. conj_split; auto. exists q. rewrite G1. auto.
  - exfalso.
    destruct (if is_nil raw then (DOk, []) else scan_values raw []) as [verdict items].
    match type of H with context [if negb (is_nil items) then ?a else st] =>
      set (st1 := if negb (is_nil items) then a else st) in H end.
    destruct verdict.
    + inversion H; subst. destruct Hin.
    + destruct checked; [|inversion H; subst; destruct Hin].
      destruct (negb (is_nil items)); [|inversion H; subst; destruct Hin].
      destruct (yield_new eqc _ items) as [seen fresh]. inversion H; subst; clear H.
      destruct (is_nil fresh); [destruct Hin|destruct Hin as [Hin|[]]; discriminate].
    + destruct checked; [|inversion H; subst; destruct Hin].
      destruct (negb (is_nil items)); [|inversion H; subst; destruct Hin].
      destruct (yield_new eqc _ items) as [seen fresh]. inversion H; subst; clear H.
      destruct (is_nil fresh); [destruct Hin|destruct Hin as [Hin|[]]; discriminate].
  - unfold aclose in H. inversion H; subst. destruct Hin as [Hin|[]]. discriminate.
Qed.

(* ---- value lookups: only well-formed public addresses ---- *)
Lemma scan_values_ok raw : forall acc v items,
  scan_values raw acc = (v, items) ->
  (v = DOk -> forall c, In c items -> In c acc \/ (In (VB c) raw /\ valid_compact c = true)) /\
  (v <> DOk -> items = []).
Proof.
  induction raw as [|it raw IH]; intros acc v items H; cbn [scan_values] in H.
  - inversion H; subst. split; [auto|congruence].
  - destruct it as [bs|]; [|inversion H; subst; split; [discriminate|auto]].
    destruct (decode_compact bs) eqn:Ed; try (inversion H; subst; split; [discriminate|auto]; fail).
    apply IH in H. destruct H as (H1 & H2). split; auto.
    intros Hv c Hc. destruct (H1 Hv c Hc) as [Hi|(Hi & Hvc)].
    + apply in_app_or in Hi. destruct Hi as [Hi|[<-|[]]]; auto.
      right. split; [now left|]. unfold valid_compact. now rewrite Ed.
    + right. split; auto. now right.
Qed.

Lemma yield_new_sub (seen items : list bytes) :
  forall c, In c (snd (yield_new eqc seen items)) -> In c items.
Proof.
  unfold yield_new.
  assert (G : forall items seen out c,
    In c (snd (fold_left (fun sa x => if mem eqc x (fst sa) then sa else (fst sa ++ [x], snd sa ++ [x])) items (seen, out))) ->
    In c out \/ In c items).
  { clear. induction items as [|x items IH]; intros seen out c H; cbn [fold_left] in H; [now left|].
    cbn [fst snd] in H. destruct (mem eqc x seen).
    - destruct (IH _ _ _ H); auto. right. now right.
    - destruct (IH _ _ _ H) as [Hi|Hi]; [|right; now right].
      apply in_app_or in Hi. destruct Hi as [Hi|[<-|[]]]; auto. right. now left. }
  intros c H. destruct (G _ _ _ _ H) as [[]|]; auto.
Qed.

Theorem value_yield_valid prm st ev st' outs tag cs c :
  fstep_core prm st ev = (st', outs, tag) -> In (OVYield cs) outs -> In c cs ->
  valid_compact c = true /\
  exists p sb raw pages cts chk, ev = EValueReply p sb raw pages cts chk /\ In (VB c) raw.
Proof.
  intros H Hin Hc. destruct ev; cbn [fstep_core] in H.
  - exfalso. match type of H with (let '(_, _) := ?f in _) = _ => destruct f as [s1 o1] eqn:Ef end.
    inversion H; subst; clear H. assert (Hgen : forall sl st o0 s1 o1,
      fold_left (fun so p => if has_id p then (add_active (fst so) p true false, snd so)
                 else (schedule (fst so) (pid p) true, snd so ++ [OSched (pid p)])) sl (st, o0) = (s1, o1) ->
      forall o, In o o1 -> In o o0 \/ exists y, o = OSched y).
    { clear. induction sl as [|p sl IH]; intros st o0 s1 o1 Hf o Ho; cbn [fold_left] in Hf.
      - inversion Hf; subst; auto.
      - cbn [fst snd] in Hf. destruct (has_id p).
        + eapply IH; eauto.
        + destruct (IH _ _ _ _ Hf o Ho) as [Hi|Hi]; auto. apply in_app_or in Hi.
          destruct Hi as [Hi|[<-|[]]]; eauto. }
    destruct (Hgen _ _ _ _ _ Ef _ Hin) as [[]|(y & Hy)]. discriminate.
  - exfalso. destruct (search_round prm _ good) as [s1 o1] eqn:Es. inversion H; subst; clear H.
    apply search_round_yield in Es. destruct Es as (_ & _ & E3). exact (E3 _ Hin).
  - exfalso. destruct (f_on st); [|inversion H; subst; destruct Hin].
    destruct (search_round prm _ good) as [s1 o1] eqn:Es. inversion H; subst; clear H.
    apply search_round_yield in Es. destruct Es as (_ & _ & E3). exact (E3 _ Hin).
  - inversion H; subst. destruct Hin.
  - inversion H; subst. destruct Hin.
  - unfold aclose in H. inversion H; subst. destruct Hin as [Hin|[]]. discriminate.
  - exfalso. destruct checked; [|inversion H; subst; destruct Hin].
    destruct (found_key && negb (fp_key_is_self prm)); [|inversion H; subst; destruct Hin].
    destruct (put_result prm _ good true) as [s1 o1] eqn:Ep. inversion H; subst; clear H.
    eapply put_result_no_v; eauto.
  - destruct (if is_nil raw then (DOk, []) else scan_values raw []) as [verdict items] eqn:Esc.
    assert (Hitems : forall x, In x items -> verdict = DOk /\ In (VB x) raw /\ valid_compact x = true).
    { destruct (is_nil raw); [inversion Esc; subst; intros x []|].
      apply scan_values_ok in Esc. destruct Esc as (S1 & S2). intros x Hx.
      destruct verdict; try (rewrite S2 in Hx by discriminate; destruct Hx).
      destruct (S1 eq_refl x Hx) as [[]|(A & B)]. auto. }
    match type of H with context [if negb (is_nil items) then ?a else st] =>
      set (st1 := if negb (is_nil items) then a else st) in H end.
    destruct verdict.
    + inversion H; subst. destruct Hin.
    + destruct checked; [|inversion H; subst; destruct Hin].
      destruct (negb (is_nil items)); [|inversion H; subst; destruct Hin].
      destruct (yield_new eqc _ items) as [seen fresh] eqn:Ey. inversion H; subst; clear H.
      destruct (is_nil fresh); [destruct Hin|]. destruct Hin as [Hin|[]]. inversion Hin; subst; clear Hin.
      assert (Hci : In c items) by (apply (yield_new_sub (f_blob (add_contacts (add_active st1 p false selfbad) contacts))); rewrite Ey; auto).
      destruct (Hitems c Hci) as (Hv & _). discriminate.
    + destruct checked; [|inversion H; subst; destruct Hin].
      destruct (negb (is_nil items)); [|inversion H; subst; destruct Hin].
      destruct (yield_new eqc _ items) as [seen fresh] eqn:Ey. inversion H; subst; clear H.
      destruct (is_nil fresh); [destruct Hin|]. destruct Hin as [Hin|[]]. inversion Hin; subst; clear Hin.
      assert (Hci : In c items) by (apply (yield_new_sub (f_blob (add_contacts (add_active st1 p false selfbad) contacts))); rewrite Ey; auto).
      destruct (Hitems c Hci) as (_ & Hr & Hv). split; auto. eauto 10.
  - unfold aclose in H. inversion H; subst. destruct Hin as [Hin|[]]. discriminate.
Qed.

(* what "well-formed public peer address" means for a compact address *)
Lemma valid_compact_spec bs : valid_compact bs = true ->
  length bs = 54 /\
  (1024 <= be_decode (firstn 2 (skipn 4 bs)) < 65536)%N /\
  public_ip (nthN bs 0) (nthN bs 1) (nthN bs 2) (nthN bs 3) = true.
Proof.
  unfold valid_compact, decode_compact.
  destruct (length bs <? 4) eqn:E4; [discriminate|].
  destruct (be_decode (firstn 2 (skipn 4 bs)) =? 0)%N eqn:E0; [discriminate|].
  destruct (Nat.eqb (length (skipn 6 bs)) 48) eqn:E48; cbn [negb]; [|discriminate].
  destruct (be_decode (firstn 2 (skipn 4 bs)) <? 1024)%N eqn:Ep; [discriminate|].
  destruct (public_ip _ _ _ _) eqn:Epub; cbn [negb]; [|discriminate].
  intros _. apply Nat.eqb_eq in E48. rewrite skipn_length in E48. apply N.ltb_ge in Ep.
  assert (Hl : length bs = 54) by lia. conj_split; auto.
  pose proof (be_decode_lt (firstn 2 (skipn 4 bs))) as Hlt.
  rewrite firstn_length, skipn_length, Hl in Hlt. change (N.of_nat (Nat.min 2 (54 - 4))) with 2%N in Hlt.
  change (256 ^ 2)%N with 65536%N in Hlt. exact Hlt.
Qed.

(* ------------------------------------------------------------------------------------------ *)
(* A. data store: the list-of-lists store refines a partial map (key, peer) -> time stored     *)
(* ------------------------------------------------------------------------------------------ *)
Fixpoint ent_ts (es : entries) (p : N) : option Z :=
  match es with [] => None | (q, ts) :: r => if N.eqb q p then Some ts else ent_ts r p end.
Definition ts_of (s : store) (k p : N) : option Z :=
  match ds_find s k with Some es => ent_ts es p | None => None end.

Definition wf_store (s : store) : Prop :=
  NoDup (map fst s) /\ forall k es, In (k, es) s -> NoDup (map fst es).

Lemma ent_set_keys es p now x : In x (map fst (ent_set es p now)) <-> x = p \/ In x (map fst es).
Proof.
  induction es as [|[q ts] es IH]; simpl; [intuition|].
  destruct (N.eqb_spec q p) as [->|Ne]; simpl; [intuition|]. rewrite IH. intuition.
Qed.

Lemma ent_set_NoDup es p now : NoDup (map fst es) -> NoDup (map fst (ent_set es p now)).
Proof.
  induction es as [|[q ts] es IH]; simpl; intro H.
  - constructor; [intros []|constructor].
  - inversion H as [|? ? Hn Hd]; subst. destruct (N.eqb_spec q p) as [->|Ne]; simpl.
    + constructor; auto.
    + constructor; auto. rewrite ent_set_keys. intros [->|Hi]; auto.
Qed.

Lemma ent_ts_set es p now q : ent_ts (ent_set es p now) q = if N.eqb q p then Some now else ent_ts es q.
Proof.
  induction es as [|[r ts] es IH]; simpl.
  - rewrite (N.eqb_sym p q). reflexivity.
  - destruct (N.eqb_spec r p) as [->|Ne]; simpl.
    + rewrite (N.eqb_sym p q). destruct (N.eqb_spec q p); auto.
    + destruct (N.eqb_spec r q) as [->|Nq].
      * destruct (N.eqb_spec q p); [congruence|auto].
      * apply IH.
Qed.

Lemma ds_add_keys s k p now x : In x (map fst (ds_add s k p now)) <-> x = k \/ In x (map fst s).
Proof.
  induction s as [|[k' es] s IH]; simpl; [intuition|].
  destruct (N.eqb_spec k' k) as [->|Ne]; simpl; [intuition|]. rewrite IH. intuition.
Qed.

Lemma ds_add_wf s k p now : wf_store s -> wf_store (ds_add s k p now).
Proof.
  intros [H1 H2]. split.
  - induction s as [|[k' es] s IH]; simpl.
    + constructor; [intros []|constructor].
    + inversion H1 as [|? ? Hn Hd]; subst. destruct (N.eqb_spec k' k) as [->|Ne]; simpl.
      * constructor; auto.
      * constructor; [rewrite ds_add_keys; intros [->|Hi]; auto|].
        apply IH; auto. intros; eapply H2; right; eauto.
  - induction s as [|[k' es] s IH]; simpl; intros k0 es0 Hin.
    + destruct Hin as [Hin|[]]. inversion Hin; subst. simpl. constructor; [intros []|constructor].
    + inversion H1 as [|? ? Hn Hd]; subst. destruct (N.eqb_spec k' k) as [->|Ne]; simpl in Hin.
      * destruct Hin as [Hin|Hin]; [inversion Hin; subst; apply ent_set_NoDup; eapply H2; left; eauto|].
        eapply H2; right; eauto.
      * destruct Hin as [Hin|Hin]; [inversion Hin; subst; eapply H2; left; eauto|].
        eapply IH; eauto. intros; eapply H2; right; eauto.
Qed.

Lemma ts_of_add s k p now k' p' :
  ts_of (ds_add s k p now) k' p' = if N.eqb k' k && N.eqb p' p then Some now else ts_of s k' p'.
Proof.
  unfold ts_of. induction s as [|[k0 es] s IH]; simpl.
  - rewrite (N.eqb_sym k k'). destruct (N.eqb_spec k' k); simpl; auto.
    rewrite (N.eqb_sym p p'). destruct (N.eqb_spec p' p); auto.
  - destruct (N.eqb_spec k0 k) as [->|Ne]; simpl.
    + rewrite (N.eqb_sym k k'). destruct (N.eqb_spec k' k) as [->|Nk]; simpl; auto. apply ent_ts_set.
    + destruct (N.eqb_spec k0 k') as [->|Nk].
      * destruct (N.eqb_spec k' k); [congruence|]. reflexivity.
      * apply IH.
Qed.

Lemma ent_ts_None es p : ~ In p (map fst es) -> ent_ts es p = None.
Proof.
  induction es as [|[q ts] es IH]; simpl; auto. intro H.
  destruct (N.eqb_spec q p) as [->|Ne]; [exfalso; apply H; now left|]. apply IH. tauto.
Qed.

Lemma ent_ts_filter (keep : N * Z -> bool) es p : NoDup (map fst es) ->
  ent_ts (filter keep es) p =
  match ent_ts es p with Some ts => if keep (p, ts) then Some ts else None | None => None end.
Proof.
  induction es as [|[q ts] es IH]; simpl; intro H; auto.
  inversion H as [|? ? Hn Hd]; subst.
  destruct (N.eqb_spec q p) as [->|Ne].
  - destruct (keep (p, ts)) eqn:Ek; simpl.
    + now rewrite N.eqb_refl.
    + apply ent_ts_None. intro Hi. apply Hn. apply in_map_iff in Hi. destruct Hi as ([a b] & <- & Hi).
      apply filter_In in Hi. apply in_map_iff. exists (a, b). tauto.
  - destruct (keep (q, ts)); simpl; [destruct (N.eqb_spec q p); [congruence|]|]; apply IH; auto.
Qed.

Lemma ent_ts_In es p ts : NoDup (map fst es) -> (In (p, ts) es <-> ent_ts es p = Some ts).
Proof.
  induction es as [|[q t] es IH]; simpl; intro H.
  - split; [intros []|discriminate].
  - inversion H as [|? ? Hn Hd]; subst. destruct (N.eqb_spec q p) as [->|Ne].
    + split.
      * intros [Hi|Hi]; [inversion Hi; auto|]. exfalso. apply Hn. apply in_map_iff. exists (p, ts). auto.
      * intro Hi. inversion Hi; subst. now left.
    + rewrite <- IH by auto. split; [intros [Hi|Hi]; [inversion Hi; congruence|auto]|auto].
Qed.

Lemma ds_find_In s k es : NoDup (map fst s) -> (In (k, es) s <-> ds_find s k = Some es).
Proof.
  induction s as [|[k' e'] s IH]; simpl; intro H.
  - split; [intros []|discriminate].
  - inversion H as [|? ? Hn Hd]; subst. destruct (N.eqb_spec k' k) as [->|Ne].
    + split.
      * intros [Hi|Hi]; [inversion Hi; auto|]. exfalso. apply Hn. apply in_map_iff. exists (k, es). auto.
      * intro Hi. inversion Hi; subst. now left.
    + rewrite <- IH by auto. split; [intros [Hi|Hi]; [inversion Hi; congruence|auto]|auto].
Qed.

Definition keep_of now bad : N * Z -> bool := fun e => negb (doomed now bad e).

Lemma ds_expire_find s now bad k : NoDup (map fst s) ->
  ds_find (ds_expire s now bad) k =
  match ds_find s k with
  | Some es => if is_nil (filter (keep_of now bad) es) then None else Some (filter (keep_of now bad) es)
  | None => None
  end.
Proof.
  unfold ds_expire. fold (keep_of now bad).
  induction s as [|[k' es] s IH]; simpl; intro H; auto.
  inversion H as [|? ? Hn Hd]; subst.
  destruct (is_nil (filter (keep_of now bad) es)) eqn:En; simpl.
  - destruct (N.eqb_spec k' k) as [->|Ne]; [|apply IH; auto].
    rewrite IH by auto. rewrite En. destruct (ds_find s k) eqn:Ef; auto.
    exfalso. apply Hn. apply ds_find_In in Ef; auto. apply in_map_iff. exists (k, e). auto.
  - destruct (N.eqb_spec k' k) as [->|Ne]; auto. now rewrite En.
Qed.

Lemma NoDup_map_filter {A B} (g : A -> B) (f : A -> bool) (l : list A) :
  NoDup (map g l) -> NoDup (map g (filter f l)).
Proof.
  induction l as [|x l IH]; simpl; intro H; [constructor|].
  inversion H as [|? ? Hn Hd]; subst. destruct (f x); simpl; auto.
  constructor; auto. intro Hi. apply Hn. apply in_map_iff in Hi. destruct Hi as (y & E & Hi).
  apply filter_In in Hi. apply in_map_iff. exists y. tauto.
Qed.

Lemma ds_expire_wf s now bad : wf_store s -> wf_store (ds_expire s now bad).
Proof.
  intros [H1 H2]. unfold ds_expire. fold (keep_of now bad). split.
  - apply NoDup_map_filter. rewrite map_map. cbn [fst]. exact H1.
  - intros k es Hin. apply filter_In in Hin. destruct Hin as (Hin & _).
    apply in_map_iff in Hin. destruct Hin as ([k' es'] & E & Hin). cbn [fst snd] in E.
    inversion E; subst. apply NoDup_map_filter. eapply H2; eauto.
Qed.

Lemma ts_of_expire s now bad k p : wf_store s ->
  ts_of (ds_expire s now bad) k p =
  match ts_of s k p with Some ts => if doomed now bad (p, ts) then None else Some ts | None => None end.
Proof.
  intros [H1 H2]. unfold ts_of. rewrite ds_expire_find by auto.
  destruct (ds_find s k) as [es|] eqn:Ef; auto.
  assert (Hnd : NoDup (map fst es)) by (eapply H2; apply ds_find_In; eauto).
  pose proof (ent_ts_filter (keep_of now bad) es p Hnd) as Hf.
  destruct (is_nil (filter (keep_of now bad) es)) eqn:En.
  - destruct (filter (keep_of now bad) es); [|discriminate]. simpl in Hf.
    destruct (ent_ts es p); auto. unfold keep_of in Hf. destruct (doomed now bad (p, z)); auto; discriminate.
  - rewrite Hf. destruct (ent_ts es p); auto. unfold keep_of. destruct (doomed now bad (p, z)); auto.
Qed.

Lemma ds_get_spec s k now bad p : wf_store s ->
  (In p (ds_get s k now bad) <-> exists ts, ts_of s k p = Some ts /\ visible now bad (p, ts) = true).
Proof.
  intros [H1 H2]. unfold ds_get, ts_of. destruct (ds_find s k) as [es|] eqn:Ef.
  - assert (Hnd : NoDup (map fst es)) by (eapply H2; apply ds_find_In; eauto).
    rewrite in_map_iff. split.
    + intros ([q ts] & <- & Hi). apply filter_In in Hi. destruct Hi as (Hi & Hv).
      exists ts. split; auto. now apply ent_ts_In.
    + intros (ts & Ht & Hv). exists (p, ts). split; auto. apply filter_In. split; auto. now apply ent_ts_In.
  - split; [intros []|intros (ts & Ht & _); discriminate].
Qed.

Lemma ds_get_NoDup s k now bad : wf_store s -> NoDup (ds_get s k now bad).
Proof.
  intros [H1 H2]. unfold ds_get. destruct (ds_find s k) as [es|] eqn:Ef; [|constructor].
  assert (Hnd : NoDup (map fst es)) by (eapply H2; apply ds_find_In; eauto).
  clear -Hnd. induction es as [|[p ts] es IH]; simpl; [constructor|].
  inversion Hnd as [|? ? Hn Hd]; subst. destruct (visible now bad (p, ts)); simpl; auto.
  constructor; auto. intro Hi. apply Hn. apply in_map_iff in Hi. destruct Hi as ([a b] & <- & Hi).
  apply filter_In in Hi. apply in_map_iff. exists (a, b). tauto.
Qed.

(* the abstract store *)
Definition amap := N -> N -> option Z.
Definition a_step (m : amap) (o : dop) : amap :=
  match o with
  | DAdd k p now => fun k' p' => if N.eqb k' k && N.eqb p' p then Some now else m k' p'
  | DExpire now bad => fun k' p' =>
      match m k' p' with
      | Some ts => if doomed now (bad_of bad) (p', ts) then None else Some ts
      | None => None
      end
  end.
Definition a_run (ops : list dop) : amap := fold_left a_step ops (fun _ _ => None).

Lemma wf_nil : wf_store [].
Proof. split; [constructor|intros ? ? []]. Qed.

Lemma ds_step_wf s o : wf_store s -> wf_store (ds_step s o).
Proof. destruct o; simpl; [apply ds_add_wf|apply ds_expire_wf]. Qed.

Lemma ds_run_gen ops : forall s m, wf_store s -> (forall k p, ts_of s k p = m k p) ->
  wf_store (fold_left ds_step ops s) /\
  forall k p, ts_of (fold_left ds_step ops s) k p = fold_left a_step ops m k p.
Proof.
  induction ops as [|o ops IH]; intros s m Hwf Heq; cbn [fold_left]; auto.
  apply IH; [now apply ds_step_wf|].
  intros k p. destruct o; cbn [ds_step a_step].
  - rewrite ts_of_add. now rewrite Heq.
  - rewrite ts_of_expire by auto. now rewrite Heq.
Qed.

Theorem store_refines ops k p : ts_of (ds_run ops) k p = a_run ops k p.
Proof. unfold ds_run, a_run. apply ds_run_gen; [apply wf_nil|reflexivity]. Qed.

Theorem store_visible_until_expiry ops k p now bad :
  In p (ds_get (ds_run ops) k now bad) <->
  exists ts, a_run ops k p = Some ts /\ (now < ts + 86400)%Z /\ bad p = false.
Proof.
  assert (Hwf : wf_store (ds_run ops)) by (apply (ds_run_gen ops [] (fun _ _ => None)); [apply wf_nil|reflexivity]).
  rewrite ds_get_spec by auto. setoid_rewrite store_refines.
  unfold visible, EXPIRY. cbn [fst snd].
  split; intros (ts & Ht & Hv); exists ts; split; auto.
  - apply andb_prop in Hv. destruct Hv as (Hv1 & Hv2). apply Z.ltb_lt in Hv1. apply negb_true_iff in Hv2. auto.
  - destruct Hv as (Hv1 & Hv2). apply andb_true_intro. split; [now apply Z.ltb_lt|now apply negb_true_iff].
Qed.

Theorem store_get_NoDup ops k now bad : NoDup (ds_get (ds_run ops) k now bad).
Proof.
  apply ds_get_NoDup. apply (ds_run_gen ops [] (fun _ _ => None)); [apply wf_nil|reflexivity].
Qed.

Lemma a_run_app ops o : forall k p, a_run (ops ++ [o]) k p = a_step (a_run ops) o k p.
Proof. intros. unfold a_run. now rewrite fold_left_app. Qed.

(* refresh: a repeated announcement replaces the timestamp, whatever happened before *)
Theorem store_refresh ops k p t now bad :
  In p (ds_get (ds_run (ops ++ [DAdd k p t])) k now bad) <-> (now < t + 86400)%Z /\ bad p = false.
Proof.
  rewrite store_visible_until_expiry. rewrite a_run_app. cbn [a_step]. rewrite !N.eqb_refl. cbn [andb].
  split.
  - intros (ts & E & H). inversion E; subst. exact H.
  - intros H. exists t. split; auto.
Qed.

(* ---- witnesses for the _refuted lemmas ---- *)
Definition mk_compact (i : N) : bytes :=
  [x01; x02; x03; x04; x0d; x05] ++ be_encode 48 i.

Definition pager_peer : peer := {| pid := 1; pdist := 5; has_id := true; self_id := false; self_addr := false |}.

(* a hostile storing node: page j holds eight fresh valid addresses and announces j+2 pages *)
Definition pager_reply (j : nat) : fev :=
  EValueReply pager_peer false
    (map (fun t => VB (mk_compact (N.of_nat (8 * j + t)))) (seq 0 8)) (j + 2) [] true.

Definition pager_evs (rounds : nat) : list fev :=
  EInit [pager_peer] :: EStart [] :: flat_map (fun j => [pager_reply j; EDone 1 j []]) (seq 0 rounds).

Definition prm_value (cap : option nat) : fparams :=
  {| fp_kind := KValue; fp_key_is_self := false; fp_maxres := 8; fp_cap := cap; fp_stalepop := false |}.

(* before fac7223 (no cap) the probe bound of finder_probe_bound fails: one peer, 35 probes > 33 *)
Lemma uncapped_pager_refuted :
  exists evs, length (nodup N.eq_dec (mentioned evs)) = 1 /\ seeds_of evs = 0 /\
    f_sched (final_state (prm_value None) evs) > (1 + MAX_VALUE_PAGES) * 1 /\
    f_sched (final_state (prm_value real_cap) evs) <= (1 + MAX_VALUE_PAGES) * 1.
Proof.
  exists (pager_evs 34). vm_compute. repeat split; lia.
Qed.

Definition seqN (n : nat) : list N := map N.of_nat (seq 0 n).

(* ------------------------------------------------------------------------------------------ *)
(* E. production lookup: the udp port guess; findValue reply size                              *)
(* ------------------------------------------------------------------------------------------ *)
Lemma guess_udp_supported (udp tcp : N) : guess_udp tcp = udp <-> port_layout_supported udp tcp.
Proof.
  unfold guess_udp, port_layout_supported.
  destruct (3332 <? tcp)%N eqn:E1; destruct (tcp <? 3400)%N eqn:E2; cbn [andb];
    try apply N.ltb_lt in E1; try apply N.ltb_ge in E1; try apply N.ltb_lt in E2; try apply N.ltb_ge in E2; lia.
Qed.

(* a peer that is not this node and not known bad, whose ports follow a supported layout, is handed out at once
   or pinged on its REAL udp port *)
Lemma producer_action_reaches (good : option bool) (known : option N) (udp tcp : N) :
  good <> Some false -> port_layout_supported udp tcp -> (known = None \/ known = Some udp) -> udp <> 0%N ->
  producer_action false good known tcp = APut \/ producer_action false good known tcp = APing udp.
Proof.
  intros Hg Hs Hk Hu. unfold producer_action.
  destruct good as [[|]|]; [now left|congruence|]. right.
  apply guess_udp_supported in Hs. destruct Hk as [->| ->]; [now rewrite Hs|].
  destruct (N.eqb_spec udp 0); [contradiction|reflexivity].
Qed.

Lemma ndigits_le (n : N) : ndigits n <= 7 /\ 1 <= ndigits n.
Proof. unfold ndigits. repeat (destruct (_ <? _)%N); lia. Qed.

Lemma ndigits_small (n : N) k : (n < 10 ^ k)%N -> (1 <= k <= 6)%N -> ndigits n <= N.to_nat k.
Proof.
  intros Hn Hk. unfold ndigits.
  assert (Hk' : (k = 1 \/ k = 2 \/ k = 3 \/ k = 4 \/ k = 5 \/ k = 6)%N) by lia.
  repeat match goal with |- context [(?a <? ?b)%N] => destruct (N.ltb_spec a b) end;
    destruct Hk' as [E|[E|[E|[E|[E|E] ] ] ] ]; subst k;
    match type of Hn with (_ < 10 ^ ?k)%N =>
      let v := eval vm_compute in (10 ^ k)%N in change (10 ^ k)%N with v in Hn;
      let w := eval vm_compute in (N.to_nat k) in change (N.to_nat k) with w end; lia.
Qed.

Lemma sz_bytes_text len : len <= 15 -> sz_bytes len <= 18.
Proof.
  intro H. unfold sz_bytes. assert (ndigits (N.of_nat len) <= 2); [|lia].
  apply (ndigits_small _ 2); [change (10 ^ 2)%N with 100%N; lia|lia].
Qed.

Lemma sz_int_port p : (p < 65536)%N -> sz_int p <= 7.
Proof.
  intro H. unfold sz_int. assert (ndigits p <= 5); [|lia].
  apply (ndigits_small _ 5); [change (10 ^ 5)%N with 100000%N; lia|lia].
Qed.

Lemma sum_triples cs : Forall (fun c => fst c <= 15 /\ (snd c < 65536)%N) cs ->
  sum_nat (map sz_triple cs) <= 78 * length cs.
Proof.
  induction 1 as [|c cs [H1 H2] _ IH]; cbn [map sum_nat fold_right length]; [lia|].
  fold (sum_nat (map sz_triple cs)). unfold sz_triple at 1.
  pose proof (sz_bytes_text _ H1). pose proof (sz_int_port _ H2).
  change (sz_bytes 48) with 51. lia.
Qed.

(* K contacts with the longest dotted quads and 5-digit ports, a full page of K peers and any page count below
   10^6: the largest first findValue page fits one datagram *)
Theorem first_page_fits (cs : list (nat * N)) (c : nat) (pages : N) :
  length cs <= K -> Forall (fun x => fst x <= 15 /\ (snd x < 65536)%N) cs -> c <= K -> (pages < 1000000)%N ->
  find_value_reply_size (Some cs) (Some c) pages <= MSG_SIZE_LIMIT.
Proof.
  intros Hl Hf Hc Hp. unfold find_value_reply_size, MSG_SIZE_LIMIT, K in *.
  pose proof (sum_triples cs Hf) as Hs.
  assert (Hpg : sz_int pages <= 8).
  { unfold sz_int. assert (ndigits pages <= 6); [|lia]. apply (ndigits_small _ 6); [exact Hp|lia]. }
  change (sz_bytes 5) with 7. change (sz_bytes 48) with 51. change (sz_bytes 8) with 10.
  change (sz_bytes 15) with 18. change (sz_bytes 54) with 57. change (sz_bytes 1) with 3. change (sz_bytes 20) with 23.
  change (sz_int 0) with 3. change (sz_int 1) with 3. change (sz_int 2) with 3. change (sz_int 3) with 3.
  nia.
Qed.

(* ------------------------------------------------------------------------------------------ *)
(* F. the done-callback and pending probe results                                              *)
(* ------------------------------------------------------------------------------------------ *)
Theorem node_yield_valid' prm st ev st' outs tag ps x :
  fstep prm st ev = (st', outs, tag) -> In (OYield ps) outs -> In x ps ->
  In x (good_of ev) /\ ~ In x (f_yielded st) /\
  exists q, In q (f_active st') /\ pid q = x /\ self_id q = false.
Proof.
  intros H Hin Hx. apply fstep_unfold in H. destruct H as (s1 & H & ->).
  destruct (settle_fields s1 ev) as (S1 & _). cbv zeta in S1. rewrite S1. eapply node_yield_valid; eauto.
Qed.

Theorem value_yield_valid' prm st ev st' outs tag cs c :
  fstep prm st ev = (st', outs, tag) -> In (OVYield cs) outs -> In c cs ->
  valid_compact c = true /\
  exists p sb raw pages cts chk, ev = EValueReply p sb raw pages cts chk /\ In (VB c) raw.
Proof.
  intros H Hin Hx. apply fstep_unfold in H. destruct H as (s1 & H & ->). eapply value_yield_valid; eauto.
Qed.

Lemma assoc_opt_set k v l q : assoc_opt q (assoc_set_nat k v l) = if N.eqb q k then Some v else assoc_opt q l.
Proof.
  induction l as [|[k' v'] l IH]; simpl.
  - rewrite (N.eqb_sym k q). reflexivity.
  - destruct (N.eqb_spec k' k) as [->|Ne]; simpl.
    + rewrite (N.eqb_sym k q). destruct (N.eqb_spec q k); auto.
    + destruct (N.eqb_spec k' q) as [->|Nq].
      * destruct (N.eqb_spec q k); [congruence|auto].
      * apply IH.
Qed.

Lemma assoc_opt_del k l q : assoc_opt q (assoc_del k l) = if N.eqb q k then None else assoc_opt q l.
Proof.
  unfold assoc_del. induction l as [|[k' v'] l IH]; simpl.
  - now destruct (q =? k)%N.
  - destruct (N.eqb_spec k' k) as [->|Ne]; simpl.
    + rewrite IH. destruct (N.eqb_spec q k) as [E|Nq]; auto.
      destruct (N.eqb_spec k q); [congruence|auto].
    + destruct (N.eqb_spec k' q) as [->|Nq].
      * destruct (N.eqb_spec q k); [congruence|auto].
      * apply IH.
Qed.

Lemma assoc_opt_nil l : (forall q, assoc_opt q l = None) -> l = [].
Proof.
  destruct l as [|[k v] l]; auto. intro H. specialize (H k). simpl in H. rewrite N.eqb_refl in H. discriminate.
Qed.

Lemma removeN_In_iff x y l : In y (removeN x l) <-> In y l /\ y <> x.
Proof.
  unfold removeN, remove_set. rewrite filter_In. split; intros (H1 & H2); split; auto.
  - intros ->. rewrite N.eqb_refl in H2. discriminate.
  - apply negb_true_iff. apply N.eqb_neq. congruence.
Qed.

(* every probe whose result is still pending owns its peer's running_probes entry *)
Definition jinv (st : fstate) : Prop :=
  forall p tid, assoc_opt p (f_pending st) = Some tid -> assoc_opt p (f_task st) = Some tid /\ In p (f_running st).

Definition same_tasks (a b : fstate) : Prop :=
  f_task a = f_task b /\ f_pending a = f_pending b /\ f_running a = f_running b.

Lemma jinv_same a b : same_tasks a b -> jinv b -> jinv a.
Proof. intros (E1 & E2 & E3) H p tid. rewrite E1, E2, E3. apply H. Qed.

Lemma add_active_same st p f b : same_tasks (add_active st p f b) st.
Proof.
  unfold add_active, same_tasks. destruct (negb f && b); auto.
  destruct (memN (pid p) (f_contacted st)); auto. destruct (_ && _); auto.
Qed.

Lemma add_contacts_same cs : forall st, same_tasks (add_contacts st cs) st.
Proof.
  unfold add_contacts. induction cs as [|[c b] cs IH]; intro st; cbn [fold_left]; [repeat split|].
  destruct (IH (add_active st c false b)) as (A1 & A2 & A3).
  destruct (add_active_same st c false b) as (B1 & B2 & B3). cbn [fst snd] in *.
  repeat split; congruence.
Qed.

Lemma jinv_schedule st p seed : jinv st -> jinv (schedule st p seed).
Proof.
  intros H q tid. unfold schedule. cbn [f_pending f_task f_running]. rewrite !assoc_opt_set.
  destruct (N.eqb_spec q p) as [->|Ne].
  - intro E. split; auto. apply addN_In. now left.
  - intro E. destruct (H q tid E) as (H1 & H2). split; auto. apply addN_In. now right.
Qed.

Lemma round_loop_jinv l : forall idx st added outs st' added' outs',
  round_loop l idx st added outs = (st', added', outs') -> jinv st -> jinv st'.
Proof.
  induction l as [|p l IH]; intros idx st added outs st' added' outs' Hr Hj; cbn [round_loop] in Hr.
  - inversion Hr; subst; auto.
  - destruct (memN (pid p) (f_contacted st)); [eapply IH; eauto|].
    destruct (ALPHA <=? length (f_running st)); [inversion Hr; subst; auto|].
    destruct (K + length (f_running st) <? idx); [inversion Hr; subst; auto|].
    destruct (self_id p); [eapply IH; eauto|].
    destruct (self_addr p); [eapply IH; eauto|].
    eapply IH; eauto. now apply jinv_schedule.
Qed.

Lemma put_result_same prm st good fin st' outs : put_result prm st good fin = (st', outs) -> same_tasks st' st.
Proof.
  unfold put_result. cbv zeta. intro H. inversion H; subst. destruct (is_nil _); repeat split.
Qed.

Lemma search_round_jinv prm st good st' outs : search_round prm st good = (st', outs) -> jinv st -> jinv st'.
Proof.
  unfold search_round. intros H Hj.
  destruct (round_loop (f_active st) 0 st 0 []) as [[st1 added] outs1] eqn:Er.
  pose proof (round_loop_jinv _ _ _ _ _ _ _ _ Er Hj) as H1.
  destruct (Nat.eqb added 0 && is_nil (f_running st1)); [|inversion H; subst; auto].
  destruct (exhausted prm st1 good) as [st2 o2] eqn:Ee. inversion H; subst; clear H.
  unfold exhausted in Ee. destruct (fp_kind prm).
  - eapply jinv_same; [eapply put_result_same; eauto|auto].
  - inversion Ee; subst; auto.
Qed.

Lemma jinv_done prm st p tid : fp_stalepop prm = false -> ev_wf st (EDone p tid []) -> jinv st ->
  jinv (done_state prm st p tid).
Proof.
  intros Hs Hwf Hj. unfold done_state. cbv zeta. rewrite Hs, orb_false_r.
  destruct (assoc_opt p (f_task st)) as [t|] eqn:Et; [|auto].
  destruct (Nat.eqb_spec t tid) as [->|Ne]; [|auto].
  intros q tq E. unfold set_tasks, set_on_running in *. cbn [f_pending f_task f_running] in *.
  destruct (Hj q tq E) as (H1 & H2). rewrite assoc_opt_del.
  destruct (N.eqb_spec q p) as [->|Nq].
  - exfalso. cbn [ev_wf] in Hwf. rewrite Et in H1. inversion H1; subst. contradiction.
  - split; auto. apply removeN_In_iff. auto.
Qed.

Lemma jinv_settle st ev : jinv st -> jinv (settle_pending st ev).
Proof.
  intro H. destruct ev; cbn [settle_pending]; auto; intros q tq E; unfold set_tasks in *;
    cbn [f_pending f_task f_running] in *; rewrite assoc_opt_del in E;
    match type of E with (if ?c then _ else _) = _ => destruct c; [discriminate|auto] end.
Qed.

Lemma jinv_empty st : f_pending st = [] -> jinv st.
Proof. intros E p tid H. rewrite E in H. discriminate. Qed.

Lemma seeds_fold_jinv sl : forall st outs st' outs',
  fold_left (fun so p =>
        if has_id p then (add_active (fst so) p true false, snd so)
        else (schedule (fst so) (pid p) true, snd so ++ [OSched (pid p)])) sl (st, outs) = (st', outs') ->
  jinv st -> jinv st'.
Proof.
  induction sl as [|p sl IH]; intros st outs st' outs' H Hj; cbn [fold_left] in H.
  - inversion H; subst; auto.
  - cbn [fst snd] in H. destruct (has_id p).
    + eapply IH; eauto. eapply jinv_same; [apply add_active_same|auto].
    + eapply IH; eauto. now apply jinv_schedule.
Qed.

Theorem fstep_jinv prm st ev st' outs tag : fp_stalepop prm = false ->
  fstep prm st ev = (st', outs, tag) -> ev_wf st ev -> jinv st -> jinv st'.
Proof.
  intros Hs H Hwf Hj. apply fstep_unfold in H. destruct H as (s1 & H & ->). apply jinv_settle.
  destruct ev; cbn [fstep_core] in H.
  - match type of H with (let '(_, _) := ?f in _) = _ => destruct f as [s2 o1] eqn:Ef end.
    inversion H; subst. eapply seeds_fold_jinv; eauto.
  - destruct (search_round prm _ good) as [s2 o1] eqn:Es. inversion H; subst.
    eapply search_round_jinv; eauto.
  - assert (Hd : jinv (done_state prm st p tid)) by (apply jinv_done; auto).
    destruct (f_on st).
    + destruct (search_round prm _ good) as [s2 o1] eqn:Es. inversion H; subst. eapply search_round_jinv; eauto.
    + inversion H; subst; auto.
  - inversion H; subst. unfold reset_closest, set_active. intros q tq E. apply (Hj q tq E).
  - inversion H; subst; auto.
  - unfold aclose in H. inversion H; subst. apply jinv_empty. reflexivity.
  - assert (Hc : jinv (add_contacts (add_active st p false selfbad) contacts)).
    { eapply jinv_same; [apply add_contacts_same|]. eapply jinv_same; [apply add_active_same|auto]. }
    destruct checked; [|inversion H; subst; auto].
    destruct (found_key && negb (fp_key_is_self prm)); [|inversion H; subst; auto].
    destruct (put_result prm _ good true) as [s2 o1] eqn:Ep. inversion H; subst.
    eapply jinv_same; [eapply put_result_same; eauto|auto].
  - destruct (if is_nil raw then (DOk, []) else scan_values raw []) as [verdict items].
    match type of H with context [if negb (is_nil items) then ?a else st] =>
      set (st1 := if negb (is_nil items) then a else st) in H end.
    assert (H1 : jinv st1).
    { subst st1. destruct (negb (is_nil items)); auto.
      destruct (page_step eqc (fp_cap prm) _ items pages) as [nxt again].
      intros q tq E. apply (Hj q tq E). }
    assert (H2 : jinv (add_contacts (add_active st1 p false selfbad) contacts)).
    { eapply jinv_same; [apply add_contacts_same|]. eapply jinv_same; [apply add_active_same|auto]. }
    destruct verdict.
    + inversion H; subst; auto.
    + destruct checked; [|inversion H; subst; auto].
      destruct (negb (is_nil items)); [|inversion H; subst; auto].
      destruct (yield_new eqc _ items) as [seen fresh]. inversion H; subst.
      intros q tq E. apply (H2 q tq E).
    + destruct checked; [|inversion H; subst; auto].
      destruct (negb (is_nil items)); [|inversion H; subst; auto].
      destruct (yield_new eqc _ items) as [seen fresh]. inversion H; subst.
      intros q tq E. apply (H2 q tq E).
  - unfold aclose in H. inversion H; subst. apply jinv_empty. reflexivity.
Qed.

(* every done-callback comes after its task's result *)
Fixpoint run_wf (prm : fparams) (st : fstate) (evs : list fev) : Prop :=
  match evs with
  | [] => True
  | e :: r => ev_wf st e /\ run_wf prm (fst (fst (fstep prm st e))) r
  end.

Lemma frun_jinv prm evs : fp_stalepop prm = false -> forall st, run_wf prm st evs -> jinv st ->
  jinv (fst (frun prm st evs)).
Proof.
  intro Hs. induction evs as [|e evs IH]; intros st Hwf Hj; cbn [frun]; auto.
  cbn [run_wf] in Hwf. destruct Hwf as (Hw & Hr).
  destruct (fstep prm st e) as [[st1 o1] t1] eqn:Es. cbn [fst] in Hr.
  specialize (IH st1 Hr (fstep_jinv prm _ _ _ _ _ Hs Es Hw Hj)).
  destruct (frun prm st1 evs) as [stf rest]. exact IH.
Qed.

(* with the repaired callback, whenever no probe is tracked as running, no probe result is pending:
   the end of the search is never declared while a page is still on its way *)
Theorem exhaustion_sound prm evs : fp_stalepop prm = false -> run_wf prm f_init evs ->
  f_running (final_state prm evs) = [] -> f_pending (final_state prm evs) = [].
Proof.
  intros Hs Hwf Hr. pose proof (frun_jinv prm evs Hs f_init Hwf (jinv_empty f_init eq_refl)) as Hj.
  unfold final_state in *. apply assoc_opt_nil. intro q.
  destruct (assoc_opt q (f_pending (fst (frun prm f_init evs)))) as [t|] eqn:E; auto.
  destruct (Hj q t E) as (_ & Hin). rewrite Hr in Hin. destruct Hin.
Qed.

(* the callback before the fix: Q (closer, nothing stored) and P (a full page, more announced) answer in the same
   loop iteration; Q's callback re-schedules P, P's stale callback removes the new entry and the end is declared
   while P's next page is pending *)
Definition race_q : peer := {| pid := 1; pdist := 3; has_id := true; self_id := false; self_addr := false |}.
Definition race_p : peer := {| pid := 2; pdist := 9; has_id := true; self_id := false; self_addr := false |}.
Definition race_evs : list fev :=
  [EInit [race_q; race_p]; EStart [];
   EValueReply race_q false [] 0 [] true;
   EValueReply race_p false (map (fun t => VB (mk_compact (N.of_nat t))) (seq 0 8)) 3 [] true;
   EDone 1 0 []; EDone 2 1 []].
Definition prm_race (stale : bool) : fparams :=
  {| fp_kind := KValue; fp_key_is_self := false; fp_maxres := 8; fp_cap := real_cap; fp_stalepop := stale |}.

Lemma stale_pop_refuted :
  run_wf (prm_race true) f_init race_evs /\
  f_running (final_state (prm_race true) race_evs) = [] /\
  f_pending (final_state (prm_race true) race_evs) = [(2%N, 2)] /\
  In OFinish (fst (last (snd (frun (prm_race true) f_init race_evs)) ([], 0%N))) /\
  f_running (final_state (prm_race false) race_evs) = [2%N] /\
  ~ In OFinish (fst (last (snd (frun (prm_race false) f_init race_evs)) ([], 0%N))).
Proof.
  vm_compute. repeat split; try (intros [H|[]]; discriminate); try congruence; auto.
Qed.

(* a peer whose store request is accepted has a compact address every searcher decodes as well-formed *)
Lemma nthN_app_l (a b : bytes) i : i < length a -> nthN (a ++ b) i = nthN a i.
Proof. intro H. unfold nthN. now rewrite nth_error_app1. Qed.

Theorem stored_peer_compact_valid (ip id : bytes) (port : N) :
  length ip = 4 -> length id = 48 ->
  public_ip (nthN ip 0) (nthN ip 1) (nthN ip 2) (nthN ip 3) = true -> store_port_ok port = true ->
  valid_compact (mk_compact_addr ip port id) = true.
Proof.
  intros Hip Hid Hpub Hp. unfold store_port_ok in Hp. apply andb_prop in Hp. destruct Hp as (H1 & H2).
  apply N.leb_le in H1, H2.
  unfold valid_compact, decode_compact, mk_compact_addr.
  assert (Hlen : length (ip ++ be_encode 2 port ++ id) = 54) by (rewrite !app_length, be_encode_length; lia).
  rewrite Hlen. change (54 <? 4) with false. cbv iota.
  rewrite (skipn_app_exact' 4 ip) by auto.
  rewrite (firstn_app_exact' 2 (be_encode 2 port) id) by (now rewrite be_encode_length).
  rewrite be_decode_encode by (change (256 ^ N.of_nat 2)%N with 65536%N; lia).
  assert (E0 : (port =? 0)%N = false) by (apply N.eqb_neq; lia). rewrite E0.
  replace (skipn 6 (ip ++ be_encode 2 port ++ id)) with id.
  2:{ rewrite app_assoc. symmetry. apply skipn_app_exact'. rewrite app_length, be_encode_length. lia. }
  rewrite Hid. change (Nat.eqb 48 48) with true. cbn [negb].
  assert (E1 : (port <? 1024)%N = false) by (apply N.ltb_ge; lia). rewrite E1.
  rewrite !nthN_app_l by lia. rewrite Hpub. reflexivity.
Qed.

(* ping queue *)
Lemma pq_enqueue_get q p a x :
  pq_get (pq_enqueue q p a) x =
  if N.eqb x p then Some (match pq_get q p with Some t => Z.min t a | None => a end) else pq_get q x.
Proof.
  induction q as [|[k t] q IH]; simpl.
  - rewrite (N.eqb_sym p x). destruct (N.eqb_spec x p); auto.
  - destruct (N.eqb_spec k p) as [->|Ne]; simpl.
    + rewrite (N.eqb_sym p x). destruct (N.eqb_spec x p) as [E|Nx]; auto.
      f_equal. destruct (Z.ltb_spec a t); lia.
    + destruct (N.eqb_spec k x) as [->|Nk].
      * destruct (N.eqb_spec x p); [congruence|auto].
      * rewrite IH. destruct (N.eqb_spec x p); auto.
Qed.

(* once a contact is queued for time a, no sequence of further enqueues (of anybody) moves its ping later *)
Theorem pq_never_postponed (ops : list (N * Z)) : forall q p a,
  pq_get q p = Some a ->
  exists t, pq_get (fold_left (fun s o => pq_enqueue s (fst o) (snd o)) ops q) p = Some t /\ (t <= a)%Z.
Proof.
  induction ops as [|[k b] ops IH]; intros q p a H; cbn [fold_left fst snd].
  - exists a. split; auto. lia.
  - assert (H' : exists a', pq_get (pq_enqueue q k b) p = Some a' /\ (a' <= a)%Z).
    { rewrite pq_enqueue_get. destruct (N.eqb_spec p k) as [->|Ne].
      - rewrite H. eexists. split; eauto. lia.
      - exists a. split; auto. lia. }
    destruct H' as (a' & H1 & H2). destruct (IH _ _ _ H1) as (t & T1 & T2). exists t. split; auto. lia.
Qed.
