(* C12 proofs.  Part B (paging) first, then D (finder), A (data store), C (compact addresses). *)
From Coq Require Import NArith ZArith List Bool Arith Lia Permutation.
From Coq.Strings Require Import Byte.
From LV Require Import Lib.Bytes Model.C12.
Import ListNotations.
Ltac Zify.zify_post_hook ::= Z.to_euclidean_division_equations.

(* ------------------------------------------------------------------------------------------ *)
(* list facts                                                                                  *)
(* ------------------------------------------------------------------------------------------ *)
Lemma NoDup_app_inv {A} (a b : list A) :
  NoDup (a ++ b) -> NoDup a /\ NoDup b /\ (forall x, In x a -> ~ In x b).
Proof.
  induction a as [|x a IH]; simpl; intro H.
  - repeat split; auto. constructor.
  - inversion H as [|? ? Hn Hd]; subst. destruct (IH Hd) as (Ha & Hb & Hab).
    split; [|split]; auto.
    + constructor; auto. intro Hi. apply Hn. apply in_or_app. now left.
    + intros y [->|Hy]; auto. intro Hy. apply Hn. apply in_or_app. now right.
Qed.

Lemma NoDup_app_intro {A} (a b : list A) :
  NoDup a -> NoDup b -> (forall x, In x a -> ~ In x b) -> NoDup (a ++ b).
Proof.
  induction a as [|x a IH]; simpl; intros Ha Hb Hab; auto.
  inversion Ha as [|? ? Hn Hd]; subst. constructor.
  - intro Hi. apply in_app_or in Hi. destruct Hi as [Hi|Hi]; [contradiction|].
    exact (Hab x (or_introl eq_refl) Hi).
  - apply IH; auto. intros y Hy. apply Hab. now right.
Qed.

Lemma firstn_add {A} (a b : nat) (l : list A) : firstn a l ++ firstn b (skipn a l) = firstn (a + b) l.
Proof.
  revert l. induction a as [|a IH]; intro l; simpl; auto.
  destruct l as [|x l]; simpl.
  - now rewrite firstn_nil.
  - now rewrite IH.
Qed.

Lemma NoDup_firstn {A} n (l : list A) : NoDup l -> NoDup (firstn n l).
Proof.
  intro H. rewrite <- (firstn_skipn n l) in H. now apply NoDup_app_inv in H.
Qed.

Lemma firstn_ge_all {A} n (l : list A) : length l <= n -> firstn n l = l.
Proof. apply firstn_all2. Qed.

(* ------------------------------------------------------------------------------------------ *)
(* B. paging                                                                                   *)
(* ------------------------------------------------------------------------------------------ *)
Section PagingProofs.
  Context {A : Type}.
  Variable eqb : A -> A -> bool.
  Hypothesis eqb_spec : forall x y, eqb x y = true <-> x = y.

  Lemma mem_In x l : mem eqb x l = true <-> In x l.
  Proof.
    unfold mem. rewrite existsb_exists. split.
    - intros (y & Hy & He). apply eqb_spec in He. now subst.
    - intro H. exists x. split; auto. now apply eqb_spec.
  Qed.

  Lemma mem_notIn x l : mem eqb x l = false <-> ~ In x l.
  Proof. rewrite <- mem_In. destruct (mem eqb x l); split; congruence. Qed.

  Lemma union_set_fresh l items :
    NoDup items -> (forall x, In x items -> ~ In x l) -> union_set eqb l items = l ++ items.
  Proof.
    revert l. induction items as [|x items IH]; intros l Hnd Hfr; simpl.
    - now rewrite app_nil_r.
    - inversion Hnd; subst. unfold union_set in *. simpl. unfold add_set at 2.
      assert (Hm : mem eqb x l = false) by (apply mem_notIn; apply Hfr; now left).
      rewrite Hm. rewrite IH; auto.
      + now rewrite <- app_assoc.
      + intros y Hy Hin. apply in_app_or in Hin. destruct Hin as [Hin|[->|[]]].
        * apply (Hfr y); auto. now right.
        * contradiction.
  Qed.

  Lemma yield_new_fresh_gen items : forall seen out,
    NoDup items -> (forall x, In x items -> ~ In x seen) ->
    fold_left (fun sa x => if mem eqb x (fst sa) then sa else (fst sa ++ [x], snd sa ++ [x])) items (seen, out)
    = (seen ++ items, out ++ items).
  Proof.
    induction items as [|x items IH]; intros seen out Hnd Hfr; simpl.
    - now rewrite !app_nil_r.
    - inversion Hnd; subst.
      assert (Hm : mem eqb x seen = false) by (apply mem_notIn; apply Hfr; now left).
      rewrite Hm. rewrite IH; auto.
      + now rewrite <- !app_assoc.
      + intros y Hy Hin. apply in_app_or in Hin. destruct Hin as [Hin|[->|[]]].
        * apply (Hfr y); auto. now right.
        * contradiction.
  Qed.

  Lemma yield_new_fresh seen items :
    NoDup items -> (forall x, In x items -> ~ In x seen) -> yield_new eqb seen items = (seen ++ items, items).
  Proof. intros. unfold yield_new. now rewrite yield_new_fresh_gen. Qed.

  Lemma serve_page_spec (l : list A) p : firstn (p * K) l ++ serve_page l p = firstn (p * K + K) l.
  Proof. unfold serve_page. apply firstn_add. Qed.

  Lemma serve_page_fresh (l : list A) p :
    NoDup l -> NoDup (serve_page l p) /\ (forall x, In x (serve_page l p) -> ~ In x (firstn (p * K) l)).
  Proof.
    intro Hnd. pose proof (NoDup_firstn (p * K + K) l Hnd) as H. rewrite <- serve_page_spec in H.
    apply NoDup_app_inv in H. destruct H as (_ & Hb & Hab). split; auto.
    intros x Hx Hin. exact (Hab x Hin Hx).
  Qed.

  Lemma serve_page_length (l : list A) p : length (serve_page l p) = Nat.min K (length l - p * K).
  Proof. unfold serve_page. now rewrite firstn_length, skipn_length. Qed.

  Variable cap : option nat.
  Variable pf : nat -> nat.

  Lemma walk_honest (l : list A) : NoDup l ->
    forall fuel p asked, let lim := page_limit cap (pf (length l)) in
    p <= lim -> lim + 2 <= fuel + p ->
    let r := walk eqb cap fuel (honest_with pf l) {| pg := p; disc := firstn (p * K) l |} (firstn (p * K) l) asked in
    fst (fst r) = firstn (K * (lim + 1)) l /\ snd r = true.
  Proof.
    intros Hnd fuel. induction fuel as [|fuel IH]; intros p asked lim Hp Hf; [lia|].
    cbn [walk honest_with]. unfold page_step. cbn [pg disc].
    destruct (serve_page_fresh l p Hnd) as (Hnd_it & Hfresh).
    pose proof (serve_page_length l p) as Hlen.
    pose proof (serve_page_spec l p) as Hspec.
    destruct (serve_page l p) as [|x items] eqn:Eit.
    - (* nothing on this page *)
      cbn [is_nil yield_new fold_left fst snd]. split; auto.
      simpl in Hlen. assert (length l <= p * K) by (unfold K in *; lia).
      rewrite firstn_ge_all by auto. rewrite firstn_ge_all; auto. unfold K in *. nia.
    - cbn [is_nil]. rewrite <- Eit in *. clear Eit.
      rewrite union_set_fresh by auto.
      rewrite app_length, Nat.eqb_refl.
      rewrite yield_new_fresh by auto. cbn [fst].
      rewrite Hspec.
      destruct (K <=? length (serve_page l p)) eqn:Efull; cbn [andb].
      + fold lim. destruct (p <? lim) eqn:Elt.
        * (* ask for the next page *)
          apply Nat.ltb_lt in Elt.
          replace (p * K + K) with (S p * K) by lia.
          apply IH; lia.
        * apply Nat.ltb_ge in Elt. cbn [fst snd]. split; auto.
          assert (p = lim) by lia. subst p. f_equal. lia.
      + apply Nat.leb_gt in Efull. cbn [fst snd]. split; auto.
        assert (length l < p * K + K) by lia.
        rewrite firstn_ge_all by lia. rewrite firstn_ge_all; auto. unfold K in *. nia.
  Qed.

  Theorem delivered_with_firstn (l : list A) :
    NoDup l -> page_limit cap (pf (length l)) <= length l ->
    delivered_with eqb cap pf l = firstn (K * (page_limit cap (pf (length l)) + 1)) l.
  Proof.
    intros Hnd Hle. unfold delivered_with.
    pose proof (walk_honest l Hnd (S (S (length l))) 0 []) as H. cbn zeta in H.
    simpl firstn in H. apply H; lia.
  Qed.
End PagingProofs.

Lemma pages_announced_le n : pages_announced n <= n.
Proof. unfold pages_announced, K. destruct n; simpl; [reflexivity|]. lia. Qed.

Lemma pages_announced_old_le n : pages_announced_old n <= n.
Proof.
  unfold pages_announced_old, K. destruct (Nat.eqb_spec n 0); [lia|].
  change (8 + 1) with 9. lia.
Qed.

Section PagingResults.
  Context {A : Type}.
  Variable eqb : A -> A -> bool.
  Hypothesis eqb_spec : forall x y, eqb x y = true <-> x = y.

  Lemma delivered_firstn (l : list A) : NoDup l ->
    delivered eqb l = firstn (K * (Nat.min (pages_announced (length l)) MAX_VALUE_PAGES + 1)) l.
  Proof.
    intro Hnd. unfold delivered, real_cap. rewrite (delivered_with_firstn eqb eqb_spec); auto.
    unfold page_limit. pose proof (pages_announced_le (length l)). lia.
  Qed.

  (* all n <= K * (MAX_VALUE_PAGES + 1) = 264 *)
  Theorem paging_complete (l : list A) :
    NoDup l -> length l <= K * (MAX_VALUE_PAGES + 1) -> delivered eqb l = l.
  Proof.
    intros Hnd Hle. rewrite delivered_firstn by auto. apply firstn_ge_all.
    unfold pages_announced, K, MAX_VALUE_PAGES in *. simpl in Hle |- *.
    change (4 * 8) with 32. change (8 - 1) with 7. lia.
  Qed.

  Theorem paging_cap_exceeded (l : list A) :
    NoDup l -> K * (MAX_VALUE_PAGES + 1) < length l -> length (delivered eqb l) = K * (MAX_VALUE_PAGES + 1).
  Proof.
    intros Hnd Hlt. rewrite delivered_firstn by auto. rewrite firstn_length.
    unfold pages_announced, K, MAX_VALUE_PAGES in *. simpl in Hlt |- *.
    change (4 * 8) with 32. lia.
  Qed.

  Theorem paging_complete_shuffled (stored shuffled : list A) :
    NoDup stored -> Permutation shuffled stored -> length stored <= K * (MAX_VALUE_PAGES + 1) ->
    Permutation (delivered eqb shuffled) stored /\ NoDup (delivered eqb shuffled).
  Proof.
    intros Hnd Hp Hle.
    assert (Hnd' : NoDup shuffled) by (eapply Permutation_NoDup; [apply Permutation_sym; eauto|auto]).
    rewrite paging_complete; auto. rewrite (Permutation_length Hp). auto.
  Qed.

  (* the code before bd444d0: complete iff n/9 + n mod 9 <= 16 *)
  Lemma delivered_old_firstn (l : list A) : NoDup l ->
    delivered_old eqb l = firstn (K * (pages_announced_old (length l) + 1)) l.
  Proof.
    intro Hnd. unfold delivered_old. rewrite (delivered_with_firstn eqb eqb_spec); auto.
    unfold page_limit. apply pages_announced_old_le.
  Qed.

  Theorem paging_old_refuted (l : list A) :
    NoDup l -> (delivered_old eqb l = l <-> good_count_old (length l) = true).
  Proof.
    intro Hnd. rewrite delivered_old_firstn by auto. unfold good_count_old. rewrite Nat.leb_le.
    unfold pages_announced_old, K. change (8 + 1) with 9.
    destruct (Nat.eqb_spec (length l) 0) as [E0|E0].
    - rewrite E0. destruct l; [|discriminate]. simpl. split; auto. intros _. lia.
    - split.
      + intro H. apply (f_equal (@length A)) in H. rewrite firstn_length in H. lia.
      + intro H. apply firstn_ge_all. lia.
  Qed.

  Theorem paging_old_withholds (l : list A) :
    NoDup l -> good_count_old (length l) = false -> length (delivered_old eqb l) < length l.
  Proof.
    intros Hnd Hg. rewrite delivered_old_firstn by auto. rewrite firstn_length.
    unfold good_count_old in Hg. apply Nat.leb_gt in Hg.
    unfold pages_announced_old, K. change (8 + 1) with 9.
    destruct (Nat.eqb_spec (length l) 0) as [E0|E0]; [rewrite E0 in Hg; simpl in Hg; lia|]. lia.
  Qed.
End PagingResults.
