(* C19 proofs *)
From Coq Require Import NArith ZArith List Bool Lia Permutation.
From LV Require Import Model.C19.
Import ListNotations.
Local Open Scope N_scope.
Ltac Zify.zify_post_hook ::= Z.to_euclidean_division_equations.

(* ------------------------------------------------------------------------------------------ *)
(* small facts                                                                                 *)
(* ------------------------------------------------------------------------------------------ *)

Lemma mem_In h l : mem h l = true <-> In h l.
Proof.
  unfold mem. rewrite existsb_exists. split.
  - intros [x [Hx He]]. apply N.eqb_eq in He. subst. exact Hx.
  - intro H. exists h. split; [exact H | apply N.eqb_refl].
Qed.

Lemma mem_false h l : mem h l = false <-> ~ In h l.
Proof. rewrite <- mem_In. destruct (mem h l); split; intro H; congruence. Qed.

Lemma MiB_pos : MiB <> 0.
Proof. discriminate. Qed.

Lemma mb_mono a b : a <= b -> mb a <= mb b.
Proof. intro H. unfold mb. apply N.div_le_mono; [exact MiB_pos | exact H]. Qed.

Lemma mb_superadd a b : mb a + mb b <= mb (a + b).
Proof. unfold mb, MiB. lia. Qed.

Lemma mb_sub a b : b <= a -> mb (a - b) + mb b <= mb a.
Proof. intro H. unfold mb, MiB. lia. Qed.

Lemma mb_scale k l : k * mb l <= mb (l * k).
Proof. unfold mb. rewrite (N.mul_comm l k). apply N.div_mul_le. exact MiB_pos. Qed.

Lemma mb_small l : l < MiB -> mb l = 0.
Proof. intro H. unfold mb. apply N.div_small. exact H. Qed.

Lemma mb_upper l : l < (mb l + 1) * MiB.
Proof. unfold mb, MiB. lia. Qed.

Lemma nsum_app l1 l2 : nsum (l1 ++ l2) = nsum l1 + nsum l2.
Proof. induction l1 as [|x t IH]; simpl; [reflexivity | rewrite IH; lia]. Qed.

Lemma nsum_map_perm {A} (f : A -> N) l l' : Permutation l l' -> nsum (map f l) = nsum (map f l').
Proof. induction 1; simpl; lia. Qed.

Lemma nsum_map_le {A} (f g : A -> N) l : (forall x, In x l -> f x <= g x) -> nsum (map f l) <= nsum (map g l).
Proof.
  induction l as [|x t IH]; intro H; simpl; [lia|].
  assert (f x <= g x) by (apply H; left; reflexivity).
  assert (nsum (map f t) <= nsum (map g t)) by (apply IH; intros y Hy; apply H; right; exact Hy). lia.
Qed.

Lemma nsum_map_ext {A} (f g : A -> N) l : (forall x, In x l -> f x = g x) -> nsum (map f l) = nsum (map g l).
Proof.
  induction l as [|x t IH]; intro H; simpl; [reflexivity|].
  rewrite (H x) by (left; reflexivity). rewrite IH; [reflexivity|]. intros y Hy. apply H. right. exact Hy.
Qed.

Lemma nsum_map_add {A} (f g : A -> N) l : nsum (map (fun x => f x + g x) l) = nsum (map f l) + nsum (map g l).
Proof. induction l as [|x t IH]; simpl; [reflexivity | rewrite IH; lia]. Qed.

Lemma nsum_flat_map {A B} (g : B -> N) (f : A -> list B) l :
  nsum (map g (flat_map f l)) = nsum (map (fun a => nsum (map g (f a))) l).
Proof. induction l as [|x t IH]; simpl; [reflexivity|]. rewrite map_app, nsum_app, IH. reflexivity. Qed.

Lemma nsum_map_repeat {A} (g : A -> N) x k : nsum (map g (repeat x k)) = N.of_nat k * g x.
Proof. induction k as [|k IH]; [reflexivity|]. cbn [repeat map nsum fold_right]. fold (nsum (map g (repeat x k))). rewrite IH. lia. Qed.

(* sum over a filtered list = sum of guarded terms *)
Lemma nsum_filter {A} (p : A -> bool) (f : A -> N) l :
  nsum (map f (filter p l)) = nsum (map (fun x => if p x then f x else 0) l).
Proof. induction l as [|x t IH]; simpl; [reflexivity|]. destruct (p x); simpl; rewrite IH; reflexivity. Qed.

Lemma nsum_split {A} (p : A -> bool) (f : A -> N) l :
  nsum (map f l) = nsum (map (fun x => if p x then f x else 0) l) + nsum (map (fun x => if p x then 0 else f x) l).
Proof. induction l as [|x t IH]; simpl; [reflexivity|]. rewrite IH. destruct (p x); lia. Qed.

Lemma nsum_mb_superadd {A} (f : A -> N) l : nsum (map (fun x => mb (f x)) l) <= mb (nsum (map f l)).
Proof.
  induction l as [|x t IH]; simpl; [apply N.le_0_l|].
  pose proof (mb_superadd (f x) (nsum (map f t))). lia.
Qed.

(* ------------------------------------------------------------------------------------------ *)
(* insertion sort is a permutation                                                             *)
(* ------------------------------------------------------------------------------------------ *)

Lemma insert_perm le x l : Permutation (insert le x l) (x :: l).
Proof.
  induction l as [|y t IH]; simpl; [apply Permutation_refl|].
  destruct (le x y); [apply Permutation_refl|].
  eapply Permutation_trans; [apply perm_skip; exact IH | apply perm_swap].
Qed.

Lemma isort_perm le l : Permutation (isort le l) l.
Proof.
  induction l as [|x t IH]; simpl; [apply perm_nil|].
  eapply Permutation_trans; [apply insert_perm | apply perm_skip; exact IH].
Qed.

(* the rows before ORDER BY *)
Definition raw_cands (net : bool) (d : db) : list row :=
  if net then flat_map (net_rows (sblobs d) (streams d)) (blobs d)
  else flat_map (content_rows (sblobs d) (streams d) (files d)) (blobs d)
       ++ flat_map (sd_rows (streams d) (files d)) (blobs d).

Lemma cands_perm net d : Permutation (cands net d) (raw_cands net d).
Proof.
  unfold cands, raw_cands. destruct net; [apply isort_perm|].
  apply Permutation_app; apply isort_perm.
Qed.

(* ------------------------------------------------------------------------------------------ *)
(* the deletion loop                                                                           *)
(* ------------------------------------------------------------------------------------------ *)

Lemma sweep_prefix cs : forall a, exists rest, cs = fst (sweep a cs) ++ rest.
Proof.
  induction cs as [|c r IH]; intro a; simpl; [exists []; reflexivity|].
  destruct (0 <=? a + Z.of_N (mb (r_len c)))%Z; simpl; [exists r; reflexivity|].
  destruct (IH (a + Z.of_N (mb (r_len c)))%Z) as [rest Hr].
  destruct (sweep (a + Z.of_N (mb (r_len c))) r) as [dl a'] eqn:E. simpl in *. exists rest. rewrite Hr at 1. reflexivity.
Qed.

Lemma credited_cons r l : credited (r :: l) = mb (r_len r) + credited l.
Proof. reflexivity. Qed.

Lemma credited_app l1 l2 : credited (l1 ++ l2) = credited l1 + credited l2.
Proof. unfold credited. rewrite map_app, nsum_app. reflexivity. Qed.

Lemma sweep_avail cs : forall a, snd (sweep a cs) = (a + Z.of_N (credited (fst (sweep a cs))))%Z.
Proof.
  induction cs as [|c r IH]; intro a; simpl; [unfold credited; simpl; lia|].
  destruct (0 <=? a + Z.of_N (mb (r_len c)))%Z eqn:E; simpl.
  - rewrite credited_cons. unfold credited at 1. simpl. lia.
  - specialize (IH (a + Z.of_N (mb (r_len c)))%Z).
    destruct (sweep (a + Z.of_N (mb (r_len c))) r) as [dl a'] eqn:E2. simpl in *.
    rewrite credited_cons. lia.
Qed.

Lemma sweep_neg_all cs : forall a, (snd (sweep a cs) < 0)%Z -> fst (sweep a cs) = cs.
Proof.
  induction cs as [|c r IH]; intros a H; simpl in *; [reflexivity|].
  destruct (0 <=? a + Z.of_N (mb (r_len c)))%Z eqn:E; simpl in *.
  - apply Z.leb_le in E. lia.
  - specialize (IH (a + Z.of_N (mb (r_len c)))%Z).
    destruct (sweep (a + Z.of_N (mb (r_len c))) r) as [dl a'] eqn:E2. simpl in *. f_equal. apply IH. exact H.
Qed.

(* every proper prefix of the deletion list left the pass still over the limit *)
Lemma sweep_overshoot cs : forall a, (a < 0)%Z ->
  (a + Z.of_N (credited (removelast (fst (sweep a cs)))) < 0)%Z.
Proof.
  induction cs as [|c r IH]; intros a Ha; simpl; [unfold credited; simpl; lia|].
  destruct (0 <=? a + Z.of_N (mb (r_len c)))%Z eqn:E; simpl; [unfold credited; simpl; lia|].
  apply Z.leb_gt in E. specialize (IH _ E).
  destruct (sweep (a + Z.of_N (mb (r_len c))) r) as [dl a'] eqn:E2. simpl in *.
  destruct dl as [|x dl']; [unfold credited; simpl; lia|].
  change (removelast (c :: x :: dl')) with (c :: removelast (x :: dl')). rewrite credited_cons. lia.
Qed.

Lemma sweep_nonempty c r a : fst (sweep a (c :: r)) <> [].
Proof.
  simpl. destruct (0 <=? a + Z.of_N (mb (r_len c)))%Z; simpl; [discriminate|].
  destruct (sweep (a + Z.of_N (mb (r_len c))) r). simpl. discriminate.
Qed.

(* ------------------------------------------------------------------------------------------ *)
(* the pass                                                                                    *)
(* ------------------------------------------------------------------------------------------ *)


Lemma clean_pass_fst net limit d : fst (clean_pass net limit d) = map r_hash (pass_rows net limit d).
Proof.
  unfold clean_pass, clean_pass_with, pass_rows. cbv zeta.
  destruct (skip net limit (limit - Z.of_N (used_mb net d))); reflexivity.
Qed.

Lemma clean_pass_snd net limit d :
  pass_rows net limit d <> [] -> snd (clean_pass net limit d) = remove_hashes (map r_hash (pass_rows net limit d)) d.
Proof.
  unfold clean_pass, clean_pass_with, pass_rows. cbv zeta.
  destruct (skip net limit (limit - Z.of_N (used_mb net d))); [congruence | reflexivity].
Qed.

Lemma filter_true {A} (p : A -> bool) l : (forall x, In x l -> p x = true) -> filter p l = l.
Proof.
  induction l as [|x t IH]; intro H; simpl; [reflexivity|].
  rewrite (H x) by (left; reflexivity). f_equal. apply IH. intros y Hy. apply H. right. exact Hy.
Qed.

Lemma remove_nil d : remove_hashes [] d = d.
Proof.
  destruct d as [b s st f dk]. unfold remove_hashes. simpl.
  rewrite !filter_true; [reflexivity | intros; reflexivity | intros; reflexivity].
Qed.

Lemma clean_pass_snd' net limit d :
  snd (clean_pass net limit d) = remove_hashes (map r_hash (pass_rows net limit d)) d.
Proof.
  unfold clean_pass, clean_pass_with, pass_rows. cbv zeta.
  destruct (skip net limit (limit - Z.of_N (used_mb net d))); simpl; [rewrite remove_nil|]; reflexivity.
Qed.

Lemma no_delete_within_limit d net limit :
  (Z.of_N (used_mb net d) <= limit)%Z -> clean_pass net limit d = ([], d).
Proof.
  intro H. unfold clean_pass, clean_pass_with. cbv zeta. unfold skip.
  assert (E : (0 <=? limit - Z.of_N (used_mb net d))%Z = true) by (apply Z.leb_le; lia).
  rewrite E, orb_true_r. reflexivity.
Qed.

Lemma unlimited_content_untouched d : clean_pass false 0 d = ([], d).
Proof. reflexivity. Qed.

Lemma pass_rows_over net limit d : pass_rows net limit d <> [] ->
  (limit < Z.of_N (used_mb net d))%Z /\ (net = true \/ limit <> 0%Z) /\
  pass_rows net limit d = fst (sweep (limit - Z.of_N (used_mb net d)) (cands net d)).
Proof.
  unfold pass_rows. cbv zeta. intro H.
  destruct (skip net limit (limit - Z.of_N (used_mb net d))) eqn:E; [congruence|].
  unfold skip in E. apply orb_false_iff in E as [E1 E2]. apply Z.leb_gt in E2.
  split; [lia|]. split; [|reflexivity].
  destruct net; [left; reflexivity|]. right. simpl in E1. rewrite andb_true_r in E1. apply Z.eqb_neq. exact E1.
Qed.

Lemma pass_rows_prefix net limit d : exists rest, cands net d = pass_rows net limit d ++ rest.
Proof.
  unfold pass_rows. cbv zeta. destruct (skip _ _ _); [exists (cands net d); reflexivity|]. apply sweep_prefix.
Qed.

(* ---- where candidate rows come from ---- *)

Lemma list_sum_pos {A} (f : A -> nat) l : (list_sum (map f l) <> 0)%nat -> exists x, In x l /\ (f x <> 0)%nat.
Proof.
  induction l as [|x t IH]; simpl; [congruence|]. intro H.
  destruct (Nat.eq_dec (f x) 0) as [E|E].
  - destruct IH as [y [Hy Hf]]; [lia|]. exists y. split; [right; exact Hy | exact Hf].
  - exists x. split; [left; reflexivity | exact E].
Qed.

Lemma filter_length_pos {A} (p : A -> bool) l : (length (filter p l) <> 0)%nat -> exists x, In x l /\ p x = true.
Proof.
  intro H. destruct (filter p l) as [|x t] eqn:E; [simpl in H; congruence|].
  assert (Hin : In x (filter p l)) by (rewrite E; left; reflexivity).
  apply filter_In in Hin. exists x. exact Hin.
Qed.

Lemma n_streams_pos st sh : (n_streams st sh <> 0)%nat -> In sh (map fst st).
Proof.
  intro H. apply filter_length_pos in H as [x [Hx He]]. apply N.eqb_eq in He. subst. apply in_map. exact Hx.
Qed.

Lemma n_files_pos fl sh : (n_files fl sh <> 0)%nat -> In sh fl.
Proof. intro H. apply filter_length_pos in H as [x [Hx He]]. apply N.eqb_eq in He. subst. exact Hx. Qed.

Lemma in_repeat {A} (x y : A) k : In y (repeat x k) -> y = x /\ (k <> 0)%nat.
Proof. intro H. split; [eapply repeat_spec; exact H|]. destruct k; [simpl in H; contradiction | discriminate]. Qed.

Lemma raw_cands_origin net d r : In r (raw_cands net d) ->
  exists b, In b (blobs d) /\ r = row_of b /\ b_mine b = false /\ in_class net d (b_hash b).
Proof.
  unfold raw_cands. destruct net.
  - intro H. apply in_flat_map in H as [b [Hb Hr]]. exists b. unfold net_rows in Hr.
    destruct (b_mine b) eqn:Em; simpl in Hr; [contradiction|].
    destruct (b_fin b); simpl in Hr; [|contradiction].
    destruct (count_sb (sblobs d) (b_hash b) =? 0)%nat eqn:Ec; simpl in Hr; [|contradiction].
    destruct (is_sd (streams d) (b_hash b)) eqn:Es; simpl in Hr; [contradiction|].
    destruct Hr as [Hr|[]]. apply Nat.eqb_eq in Ec. repeat split; auto.
  - intro H. apply in_app_or in H as [H|H]; apply in_flat_map in H as [b [Hb Hr]]; exists b.
    + unfold content_rows in Hr. destruct (b_mine b) eqn:Em; simpl in Hr; [contradiction|].
      destruct (b_fin b); simpl in Hr; [|contradiction].
      apply in_repeat in Hr as [Hr Hk]. split; [exact Hb|]. split; [exact Hr|]. split; [reflexivity|].
      left. unfold content_mult in Hk. apply list_sum_pos in Hk as [[sh h] [Hx Hf]]. simpl in Hf.
      destruct (h =? b_hash b) eqn:Eh; [|congruence]. apply N.eqb_eq in Eh. subst h.
      exists sh. split; [exact Hx|].
      split; [apply n_streams_pos | apply n_files_pos]; intro Z; rewrite Z in Hf; lia.
    + unfold sd_rows in Hr. destruct (b_mine b) eqn:Em; simpl in Hr; [contradiction|].
      apply in_repeat in Hr as [Hr Hk]. split; [exact Hb|]. split; [exact Hr|]. split; [reflexivity|].
      right. unfold sd_mult in Hk. apply list_sum_pos in Hk as [[sh h] [Hx Hf]]. simpl in Hf.
      destruct (h =? b_hash b) eqn:Eh; [|congruence]. apply N.eqb_eq in Eh. subst h.
      exists sh. split; [exact Hx | apply n_files_pos; exact Hf].
Qed.

Lemma cands_origin net d r : In r (cands net d) ->
  exists b, In b (blobs d) /\ r = row_of b /\ b_mine b = false /\ in_class net d (b_hash b).
Proof. intro H. apply raw_cands_origin. eapply Permutation_in; [apply cands_perm | exact H]. Qed.

Lemma pass_rows_in_cands net limit d r : In r (pass_rows net limit d) -> In r (cands net d).
Proof. intro H. destruct (pass_rows_prefix net limit d) as [rest E]. rewrite E. apply in_or_app. left. exact H. Qed.

(* every deleted hash is the hash of a blob row that is not the user's own, belongs to the class of the
   pass, and the class is over its limit *)
Lemma deleted_origin net limit d h : In h (fst (clean_pass net limit d)) ->
  (exists b, In b (blobs d) /\ b_hash b = h /\ b_mine b = false) /\
  in_class net d h /\ (limit < Z.of_N (used_mb net d))%Z /\ (net = true \/ limit <> 0%Z).
Proof.
  rewrite clean_pass_fst. intro H. apply in_map_iff in H as [r [Hh Hr]].
  assert (Hne : pass_rows net limit d <> []) by (intro E; rewrite E in Hr; contradiction).
  apply pass_rows_over in Hne as [Hov [Hz _]].
  apply pass_rows_in_cands, cands_origin in Hr as [b [Hb [Er [Hm Hc]]]]. subst r h.
  split; [exists b; auto|]. auto.
Qed.

Lemma never_own net limit d h : In h (fst (clean_pass net limit d)) ->
  exists b, In b (blobs d) /\ b_hash b = h /\ b_mine b = false.
Proof. intro H. apply deleted_origin in H. tauto. Qed.

Lemma only_over_limit_class net limit d h : In h (fst (clean_pass net limit d)) ->
  (limit < Z.of_N (used_mb net d))%Z /\ in_class net d h.
Proof. intro H. apply deleted_origin in H. tauto. Qed.

Lemma NoDup_map_inj {A B} (f : A -> B) l x y : NoDup (map f l) -> In x l -> In y l -> f x = f y -> x = y.
Proof.
  induction l as [|a t IH]; simpl; intros Hn Hx Hy E; [contradiction|].
  inversion Hn as [|? ? Hnot Hn']; subst.
  destruct Hx as [Hx|Hx], Hy as [Hy|Hy]; subst.
  - reflexivity.
  - exfalso. apply Hnot. rewrite E. apply in_map. exact Hy.
  - exfalso. apply Hnot. rewrite <- E. apply in_map. exact Hx.
  - apply IH; assumption.
Qed.


Lemma own_not_deleted net limit d b : hashes_unique d -> In b (blobs d) -> b_mine b = true ->
  ~ In (b_hash b) (fst (clean_pass net limit d)).
Proof.
  intros Hn Hb Hm H. apply never_own in H as [b' [Hb' [Eh Hm']]].
  assert (b' = b) by (eapply NoDup_map_inj; eauto). subst. congruence.
Qed.

Lemma clean_pass_blobs net limit d :
  blobs (snd (clean_pass net limit d)) = filter (fun b => negb (mem (b_hash b) (fst (clean_pass net limit d)))) (blobs d).
Proof. rewrite clean_pass_snd', clean_pass_fst. reflexivity. Qed.

Lemma clean_pass_disk net limit d :
  disk (snd (clean_pass net limit d)) = filter (fun h => negb (mem h (fst (clean_pass net limit d)))) (disk d).
Proof. rewrite clean_pass_snd', clean_pass_fst. reflexivity. Qed.

Lemma clean_pass_tables net limit d :
  sblobs (snd (clean_pass net limit d)) = sblobs d /\ streams (snd (clean_pass net limit d)) = streams d /\
  files (snd (clean_pass net limit d)) = files d.
Proof. rewrite clean_pass_snd'. repeat split. Qed.

(* own blobs keep their row and their file; nothing but deleted hashes disappears *)
Lemma own_kept net limit d b : hashes_unique d -> In b (blobs d) -> b_mine b = true ->
  In b (blobs (snd (clean_pass net limit d))) /\
  (In (b_hash b) (disk d) -> In (b_hash b) (disk (snd (clean_pass net limit d)))).
Proof.
  intros Hn Hb Hm. pose proof (own_not_deleted net limit d b Hn Hb Hm) as Hnot.
  apply mem_false in Hnot. rewrite clean_pass_blobs, clean_pass_disk. split.
  - apply filter_In. split; [exact Hb | rewrite Hnot; reflexivity].
  - intro Hd. apply filter_In. split; [exact Hd | rewrite Hnot; reflexivity].
Qed.

Lemma only_deleted_disappear net limit d b : In b (blobs d) ->
  ~ In (b_hash b) (fst (clean_pass net limit d)) -> In b (blobs (snd (clean_pass net limit d))).
Proof.
  intros Hb Hnot. apply mem_false in Hnot. rewrite clean_pass_blobs. apply filter_In. split; [exact Hb | rewrite Hnot; reflexivity].
Qed.

Lemma NoDup_map_filter {A B} (f : A -> B) p l : NoDup (map f l) -> NoDup (map f (filter p l)).
Proof.
  induction l as [|a t IH]; simpl; intro H; [constructor|].
  inversion H as [|? ? Hnot Hn]; subst. destruct (p a); simpl; [|apply IH; exact Hn].
  constructor; [|apply IH; exact Hn]. intro Hin. apply Hnot.
  apply in_map_iff in Hin as [x [E Hx]]. apply filter_In in Hx as [Hx _]. rewrite <- E. apply in_map. exact Hx.
Qed.

Lemma clean_pass_unique net limit d : hashes_unique d -> hashes_unique (snd (clean_pass net limit d)).
Proof. unfold hashes_unique. intro H. rewrite clean_pass_blobs. apply NoDup_map_filter. exact H. Qed.

(* ------------------------------------------------------------------------------------------ *)
(* bounded overshoot                                                                           *)
(* ------------------------------------------------------------------------------------------ *)


Lemma credited_last l : l <> [] -> credited l = credited (removelast l) + mb (r_len (last l row0)).
Proof.
  intro H. rewrite (app_removelast_last row0 H) at 1. rewrite credited_app.
  unfold credited at 2. simpl. lia.
Qed.

Lemma overshoot_prefix net limit d : pass_rows net limit d <> [] ->
  (Z.of_N (credited (removelast (pass_rows net limit d))) < excess net limit d)%Z.
Proof.
  intro H. apply pass_rows_over in H as [Hov [_ E]]. rewrite E. unfold excess.
  assert (Ha : (limit - Z.of_N (used_mb net d) < 0)%Z) by lia.
  pose proof (sweep_overshoot (cands net d) _ Ha). lia.
Qed.

Lemma bounded_overshoot net limit d : pass_rows net limit d <> [] ->
  (Z.of_N (credited (pass_rows net limit d))
   < excess net limit d + Z.of_N (mb (r_len (last (pass_rows net limit d) row0))))%Z.
Proof.
  intro H. pose proof (overshoot_prefix net limit d H). rewrite (credited_last _ H). lia.
Qed.

(* with blobs of at most 2 MiB (the protocol's maximum) the accounted space freed exceeds the excess
   by at most one megabyte *)
Lemma bounded_overshoot_2mib net limit d :
  (forall b, In b (blobs d) -> b_len b <= 2 * MiB) -> pass_rows net limit d <> [] ->
  (Z.of_N (credited (pass_rows net limit d)) <= excess net limit d + 1)%Z.
Proof.
  intros Hsz H. pose proof (bounded_overshoot net limit d H) as Hb.
  assert (Hl : In (last (pass_rows net limit d) row0) (pass_rows net limit d)).
  { rewrite (app_removelast_last row0 H) at 2. apply in_or_app. right. left. reflexivity. }
  apply pass_rows_in_cands, cands_origin in Hl as [b [Hin [Er _]]].
  rewrite Er in Hb. unfold row_of, r_len in Hb. simpl in Hb.
  pose proof (Hsz b Hin) as Hle. apply mb_mono in Hle.
  assert (mb (2 * MiB) = 2) by reflexivity. lia.
Qed.

(* ---- real bytes ---- *)

Lemma rows_bytes_bound l : nsum (map r_len l) + N.of_nat (length l) <= (credited l + N.of_nat (length l)) * MiB.
Proof.
  induction l as [|r t IH]; [simpl; lia|].
  cbn [map nsum fold_right length]. fold (nsum (map r_len t)). rewrite credited_cons.
  pose proof (mb_upper (r_len r)). rewrite Nat2N.inj_succ. lia.
Qed.

Lemma nsum_filter_split {A} (p : A -> bool) (f : A -> N) l :
  nsum (map f l) = nsum (map f (filter p l)) + nsum (map f (filter (fun x => negb (p x)) l)).
Proof. induction l as [|x t IH]; simpl; [reflexivity|]. rewrite IH. destruct (p x); simpl; lia. Qed.

Lemma mem_map_filter_other (h h' : N) (l : list row) : h' <> h ->
  mem h' (map r_hash (filter (fun r => negb (r_hash r =? h)) l)) = mem h' (map r_hash l).
Proof.
  intro Hne. induction l as [|r t IH]; simpl; [reflexivity|].
  destruct (r_hash r =? h) eqn:E; simpl.
  - apply N.eqb_eq in E. rewrite IH. destruct (h' =? r_hash r) eqn:E2; [apply N.eqb_eq in E2; congruence | reflexivity].
  - rewrite IH. reflexivity.
Qed.

Lemma freed_le_rows bs : NoDup (map b_hash bs) -> forall dl,
  (forall r b, In r dl -> In b bs -> r_hash r = b_hash b -> r_len r = b_len b) ->
  nsum (map b_len (filter (fun b => mem (b_hash b) (map r_hash dl)) bs)) <= nsum (map r_len dl).
Proof.
  induction bs as [|b t IH]; intros Hn dl Hlen; [simpl; lia|].
  inversion Hn as [|? ? Hnot Hn']; subst.
  rewrite (nsum_filter_split (fun r => r_hash r =? b_hash b) r_len dl).
  set (dl2 := filter (fun r => negb (r_hash r =? b_hash b)) dl).
  assert (Ht : nsum (map b_len (filter (fun x => mem (b_hash x) (map r_hash dl)) t)) <= nsum (map r_len dl2)).
  { rewrite (filter_ext_in _ (fun x => mem (b_hash x) (map r_hash dl2))).
    - apply IH; [exact Hn'|]. intros r b' Hr Hb' E. apply filter_In in Hr as [Hr _].
      apply Hlen; [exact Hr | right; exact Hb' | exact E].
    - intros x Hx. symmetry. apply mem_map_filter_other. intro E. apply Hnot. rewrite <- E. apply in_map. exact Hx. }
  cbn [filter]. destruct (mem (b_hash b) (map r_hash dl)) eqn:Em; [|fold dl2; lia].
  cbn [map nsum fold_right]. fold (nsum (map b_len (filter (fun x => mem (b_hash x) (map r_hash dl)) t))).
  apply mem_In in Em. apply in_map_iff in Em as [r [Eh Hr]].
  assert (Hge : b_len b <= nsum (map r_len (filter (fun r => r_hash r =? b_hash b) dl))).
  { assert (Hin : In r (filter (fun r => r_hash r =? b_hash b) dl)) by (apply filter_In; split; [exact Hr | apply N.eqb_eq; exact Eh]).
    rewrite <- (Hlen r b Hr (or_introl eq_refl) Eh).
    clear -Hin. induction (filter (fun r0 => r_hash r0 =? b_hash b) dl) as [|y l IH]; [contradiction|].
    simpl. destruct Hin as [->|Hin]; [lia | specialize (IH Hin); lia]. }
  fold dl2. lia.
Qed.

(* bytes of the rows removed < (excess + MB of the last deleted blob + number of deleted blobs) MiB *)
Lemma real_bytes_bound net limit d : hashes_unique d -> pass_rows net limit d <> [] ->
  (Z.of_N (freed_bytes (fst (clean_pass net limit d)) d)
   < (excess net limit d + Z.of_N (mb (r_len (last (pass_rows net limit d) row0)))
      + Z.of_nat (length (pass_rows net limit d))) * Z.of_N MiB)%Z.
Proof.
  intros Hn H. pose proof (bounded_overshoot net limit d H) as Hb.
  pose proof (rows_bytes_bound (pass_rows net limit d)) as Hr.
  assert (Hf : freed_bytes (fst (clean_pass net limit d)) d <= nsum (map r_len (pass_rows net limit d))).
  { unfold freed_bytes. rewrite clean_pass_fst. apply freed_le_rows; [exact Hn|].
    intros r b Hr' Hb' E. apply pass_rows_in_cands, cands_origin in Hr' as [b' [Hb'' [Er _]]].
    subst r. simpl in E. assert (b' = b) by (eapply NoDup_map_inj; eauto). subst. reflexivity. }
  assert (Hl : (length (pass_rows net limit d) <> 0)%nat) by (destruct (pass_rows net limit d); [congruence | discriminate]).
  nia.
Qed.

(* ------------------------------------------------------------------------------------------ *)
(* usage after the pass                                                                        *)
(* ------------------------------------------------------------------------------------------ *)

(* credit of a row if its hash is in H *)
Definition gP (H : list N) (r : row) : N := if mem (r_hash r) H then mb (r_len r) else 0.

Lemma credited_le_gP dl rest : credited dl <= nsum (map (gP (map r_hash dl)) (dl ++ rest)).
Proof.
  rewrite map_app, nsum_app. unfold credited.
  rewrite (nsum_map_ext (gP (map r_hash dl)) (fun r => mb (r_len r)) dl); [lia|].
  intros r Hr. unfold gP. assert (E : mem (r_hash r) (map r_hash dl) = true) by (apply mem_In, in_map, Hr).
  rewrite E. reflexivity.
Qed.

Lemma count_le1 {A} (f : A -> N) (v : N) l : NoDup (map f l) -> (length (filter (fun x => N.eqb (f x) v) l) <= 1)%nat.
Proof.
  induction l as [|a t IH]; simpl; intro H; [lia|].
  inversion H as [|? ? Hnot Hn]; subst. specialize (IH Hn).
  destruct (f a =? v) eqn:E; simpl; [|lia].
  apply N.eqb_eq in E.
  assert (Z : filter (fun x => f x =? v) t = []).
  { destruct (filter (fun x => f x =? v) t) as [|y l] eqn:Ef; [reflexivity|]. exfalso.
    assert (Hy : In y (filter (fun x => f x =? v) t)) by (rewrite Ef; left; reflexivity).
    apply filter_In in Hy as [Hy Ey]. apply N.eqb_eq in Ey. apply Hnot. rewrite E, <- Ey. apply in_map. exact Hy. }
  rewrite Z. simpl. lia.
Qed.

Lemma n_streams_le1 st sh : NoDup (map fst st) -> (n_streams st sh <= 1)%nat.
Proof. apply count_le1. Qed.

Lemma n_files_le1 fl sh : NoDup fl -> (n_files fl sh <= 1)%nat.
Proof. intro H. unfold n_files. apply (count_le1 (fun x => x)). rewrite map_id. exact H. Qed.

Lemma content_mult_le sb st fl h : NoDup (map fst st) -> NoDup fl -> (content_mult sb st fl h <= count_sb sb h)%nat.
Proof.
  intros Hs Hf. unfold content_mult, count_sb. induction sb as [|x t IH]; simpl; [lia|].
  destruct (snd x =? h); simpl; [|exact IH].
  pose proof (n_streams_le1 st (fst x) Hs). pose proof (n_files_le1 fl (fst x) Hf). nia.
Qed.

Lemma sd_mult_zero st fl h : is_sd st h = false -> sd_mult st fl h = O.
Proof.
  unfold is_sd, sd_mult. induction st as [|x t IH]; simpl; [reflexivity|].
  intro H. apply orb_false_iff in H as [H1 H2]. rewrite H1. simpl. apply IH. exact H2.
Qed.

Lemma gP_row_of H b : gP H (row_of b) = if mem (b_hash b) H then mb (b_len b) else 0.
Proof. reflexivity. Qed.


Lemma wf_tables d : wf d -> tables_ok d.
Proof. unfold wf, tables_ok. tauto. Qed.

Lemma content_blob_bound d H b : tables_ok d -> In b (blobs d) ->
  nsum (map (gP H) (content_rows (sblobs d) (streams d) (files d) b))
  + nsum (map (gP H) (sd_rows (streams d) (files d) b))
  <= if mem (b_hash b) H then mb (content_term (sblobs d) (streams d) b) else 0.
Proof.
  intros [Hs [Hf Hsd]] Hb. unfold content_rows, sd_rows.
  assert (E1 : forall (c : bool) (k : nat), nsum (map (gP H) (if c then repeat (row_of b) k else [])) =
                           if c then N.of_nat k * gP H (row_of b) else 0).
  { intros c k. destruct c; [apply nsum_map_repeat | reflexivity]. }
  rewrite !E1, gP_row_of. clear E1.
  destruct (mem (b_hash b) H); [|destruct (negb (b_mine b) && b_fin b), (negb (b_mine b)); lia].
  destruct (is_sd (streams d) (b_hash b)) eqn:Esd.
  - rewrite (mb_small (b_len b)) by (apply Hsd; assumption).
    destruct (negb (b_mine b) && b_fin b), (negb (b_mine b)); lia.
  - rewrite (sd_mult_zero _ _ _ Esd). unfold content_term, counted. rewrite Esd.
    destruct (b_mine b), (b_fin b); simpl; try lia.
    pose proof (content_mult_le (sblobs d) (streams d) (files d) (b_hash b) Hs Hf) as Hle.
    pose proof (mb_scale (N.of_nat (count_sb (sblobs d) (b_hash b))) (b_len b)). nia.
Qed.

(* no hypothesis needed for the network class any more: descriptors are neither counted nor candidates *)
Lemma net_blob_bound d H b :
  nsum (map (gP H) (net_rows (sblobs d) (streams d) b))
  <= if mem (b_hash b) H then mb (net_term (sblobs d) (streams d) b) else 0.
Proof.
  unfold net_rows, net_term, counted.
  destruct (b_mine b), (b_fin b), (count_sb (sblobs d) (b_hash b) =? 0)%nat, (is_sd (streams d) (b_hash b)); simpl;
    try (destruct (mem (b_hash b) H); lia).
  rewrite gP_row_of. destruct (mem (b_hash b) H); lia.
Qed.

Lemma guarded_mb_sum (p : blob -> bool) (f : blob -> N) l :
  nsum (map (fun b => if p b then mb (f b) else 0) l) <= mb (nsum (map (fun b => if p b then f b else 0) l)).
Proof.
  eapply N.le_trans; [|apply nsum_mb_superadd]. apply nsum_map_le. intros b _.
  destruct (p b); [lia | apply N.le_0_l].
Qed.

(* bytes of a class = bytes of the removed rows + bytes of the remaining rows *)
Lemma bytes_split (f : blob -> N) (H : list N) l :
  nsum (map f l) = nsum (map (fun b => if mem (b_hash b) H then f b else 0) l)
                   + nsum (map f (filter (fun b => negb (mem (b_hash b) H)) l)).
Proof.
  rewrite (nsum_split (fun b => mem (b_hash b) H) f l). f_equal.
  rewrite nsum_filter. apply nsum_map_ext. intros b _. destruct (mem (b_hash b) H); reflexivity.
Qed.

Lemma bytes_filter_le (f : blob -> N) (p : blob -> bool) l : nsum (map f (filter p l)) <= nsum (map f l).
Proof. rewrite nsum_filter. apply nsum_map_le. intros x _. destruct (p x); [lia | apply N.le_0_l]. Qed.

(* the accounting never over-credits: usage after + credited <= usage before *)
Lemma post_usage net d dl rest : tables_ok d -> cands net d = dl ++ rest ->
  used_mb net (remove_hashes (map r_hash dl) d) + credited dl <= used_mb net d.
Proof.
  intros Hw Hc. set (H := map r_hash dl).
  assert (Hcred : credited dl <= nsum (map (gP H) (raw_cands net d))).
  { rewrite <- (nsum_map_perm (gP H) _ _ (cands_perm net d)). rewrite Hc. apply credited_le_gP. }
  destruct net; unfold used_mb, raw_cands in *.
  - unfold net_bytes at 1. unfold remove_hashes. cbn [blobs sblobs streams].
    unfold net_bytes. rewrite (bytes_split (net_term (sblobs d) (streams d)) H (blobs d)).
    rewrite nsum_flat_map in Hcred.
    assert (Hd : nsum (map (fun a => nsum (map (gP H) (net_rows (sblobs d) (streams d) a))) (blobs d))
                 <= mb (nsum (map (fun b => if mem (b_hash b) H then net_term (sblobs d) (streams d) b else 0) (blobs d)))).
    { eapply N.le_trans; [|apply guarded_mb_sum]. apply nsum_map_le. intros b Hb.
      apply net_blob_bound. }
    pose proof (mb_superadd (nsum (map (fun b => if mem (b_hash b) H then net_term (sblobs d) (streams d) b else 0) (blobs d)))
                            (nsum (map (net_term (sblobs d) (streams d)) (filter (fun b => negb (mem (b_hash b) H)) (blobs d))))).
    lia.
  - unfold content_bytes at 1, private_bytes at 1. unfold remove_hashes. cbn [blobs sblobs streams].
    unfold content_bytes, private_bytes.
    rewrite (bytes_split (content_term (sblobs d) (streams d)) H (blobs d)).
    rewrite map_app, nsum_app, !nsum_flat_map, <- nsum_map_add in Hcred.
    assert (Hd : nsum (map (fun a => nsum (map (gP H) (content_rows (sblobs d) (streams d) (files d) a))
                                    + nsum (map (gP H) (sd_rows (streams d) (files d) a))) (blobs d))
                 <= mb (nsum (map (fun b => if mem (b_hash b) H then content_term (sblobs d) (streams d) b else 0) (blobs d)))).
    { eapply N.le_trans; [|apply guarded_mb_sum]. apply nsum_map_le. intros b Hb.
      apply content_blob_bound; [exact Hw | exact Hb]. }
    pose proof (mb_superadd (nsum (map (fun b => if mem (b_hash b) H then content_term (sblobs d) (streams d) b else 0) (blobs d)))
                            (nsum (map (content_term (sblobs d) (streams d)) (filter (fun b => negb (mem (b_hash b) H)) (blobs d))))).
    pose proof (mb_mono _ _ (bytes_filter_le (private_term (sblobs d) (streams d)) (fun b => negb (mem (b_hash b) H)) (blobs d))).
    lia.
Qed.

(* removing rows never increases the usage of any class *)
Lemma usage_antitone net H d : used_mb net (remove_hashes H d) <= used_mb net d.
Proof.
  destruct net; unfold used_mb, net_bytes, content_bytes, private_bytes, remove_hashes; cbn [blobs sblobs streams].
  - apply mb_mono, bytes_filter_le.
  - pose proof (mb_mono _ _ (bytes_filter_le (content_term (sblobs d) (streams d)) (fun b => negb (mem (b_hash b) H)) (blobs d))).
    pose proof (mb_mono _ _ (bytes_filter_le (private_term (sblobs d) (streams d)) (fun b => negb (mem (b_hash b) H)) (blobs d))).
    lia.
Qed.

Lemma pass_rows_eq net limit d : (limit < Z.of_N (used_mb net d))%Z -> net = true \/ limit <> 0%Z ->
  pass_rows net limit d = fst (sweep (limit - Z.of_N (used_mb net d)) (cands net d)).
Proof.
  intros Hov Hz. unfold pass_rows. cbv zeta. unfold skip.
  assert (E2 : (0 <=? limit - Z.of_N (used_mb net d))%Z = false) by (apply Z.leb_gt; lia). rewrite E2.
  destruct Hz as [->|Hz]; [rewrite andb_false_r; reflexivity|].
  apply Z.eqb_neq in Hz. rewrite Hz. reflexivity.
Qed.


(* accounting form, no well-formedness needed: the loop ends with available >= 0 *)
Lemma reaches_limit_accounting net limit d : net = true \/ limit <> 0%Z -> enough net limit d ->
  (excess net limit d <= Z.of_N (credited (pass_rows net limit d)))%Z \/ (excess net limit d <= 0)%Z.
Proof.
  intros Hz He. unfold enough, excess in *.
  destruct (Z_lt_le_dec limit (Z.of_N (used_mb net d))) as [Hov|Hle]; [left | right; lia].
  rewrite (pass_rows_eq net limit d Hov Hz).
  pose proof (sweep_avail (cands net d) (limit - Z.of_N (used_mb net d))) as Ha.
  destruct (Z_lt_le_dec (snd (sweep (limit - Z.of_N (used_mb net d)) (cands net d))) 0) as [Hneg|Hpos]; [|lia].
  rewrite (sweep_neg_all _ _ Hneg) in *. lia.
Qed.

(* when not enough, everything removable goes *)
Lemma exhausts_when_not_enough net limit d : net = true \/ limit <> 0%Z ->
  (limit < Z.of_N (used_mb net d))%Z -> ~ enough net limit d -> pass_rows net limit d = cands net d.
Proof.
  intros Hz Hov Hne. rewrite (pass_rows_eq net limit d Hov Hz). apply sweep_neg_all.
  rewrite sweep_avail. unfold enough, excess in Hne.
  destruct (sweep_prefix (cands net d) (limit - Z.of_N (used_mb net d))) as [rest E].
  assert (credited (cands net d) = credited (fst (sweep (limit - Z.of_N (used_mb net d)) (cands net d))) + credited rest)
    by (rewrite E at 1; apply credited_app). lia.
Qed.

Lemma reaches_limit net limit d : tables_ok d -> net = true \/ limit <> 0%Z -> enough net limit d ->
  (Z.of_N (used_mb net (snd (clean_pass net limit d))) <= limit)%Z.
Proof.
  intros Hw Hz He.
  destruct (Z_lt_le_dec limit (Z.of_N (used_mb net d))) as [Hov|Hle].
  - destruct (reaches_limit_accounting net limit d Hz He) as [Hc|Hc]; [|unfold excess in Hc; lia].
    rewrite clean_pass_snd'. destruct (pass_rows_prefix net limit d) as [rest E].
    pose proof (post_usage net d _ _ Hw E). unfold excess in Hc. lia.
  - rewrite no_delete_within_limit by exact Hle. exact Hle.
Qed.

(* ------------------------------------------------------------------------------------------ *)
(* repeated passes                                                                             *)
(* ------------------------------------------------------------------------------------------ *)

Lemma flat_map_nil {A B} (f : A -> list B) l : (forall x, In x l -> f x = []) -> flat_map f l = [].
Proof.
  induction l as [|x t IH]; intro H; simpl; [reflexivity|].
  rewrite (H x) by (left; reflexivity). simpl. apply IH. intros y Hy. apply H. right. exact Hy.
Qed.

Lemma rows_are_row_of d b r :
  (In r (net_rows (sblobs d) (streams d) b) \/ In r (content_rows (sblobs d) (streams d) (files d) b)
   \/ In r (sd_rows (streams d) (files d) b)) -> r = row_of b.
Proof.
  unfold net_rows, content_rows, sd_rows. intros [H|[H|H]].
  - destruct (negb (b_mine b) && b_fin b && (count_sb (sblobs d) (b_hash b) =? 0)%nat && negb (is_sd (streams d) (b_hash b))); simpl in H; [|contradiction].
    destruct H as [H|[]]. auto.
  - destruct (negb (b_mine b) && b_fin b); [|contradiction]. eapply repeat_spec; exact H.
  - destruct (negb (b_mine b)); [|contradiction]. eapply repeat_spec; exact H.
Qed.

Lemma nil_of_no_member {A} (l : list A) : (forall x, ~ In x l) -> l = [].
Proof. destruct l as [|x t]; [reflexivity|]. intro H. exfalso. apply (H x). left. reflexivity. Qed.

(* candidates of the state after a removal are candidates of the state before, minus the removed hashes *)
Lemma raw_cands_remove net H d r : In r (raw_cands net (remove_hashes H d)) ->
  In r (raw_cands net d) /\ ~ In (r_hash r) H.
Proof.
  unfold raw_cands, remove_hashes. cbn [blobs sblobs streams files].
  assert (K : forall f : blob -> list row, (forall b x, In x (f b) -> x = row_of b) ->
              In r (flat_map f (filter (fun b => negb (mem (b_hash b) H)) (blobs d))) ->
              In r (flat_map f (blobs d)) /\ ~ In (r_hash r) H).
  { intros f Hf Hin. apply in_flat_map in Hin as [b [Hb Hr]]. apply filter_In in Hb as [Hb Hm].
    split; [apply in_flat_map; exists b; split; assumption|].
    rewrite (Hf _ _ Hr). change (r_hash (row_of b)) with (b_hash b). apply mem_false.
    destruct (mem (b_hash b) H); [discriminate | reflexivity]. }
  destruct net.
  - apply K. intros b x Hx. apply (rows_are_row_of d b x). left. exact Hx.
  - intro Hin. apply in_app_or in Hin as [Hin|Hin].
    + apply K in Hin; [destruct Hin; split; [apply in_or_app; left|]; assumption|].
      intros b x Hx. apply (rows_are_row_of d b x). right. left. exact Hx.
    + apply K in Hin; [destruct Hin; split; [apply in_or_app; right|]; assumption|].
      intros b x Hx. apply (rows_are_row_of d b x). right. right. exact Hx.
Qed.

Lemma cands_remove net H d r : In r (cands net (remove_hashes H d)) -> In r (cands net d) /\ ~ In (r_hash r) H.
Proof.
  intro Hin. apply (Permutation_in _ (cands_perm net _)) in Hin. apply raw_cands_remove in Hin as [Hin Hn].
  split; [|exact Hn]. eapply Permutation_in; [apply Permutation_sym, cands_perm | exact Hin].
Qed.

Lemma cands_exhausted net d H : (forall r, In r (cands net d) -> In (r_hash r) H) -> cands net (remove_hashes H d) = [].
Proof.
  intro Hall. apply nil_of_no_member. intros r Hr. apply cands_remove in Hr as [Hr Hn]. apply Hn, Hall, Hr.
Qed.

Lemma pass_rows_no_cands net limit d : cands net d = [] -> pass_rows net limit d = [].
Proof. intro E. unfold pass_rows. cbv zeta. rewrite E. destruct (skip _ _ _); reflexivity. Qed.

Lemma clean_pass_noop_of_rows net limit d : pass_rows net limit d = [] -> clean_pass net limit d = ([], d).
Proof.
  intro E. rewrite (surjective_pairing (clean_pass net limit d)), clean_pass_fst, clean_pass_snd', E.
  simpl. rewrite remove_nil. reflexivity.
Qed.

(* the state after a pass is either within the limit (given the tables are well formed) or has no candidate left *)
Lemma after_pass net limit d : tables_ok d ->
  let d1 := snd (clean_pass net limit d) in
  (Z.of_N (used_mb net d1) <= limit)%Z \/ cands net d1 = [] \/ (net = false /\ limit = 0%Z).
Proof.
  intros Hw d1.
  destruct (Z_lt_le_dec limit (Z.of_N (used_mb net d))) as [Hov|Hle];
    [|left; subst d1; rewrite no_delete_within_limit by exact Hle; exact Hle].
  destruct net; [|destruct (Z.eq_dec limit 0) as [Hz|Hz]; [right; right; auto|]].
  all: match goal with |- context [used_mb ?n _] =>
         assert (Hnz : n = true \/ limit <> 0%Z) by (first [left; reflexivity | right; assumption]) end.
  all: subst d1; rewrite clean_pass_snd', (pass_rows_eq _ limit d Hov Hnz).
  all: match goal with |- context [sweep ?a ?cs] =>
         destruct (Z_lt_le_dec (snd (sweep a cs)) 0) as [Hneg|Hpos];
         [right; left; rewrite (sweep_neg_all _ _ Hneg); apply cands_exhausted; intros r Hr; apply in_map; exact Hr
         |left; destruct (sweep_prefix cs a) as [rest E]; pose proof (sweep_avail cs a) as Ha;
          match goal with |- context [used_mb ?n (remove_hashes _ _)] => pose proof (post_usage n d _ _ Hw E) end; lia] end.
Qed.

Lemma second_pass_noop net limit d : tables_ok d ->
  clean_pass net limit (snd (clean_pass net limit d)) = ([], snd (clean_pass net limit d)).
Proof.
  intro Hw. destruct (after_pass net limit d Hw) as [H|[H|[Hn Hz]]].
  - apply no_delete_within_limit. exact H.
  - apply clean_pass_noop_of_rows, pass_rows_no_cands. exact H.
  - subst. reflexivity.
Qed.

(* well-formedness is preserved by a pass *)
Lemma tables_ok_remove H d : tables_ok d -> tables_ok (remove_hashes H d).
Proof.
  intros [Hs [Hf Hsd]]. unfold tables_ok, remove_hashes, sd_small. cbn [blobs streams files].
  split; [exact Hs|]. split; [exact Hf|]. intros b Hb. apply filter_In in Hb as [Hb _]. apply Hsd. exact Hb.
Qed.

Lemma tables_ok_pass net limit d : tables_ok d -> tables_ok (snd (clean_pass net limit d)).
Proof. intro H. rewrite clean_pass_snd'. apply tables_ok_remove. exact H. Qed.

Lemma wf_pass net limit d : wf d -> wf (snd (clean_pass net limit d)).
Proof.
  intro H. pose proof (tables_ok_pass net limit d (wf_tables d H)) as [A [B C]].
  destruct H as [Hn _]. split; [apply clean_pass_unique; exact Hn|]. tauto.
Qed.

(* the state a pass is a fixpoint of stays one when further rows are removed (by another pass) *)
Lemma noop_stable net limit d H : tables_ok d ->
  let d1 := snd (clean_pass net limit d) in
  clean_pass net limit (remove_hashes H d1) = ([], remove_hashes H d1).
Proof.
  intros Hw d1. destruct (after_pass net limit d Hw) as [Hle|[Hc|[Hn Hz]]]; fold d1 in Hle || fold d1 in Hc || idtac.
  - apply no_delete_within_limit. pose proof (usage_antitone net H d1). lia.
  - apply clean_pass_noop_of_rows, pass_rows_no_cands, nil_of_no_member.
    intros r Hr. apply cands_remove in Hr as [Hr _]. rewrite Hc in Hr. contradiction.
  - subst. reflexivity.
Qed.

(* clean() run twice: the second run deletes nothing *)
Lemma clean_twice_noop cl nl d : tables_ok d ->
  clean cl nl (snd (clean cl nl d)) = (([], []), snd (clean cl nl d)).
Proof.
  intro Hw. unfold clean at 2 3.
  destruct (clean_pass false cl d) as [dl1 d1] eqn:E1.
  destruct (clean_pass true nl d1) as [dl2 d2] eqn:E2. cbn [snd].
  assert (Hd1 : d1 = snd (clean_pass false cl d)) by (rewrite E1; reflexivity).
  assert (Hd2 : d2 = snd (clean_pass true nl d1)) by (rewrite E2; reflexivity).
  assert (Hw1 : tables_ok d1) by (rewrite Hd1; apply tables_ok_pass; exact Hw).
  unfold clean.
  assert (S1 : clean_pass false cl d2 = ([], d2)).
  { rewrite Hd2, clean_pass_snd', Hd1. apply noop_stable. exact Hw. }
  rewrite S1.
  assert (S2 : clean_pass true nl d2 = ([], d2)) by (rewrite Hd2; apply second_pass_noop; exact Hw1).
  rewrite S2. reflexivity.
Qed.

(* ------------------------------------------------------------------------------------------ *)
(* histories                                                                                   *)
(* ------------------------------------------------------------------------------------------ *)


Lemma own_hashes_In d h : In h (own_hashes d) <-> exists b, In b (blobs d) /\ b_mine b = true /\ b_hash b = h.
Proof.
  unfold own_hashes. rewrite in_map_iff. split.
  - intros [b [E Hb]]. apply filter_In in Hb as [Hb Hm]. exists b. auto.
  - intros [b [Hb [Hm E]]]. exists b. split; [exact E | apply filter_In; auto].
Qed.

Lemma pass_keeps_own net limit d h : hashes_unique d -> In h (own_hashes d) ->
  ~ In h (fst (clean_pass net limit d)) /\ In h (own_hashes (snd (clean_pass net limit d))) /\
  (In h (disk d) -> In h (disk (snd (clean_pass net limit d)))).
Proof.
  intros Hn Ho. apply own_hashes_In in Ho as [b [Hb [Hm E]]]. subst h.
  split; [apply own_not_deleted; assumption|].
  destruct (own_kept net limit d b Hn Hb Hm) as [K1 K2].
  split; [apply own_hashes_In; exists b; auto | exact K2].
Qed.

Lemma add_blob_hashes b d :
  map b_hash (blobs (add_blob b d)) =
  if mem (b_hash b) (map b_hash (blobs d)) then map b_hash (blobs d) else map b_hash (blobs d) ++ [b_hash b].
Proof.
  unfold add_blob. cbn [blobs]. destruct (mem (b_hash b) (map b_hash (blobs d))).
  - rewrite map_map. apply map_ext. intro x. destruct (b_hash x =? b_hash b); reflexivity.
  - rewrite map_app. reflexivity.
Qed.

Lemma add_unique b d : hashes_unique d -> hashes_unique (add_blob b d).
Proof.
  unfold hashes_unique. intro H. rewrite add_blob_hashes.
  destruct (mem (b_hash b) (map b_hash (blobs d))) eqn:E; [exact H|].
  apply mem_false in E. eapply Permutation_NoDup; [apply Permutation_cons_append|]. constructor; assumption.
Qed.

Lemma add_keeps_own b d h : In h (own_hashes d) ->
  In h (own_hashes (add_blob b d)) /\ (In h (disk d) -> In h (disk (add_blob b d))).
Proof.
  intro Ho. split.
  - apply own_hashes_In in Ho as [x [Hx [Hm E]]]. apply own_hashes_In. unfold add_blob. cbn [blobs].
    destruct (mem (b_hash b) (map b_hash (blobs d))).
    + exists (if b_hash x =? b_hash b then mkBlob (b_hash x) (b_len x) (b_added x) (b_mine x) true else x).
      split; [apply in_map_iff; exists x; auto|]. destruct (b_hash x =? b_hash b); auto.
    + exists x. split; [apply in_or_app; left; exact Hx | auto].
  - unfold add_blob. cbn [disk]. destruct (mem (b_hash b) (disk d)); [auto | intro; apply in_or_app; left; assumption].
Qed.

Lemma clean_keeps_own cl nl d h : hashes_unique d -> In h (own_hashes d) ->
  ~ In h (fst (fst (clean cl nl d))) /\ ~ In h (snd (fst (clean cl nl d))) /\ In h (own_hashes (snd (clean cl nl d))) /\ hashes_unique (snd (clean cl nl d)) /\ (In h (disk d) -> In h (disk (snd (clean cl nl d)))).
Proof.
  intros Hn Ho. unfold clean.
  pose proof (pass_keeps_own false cl d h Hn Ho) as [A1 [A2 A3]].
  pose proof (clean_pass_unique false cl d Hn) as Hn1.
  destruct (clean_pass false cl d) as [dl1 d1]. cbn [fst snd] in *.
  pose proof (pass_keeps_own true nl d1 h Hn1 A2) as [B1 [B2 B3]].
  pose proof (clean_pass_unique true nl d1 Hn1) as Hn2.
  destruct (clean_pass true nl d1) as [dl2 d2]. cbn [fst snd] in *.
  split; [exact A1|]. split; [exact B1|]. split; [exact B2|]. split; [exact Hn2|]. intro Hd. apply B3, A3, Hd.
Qed.

Lemma remove_keeps_own hs d h : In h (own_hashes d) -> ~ In h hs ->
  In h (own_hashes (remove_hashes hs d)) /\ (In h (disk d) -> In h (disk (remove_hashes hs d))).
Proof.
  intros Ho Hn. apply mem_false in Hn. split.
  - apply own_hashes_In in Ho as [b [Hb [Hm E]]]. apply own_hashes_In. exists b. subst h.
    split; [|auto]. unfold remove_hashes. cbn [blobs]. apply filter_In. split; [exact Hb | rewrite Hn; reflexivity].
  - intro Hd. unfold remove_hashes. cbn [disk]. apply filter_In. split; [exact Hd | rewrite Hn; reflexivity].
Qed.

Lemma remove_unique hs d : hashes_unique d -> hashes_unique (remove_hashes hs d).
Proof. unfold hashes_unique, remove_hashes. cbn [blobs]. apply NoDup_map_filter. Qed.

Lemma own_hashes_app_l bl extra h : In h (map b_hash (filter b_mine bl)) -> In h (map b_hash (filter b_mine (bl ++ extra))).
Proof. intro H. rewrite filter_app, map_app. apply in_or_app. left. exact H. Qed.

Lemma add_orphans_spec now sizes hs : forall bl, NoDup (map b_hash bl) ->
  NoDup (map b_hash (add_orphans now sizes hs bl)) /\ exists extra, add_orphans now sizes hs bl = bl ++ extra.
Proof.
  induction hs as [|h r IH]; intros bl Hn; simpl; [split; [exact Hn | exists []; rewrite app_nil_r; reflexivity]|].
  destruct (mem h (map b_hash bl)) eqn:E; [apply IH; exact Hn|].
  apply mem_false in E.
  destruct (IH (bl ++ [mkBlob h (fsize sizes h) now false true])) as [A [extra B]].
  - rewrite map_app. simpl. eapply Permutation_NoDup; [apply Permutation_cons_append|]. constructor; assumption.
  - split; [exact A|]. exists ([mkBlob h (fsize sizes h) now false true] ++ extra). rewrite B, <- app_assoc. reflexivity.
Qed.

Lemma setup_rows_hashes dk bl : map b_hash (map (setup_row dk) bl) = map b_hash bl.
Proof. rewrite map_map. reflexivity. Qed.

Lemma setup_rows_own dk bl : map b_hash (filter b_mine (map (setup_row dk) bl)) = map b_hash (filter b_mine bl).
Proof. induction bl as [|b t IH]; simpl; [reflexivity|]. destruct (b_mine b); simpl; rewrite IH; reflexivity. Qed.

(* a restart keeps every row's ownership: own hashes stay own, hashes stay unique, files are not touched *)
Lemma setup_keeps_own now sizes d h : hashes_unique d -> In h (own_hashes d) ->
  In h (own_hashes (setup now sizes d)) /\ hashes_unique (setup now sizes d) /\ disk (setup now sizes d) = disk d.
Proof.
  unfold hashes_unique, own_hashes, setup. cbn [blobs disk]. intros Hn Ho.
  destruct (add_orphans_spec now sizes (disk d) (map (setup_row (disk d)) (blobs d))) as [A [extra B]];
    [rewrite setup_rows_hashes; exact Hn|].
  split; [|split; [exact A | reflexivity]].
  rewrite B. apply own_hashes_app_l. rewrite setup_rows_own. exact Ho.
Qed.

Lemma recover_row_hash sd now ms dk b : b_hash (recover_row sd now ms dk b) = b_hash b.
Proof. unfold recover_row. destruct (b_hash b =? sd); [reflexivity|]. destruct (mem (b_hash b) ms); reflexivity. Qed.

Lemma recover_row_mine sd now ms dk b : b_mine (recover_row sd now ms dk b) = b_mine b.
Proof. unfold recover_row. destruct (b_hash b =? sd); [reflexivity|]. destruct (mem (b_hash b) ms); reflexivity. Qed.

(* stream recovery keeps every row's ownership *)
Lemma recover_keeps_own sd now d h : hashes_unique d -> In h (own_hashes d) ->
  In h (own_hashes (recover sd now d)) /\ hashes_unique (recover sd now d) /\
  (In h (disk d) -> In h (disk (recover sd now d))).
Proof.
  unfold hashes_unique, own_hashes, recover. cbn [blobs disk]. intros Hn Ho. split; [|split].
  - apply in_map_iff in Ho as [b [E Hb]]. apply filter_In in Hb as [Hb Hm]. apply in_map_iff.
    eexists. split; [|apply filter_In; split; [apply in_map; exact Hb | rewrite recover_row_mine; exact Hm]].
    rewrite recover_row_hash. exact E.
  - rewrite map_map. erewrite map_ext; [exact Hn|]. intro b. apply recover_row_hash.
  - intro Hd. destruct (mem sd (disk d)); [exact Hd | apply in_or_app; left; exact Hd].
Qed.

Lemma recover_all_keeps_own now sds : forall d h, hashes_unique d -> In h (own_hashes d) ->
  In h (own_hashes (fold_left (fun acc sd => recover sd now acc) sds d)) /\
  hashes_unique (fold_left (fun acc sd => recover sd now acc) sds d) /\
  (In h (disk d) -> In h (disk (fold_left (fun acc sd => recover sd now acc) sds d))).
Proof.
  induction sds as [|sd r IH]; intros d h Hn Ho; [simpl; tauto|].
  destruct (recover_keeps_own sd now d h Hn Ho) as [A1 [A2 A3]].
  destruct (IH (recover sd now d) h A2 A1) as [B1 [B2 B3]]. simpl. auto.
Qed.

Lemma restore_list_incl hs : forall dk h, In h dk -> In h (restore_list hs dk).
Proof.
  induction hs as [|x r IH]; intros dk h H; simpl; [exact H|]. apply IH.
  destruct (mem x dk); [exact H | apply in_or_app; left; exact H].
Qed.

(* over every history: a blob that is the user's own (and that the user does not remove himself) is never in any
   deletion list and keeps its row; it keeps its file unless somebody moved the file away *)
Lemma history_never_own ops : forall d h, hashes_unique d -> In h (own_hashes d) -> ~ In h (user_deleted ops) ->
  (forall dl, In dl (fst (run ops d)) -> ~ In h dl) /\ In h (own_hashes (snd (run ops d))) /\
  (In h (disk d) -> ~ In h (hidden ops) -> In h (disk (snd (run ops d)))).
Proof.
  induction ops as [|o r IH]; intros d h Hn Ho Hu; [simpl; tauto|].
  destruct o as [net limit|cl nl|b|hs|hs|hs|sds now|now sizes|]; cbn [run]; cbn [user_deleted] in Hu; cbn [hidden].
  - pose proof (pass_keeps_own net limit d h Hn Ho) as [A1 [A2 A3]].
    pose proof (clean_pass_unique net limit d Hn) as Hn1.
    destruct (clean_pass net limit d) as [dl d1]. cbn [fst snd] in *.
    specialize (IH d1 h Hn1 A2 Hu). destruct (run r d1) as [tr d2]. cbn [fst snd] in *.
    destruct IH as [I1 [I2 I3]]. split; [|auto].
    intros dl' [<-|Hin]; [exact A1 | apply I1; exact Hin].
  - pose proof (clean_keeps_own cl nl d h Hn Ho) as [A1 [A2 [A3 [A4 A5]]]].
    destruct (clean cl nl d) as [[dl1 dl2] d1]. cbn [fst snd] in *.
    specialize (IH d1 h A4 A3 Hu). destruct (run r d1) as [tr d2]. cbn [fst snd] in *.
    destruct IH as [I1 [I2 I3]]. split; [|auto].
    intros dl' [<-|[<-|Hin]]; [exact A1 | exact A2 | apply I1; exact Hin].
  - pose proof (add_keeps_own b d h Ho) as [A1 A2].
    specialize (IH (add_blob b d) h (add_unique b d Hn) A1 Hu).
    destruct (run r (add_blob b d)) as [tr d2]. cbn [fst snd] in *.
    destruct IH as [I1 [I2 I3]]. auto.
  - assert (Hh : ~ In h hs) by (intro X; apply Hu, in_or_app; left; exact X).
    assert (Hr : ~ In h (user_deleted r)) by (intro X; apply Hu, in_or_app; right; exact X).
    pose proof (remove_keeps_own hs d h Ho Hh) as [A1 A2].
    specialize (IH (remove_hashes hs d) h (remove_unique hs d Hn) A1 Hr).
    destruct (run r (remove_hashes hs d)) as [tr d2]. cbn [fst snd] in *.
    destruct IH as [I1 [I2 I3]]. auto.
  - specialize (IH (hide_files hs d) h Hn Ho Hu).
    destruct (run r (hide_files hs d)) as [tr d2]. cbn [fst snd] in *.
    destruct IH as [I1 [I2 I3]]. split; [exact I1|]. split; [exact I2|].
    intros Hd Hh. apply I3; [|intro X; apply Hh, in_or_app; right; exact X].
    unfold hide_files. cbn [disk]. apply filter_In. split; [exact Hd|].
    assert (E : mem h hs = false) by (apply mem_false; intro X; apply Hh, in_or_app; left; exact X).
    rewrite E. reflexivity.
  - specialize (IH (restore_files hs d) h Hn Ho Hu).
    destruct (run r (restore_files hs d)) as [tr d2]. cbn [fst snd] in *.
    destruct IH as [I1 [I2 I3]]. split; [exact I1|]. split; [exact I2|].
    intros Hd Hh. apply I3; [|exact Hh]. unfold restore_files. cbn [disk]. apply restore_list_incl. exact Hd.
  - pose proof (recover_all_keeps_own now sds d h Hn Ho) as [A1 [A2 A3]].
    specialize (IH _ h A2 A1 Hu).
    destruct (run r (fold_left (fun acc sd => recover sd now acc) sds d)) as [tr d2]. cbn [fst snd] in *.
    destruct IH as [I1 [I2 I3]]. split; [exact I1|]. split; [exact I2|]. intros Hd Hh. apply I3; [apply A3; exact Hd | exact Hh].
  - pose proof (setup_keeps_own now sizes d h Hn Ho) as [A1 [A2 A3]].
    specialize (IH (setup now sizes d) h A2 A1 Hu).
    destruct (run r (setup now sizes d)) as [tr d2]. cbn [fst snd] in *.
    destruct IH as [I1 [I2 I3]]. split; [exact I1|]. split; [exact I2|]. rewrite A3 in I3. exact I3.
  - apply IH; assumption.
Qed.

(* every hash in any deletion list of a history was, at that moment, a row that is not the user's own;
   stated for the first pass of any suffix, which by quantification over the state covers every pass *)
Lemma run_app ops1 : forall ops2 d,
  run (ops1 ++ ops2) d =
  (fst (run ops1 d) ++ fst (run ops2 (snd (run ops1 d))), snd (run ops2 (snd (run ops1 d)))).
Proof.
  induction ops1 as [|o r IH]; intros ops2 d; [simpl; apply surjective_pairing|].
  destruct o as [net limit|cl nl|b|hs|hs|hs|sds now|now sizes|]; cbn [run app]; try apply IH.
  - destruct (clean_pass net limit d) as [dl d1]. rewrite IH.
    destruct (run r d1) as [tr d2]. reflexivity.
  - destruct (clean cl nl d) as [[dl1 dl2] d1]. rewrite IH.
    destruct (run r d1) as [tr d2]. reflexivity.
  - rewrite IH. destruct (run r (add_blob b d)) as [tr d2]. reflexivity.
  - rewrite IH. destruct (run r (remove_hashes hs d)) as [tr d2]. reflexivity.
Qed.

(* ------------------------------------------------------------------------------------------ *)
(* the expression before the repair                                                            *)
(* ------------------------------------------------------------------------------------------ *)

(* with any non-zero content limit the old test never returned early: one candidate is always deleted *)
Lemma old_always_deletes limit d : limit <> 0%Z -> cands false d <> [] -> fst (clean_pass_old false limit d) <> [].
Proof.
  intros Hz Hc. unfold clean_pass_old, clean_pass_with. cbv zeta. unfold skip_old. simpl negb. cbv iota.
  apply Z.eqb_neq in Hz. rewrite Hz. cbn [fst].
  destruct (cands false d) as [|c r]; [congruence|]. intro E. apply map_eq_nil in E. revert E. apply sweep_nonempty.
Qed.

Lemma old_condition_refuted :
  wf witness_db /\ (Z.of_N (used_mb false witness_db) <= 100)%Z /\ fst (clean_pass_old false 100 witness_db) = [1] /\ clean_pass false 100 witness_db = ([], witness_db).
Proof.
  split.
  - unfold wf, witness_db, sd_small. cbn [blobs streams files map fst].
    repeat split; try (repeat constructor; simpl; intuition discriminate).
    intros b [<-|[<-|[]]]; simpl; intro; try discriminate. reflexivity.
  - vm_compute. repeat split; congruence.
Qed.

(* ------------------------------------------------------------------------------------------ *)
(* the example states are well formed (non-vacuity of the hypotheses)                          *)
(* ------------------------------------------------------------------------------------------ *)

Lemma wf_of_bool d :
  NoDup (map b_hash (blobs d)) -> NoDup (map fst (streams d)) -> NoDup (files d) ->
  forallb (fun b => negb (is_sd (streams d) (b_hash b)) || (b_len b <? MiB)) (blobs d) = true -> wf d.
Proof.
  intros A B C D. repeat split; try assumption. intros b Hb Hs.
  rewrite forallb_forall in D. specialize (D b Hb). rewrite Hs in D. simpl in D. apply N.ltb_lt. exact D.
Qed.

Ltac nodup := repeat (constructor; [simpl; intuition discriminate|]); constructor.

Lemma ex_db_wf : wf ex_db.
Proof. apply wf_of_bool; [nodup | nodup | nodup | vm_compute; reflexivity]. Qed.

Lemma sweep_db_wf : wf sweep_db.
Proof. apply wf_of_bool; [nodup | nodup | nodup | vm_compute; reflexivity]. Qed.

Lemma ex_db_own : In 21 (own_hashes ex_db) /\ In 21 (disk ex_db).
Proof. split; vm_compute; tauto. Qed.

Lemma ex_db_enough : enough false 5 ex_db /\ enough true 1 ex_db.
Proof. split; vm_compute; discriminate. Qed.

Lemma ex_db_rows : pass_rows false 5 ex_db <> [] /\ pass_rows true 1 ex_db <> [].
Proof. split; vm_compute; discriminate. Qed.

Lemma sweep_db_not_enough : ~ enough false 1 sweep_db /\ (1 < Z.of_N (used_mb false sweep_db))%Z.
Proof. split; vm_compute; [intro H; apply H; reflexivity | reflexivity]. Qed.

(* clean() as a whole removes nothing when both classes are within their limits (content: or unlimited) *)
Lemma clean_within_limits cl nl d :
  (Z.of_N (used_mb false d) <= cl)%Z \/ cl = 0%Z -> (Z.of_N (used_mb true d) <= nl)%Z -> clean cl nl d = (([], []), d).
Proof.
  intros Hc Hn. unfold clean.
  assert (E : clean_pass false cl d = ([], d)).
  { destruct Hc as [Hc|Hc]; [apply no_delete_within_limit; exact Hc | subst; reflexivity]. }
  rewrite E, (no_delete_within_limit d true nl Hn). reflexivity.
Qed.

Lemma usage_never_increases net net' limit d : used_mb net' (snd (clean_pass net limit d)) <= used_mb net' d.
Proof. rewrite clean_pass_snd'. apply usage_antitone. Qed.

(* ------------------------------------------------------------------------------------------ *)
(* ORDER BY: the candidate list is sorted by the query's key (oldest first for content)        *)
(* ------------------------------------------------------------------------------------------ *)

Definition total_le (le : row -> row -> bool) := forall a b, le a b = true \/ le b a = true.
Definition trans_le (le : row -> row -> bool) := forall a b c, le a b = true -> le b c = true -> le a c = true.

Lemma insert_sorted le x l : total_le le -> trans_le le -> sorted_by le l -> sorted_by le (insert le x l).
Proof.
  intros Ht Hr. induction l as [|y t IH]; intro Hs; simpl; [split; [intros ? []|exact I]|].
  destruct Hs as [Hy Hs]. destruct (le x y) eqn:E.
  - split; [|split; assumption]. intros z [<-|Hz]; [exact E | eapply Hr; [exact E | apply Hy; exact Hz]].
  - split; [|apply IH; exact Hs].
    intros z Hz. apply (Permutation_in _ (insert_perm le x t)) in Hz. destruct Hz as [<-|Hz]; [|apply Hy; exact Hz].
    destruct (Ht x y) as [H|H]; [congruence | exact H].
Qed.

Lemma isort_sorted le l : total_le le -> trans_le le -> sorted_by le (isort le l).
Proof. intros Ht Hr. induction l as [|x t IH]; simpl; [exact I | apply insert_sorted; assumption]. Qed.

Lemma content_le_total : total_le content_le.
Proof.
  intros a b. unfold content_le.
  destruct (N.lt_trichotomy (r_added a) (r_added b)) as [H|[H|H]].
  - left. apply N.ltb_lt in H. rewrite H. reflexivity.
  - rewrite H, N.ltb_irrefl, N.eqb_refl. simpl. destruct (N.le_ge_cases (r_len a) (r_len b)) as [L|L]; apply N.leb_le in L; rewrite L; auto.
  - right. apply N.ltb_lt in H. rewrite H. reflexivity.
Qed.

Lemma content_le_trans : trans_le content_le.
Proof.
  intros a b c. unfold content_le. intros H1 H2.
  apply orb_true_iff in H1. apply orb_true_iff in H2. apply orb_true_iff.
  rewrite !andb_true_iff, !N.ltb_lt, !N.eqb_eq, !N.leb_le in *. lia.
Qed.

Lemma net_le_total : total_le net_le.
Proof.
  intros a b. unfold net_le.
  destruct (N.lt_trichotomy (r_len a) (r_len b)) as [H|[H|H]].
  - right. apply N.ltb_lt in H. rewrite H. reflexivity.
  - rewrite H, N.ltb_irrefl, N.eqb_refl. simpl. destruct (N.le_ge_cases (r_added a) (r_added b)) as [L|L]; apply N.leb_le in L; rewrite L; auto.
  - left. apply N.ltb_lt in H. rewrite H. reflexivity.
Qed.

Lemma net_le_trans : trans_le net_le.
Proof.
  intros a b c. unfold net_le. intros H1 H2.
  apply orb_true_iff in H1. apply orb_true_iff in H2. apply orb_true_iff.
  rewrite !andb_true_iff, !N.ltb_lt, !N.eqb_eq, !N.leb_le in *. lia.
Qed.

Lemma sd_le_total : total_le sd_le.
Proof. intros a b. unfold sd_le. destruct (N.le_ge_cases (r_added a) (r_added b)) as [L|L]; apply N.leb_le in L; rewrite L; auto. Qed.

Lemma sd_le_trans : trans_le sd_le.
Proof. intros a b c. unfold sd_le. rewrite !N.leb_le. lia. Qed.

(* the network candidates are sorted largest first (oldest first among equals); the content candidates are the
   stream blobs oldest first followed by the descriptors oldest first; and a pass deletes a prefix of that list *)
Lemma cands_sorted d :
  sorted_by net_le (cands true d) /\
  exists cb sd, cands false d = cb ++ sd /\ sorted_by content_le cb /\ sorted_by sd_le sd.
Proof.
  split.
  - apply isort_sorted; [apply net_le_total | apply net_le_trans].
  - eexists. eexists. split; [reflexivity|].
    split; apply isort_sorted; auto using content_le_total, content_le_trans, sd_le_total, sd_le_trans.
Qed.

(* one clean(): both classes end within their limits when enough removable blobs exist for each at the moment its pass
   runs (the network pass runs on the state the content pass left) *)
Lemma clean_reaches_both cl nl d : tables_ok d -> cl <> 0%Z -> enough false cl d ->
  enough true nl (snd (clean_pass false cl d)) ->
  (Z.of_N (used_mb false (snd (clean cl nl d))) <= cl)%Z /\ (Z.of_N (used_mb true (snd (clean cl nl d))) <= nl)%Z.
Proof.
  intros Hw Hz He Hn. unfold clean.
  pose proof (reaches_limit false cl d Hw (or_intror Hz) He) as R1.
  pose proof (tables_ok_pass false cl d Hw) as Hw1.
  destruct (clean_pass false cl d) as [dl1 d1]. cbn [snd] in *.
  pose proof (reaches_limit true nl d1 Hw1 (or_introl eq_refl) Hn) as R2.
  pose proof (usage_never_increases true false nl d1) as A.
  destruct (clean_pass true nl d1) as [dl2 d2]. cbn [snd] in *. split; [lia | exact R2].
Qed.

(* ------------------------------------------------------------------------------------------ *)
(* upgraded databases, restarts on a wiped directory                                           *)
(* ------------------------------------------------------------------------------------------ *)

Lemma migrated_own legacy post sb st fl dk r : In r legacy ->
  In (fst (fst r)) (own_hashes (migrated_db legacy post sb st fl dk)).
Proof.
  intro H. apply own_hashes_In. exists (migrate_row r). split; [|split; reflexivity].
  unfold migrated_db. cbn [blobs]. apply in_or_app. left. apply in_map. exact H.
Qed.

(* nothing that was stored before the upgrade is ever deleted by a cleanup pass, over every later history *)
Lemma migrated_never_deleted legacy post sb st fl dk ops r :
  hashes_unique (migrated_db legacy post sb st fl dk) -> In r legacy -> ~ In (fst (fst r)) (user_deleted ops) ->
  (forall dl, In dl (fst (run ops (migrated_db legacy post sb st fl dk))) -> ~ In (fst (fst r)) dl) /\
  In (fst (fst r)) (own_hashes (snd (run ops (migrated_db legacy post sb st fl dk)))).
Proof.
  intros Hn Hr Hu. pose proof (history_never_own ops _ _ Hn (migrated_own legacy post sb st fl dk r Hr) Hu) as [A [B _]].
  split; assumption.
Qed.

Lemma add_orphans_fin now sizes hs : forall bl b, In b (add_orphans now sizes hs bl) ->
  In b bl \/ (In (b_hash b) hs /\ b_fin b = true).
Proof.
  induction hs as [|h r IH]; intros bl b H; simpl in H; [left; exact H|].
  apply IH in H as [H|[H1 H2]]; [|right; split; [right; exact H1 | exact H2]].
  destruct (mem h (map b_hash bl)); [left; exact H|].
  apply in_app_or in H as [H|[<-|[]]]; [left; exact H|]. right. split; [left; reflexivity | reflexivity].
Qed.

(* after a restart only blobs whose file is really in the blob directory are 'finished', i.e. charged to any class:
   an emptied directory leaves nothing charged *)
Lemma setup_only_present now sizes d b : In b (blobs (setup now sizes d)) -> b_fin b = true -> In (b_hash b) (disk d).
Proof.
  unfold setup. cbn [blobs]. intros H Hf. apply add_orphans_fin in H as [H|[H _]]; [|exact H].
  apply in_map_iff in H as [x [<- Hx]]. simpl in *. apply mem_In. exact Hf.
Qed.

Lemma nsum_zero {A} (f : A -> N) l : (forall x, In x l -> f x = 0) -> nsum (map f l) = 0.
Proof. induction l as [|x t IH]; intro H; simpl; [reflexivity|]. rewrite (H x), IH; auto; [intros; apply H; right; assumption | left; reflexivity]. Qed.

Lemma setup_empty_dir_no_usage now sizes d net : disk d = [] -> used_mb net (setup now sizes d) = 0.
Proof.
  intro He.
  assert (Z : forall b, In b (blobs (setup now sizes d)) -> b_fin b = false).
  { intros b Hb. destruct (b_fin b) eqn:E; [|reflexivity]. apply (setup_only_present now sizes d b Hb) in E. rewrite He in E. contradiction. }
  assert (T : forall f : blob -> N, (forall b, b_fin b = false -> f b = 0) -> nsum (map f (blobs (setup now sizes d))) = 0).
  { intros f Hf. apply nsum_zero. intros b Hb. apply Hf, Z, Hb. }
  destruct net; unfold used_mb, net_bytes, content_bytes, private_bytes.
  - rewrite T; [reflexivity|]. intros b Hb. unfold net_term, counted. rewrite Hb. reflexivity.
  - rewrite !T; [reflexivity | |]; intros b Hb; unfold private_term, content_term, counted; rewrite Hb; reflexivity.
Qed.

(* ------------------------------------------------------------------------------------------ *)
(* configuration layers                                                                        *)
(* ------------------------------------------------------------------------------------------ *)

(* whatever the command line / environment / config file say, a limit the user assigns is the limit in force,
   including 0 (= the default = unlimited content storage) *)
Lemma assign_effective updating v l : effective (assign updating v l) = v.
Proof. reflexivity. Qed.
