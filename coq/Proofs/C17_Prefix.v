(* C17 proofs, part 6: every proper prefix of an encoding is rejected (truncated datagrams are dropped). No axioms. *)
From Coq Require Import NArith ZArith List Bool Lia.
From Coq.Strings Require Import Byte.
From LV Require Import Lib.Bytes Lib.Decimal Model.C17 Proofs.C17_Int Proofs.C17_Bencode Proofs.C17_Msg.
Import ListNotations.
Local Open Scope N_scope.

Ltac Zify.zify_post_hook ::= Z.to_euclidean_division_equations.

(* the decoder failed, or it swallowed the whole input (a cut-off string is read as a shorter string: slices
   clamp) -- in both cases the enclosing list / dictionary loop finds nothing left and fails *)
Definition stuck (r : res (bval * bytes)) : Prop :=
  match r with Err _ => True | Ok (_, rest) => rest = [] end.
Definition is_err {A} (r : res A) : Prop :=
  match r with Err _ => True | Ok _ => False end.

Lemma is_err_stuck r : is_err r -> stuck r.
Proof. destruct r as [[v rest]|e]; simpl; [contradiction | trivial]. Qed.

Lemma prefix_of_snoc {A} (p q a : list A) x : p ++ q = a ++ [x] -> q <> [] -> exists m, a = p ++ m.
Proof.
  intros H Hq. rewrite (app_removelast_last x Hq) in H. rewrite app_assoc in H.
  apply app_inj_tail in H as [H _]. exists (removelast q). symmetry. exact H.
Qed.

Lemma find_split_none c s : Forall (fun b => isb c b = false) s -> find_split c s = None.
Proof. induction 1 as [|b r Hb Hr IH]; [reflexivity|]. cbn [find_split]. rewrite Hb, IH. reflexivity. Qed.

Lemma take_clamped_short s : forall n, blen s <= n -> take_clamped n s = (s, []).
Proof.
  induction s as [|b r IH]; intros n H; [reflexivity|].
  cbn [take_clamped]. unfold blen in *. cbn [length] in H. rewrite Nat2N.inj_succ in H.
  destruct (n =? 0) eqn:E; [apply N.eqb_eq in E; lia|].
  rewrite IH by lia. reflexivity.
Qed.

Section Loops.
  Variable dec1 : bytes -> res (bval * bytes).
  Variable bound : nat.

  (* what is known about the element decoder for one value x *)
  Definition RT (x : bval) : Prop :=
    (length (benc x) <= bound)%nat -> forall T, dec1 (benc x ++ T) = Ok (x, T).
  Definition PF (x : bval) : Prop :=
    forall p q, p ++ q = benc x -> q <> [] -> (length p <= bound)%nat -> stuck (dec1 p).

  Lemma list_loop_nil st acc : is_err (list_loop dec1 st [] acc).
  Proof. destruct st; exact I. Qed.
  Lemma dict_loop_nil st acc : is_err (dict_loop dec1 st [] acc).
  Proof. destruct st; exact I. Qed.

  Lemma head_of_prefix x c p' m : benc x = (c :: p') ++ m -> isb 101 c = false.
  Proof.
    intro H. destruct (benc_head x) as (b & t & Eb & Hb). rewrite Eb in H. cbn [app] in H.
    inversion H; subst. exact Hb.
  Qed.

  Lemma list_loop_prefix l : forall st acc p q,
    p ++ q = concat (map benc l) ++ [c_e] -> q <> [] -> (length p <= bound)%nat ->
    Forall (fun x => RT x /\ PF x) l ->
    is_err (list_loop dec1 st p acc).
  Proof.
    induction l as [|x l IH]; intros st acc p q H Hq Hb Hl.
    - cbn [map concat app] in H. destruct p as [|c p']; [apply list_loop_nil|].
      exfalso. cbn [app] in H. inversion H as [[Hc Hp]]. apply app_eq_nil in Hp as [_ Hp]. contradiction.
    - destruct st as [|st]; [exact I|].
      inversion Hl as [|? ? [Hrt Hpf] Hl']; subst.
      cbn [map concat] in H. rewrite <- app_assoc in H.
      apply app_eq_app in H as [m [[Hp Hr]|[Hx Hqm]]].
      + (* the whole encoding of x lies inside p *)
        subst p. rewrite app_length in Hb.
        destruct (benc_head x) as (b & t & Eb & Hbe).
        assert (Hdata : benc x ++ m = b :: t ++ m) by (rewrite Eb; reflexivity).
        rewrite Hdata, list_loop_cons, Hbe, <- Hdata, (Hrt ltac:(lia)).
        apply (IH st (x :: acc) m q); [symmetry; exact Hr | exact Hq | lia | exact Hl'].
      + destruct m as [|c0 m'].
        * (* p is exactly the encoding of x *)
          rewrite app_nil_r in Hx. subst p. cbn [app] in Hqm. subst q.
          destruct (benc_head x) as (b & t & Eb & Hbe).
          pose proof (Hrt Hb []) as Hd. rewrite app_nil_r in Hd.
          rewrite Eb, list_loop_cons, Hbe, <- Eb, Hd.
          apply (IH st (x :: acc) [] (concat (map benc l) ++ [c_e])); [reflexivity | | simpl; lia | exact Hl'].
          destruct (concat (map benc l)); discriminate.
        * (* p is a proper prefix of the encoding of x *)
          destruct p as [|c p']; [exact I|].
          pose proof (head_of_prefix x c p' (c0 :: m') Hx) as Hc.
          rewrite list_loop_cons, Hc.
          pose proof (Hpf (c :: p') (c0 :: m') (eq_sym Hx) ltac:(discriminate) Hb) as Hs.
          destruct (dec1 (c :: p')) as [[v rest]|e]; [|exact I].
          simpl in Hs. subst rest. apply list_loop_nil.
  Qed.

  Lemma dict_loop_prefix d : forall st acc p q,
    p ++ q = benc_items d ++ [c_e] -> q <> [] -> (length p <= bound)%nat ->
    Forall (fun kx => RT (fst kx) /\ PF (fst kx) /\ RT (snd kx) /\ PF (snd kx)) d ->
    is_err (dict_loop dec1 st p acc).
  Proof.
    induction d as [|[k x] d IH]; intros st acc p q H Hq Hb Hl.
    - unfold benc_items in H. cbn [map concat app] in H. destruct p as [|c p']; [apply dict_loop_nil|].
      exfalso. cbn [app] in H. inversion H as [[Hc Hp]]. apply app_eq_nil in Hp as [_ Hp]. contradiction.
    - destruct st as [|st]; [exact I|].
      inversion Hl as [|? ? (Hrk & Hpk & Hrx & Hpx) Hl']; subst. cbn [fst snd] in *.
      unfold benc_items in H. cbn [map concat fst snd] in H. fold (benc_items d) in H.
      rewrite <- !app_assoc in H.
      (* the value part, used twice below: after the key has been read, [m] is what is left of p *)
      assert (Hval : forall m, (length m <= bound)%nat -> m ++ q = benc x ++ benc_items d ++ [c_e] ->
                is_err (match dec1 m with
                        | Err e => Err e
                        | Ok (v, cur3) => if hashable k then dict_loop dec1 st cur3 (pydict_set acc k v) else Err EDecode
                        end)).
      { intros m Hm Hmq. apply app_eq_app in Hmq as [m2 [[Hm1 Hr]|[Hx Hqm]]].
        - subst m. rewrite app_length in Hm. rewrite (Hrx ltac:(lia)).
          destruct (hashable k); [|exact I].
          apply (IH st _ m2 q); [symmetry; exact Hr | exact Hq | lia | exact Hl'].
        - destruct m2 as [|c0 m2'].
          + rewrite app_nil_r in Hx. subst m. cbn [app] in Hqm. subst q.
            pose proof (Hrx Hm []) as Hd. rewrite app_nil_r in Hd. rewrite Hd.
            destruct (hashable k); [|exact I].
            apply (IH st _ [] (benc_items d ++ [c_e])); [reflexivity | | simpl; lia | exact Hl'].
            destruct (benc_items d); discriminate.
          + pose proof (Hpx m (c0 :: m2') (eq_sym Hx) ltac:(discriminate) Hm) as Hs.
            destruct (dec1 m) as [[v rest]|e]; [|exact I].
            simpl in Hs. subst rest. destruct (hashable k); [apply dict_loop_nil | exact I]. }
      apply app_eq_app in H as [m [[Hp Hr]|[Hk Hqm]]].
      + subst p. rewrite app_length in Hb.
        destruct (benc_head k) as (b & t & Eb & Hbe).
        assert (Hdata : benc k ++ m = b :: t ++ m) by (rewrite Eb; reflexivity).
        rewrite Hdata, dict_loop_cons, Hbe, <- Hdata, (Hrk ltac:(lia)).
        apply Hval; [lia | symmetry; exact Hr].
      + destruct m as [|c0 m'].
        * rewrite app_nil_r in Hk. subst p. cbn [app] in Hqm.
          destruct (benc_head k) as (b & t & Eb & Hbe).
          pose proof (Hrk Hb []) as Hd. rewrite app_nil_r in Hd.
          rewrite Eb, dict_loop_cons, Hbe, <- Eb, Hd.
          apply Hval; [simpl; lia | cbn [app]; exact Hqm].
        * destruct p as [|c p']; [exact I|].
          pose proof (head_of_prefix k c p' (c0 :: m') Hk) as Hc.
          rewrite dict_loop_cons, Hc.
          pose proof (Hpk (c :: p') (c0 :: m') (eq_sym Hk) ltac:(discriminate) Hb) as Hs.
          destruct (dec1 (c :: p')) as [[k' rest]|e]; [|exact I].
          simpl in Hs. subst rest.
          pose proof (Hpx [] (benc x) eq_refl) as Hs2.
          assert (Hne : benc x <> []) by (destruct (benc_head x) as (b & t & Eb & _); rewrite Eb; discriminate).
          specialize (Hs2 Hne ltac:(simpl; lia)).
          destruct (dec1 []) as [[v rest]|e]; [|exact I].
          simpl in Hs2. subst rest. destruct (hashable k'); [apply dict_loop_nil | exact I].
  Qed.
End Loops.

Lemma dec_of_N_no_colon n : Forall (fun b => isb 58 b = false) (dec_of_N n).
Proof. eapply Forall_impl; [|apply dec_of_N_Forall]. intros b Hb. apply isb_digit; [exact Hb|lia]. Qed.

Lemma Forall_app_l {A} (P : A -> Prop) a b : Forall P (a ++ b) -> Forall P a.
Proof. intro H. apply Forall_app in H as [H _]. exact H. Qed.

(* a cut-off string *)
Lemma bdec_str_prefix steps dp s p q : small s -> p ++ q = benc (BStr s) -> q <> [] ->
  stuck (bdec steps (S dp) p).
Proof.
  intros Hs H Hq. cbn [benc] in H.
  destruct p as [|b p']; [exact I|].
  pose proof (dec_of_N_Forall (blen s)) as Hd.
  assert (Hb : is_digit b = true).
  { destruct (dec_of_N (blen s)) as [|d0 r0] eqn:E; [exfalso; eapply dec_of_N_nonempty; exact E|].
    cbn [app] in H. inversion H; subst. inversion Hd; assumption. }
  cbn [bdec]. rewrite (isb_digit 105 b Hb) by lia. rewrite (isb_digit 108 b Hb) by lia. rewrite (isb_digit 100 b Hb) by lia.
  apply app_eq_app in H as [m [[Hp Hr]|[Hx Hqm]]].
  - (* all the digits are there *)
    destruct m as [|c0 m'].
    + rewrite app_nil_r in Hp. rewrite Hp. rewrite find_split_none by apply dec_of_N_no_colon. exact I.
    + cbn [app] in Hr. inversion Hr as [[Hc Hs']]. subst c0. rewrite Hp.
      rewrite find_split_app; [|apply dec_of_N_no_colon | unfold isb; rewrite N_of_c_colon; reflexivity].
      rewrite strict_len_dec_of_N by exact Hs.
      assert (Hneg : (Z.of_N (blen s) <? 0)%Z = false) by (apply Z.ltb_ge; lia). rewrite Hneg.
      rewrite N2Z.id. rewrite take_clamped_short; [reflexivity|].
      rewrite Hs'. unfold blen. rewrite app_length. lia.
  - (* cut inside the digits *)
    rewrite find_split_none; [exact I|].
    apply (Forall_app_l _ (b :: p') m). rewrite <- Hx. apply dec_of_N_no_colon.
Qed.

Lemma bdec_int_prefix steps dp z p q : p ++ q = benc (BInt z) -> q <> [] -> stuck (bdec steps (S dp) p).
Proof.
  intros H Hq. cbn [benc] in H.
  destruct p as [|b p']; [exact I|]. cbn [app] in H. inversion H as [[Hb Hp]]. subst b.
  cbn [bdec]. unfold isb at 1. rewrite N_of_c_i. cbn [N.eqb Pos.eqb].
  destruct (prefix_of_snoc p' q (dec_of_Z z) c_e Hp Hq) as [m Hm].
  rewrite find_split_none; [exact I|].
  apply (Forall_app_l _ p' m). rewrite <- Hm. apply dec_of_Z_no_e.
Qed.

Lemma key_ok_wfv k : key_ok k -> wfv k.
Proof. destruct k; simpl; intro H; try contradiction; constructor; exact H. Qed.

(* MAIN: the decoder on a proper prefix of bencode(v) *)
Theorem bdec_prefix : forall v, wfv v -> forall steps depth p q,
  p ++ q = benc v -> q <> [] -> (depth_of v <= depth)%nat -> (length p <= steps)%nat ->
  match v with
  | BList _ | BDict _ => is_err (bdec steps depth p)
  | _ => stuck (bdec steps depth p)
  end.
Proof.
  induction v as [z|s|l IHl|d IHd] using bval_ind'; intros Hw steps depth p q H Hq Hdep Hst.
  - destruct depth as [|dp]; [simpl in Hdep; lia|]. eapply bdec_int_prefix; eassumption.
  - inversion Hw; subst. destruct depth as [|dp]; [simpl in Hdep; lia|]. eapply bdec_str_prefix; eassumption.
  - inversion Hw as [| |l' Hwl|]; subst.
    destruct depth as [|dp]; [simpl in Hdep; lia|].
    rewrite benc_BList in H. destruct p as [|b p']; [exact I|].
    cbn [app] in H. inversion H as [[Hb Hp]]. subst b. rewrite bdec_l.
    apply (list_loop_prefix (bdec steps dp) steps l steps [] p' q Hp Hq); [cbn [length] in Hst; lia|].
    apply Forall_forall. intros x Hx. rewrite Forall_forall in IHl, Hwl.
    assert (Hdx : (depth_of x <= dp)%nat).
    { cbn [depth_of] in Hdep. pose proof (fold_max_le depth_of l 0%nat x Hx). lia. }
    split.
    + intros Hlen T. apply bdec_benc; [apply Hwl; exact Hx | exact Hdx | exact Hlen].
    + intros p0 q0 H0 Hq0 Hl0.
      pose proof (IHl x Hx (Hwl x Hx) steps dp p0 q0 H0 Hq0 Hdx Hl0) as R.
      destruct x; try exact R; apply is_err_stuck; exact R.
  - inversion Hw as [| | |d' Hwd Hks Hkn]; subst.
    destruct depth as [|dp]; [simpl in Hdep; lia|].
    rewrite (benc_BDict d Hks) in H. destruct p as [|b p']; [exact I|].
    cbn [app] in H. inversion H as [[Hb Hp]]. subst b. rewrite bdec_d.
    assert (Hdp : (1 <= dp)%nat).
    { cbn [depth_of] in Hdep.
      pose proof (fold_max_base (fun p : bval * bval => let (_, x) := p in depth_of x) d 1%nat). lia. }
    apply (dict_loop_prefix (bdec steps dp) steps d steps [] p' q Hp Hq); [cbn [length] in Hst; lia|].
    apply Forall_forall. intros [k x] Hin. cbn [fst snd]. rewrite Forall_forall in IHd, Hwd.
    destruct (IHd _ Hin) as [IHk IHx]. destruct (Hwd _ Hin) as [Hk Hx]. cbn [fst snd] in *.
    assert (Hdx : (depth_of x <= dp)%nat).
    { cbn [depth_of] in Hdep.
      pose proof (fold_max_le (fun p : bval * bval => let (_, y) := p in depth_of y) d 1%nat (k, x) Hin) as Hm.
      cbn beta iota in Hm. lia. }
    assert (Hdk : (depth_of k <= dp)%nat) by (destruct k; simpl in *; try contradiction; lia).
    pose proof (key_ok_wfv k Hk) as Hwk.
    repeat split.
    + intros Hlen T. apply bdec_benc; assumption.
    + intros p0 q0 H0 Hq0 Hl0. pose proof (IHk Hwk steps dp p0 q0 H0 Hq0 Hdk Hl0) as R.
      destruct k; try exact R; apply is_err_stuck; exact R.
    + intros Hlen T. apply bdec_benc; assumption.
    + intros p0 q0 H0 Hq0 Hl0. pose proof (IHx Hx steps dp p0 q0 H0 Hq0 Hdx Hl0) as R.
      destruct x; try exact R; apply is_err_stuck; exact R.
Qed.

(* every proper prefix of an encoded dictionary is refused by bdecode *)
Corollary bdecode_prefix d fuel p q :
  wfv (BDict d) -> (depth_of (BDict d) <= fuel)%nat -> p ++ q = benc (BDict d) -> q <> [] ->
  exists e, bdecode fuel p = Err e.
Proof.
  intros Hw Hf H Hq. unfold bdecode. destruct p as [|b r]; [exists EDecode; reflexivity|].
  pose proof (bdec_prefix (BDict d) Hw (S (length (b :: r))) fuel (b :: r) q H Hq Hf ltac:(lia)) as R.
  cbn beta iota in R. destruct (bdec (S (length (b :: r))) fuel (b :: r)) as [[v rest]|e]; [contradiction|].
  exists e. reflexivity.
Qed.

(* TRUNCATION: every proper prefix of the datagram of a well-formed message is rejected by decode_datagram *)
Theorem truncated_message_rejected fuel m k :
  wf_message m -> (message_depth m <= fuel)%nat -> (k < length (encode_message m))%nat ->
  exists e, decode_datagram fuel (firstn k (encode_message m)) = inr e.
Proof.
  intros Hw Hf Hk. pose proof (wfv_value_of_message m Hw) as Hq.
  unfold message_depth, encode_message in *.
  assert (Hne : skipn k (benc (value_of_message m)) <> []).
  { intro E. apply (f_equal (@length byte)) in E. rewrite skipn_length in E. simpl in E. lia. }
  pose proof (firstn_skipn k (benc (value_of_message m))) as Hsplit.
  unfold decode_datagram.
  destruct m as [rpc node r|rpc node p|rpc node et tx]; cbn [value_of_message] in *;
    (edestruct bdecode_prefix as [e He]; [exact Hq | exact Hf | exact Hsplit | exact Hne |]; rewrite He; exists e; reflexivity).
Qed.

Corollary last_byte_cut_rejected fuel m :
  wf_message m -> (message_depth m <= fuel)%nat ->
  exists e, decode_datagram fuel (removelast (encode_message m)) = inr e.
Proof.
  intros Hw Hf. rewrite removelast_firstn_len. apply truncated_message_rejected; [exact Hw | exact Hf |].
  unfold encode_message. pose proof (benc_length_pos (value_of_message m)). lia.
Qed.
