(* C03 lemmas.  Sub-multisets are handled by counting occurrences so that [lia] closes the
   bookkeeping goals. *)
From Coq Require Import NArith ZArith List Bool Lia Permutation.
From LV Require Import Model.C03.
Import ListNotations.
Local Open Scope Z_scope.
Ltac Zify.zify_post_hook ::= Z.to_euclidean_division_equations.

(* ------------------------------------------------------------------ counting *)
Lemma utxo_eq_dec : forall a b : utxo, {a = b} + {a <> b}.
Proof. decide equality; try apply N.eq_dec; try apply Z.eq_dec; apply bool_dec. Qed.

Definition cnt (l : list utxo) (x : utxo) : nat := count_occ utxo_eq_dec l x.
Definition one (u x : utxo) : nat := if utxo_eq_dec u x then 1%nat else 0%nat.
Arguments cnt : simpl never.
Arguments one : simpl never.

Lemma cnt_nil x : cnt [] x = 0%nat. Proof. reflexivity. Qed.
Lemma cnt_cons u l x : cnt (u :: l) x = (one u x + cnt l x)%nat.
Proof. unfold cnt, one; simpl; destruct (utxo_eq_dec u x); reflexivity. Qed.
Lemma cnt_app a b x : cnt (a ++ b) x = (cnt a x + cnt b x)%nat.
Proof. induction a; simpl; [reflexivity|]. rewrite !cnt_cons, IHa; lia. Qed.
Lemma cnt_rev a x : cnt (rev a) x = cnt a x.
Proof. induction a; simpl; [reflexivity|]. rewrite cnt_app, !cnt_cons, cnt_nil, IHa; lia. Qed.
Lemma cnt_filter_le f l x : (cnt (filter f l) x <= cnt l x)%nat.
Proof. induction l; simpl; [lia|]. destruct (f a); rewrite ?cnt_cons; lia. Qed.
Lemma cnt_filter_split (p q r : utxo -> bool) l x :
  (forall u, p u = q u || r u) -> (forall u, q u && r u = false) ->
  cnt (filter p l) x = (cnt (filter q l) x + cnt (filter r l) x)%nat.
Proof.
  intros H1 H2; induction l; simpl; [reflexivity|].
  rewrite H1. specialize (H2 a). destruct (q a), (r a); simpl in *; try discriminate;
  rewrite ?cnt_cons; lia.
Qed.
Lemma cnt_filter_true (f : utxo -> bool) l x : f x = true -> cnt (filter f l) x = cnt l x.
Proof.
  intro Hx. induction l; simpl; [reflexivity|]. destruct (f a) eqn:Fa; rewrite !cnt_cons; [lia|].
  unfold one. destruct (utxo_eq_dec a x); [subst; congruence | lia].
Qed.
Lemma one_self u : one u u = 1%nat.
Proof. unfold one; destruct (utxo_eq_dec u u); congruence. Qed.
Lemma one_le u x : (one u x <= 1)%nat.
Proof. unfold one; destruct (utxo_eq_dec u x); lia. Qed.
Lemma cnt_perm l l' x : Permutation l l' -> cnt l x = cnt l' x.
Proof. induction 1; rewrite ?cnt_cons; lia. Qed.

Definition submset (r l : list utxo) : Prop := forall x, (cnt r x <= cnt l x)%nat.

Lemma submset_NoDup r l : submset r l -> NoDup l -> NoDup r.
Proof.
  intros H N. apply (NoDup_count_occ utxo_eq_dec). intro x.
  apply (proj1 (NoDup_count_occ utxo_eq_dec l)) with (x := x) in N. specialize (H x). unfold cnt in H. lia.
Qed.
Lemma submset_incl r l : submset r l -> incl r l.
Proof.
  intros H x Hx. apply (count_occ_In utxo_eq_dec) in Hx. apply (count_occ_In utxo_eq_dec).
  specialize (H x). unfold cnt in H. lia.
Qed.
Lemma submset_refl l : submset l l. Proof. intro; lia. Qed.
Lemma submset_trans a b c : submset a b -> submset b c -> submset a c.
Proof. intros H1 H2 x; specialize (H1 x); specialize (H2 x); lia. Qed.
Lemma submset_nil l : submset [] l. Proof. intro; rewrite cnt_nil; lia. Qed.
Lemma submset_filter f l : submset (filter f l) l. Proof. intro; apply cnt_filter_le. Qed.
Lemma In_cnt u l : In u l -> (1 <= cnt l u)%nat.
Proof. intro H. apply (count_occ_In utxo_eq_dec) in H. unfold cnt; lia. Qed.
Lemma submset_single u l : In u l -> submset [u] l.
Proof.
  intros H x. rewrite cnt_cons, cnt_nil. unfold one. destruct (utxo_eq_dec u x); [subst; apply In_cnt in H|]; lia.
Qed.

Lemma NoDup_map_inj_on {A B} (f : A -> B) (l : list A) x y :
  NoDup (map f l) -> In x l -> In y l -> f x = f y -> x = y.
Proof.
  induction l as [|a l IH]; simpl; intros N Hx Hy E; [contradiction|].
  apply NoDup_cons_iff in N. destruct N as [Na Nl].
  destruct Hx as [->|Hx], Hy as [->|Hy]; auto.
  - exfalso; apply Na. rewrite E. apply in_map; assumption.
  - exfalso; apply Na. rewrite <- E. apply in_map; assumption.
Qed.
Lemma NoDup_map_on {A B} (f : A -> B) (l r : list A) :
  NoDup (map f l) -> incl r l -> NoDup r -> NoDup (map f r).
Proof.
  intros Nl Hi Nr. induction Nr as [|x r Hx Nr IH]; simpl; [constructor|].
  constructor.
  - intro Hin. apply in_map_iff in Hin. destruct Hin as [y [Hy Hyr]].
    assert (y = x).
    { apply (NoDup_map_inj_on f l); auto; apply Hi; [right | left]; auto. }
    subst; contradiction.
  - apply IH. intros z Hz; apply Hi; right; assumption.
Qed.

(* ------------------------------------------------------------------ selector *)
Section Sel.
  Variable fpb : Z.
  Notation eff := (eff fpb).
  Notation sum_eff := (sum_eff fpb).

  Lemma sum_eff_app a b : sum_eff (a ++ b) = sum_eff a + sum_eff b.
  Proof. induction a; simpl; lia. Qed.
  Lemma sum_eff_rev a : sum_eff (rev a) = sum_eff a.
  Proof. induction a; simpl; [reflexivity|]. rewrite sum_eff_app; simpl; lia. Qed.
  Lemma sum_eff_perm l l' : Permutation l l' -> sum_eff l = sum_eff l'.
  Proof. induction 1; simpl; lia. Qed.
  Lemma sum_eff_nonneg l : (forall u, In u l -> 0 <= eff u) -> 0 <= sum_eff l.
  Proof. induction l; simpl; intros H; [lia|]. assert (0 <= eff a) by (apply H; auto). assert (0 <= sum_eff l) by (apply IHl; auto). lia. Qed.
  Lemma sum_eff_pos l : l <> [] -> (forall u, In u l -> 0 < eff u) -> 0 < sum_eff l.
  Proof.
    destruct l; [congruence|]. intros _ H. simpl.
    assert (0 < eff u) by (apply H; left; auto).
    assert (0 <= sum_eff l) by (apply sum_eff_nonneg; intros; apply Z.lt_le_incl, H; right; auto). lia.
  Qed.
  Lemma sum_eff_filter_le f l : (forall u, In u l -> 0 <= eff u) -> sum_eff (filter f l) <= sum_eff l.
  Proof.
    induction l; simpl; intros H; [lia|].
    assert (0 <= eff a) by (apply H; auto). assert (sum_eff (filter f l) <= sum_eff l) by (apply IHl; auto).
    destruct (f a); simpl; lia.
  Qed.

  (* sort_desc is a permutation *)
  Lemma cnt_insert_desc y l x : cnt (insert_desc fpb y l) x = (one y x + cnt l x)%nat.
  Proof. induction l; simpl; [rewrite cnt_cons; reflexivity|]. destruct (_ <=? _); rewrite !cnt_cons; rewrite ?IHl; lia. Qed.
  Lemma cnt_sort_desc l x : cnt (sort_desc fpb l) x = cnt l x.
  Proof. induction l; simpl; [reflexivity|]. rewrite cnt_insert_desc, cnt_cons, IHl; reflexivity. Qed.
  Lemma sum_insert_desc y l : sum_eff (insert_desc fpb y l) = eff y + sum_eff l.
  Proof. induction l; simpl; [reflexivity|]. destruct (_ <=? _); simpl; rewrite ?IHl; lia. Qed.
  Lemma sum_sort_desc l : sum_eff (sort_desc fpb l) = sum_eff l.
  Proof. induction l; simpl; [reflexivity|]. rewrite sum_insert_desc, IHl; reflexivity. Qed.
  Lemma in_insert_desc y l u : In u (insert_desc fpb y l) <-> u = y \/ In u l.
  Proof. induction l; simpl; [intuition|]. destruct (_ <=? _); simpl; rewrite ?IHl; intuition. Qed.
  Lemma in_sort_desc l u : In u (sort_desc fpb l) <-> In u l.
  Proof. induction l; simpl; [tauto|]. rewrite in_insert_desc, IHl. intuition. Qed.
  Lemma length_insert_desc y l : length (insert_desc fpb y l) = S (length l).
  Proof. induction l; simpl; [reflexivity|]. destruct (_ <=? _); simpl; rewrite ?IHl; reflexivity. Qed.
  Lemma length_sort_desc l : length (sort_desc fpb l) = length l.
  Proof. induction l; simpl; [reflexivity|]. rewrite length_insert_desc, IHl; reflexivity. Qed.
  Variables target coc : Z.
  Hypothesis coc_nonneg : 0 <= coc.

  (* what every strategy guarantees about its answer *)
  Definition sound (txos r : list utxo) : Prop := submset r txos /\ (r <> [] -> target <= sum_eff r).

  Lemma sound_nil txos : sound txos [].
  Proof. split; [apply submset_nil | congruence]. Qed.
  Lemma sound_sub a b r : submset a b -> sound a r -> sound b r.
  Proof. intros H [H1 H2]; split; [eapply submset_trans; eauto | assumption]. Qed.

  (* ---- closest_match *)
  Lemma closest_loop_spec l best :
    (forall c u, best = Some (c, u) -> target + coc <= eff u) ->
    match closest_loop fpb target coc l best with
    | Some (c, u) => target + coc <= eff u /\ (best = Some (c, u) \/ In u l)
    | None => best = None /\ forall u, In u l -> eff u < target + coc
    end.
  Proof.
    revert best; induction l as [|a l IH]; intros best Hb; simpl.
    - destruct best as [[c u]|]; [split; [eapply Hb; eauto | auto] | split; [reflexivity | intros ? []]].
    - destruct (eff a >=? target + coc) eqn:E.
      + assert (Ha : target + coc <= eff a) by lia.
        destruct best as [[c0 u0]|].
        * destruct (_ <? c0).
          -- specialize (IH (Some (eff a - (target + coc), a))).
             destruct (closest_loop _ _ _ l _) as [[c u]|].
             ++ destruct IH as [H1 H2]; [intros ? ? Heq; inversion Heq; subst; assumption|].
                split; [assumption|]. destruct H2 as [H2|H2]; [inversion H2; subst; right; left; reflexivity | right; right; assumption].
             ++ destruct IH as [H1 _]; [intros ? ? Heq; inversion Heq; subst; assumption|]. discriminate.
          -- specialize (IH (Some (c0, u0)) Hb).
             destruct (closest_loop _ _ _ l _) as [[c u]|].
             ++ destruct IH as [H1 H2]. split; [assumption|]. destruct H2; [left | right; right]; assumption.
             ++ destruct IH as [H1 _]; discriminate.
        * specialize (IH (Some (eff a - (target + coc), a))).
          destruct (closest_loop _ _ _ l _) as [[c u]|].
          -- destruct IH as [H1 H2]; [intros ? ? Heq; inversion Heq; subst; assumption|].
             split; [assumption|]. destruct H2 as [H2|H2]; [inversion H2; subst; right; left; reflexivity | right; right; assumption].
          -- destruct IH as [H1 _]; [intros ? ? Heq; inversion Heq; subst; assumption|]. discriminate.
      + specialize (IH best Hb).
        destruct (closest_loop _ _ _ l _) as [[c u]|].
        * destruct IH as [H1 H2]. split; [assumption|]. destruct H2; [left | right; right]; assumption.
        * destruct IH as [H1 H2]. split; [assumption|]. intros u [Hu|Hu]; [subst; lia | apply H2; assumption].
  Qed.

  Lemma closest_spec l :
    (exists u, closest fpb target coc l = [u] /\ In u l /\ target + coc <= eff u) \/
    (closest fpb target coc l = [] /\ forall u, In u l -> eff u < target + coc).
  Proof.
    unfold closest. pose proof (closest_loop_spec l None) as H.
    destruct (closest_loop _ _ _ l None) as [[c u]|].
    - destruct H as [H1 H2]; [intros; discriminate|]. left; exists u. destruct H2; [discriminate|]. auto.
    - destruct H as [_ H]; [intros; discriminate|]. right; auto.
  Qed.

  Lemma closest_sound l : sound l (closest fpb target coc l).
  Proof.
    destruct (closest_spec l) as [[u [E [Hin Hu]]]|[E _]]; rewrite E; [|apply sound_nil].
    split; [apply submset_single; assumption | intros _; simpl; lia].
  Qed.

  (* ---- random_draw *)
  Lemma draw_spec l a s :
    draw fpb target coc l a = Some s ->
    submset s l /\ target + coc <= a + sum_eff s /\ s <> [].
  Proof.
    revert a s; induction l as [|c l IH]; intros a s; simpl; [discriminate|].
    destruct (_ >=? _) eqn:E.
    - intros H; inversion H; subst. split; [apply submset_single; left; reflexivity|]. simpl; split; [lia | congruence].
    - destruct (draw _ _ _ l _) eqn:D; [|discriminate]. intros H; inversion H; subst.
      apply IH in D. destruct D as [D1 [D2 _]]. split; [|split; [simpl; lia | congruence]].
      intro x; rewrite !cnt_cons; specialize (D1 x); lia.
  Qed.
  Lemma draw_none l a :
    (forall u, In u l -> 0 <= eff u) ->
    (draw fpb target coc l a = None <-> (l = [] \/ a + sum_eff l < target + coc)).
  Proof.
    revert a; induction l as [|c l IH]; intros a Hp; simpl; [split; auto|].
    assert (0 <= eff c) by (apply Hp; left; auto).
    assert (Hl : forall u, In u l -> 0 <= eff u) by (intros; apply Hp; right; auto).
    pose proof (sum_eff_nonneg l Hl).
    destruct (_ >=? _) eqn:E.
    - split; [discriminate|]. intros [?|?]; [discriminate | lia].
    - specialize (IH (a + eff c) Hl). destruct (draw _ _ _ l _).
      + split; [discriminate|]. intros [?|?]; [discriminate|].
        assert (None = None :> option (list utxo)) by reflexivity.
        destruct IH as [_ IH]. assert (Some l0 = None); [apply IH; right; lia | discriminate].
      + split; [|reflexivity]. intros _. right. destruct IH as [IH _]. destruct (IH eq_refl); [subst; simpl; lia | lia].
  Qed.

  (* ---- branch_and_bound *)
  Notation sum_incl := (sum_incl fpb).

  Lemma sum_incl_app a b : sum_incl (a ++ b) = sum_incl a + sum_incl b.
  Proof. induction a as [|[u [|]] a IH]; simpl; lia. Qed.
  Lemma sum_incl_rev a : sum_incl (rev a) = sum_incl a.
  Proof. induction a as [|[u [|]] a IH]; simpl; rewrite ?sum_incl_app; simpl; lia. Qed.
  Lemma sum_eff_included d : sum_eff (map fst (filter snd d)) = sum_incl d.
  Proof. induction d as [|[u [|]] d IH]; simpl; lia. Qed.
  Lemma cnt_included d x : (cnt (map fst (filter snd d)) x <= cnt (map fst d) x)%nat.
  Proof. induction d as [|[u [|]] d IH]; simpl; rewrite ?cnt_cons; lia. Qed.

  Lemma bnb_result_sum best : sum_eff (bnb_result best) = sum_incl best.
  Proof. unfold bnb_result. rewrite sum_eff_included, sum_incl_rev. reflexivity. Qed.
  Lemma bnb_result_cnt best x : (cnt (bnb_result best) x <= cnt (map fst best) x)%nat.
  Proof.
    unfold bnb_result. pose proof (cnt_included (rev best) x) as H. unfold entry in *. rewrite map_rev, cnt_rev in H. exact H.
  Qed.

  Section Bnb.
    Variable txos : list utxo.      (* the sorted list the loop runs over *)

    Definition state_inv (cv ca : Z) (done : list entry) (rest : list utxo) : Prop :=
      cv = sum_incl done /\ ca = sum_eff rest /\
      forall x, (cnt (map fst done) x + cnt rest x = cnt txos x)%nat.

    Definition cand (d : list entry) : Prop :=
      target <= sum_incl d <= target + coc /\ submset (map fst d) txos.

    Lemma pop_false_spec done rest ca done1 rest1 ca1 :
      pop_false fpb done rest ca = (done1, rest1, ca1) ->
      sum_incl done1 = sum_incl done /\ ca1 - sum_eff rest1 = ca - sum_eff rest /\
      (forall x, (cnt (map fst done1) x + cnt rest1 x = cnt (map fst done) x + cnt rest x)%nat) /\
      (done1 = [] \/ exists u d, done1 = (u, true) :: d).
    Proof.
      revert rest ca; induction done as [|[u [|]] d IH]; intros rest ca; simpl.
      - intros H; inversion H; subst. repeat split; auto.
      - intros H; inversion H; subst. repeat split; auto. right; eauto.
      - intros H. apply IH in H. destruct H as [H1 [H2 [H3 H4]]]. simpl in *.
        split; [assumption|]. split; [lia|]. split; [|assumption].
        intro x; specialize (H3 x); rewrite !cnt_cons in *; lia.
    Qed.

    Lemma bnb_loop_result fuel : forall cv ca done rest bw best,
      state_inv cv ca done rest ->
      let b := fst (bnb_loop fpb target coc fuel cv ca done rest bw best) in
      b = best \/ cand b.
    Proof.
      induction fuel as [|f IH]; intros cv ca done rest bw best Inv; simpl; [left; reflexivity|].
      destruct Inv as [Icv [Ica Icnt]].
      assert (Hdone : cv >= target -> cv <= target + coc -> cand done).
      { intros; split; [lia|]. intro x; specialize (Icnt x); lia. }
      (* the recursive calls after a decision *)
      assert (Back : forall bw1 best1, (best1 = best \/ cand best1) ->
        let '(done1, rest1, ca1) := pop_false fpb done rest ca in
        let b := fst (match done1 with
                      | [] => (best1, f)
                      | (u, _) :: d => bnb_loop fpb target coc f (cv - eff u) ca1 ((u, false) :: d) rest1 bw1 best1
                      end) in b = best \/ cand b).
      { intros bw1 best1 Hb. destruct (pop_false fpb done rest ca) as [[done1 rest1] ca1] eqn:P.
        apply pop_false_spec in P. destruct P as [P1 [P2 [P3 P4]]].
        destruct P4 as [->|[u [d ->]]]; simpl; [assumption|].
        specialize (IH (cv - eff u) ca1 ((u, false) :: d) rest1 bw1 best1).
        destruct IH as [E|E].
        - split; [simpl in *; lia|]. split; [lia|]. intro x; specialize (P3 x); specialize (Icnt x); simpl in *; rewrite !cnt_cons in *; lia.
        - rewrite E; assumption.
        - right; assumption. }
      destruct ((cv + ca <? target) || (cv >? target + coc)) eqn:C1.
      - specialize (Back bw best (or_introl eq_refl)).
        destruct (pop_false fpb done rest ca) as [[done1 rest1] ca1]. exact Back.
      - apply orb_false_elim in C1. destruct C1 as [C1a C1b].
        destruct (cv >=? target) eqn:C2.
        + destruct (cv - target <=? bw) eqn:C3.
          * assert (Hc : cand done) by (apply Hdone; lia).
            specialize (Back (cv - target) done (or_intror Hc)).
            destruct (pop_false fpb done rest ca) as [[done1 rest1] ca1]. exact Back.
          * specialize (Back bw best (or_introl eq_refl)).
            destruct (pop_false fpb done rest ca) as [[done1 rest1] ca1]. exact Back.
        + destruct rest as [|u r]; [left; reflexivity|].
          assert (Inv1 : forall b : bool, state_inv (if b then cv + eff u else cv) (ca - eff u) ((u, b) :: done) r).
          { intro b. split; [destruct b; simpl; lia|]. split; [simpl in *; lia|].
            intro x; specialize (Icnt x); simpl; rewrite !cnt_cons in *; lia. }
          match goal with |- context [if ?c then _ else _] => destruct c end.
          * apply (IH cv (ca - eff u) ((u, false) :: done) r bw best (Inv1 false)).
          * apply (IH (cv + eff u) (ca - eff u) ((u, true) :: done) r bw best (Inv1 true)).
    Qed.
  End Bnb.

  Lemma state_inv_init txos avail : avail = sum_eff txos -> state_inv txos 0 avail [] txos.
  Proof. intro; split; [reflexivity|]. split; [assumption|]. intro x; unfold cnt; simpl; lia. Qed.

  Lemma cand_sound txos b : cand txos b -> sound txos (bnb_result b).
  Proof.
    intros [[H1 H2] H3]. split.
    - intro x. specialize (H3 x). pose proof (bnb_result_cnt b x). lia.
    - intros _. rewrite bnb_result_sum. assumption.
  Qed.
  Lemma cand_nonempty txos b : 0 < target -> cand txos b -> bnb_result b <> [].
  Proof.
    intros Ht [[H1 _] _] E. pose proof (bnb_result_sum b) as S. rewrite E in S. simpl in S. lia.
  Qed.

  Lemma bnb_sound fuel txos avail :
    avail = sum_eff txos -> sound txos (fst (bnb fpb target coc fuel txos avail)).
  Proof.
    intro Ha. unfold bnb.
    pose proof (bnb_loop_result (sort_desc fpb txos) fuel 0 avail [] (sort_desc fpb txos) coc []) as H.
    destruct (bnb_loop _ _ _ _ _ _ _ _ _ _) as [best f]. simpl in *.
    destruct H as [->|H].
    - apply state_inv_init. rewrite sum_sort_desc. assumption.
    - apply sound_nil.
    - apply cand_sound in H. eapply sound_sub; [|exact H]. intro x; rewrite cnt_sort_desc; lia.
  Qed.

  (* a non-empty answer of branch_and_bound has its effective sum inside the window *)
  Lemma bnb_window fuel txos avail :
    avail = sum_eff txos ->
    let r := fst (bnb fpb target coc fuel txos avail) in
    r <> [] -> target <= sum_eff r <= target + coc.
  Proof.
    intro Ha. unfold bnb.
    pose proof (bnb_loop_result (sort_desc fpb txos) fuel 0 avail [] (sort_desc fpb txos) coc []) as H.
    destruct (bnb_loop _ _ _ _ _ _ _ _ _ _) as [best f]. simpl in *.
    destruct H as [->|H].
    - apply state_inv_init. rewrite sum_sort_desc. assumption.
    - intros E; exfalso; apply E; reflexivity.
    - intros _. rewrite bnb_result_sum. apply H.
  Qed.
End Sel.

Section SelR.
  Variable fpb : Z.
  Variable shuffle : list utxo -> list utxo.
  Hypothesis shuffle_perm : forall l, Permutation l (shuffle l).
  Notation eff := (eff fpb).
  Notation sum_eff := (sum_eff fpb).
  Lemma cnt_shuffle l x : cnt (shuffle l) x = cnt l x.
  Proof. symmetry; apply cnt_perm, shuffle_perm. Qed.
  Lemma sum_shuffle l : sum_eff (shuffle l) = sum_eff l.
  Proof. symmetry; apply sum_eff_perm, shuffle_perm. Qed.
  Lemma in_shuffle l u : In u (shuffle l) <-> In u l.
  Proof. split; apply Permutation_in; [apply Permutation_sym|]; apply shuffle_perm. Qed.

  Variables target coc : Z.
  Hypothesis coc_nonneg : 0 <= coc.
  Notation sound := (sound fpb target).
  Notation draw_spec := (draw_spec fpb target coc).
  Notation draw_none := (draw_none fpb target coc).
  Notation sound_nil := (sound_nil fpb target).
  Lemma random_draw_sound l : sound l (random_draw fpb shuffle target coc l).
  Proof.
    unfold random_draw. destruct (draw _ _ _ _ _) eqn:D; [|apply sound_nil].
    apply draw_spec in D. destruct D as [D1 [D2 _]]. split; [|intros _; lia].
    intro x; specialize (D1 x); rewrite cnt_shuffle in D1; assumption.
  Qed.
  Lemma random_draw_complete l :
    (forall u, In u l -> 0 <= eff u) -> 0 < target ->
    (random_draw fpb shuffle target coc l = [] <-> sum_eff l < target + coc).
  Proof.
    intros Hp Ht. unfold random_draw.
    assert (Hs : forall u, In u (shuffle l) -> 0 <= eff u) by (intros u Hu; apply Hp, in_shuffle; assumption).
    pose proof (draw_none (shuffle l) 0 Hs) as H. rewrite sum_shuffle in H.
    destruct (draw _ _ _ _ _) eqn:D.
    - apply draw_spec in D. destruct D as [_ [D2 D3]]. split; [intros; subst; congruence|].
      intros Hlt. destruct H as [_ H]. assert (Some l0 = None); [apply H; right; lia | discriminate].
    - split; [|reflexivity]. intros _. destruct H as [H _]. destruct (H eq_refl) as [E|E]; [|lia].
      assert (sum_eff (shuffle l) = 0) by (rewrite E; reflexivity). rewrite sum_shuffle in H0. lia.
  Qed.

End SelR.

(* ------------------------------------------------------------------ strategies built from the three *)
Section Sel2.
  Variable fpb : Z.
  Variable shuffle : list utxo -> list utxo.
  Hypothesis shuffle_perm : forall l, Permutation l (shuffle l).
  Variables target coc : Z.
  Hypothesis coc_nonneg : 0 <= coc.
  Notation eff := (eff fpb).
  Notation sum_eff := (sum_eff fpb).
  Notation sound := (sound fpb target).

  Lemma submset_sort l : submset (sort_desc fpb l) l.
  Proof. intro x; rewrite cnt_sort_desc; lia. Qed.

  Lemma standard_sound fuel txos avail :
    avail = sum_eff txos -> sound txos (fst (standard fpb shuffle target coc fuel txos avail)).
  Proof.
    intro Ha. unfold standard. pose proof (bnb_sound fpb target coc fuel txos avail Ha) as B.
    destruct (bnb fpb target coc fuel txos avail) as [r f]. simpl in B.
    destruct (nonempty r); simpl; [assumption|].
    destruct (nonempty (closest fpb target coc (sort_desc fpb txos))); simpl.
    - eapply sound_sub; [apply submset_sort | apply closest_sound; assumption].
    - eapply sound_sub; [apply submset_sort | apply random_draw_sound; assumption].
  Qed.

  Lemma only_confirmed_sound fuel txos :
    sound txos (fst (only_confirmed fpb shuffle target coc fuel txos)).
  Proof.
    unfold only_confirmed. destruct (nonempty _); [|apply sound_nil].
    destruct (_ >? _); [apply sound_nil|].
    eapply sound_sub; [apply submset_filter | apply standard_sound; reflexivity].
  Qed.

  Lemma only_confirmed_confirmed fuel txos u :
    In u (fst (only_confirmed fpb shuffle target coc fuel txos)) -> 0 < uheight u.
  Proof.
    intro H. pose proof (only_confirmed_sound fuel txos) as [S _]. revert H S.
    unfold only_confirmed. destruct (nonempty _); [|intros []].
    destruct (_ >? _); [intros []|]. intros H _.
    pose proof (standard_sound fuel (filter (fun u => uheight u >? 0) txos) _ eq_refl) as [S _].
    apply submset_incl in S. apply S in H. apply filter_In in H. lia.
  Qed.

  Theorem select_sound s txos : sound txos (select fpb shuffle target coc s txos).
  Proof.
    unfold select. destruct (nonempty txos); [|apply sound_nil].
    destruct (_ >? _); [apply sound_nil|].
    destruct s; try (apply standard_sound; reflexivity).
    - pose proof (only_confirmed_sound (FUEL) txos) as O.
      destruct (only_confirmed _ _ _ _ _ _) as [r f]. simpl in O.
      destruct (nonempty r); [assumption | apply standard_sound; reflexivity].
    - apply only_confirmed_sound.
    - apply bnb_sound; reflexivity.
    - apply closest_sound; assumption.
    - apply random_draw_sound; assumption.
  Qed.

  (* ---------------------------------------------------------------- completeness *)
  Hypothesis target_pos : 0 < target.

  Lemma backtrack_inv txos cv ca done rest :
    state_inv fpb txos cv ca done rest ->
    let '(done1, rest1, ca1) := pop_false fpb done rest ca in
    match done1 with
    | [] => True
    | (u, _) :: d => state_inv fpb txos (cv - eff u) ca1 ((u, false) :: d) rest1
    end.
  Proof.
    intros [Icv [Ica Icnt]]. destruct (pop_false fpb done rest ca) as [[done1 rest1] ca1] eqn:P.
    apply pop_false_spec in P. destruct P as [P1 [P2 [P3 P4]]].
    destruct P4 as [->|[u [d ->]]]; [exact I|].
    split; [simpl in *; lia|]. split; [lia|].
    intro x; specialize (P3 x); specialize (Icnt x); simpl in *; rewrite !cnt_cons in *; lia.
  Qed.

  Lemma bnb_loop_keeps txos fuel cv ca done rest bw best :
    state_inv fpb txos cv ca done rest -> cand fpb target coc txos best ->
    cand fpb target coc txos (fst (bnb_loop fpb target coc fuel cv ca done rest bw best)).
  Proof.
    intros Inv Hc. destruct (bnb_loop_result fpb target coc txos fuel cv ca done rest bw best Inv) as [E|E];
    [rewrite E|]; assumption.
  Qed.

  (* the first descent: while nothing has been excluded yet the loop keeps adding outputs; if the
     whole list sums into [target, target + coc] a candidate is recorded before the list runs out *)
  Lemma first_descent txos : forall rest fuel cv ca done,
    state_inv fpb txos cv ca done rest ->
    (forall e, In e done -> snd e = true) ->
    (forall u, In u rest -> 0 <= eff u) ->
    target <= cv + ca <= target + coc ->
    (length rest < fuel)%nat ->
    cand fpb target coc txos (fst (bnb_loop fpb target coc fuel cv ca done rest coc [])).
  Proof.
    induction rest as [|u r IH]; intros fuel cv ca done Inv Hall Hpos Hwin Hfuel;
    (destruct fuel as [|f]; [simpl in Hfuel; lia|]).
    - (* nothing left: cv = total *)
      destruct Inv as [Icv [Ica Icnt]]. simpl in Ica. subst ca.
      assert (Hc : cand fpb target coc txos done).
      { split; [lia|]. intro x; specialize (Icnt x); lia. }
      cbn [bnb_loop].
      replace ((cv + 0 <? target) || (cv >? target + coc)) with false by (symmetry; apply orb_false_intro; lia).
      replace (cv >=? target) with true by lia.
      replace (cv - target <=? coc) with true by lia.
      pose proof (backtrack_inv txos cv 0 done [] (conj Icv (conj eq_refl Icnt))) as B.
      destruct (pop_false fpb done [] 0) as [[done1 rest1] ca1].
      destruct done1 as [|[u b] d]; simpl; [assumption | apply bnb_loop_keeps; assumption].
    - pose proof Inv as [Icv [Ica Icnt]].
      assert (0 <= eff u) by (apply Hpos; left; reflexivity).
      assert (0 <= sum_eff r) by (apply sum_eff_nonneg; intros; apply Hpos; right; assumption).
      simpl in Ica.
      cbn [bnb_loop].
      replace ((cv + ca <? target) || (cv >? target + coc)) with false by (symmetry; apply orb_false_intro; lia).
      destruct (cv >=? target) eqn:C2.
      + assert (Hc : cand fpb target coc txos done).
        { split; [lia|]. intro x; specialize (Icnt x); lia. }
        replace (cv - target <=? coc) with true by lia.
        pose proof (backtrack_inv txos cv ca done (u :: r) Inv) as B.
        destruct (pop_false fpb done (u :: r) ca) as [[done1 rest1] ca1].
        destruct done1 as [|[u1 b] d]; simpl; [assumption | apply bnb_loop_keeps; assumption].
      + assert (Hskip : match done with (p, false) :: _ => (eff u =? eff p) && (est_fee fpb u =? est_fee fpb p) | _ => false end = false).
        { destruct done as [|[p [|]] d]; try reflexivity.
          specialize (Hall (p, false) (or_introl eq_refl)). discriminate. }
        rewrite Hskip.
        apply IH.
        * split; [simpl; lia|]. split; [lia|]. intro x; specialize (Icnt x); simpl; rewrite !cnt_cons in *; lia.
        * intros e [<-|He]; [reflexivity | apply Hall; assumption].
        * intros; apply Hpos; right; assumption.
        * lia.
        * simpl in Hfuel; lia.
  Qed.

  Lemma bnb_total_in_window fuel txos avail :
    avail = sum_eff txos -> (forall u, In u txos -> 0 <= eff u) ->
    target <= avail <= target + coc -> (length txos < fuel)%nat ->
    fst (bnb fpb target coc fuel txos avail) <> [].
  Proof.
    intros Ha Hp Hw Hf. unfold bnb.
    pose proof (first_descent (sort_desc fpb txos) (sort_desc fpb txos) fuel 0 avail []) as H.
    destruct (bnb_loop _ _ _ _ _ _ _ _ _ _) as [best f]. simpl in *.
    eapply cand_nonempty; [exact target_pos|]. apply H.
    - apply state_inv_init. rewrite sum_sort_desc. assumption.
    - intros e [].
    - intros u Hu. apply Hp. apply in_sort_desc in Hu. assumption.
    - lia.
    - rewrite length_sort_desc. assumption.
  Qed.

  Lemma nonempty_false {A} (l : list A) : nonempty l = false <-> l = [].
  Proof. destruct l; simpl; split; congruence. Qed.
  Lemma nonempty_true {A} (l : list A) : nonempty l = true <-> l <> [].
  Proof. destruct l; simpl; split; congruence. Qed.

  (* standard never comes back empty when the offered outputs cover the target *)
  Lemma standard_complete fuel txos avail :
    avail = sum_eff txos -> (forall u, In u txos -> 0 < eff u) ->
    target <= avail -> (length txos < fuel)%nat ->
    fst (standard fpb shuffle target coc fuel txos avail) <> [].
  Proof.
    intros Ha Hp Ht Hf. unfold standard.
    assert (Hp0 : forall u, In u txos -> 0 <= eff u) by (intros; apply Z.lt_le_incl, Hp; assumption).
    pose proof (bnb_total_in_window fuel txos avail Ha Hp0) as B.
    destruct (bnb fpb target coc fuel txos avail) as [r f]. simpl in B.
    destruct (nonempty r) eqn:Er; simpl; [apply nonempty_true; assumption|].
    apply nonempty_false in Er.
    destruct (nonempty (closest _ _ _ _)) eqn:Ec; simpl; [apply nonempty_true; assumption|].
    destruct (Z_le_gt_dec avail (target + coc)) as [Hle|Hgt]; [exfalso; apply B; auto; lia|].
    intro E. apply random_draw_complete in E; auto.
    - rewrite sum_sort_desc in E. lia.
    - intros u Hu. apply Hp0. apply in_sort_desc in Hu. assumption.
  Qed.

  Lemma select_empty_list s : select fpb shuffle target coc s [] = [].
  Proof. reflexivity. Qed.

  Lemma fuel_ok (txos : list utxo) : (N.of_nat (length txos) < MAXIMUM_TRIES)%N -> (length txos < FUEL)%nat.
  Proof. unfold FUEL. lia. Qed.

  Lemma length_filter_le {A} (f : A -> bool) l : (length (filter f l) <= length l)%nat.
  Proof. induction l; simpl; [lia|]. destruct (f a); simpl; lia. Qed.

  Lemma only_confirmed_complete txos :
    (forall u, In u txos -> 0 < eff u) -> (length txos < FUEL)%nat ->
    let conf := filter (fun u => uheight u >? 0) txos in
    (fst (only_confirmed fpb shuffle target coc FUEL txos) = [] <-> sum_eff conf < target) /\
    (fst (only_confirmed fpb shuffle target coc FUEL txos) = [] ->
     snd (only_confirmed fpb shuffle target coc FUEL txos) = FUEL).
  Proof.
    intros Hp Hf conf. unfold only_confirmed. fold conf.
    assert (Hpc : forall u, In u conf -> 0 < eff u) by (intros u Hu; apply Hp; apply filter_In in Hu; tauto).
    destruct (nonempty conf) eqn:En.
    - destruct (target >? sum_eff conf) eqn:Et; simpl.
      + split; [split; [lia | reflexivity] | reflexivity].
      + pose proof (standard_complete FUEL conf (sum_eff conf) eq_refl Hpc) as S.
        assert (Hlen : (length conf < FUEL)%nat) by (pose proof (length_filter_le (fun u => uheight u >? 0) txos); unfold conf; lia).
        split; [split|]; intros E; try lia; exfalso; apply S; auto; lia.
    - apply nonempty_false in En. rewrite En. simpl. split; [split; [lia | reflexivity] | reflexivity].
  Qed.

  (* per strategy: an empty answer means exactly that the strategy's coverage predicate is false *)
  Theorem select_complete s txos :
    (forall u, In u txos -> 0 < eff u) -> (N.of_nat (length txos) < MAXIMUM_TRIES)%N ->
    match s with
    | Standard | PreferConfirmed | Sqlite =>
        select fpb shuffle target coc s txos = [] <-> sum_eff txos < target
    | OnlyConfirmed =>
        select fpb shuffle target coc s txos = [] <-> sum_eff (filter (fun u => uheight u >? 0) txos) < target
    | ClosestMatch =>
        select fpb shuffle target coc s txos = [] <-> forall u, In u txos -> eff u < target + coc
    | RandomDraw =>
        select fpb shuffle target coc s txos = [] <-> sum_eff txos < target + coc
    | BranchAndBound =>
        (select fpb shuffle target coc s txos <> [] ->
           target <= sum_eff (select fpb shuffle target coc s txos) <= target + coc) /\
        (target <= sum_eff txos <= target + coc -> select fpb shuffle target coc s txos <> [])
    end.
  Proof.
    intros Hp Hlen. apply fuel_ok in Hlen.
    assert (Hp0 : forall u, In u txos -> 0 <= eff u) by (intros; apply Z.lt_le_incl, Hp; assumption).
    pose proof (sum_eff_nonneg fpb txos Hp0) as Hsum.
    assert (Hconf : sum_eff (filter (fun u => uheight u >? 0) txos) <= sum_eff txos) by (apply sum_eff_filter_le; assumption).
    unfold select.
    destruct txos as [|u0 t0] eqn:Etx.
    { simpl. destruct s; try (split; [intros; simpl; lia | reflexivity]).
      split; [congruence | simpl; lia]. }
    rewrite <- Etx in *. replace (nonempty txos) with true by (rewrite Etx; reflexivity).
    destruct (target >? sum_eff txos) eqn:Et.
    { destruct s; try (split; [intros; lia | reflexivity]).
      - split; [congruence | lia].
      - split; [intros _ u Hu | reflexivity].
        destruct (Z_lt_ge_dec (eff u) (target + coc)); [assumption|exfalso].
        assert (eff u <= sum_eff txos); [|lia].
        clear - Hu Hp0. induction txos; [destruct Hu|]. simpl.
        assert (0 <= eff a) by (apply Hp0; left; auto).
        assert (0 <= sum_eff txos) by (apply sum_eff_nonneg; intros; apply Hp0; right; auto).
        destruct Hu as [->|Hu]; [lia|]. assert (eff u <= sum_eff txos) by (apply IHtxos; auto; intros; apply Hp0; right; auto). lia. }
    pose proof (standard_complete FUEL txos (sum_eff txos) eq_refl Hp ltac:(lia) Hlen) as St.
    destruct s.
    - split; [intro E; exfalso; apply St; assumption | lia].
    - pose proof (only_confirmed_complete txos Hp Hlen) as [O1 O2].
      destruct (only_confirmed fpb shuffle target coc FUEL txos) as [r f]. simpl in *.
      destruct (nonempty r) eqn:Er.
      + apply nonempty_true in Er. split; [congruence | lia].
      + apply nonempty_false in Er. rewrite (O2 Er). split; [intro E; exfalso; apply St; assumption | lia].
    - apply only_confirmed_complete; assumption.
    - split; [intro E; exfalso; apply St; assumption | lia].
    - split.
      + apply bnb_window. reflexivity.
      + intros W. apply bnb_total_in_window; auto.
    - destruct (closest_spec fpb target coc txos) as [[u [E [Hin Hu]]]|[E Hall]]; rewrite E.
      + split; [congruence|]. intros H. specialize (H u Hin). lia.
      + split; [intros _; assumption | reflexivity].
    - apply random_draw_complete; auto.
  Qed.
End Sel2.

(* ------------------------------------------------------------------ the sqlite chooser *)
Section Sq.
  Variable fpb : Z.
  Notation eff := (eff fpb).
  Notation sum_eff := (sum_eff fpb).

  Lemma cnt_sq_insert y l x : cnt (sq_insert y l) x = (one y x + cnt l x)%nat.
  Proof. induction l; simpl; [rewrite cnt_cons; reflexivity|]. destruct (sq_le y a); rewrite !cnt_cons; rewrite ?IHl; lia. Qed.
  Lemma cnt_sq_sort l x : cnt (sq_sort l) x = cnt l x.
  Proof. induction l; simpl; [reflexivity|]. rewrite cnt_sq_insert, cnt_cons, IHl; reflexivity. Qed.
  Lemma sum_sq_insert y l : sum_eff (sq_insert y l) = eff y + sum_eff l.
  Proof. induction l; simpl; [reflexivity|]. destruct (sq_le y a); simpl; rewrite ?IHl; lia. Qed.
  Lemma sum_sq_sort l : sum_eff (sq_sort l) = sum_eff l.
  Proof. induction l; simpl; [reflexivity|]. rewrite sum_sq_insert, IHl; reflexivity. Qed.
  Lemma in_sq_insert y l u : In u (sq_insert y l) <-> u = y \/ In u l.
  Proof. induction l; simpl; [intuition|]. destruct (sq_le y a); simpl; rewrite ?IHl; intuition. Qed.
  Lemma in_sq_sort l u : In u (sq_sort l) <-> In u l.
  Proof. induction l; simpl; [tauto|]. rewrite in_sq_insert, IHl. intuition. Qed.

  Lemma sq_scan_spec rows : forall a ra taken unconf ra1 taken1 unconf1 early,
    sq_scan fpb rows a ra taken unconf = (ra1, taken1, unconf1, early) ->
    ra1 - ra = sum_eff taken1 - sum_eff taken /\
    (forall x, (cnt taken1 x + cnt unconf1 x <= cnt taken x + cnt unconf x + cnt rows x)%nat) /\
    (early = true -> a <= ra1) /\
    (early = false -> ra1 + sum_eff unconf1 = ra + sum_eff unconf + sum_eff rows).
  Proof.
    induction rows as [|u r IH]; intros a ra taken unconf ra1 taken1 unconf1 early; simpl.
    - intros H; inversion H; subst. repeat split; try lia; try discriminate.
    - destruct (uverified u).
      + destruct (_ >=? a) eqn:E.
        * intros H; inversion H; subst. simpl. unfold eff. split; [lia|]. split; [|split; [intros _; lia | discriminate]].
          intro x; rewrite !cnt_cons; lia.
        * intros H. apply IH in H. destruct H as [H1 [H2 [H3 H4]]]. simpl in *. unfold eff in *.
          split; [lia|]. split; [|split; [assumption | intro He; specialize (H4 He); lia]].
          intro x; specialize (H2 x); rewrite !cnt_cons in *; lia.
      + intros H. apply IH in H. destruct H as [H1 [H2 [H3 H4]]]. simpl in *.
        split; [lia|]. split; [|split; [assumption | intro He; specialize (H4 He); lia]].
        intro x; specialize (H2 x); rewrite !cnt_cons in *; lia.
  Qed.

  Lemma sq_unconf_spec l : forall a ra taken ra2 taken2,
    sq_unconf fpb l a ra taken = (ra2, taken2) ->
    ra2 - ra = sum_eff taken2 - sum_eff taken /\
    (forall x, (cnt taken2 x <= cnt taken x + cnt l x)%nat) /\
    (ra2 < a -> ra2 = ra + sum_eff l).
  Proof.
    induction l as [|u r IH]; intros a ra taken ra2 taken2; simpl.
    - intros H; inversion H; subst. repeat split; try lia.
    - destruct (ra <? a) eqn:E.
      + intros H. apply IH in H. destruct H as [H1 [H2 H3]]. simpl in *. unfold eff in *.
        split; [lia|]. split; [|intro Hlt; specialize (H3 Hlt); lia].
        intro x; specialize (H2 x); rewrite !cnt_cons in *; lia.
      + intros H; inversion H; subst. split; [lia|]. split; [intro x; lia | lia].
  Qed.

  Lemma sq_get_spec win a ra taken ra1 taken1 :
    sq_get fpb win a ra taken = (ra1, taken1) ->
    ra1 - ra = sum_eff taken1 - sum_eff taken /\
    (forall x, (cnt taken1 x <= cnt taken x + cnt win x)%nat) /\
    (ra1 < a -> ra1 = ra + sum_eff win).
  Proof.
    unfold sq_get. destruct (sq_scan fpb win a ra taken []) as [[[rs ts] us] early] eqn:S.
    apply sq_scan_spec in S. destruct S as [S1 [S2 [S3 S4]]].
    destruct early.
    - intros H; inversion H; subst. split; [assumption|]. split; [|specialize (S3 eq_refl); lia].
      intro x; specialize (S2 x); rewrite cnt_nil in S2; lia.
    - intros H. apply sq_unconf_spec in H. destruct H as [U1 [U2 U3]].
      rewrite sum_eff_rev in U3. specialize (S4 eq_refl). simpl in S4.
      split; [lia|]. split; [|intro Hlt; specialize (U3 Hlt); lia].
      intro x; specialize (S2 x); specialize (U2 x); rewrite cnt_rev in U2; rewrite cnt_nil in S2; lia.
  Qed.

  Lemma in_window_split f0 f1 f2 u : f0 <= f1 -> f1 <= f2 ->
    in_window f0 f2 u = in_window f0 f1 u || in_window f1 f2 u.
  Proof.
    intros H1 H2. unfold in_window.
    destruct (f0 <=? uamount u) eqn:A, (uamount u <? f2) eqn:B, (uamount u <? f1) eqn:C, (f1 <=? uamount u) eqn:D; simpl; try reflexivity; lia.
  Qed.
  Lemma in_window_disj f0 f1 f2 u : in_window f0 f1 u && in_window f1 f2 u = false.
  Proof.
    unfold in_window.
    destruct (f0 <=? uamount u) eqn:A, (uamount u <? f2) eqn:B, (uamount u <? f1) eqn:C, (f1 <=? uamount u) eqn:D; simpl; try reflexivity; lia.
  Qed.
  Lemma sum_filter_split (p q r : utxo -> bool) l :
    (forall u, p u = q u || r u) -> (forall u, q u && r u = false) ->
    sum_eff (filter p l) = sum_eff (filter q l) + sum_eff (filter r l).
  Proof.
    intros H1 H2; induction l; simpl; [reflexivity|].
    rewrite H1. specialize (H2 a). destruct (q a), (r a); simpl in *; try discriminate; lia.
  Qed.

  (* soundness of the window loop: what is taken comes from the rows at or above the first floor, each row
     at most once, and the running total is the effective sum of what is taken *)
  Lemma sq_loop_sound f0 rows a : forall fuel rd taken floor mult gap rd1 taken1,
    sq_loop fpb fuel rows a rd taken floor mult gap = (rd1, taken1) ->
    0 <= f0 <= floor -> 1 <= mult ->
    (forall x, (cnt taken x <= cnt (filter (in_window f0 floor) rows) x)%nat) ->
    rd1 - rd = sum_eff taken1 - sum_eff taken /\
    (forall x, (cnt taken1 x <= cnt rows x)%nat).
  Proof.
    induction fuel as [|f IH]; intros rd taken floor mult gap rd1 taken1; simpl.
    - intros H _ _ Hc; inversion H; subst. split; [lia|]. intro x. specialize (Hc x). pose proof (cnt_filter_le (in_window f0 floor) rows x). lia.
    - destruct ((rd <? a) && (gap <? 5) && (floor * mult <? SQLITE_MAX_INTEGER)).
      + destruct (sq_get fpb (filter (in_window floor (floor * mult)) rows) a rd taken) as [rd2 taken2] eqn:G.
        apply sq_get_spec in G. destruct G as [G1 [G2 _]].
        intros H Hf Hm Hc.
        assert (Hfl : floor <= floor * mult) by nia.
        assert (Hc2 : forall x, (cnt taken2 x <= cnt (filter (in_window f0 (floor * mult)) rows) x)%nat).
        { intro x. rewrite (cnt_filter_split (in_window f0 (floor * mult)) (in_window f0 floor) (in_window floor (floor * mult))).
          - specialize (G2 x). specialize (Hc x). lia.
          - intro u. apply in_window_split; lia.
          - intro u. apply in_window_disj. }
        destruct (rd =? rd2).
        * apply IH in H; [|lia|nia|assumption]. destruct H as [H1 H2]. split; [lia | assumption].
        * apply IH in H; [|lia|lia|assumption]. destruct H as [H1 H2]. split; [lia | assumption].
      + intros H _ _ Hc; inversion H; subst. split; [lia|]. intro x. specialize (Hc x). pose proof (cnt_filter_le (in_window f0 floor) rows x). lia.
  Qed.

  Theorem sqlite_sound rows a floor :
    0 <= floor ->
    let r := sqlite_select fpb rows a floor in
    submset r rows /\ (r <> [] -> a <= sum_eff r) /\ (forall u, In u r -> utype0 u = true).
  Proof.
    intros Hf. unfold sqlite_select.
    destruct (sq_loop fpb SQ_FUEL (sq_sort (filter utype0 rows)) a 0 [] floor 100 0) as [rd taken] eqn:L.
    apply (sq_loop_sound floor) in L; [|lia|lia|intro x; rewrite cnt_nil; lia].
    destruct L as [L1 L2]. simpl in L1.
    destruct (rd >=? a) eqn:E; simpl.
    - split; [|split].
      + intro x. rewrite cnt_rev. specialize (L2 x). rewrite cnt_sq_sort in L2. pose proof (cnt_filter_le utype0 rows x). lia.
      + intros _. rewrite sum_eff_rev. lia.
      + intros u Hu. apply in_rev in Hu.
        assert (In u (filter utype0 rows)).
        { apply (count_occ_In utxo_eq_dec). apply In_cnt in Hu. specialize (L2 u). rewrite cnt_sq_sort in L2. unfold cnt in *. lia. }
        apply filter_In in H. tauto.
    - split; [apply submset_nil | split; [congruence | intros u []]].
  Qed.

  (* ---- reach of the windows (partial completeness) *)
  Definition SQ_REACH : Z := 92233720369.

  Definition phase_ok (floor mult gap : Z) : Prop :=
    (gap = 0 /\ mult = 100 /\ 1 <= floor) \/ (gap = 1 /\ mult = 10000 /\ 100 <= floor) \/
    (gap = 2 /\ mult = 100000000 /\ 1000000 <= floor) \/
    (gap = 3 /\ mult = 10000000000000000 /\ 100000000000000 <= floor).

  Lemma sq_loop_reach rows a : forall fuel k rd taken floor mult gap rd1 taken1,
    sq_loop fpb fuel rows a rd taken floor mult gap = (rd1, taken1) ->
    phase_ok floor mult gap -> 100 ^ (Z.of_nat k) <= floor -> (11 <= k + fuel)%nat ->
    (rd < a -> rd = sum_eff (filter (in_window 1 floor) rows)) ->
    rd1 < a ->
    exists floor1, SQ_REACH <= floor1 /\ rd1 = sum_eff (filter (in_window 1 floor1) rows).
  Proof.
    induction fuel as [|f IH]; intros k rd taken floor mult gap rd1 taken1; simpl.
    - intros H _ Hk Hf Hs Hlt; inversion H; subst. exists floor. split; [|apply Hs; assumption].
      assert (100 ^ 11 <= 100 ^ Z.of_nat k) by (apply Z.pow_le_mono_r; lia).
      assert (E : 100 ^ 11 = 10000000000000000000000) by reflexivity. unfold SQ_REACH. lia.
    - destruct ((rd <? a) && (gap <? 5) && (floor * mult <? SQLITE_MAX_INTEGER)) eqn:Gd.
      + apply andb_prop in Gd. destruct Gd as [Gd G3]. apply andb_prop in Gd. destruct Gd as [G1 G2].
        destruct (sq_get fpb (filter (in_window floor (floor * mult)) rows) a rd taken) as [rd2 taken2] eqn:G.
        apply sq_get_spec in G. destruct G as [_ [_ G4]].
        intros H Hp Hk Hf Hs Hlt.
        assert (Hm : 100 <= mult /\ 1 <= floor) by (destruct Hp as [?|[?|[?|?]]]; lia).
        assert (Hk2 : 100 ^ Z.of_nat (S k) <= floor * mult).
        { rewrite Nat2Z.inj_succ, Z.pow_succ_r by lia. nia. }
        assert (Hs2 : rd2 < a -> rd2 = sum_eff (filter (in_window 1 (floor * mult)) rows)).
        { intro Hlt2. rewrite (sum_filter_split (in_window 1 (floor * mult)) (in_window 1 floor) (in_window floor (floor * mult))).
          - rewrite <- Hs by lia. apply G4; assumption.
          - intro u. apply in_window_split; nia.
          - intro u. apply in_window_disj. }
        unfold SQLITE_MAX_INTEGER in G3.
        destruct (rd =? rd2).
        * apply (IH (S k)) in H; try assumption; [|lia].
          destruct Hp as [[-> [-> ?]]|[[-> [-> ?]]|[[-> [-> ?]]|[-> [-> ?]]]]].
          -- right; left. lia.
          -- right; right; left. lia.
          -- right; right; right. lia.
          -- exfalso. lia.
        * apply (IH (S k)) in H; try assumption; [|lia]. left. nia.
      + intros H Hp Hk Hf Hs Hlt; inversion H; subst. exists floor. split; [|apply Hs; assumption].
        apply andb_false_iff in Gd. destruct Gd as [Gd|Gd].
        * apply andb_false_iff in Gd. destruct Gd as [Gd|Gd]; [lia|].
          destruct Hp as [?|[?|[?|?]]]; lia.
        * unfold SQLITE_MAX_INTEGER, SQ_REACH in *. destruct Hp as [?|[?|[?|?]]]; lia.
  Qed.

  Lemma filter_all {A} (p : A -> bool) l : (forall x, In x l -> p x = true) -> filter p l = l.
  Proof. induction l; simpl; intro H; [reflexivity|]. rewrite (H a) by (left; reflexivity). f_equal. apply IHl. intros; apply H; right; assumption. Qed.

  Lemma submset_sum_le r : forall l, submset r l -> (forall u, In u l -> 0 <= eff u) -> sum_eff r <= sum_eff l.
  Proof.
    induction r as [|u r IH]; intros l S P; simpl.
    - apply sum_eff_nonneg; assumption.
    - assert (Hin : In u l).
      { apply (count_occ_In utxo_eq_dec). specialize (S u). rewrite cnt_cons, one_self in S. unfold cnt in S. lia. }
      apply in_split in Hin. destruct Hin as [l1 [l2 ->]].
      rewrite sum_eff_app. simpl.
      assert (sum_eff r <= sum_eff (l1 ++ l2)).
      { apply IH.
        - intro x. specialize (S x). rewrite !cnt_app, !cnt_cons in *. lia.
        - intros v Hv. apply P. apply in_app_iff in Hv. apply in_app_iff. simpl. tauto. }
      rewrite sum_eff_app in H. lia.
  Qed.

  (* if every plain output is worth more than its input fee and lies below the reach of the windows,
     the sqlite chooser comes back empty exactly when the plain outputs cannot cover the amount *)
  Theorem sqlite_complete_partial rows a :
    0 <= fpb -> 0 < a ->
    (forall u, In u rows -> utype0 u = true -> 0 < eff u /\ uamount u < SQ_REACH) ->
    (sqlite_select fpb rows a 1 = [] <-> sum_eff (filter utype0 rows) < a).
  Proof.
    intros Hfpb Ha Hrows. split.
    - unfold sqlite_select.
      destruct (sq_loop fpb SQ_FUEL (sq_sort (filter utype0 rows)) a 0 [] 1 100 0) as [rd taken] eqn:L.
      pose proof L as L0. apply (sq_loop_sound 1) in L0; [|lia|lia|intro x; rewrite cnt_nil; lia].
      destruct L0 as [L1 _]. simpl in L1.
      destruct (rd >=? a) eqn:E.
      + intro Hr. assert (taken = []) by (destruct taken; [reflexivity|]; simpl in Hr; apply app_eq_nil in Hr; destruct Hr; discriminate).
        subst. simpl in L1. lia.
      + intros _. apply (sq_loop_reach _ _ _ 0%nat) in L; [| left; lia | simpl; lia | unfold SQ_FUEL; lia | | lia].
        * destruct L as [floor1 [F1 F2]]. rewrite filter_all in F2; [rewrite sum_sq_sort in F2; lia|].
          intros u Hu. apply (proj1 (in_sq_sort _ _)) in Hu. apply filter_In in Hu. destruct Hu as [Hu Ht].
          destruct (Hrows u Hu Ht) as [P1 P2]. unfold in_window, eff, in_fee, IN_SIZE in *.
          apply andb_true_intro. split; [apply Z.leb_le | apply Z.ltb_lt]; nia.
        * intros _. replace (filter (in_window 1 1) (sq_sort (filter utype0 rows))) with (@nil utxo); [reflexivity|].
          symmetry. clear. induction (sq_sort (filter utype0 rows)); simpl; [reflexivity|].
          unfold in_window at 1. destruct (1 <=? uamount a) eqn:A, (uamount a <? 1) eqn:B; simpl; try assumption. lia.
    - intro Hlt. pose proof (sqlite_sound rows a 1 ltac:(lia)) as [S1 [S2 S3]].
      destruct (sqlite_select fpb rows a 1) as [|u r] eqn:E; [reflexivity|exfalso].
      assert (a <= sum_eff (u :: r)) by (apply S2; congruence).
      assert (sum_eff (u :: r) <= sum_eff (filter utype0 rows)); [|lia].
      apply submset_sum_le.
      + intro x. specialize (S1 x).
        destruct (in_dec utxo_eq_dec x (u :: r)) as [Hi|Hn].
        * assert (utype0 x = true) by (apply S3; assumption).
          rewrite cnt_filter_true by assumption. assumption.
        * apply (count_occ_not_In utxo_eq_dec) in Hn. unfold cnt. lia.
      + intros v Hv. apply filter_In in Hv. destruct Hv as [Hv Ht]. destruct (Hrows v Hv Ht). lia.
  Qed.
End Sq.

(* ------------------------------------------------------------------ wallet bookkeeping *)
Definition ids_of (w : wallet) : list N := map (fun e => uid (fst e)) w.

Lemma mem_id_true i ids : mem_id i ids = true <-> In i ids.
Proof.
  unfold mem_id. rewrite existsb_exists. split.
  - intros [x [H1 H2]]. apply N.eqb_eq in H2. subst; assumption.
  - intro H. exists i. split; [assumption | apply N.eqb_refl].
Qed.
Lemma mem_id_false i ids : mem_id i ids = false <-> ~ In i ids.
Proof. rewrite <- mem_id_true. destruct (mem_id i ids); split; congruence. Qed.

Lemma in_set_reserved u f flag ids w :
  In (u, f) (set_reserved flag ids w) <->
  (In (u, f) w /\ ~ In (uid u) ids) \/ (f = flag /\ In (uid u) ids /\ exists f0, In (u, f0) w).
Proof.
  unfold set_reserved. rewrite in_map_iff. split.
  - intros [[u0 f0] [E H]]. simpl in E. destruct (mem_id (uid u0) ids) eqn:M.
    + inversion E; subst. right. split; [reflexivity|]. split; [apply mem_id_true; assumption | eauto].
    + inversion E; subst. left. split; [assumption | apply mem_id_false; assumption].
  - intros [[H Hn]|[-> [Hi [f0 H]]]].
    + exists (u, f). simpl. apply mem_id_false in Hn. rewrite Hn. auto.
    + exists (u, f0). simpl. apply mem_id_true in Hi. rewrite Hi. auto.
Qed.
Lemma ids_set_reserved flag ids w : ids_of (set_reserved flag ids w) = ids_of w.
Proof.
  unfold ids_of, set_reserved. rewrite map_map. apply map_ext. intros [u f]; simpl.
  destruct (mem_id _ _); reflexivity.
Qed.
Lemma fst_set_reserved flag ids w : map fst (set_reserved flag ids w) = map fst w.
Proof.
  unfold set_reserved. rewrite map_map. apply map_ext. intros [u f]; simpl.
  destruct (mem_id _ _); reflexivity.
Qed.
Lemma NoDup_map_filter {A B} (g : A -> B) (p : A -> bool) l : NoDup (map g l) -> NoDup (map g (filter p l)).
Proof.
  induction l as [|a l IH]; simpl; intro H; [constructor|].
  apply NoDup_cons_iff in H. destruct H as [H1 H2]. destruct (p a); simpl; [|auto].
  constructor; [|auto]. intro Hin. apply H1. apply in_map_iff in Hin. destruct Hin as [x [E Hx]].
  apply filter_In in Hx. rewrite <- E. apply in_map; tauto.
Qed.
Lemma ids_unique w u f u' f' :
  NoDup (ids_of w) -> In (u, f) w -> In (u', f') w -> uid u = uid u' -> u = u' /\ f = f'.
Proof.
  intros N H1 H2 E.
  assert ((u, f) = (u', f')) by (apply (NoDup_map_inj_on (fun e : utxo * bool => uid (fst e)) w); assumption).
  inversion H; auto.
Qed.
Lemma in_unreserved u w : In u (unreserved w) <-> In (u, false) w.
Proof.
  unfold unreserved. rewrite in_map_iff. split.
  - intros [[u0 f0] [E H]]. apply filter_In in H. simpl in *. destruct H as [H Hf]. subst.
    destruct f0; [discriminate | assumption].
  - intro H. exists (u, false). split; [reflexivity|]. apply filter_In. auto.
Qed.
Lemma NoDup_unreserved w : NoDup (ids_of w) -> NoDup (map uid (unreserved w)).
Proof.
  intro H. unfold unreserved. rewrite map_map. apply (NoDup_map_filter (fun e : utxo * bool => uid (fst e))). exact H.
Qed.
Lemma in_reserved_ids i w : In i (reserved_ids w) <-> exists u, In (u, true) w /\ uid u = i.
Proof.
  unfold reserved_ids. rewrite in_map_iff. split.
  - intros [[u f] [E H]]. apply filter_In in H. simpl in *. destruct H as [H Hf]. subst. exists u; auto.
  - intros [u [H E]]. exists (u, true). split; [assumption|]. apply filter_In; auto.
Qed.
Lemma in_map_uid i l : In i (map uid l) <-> exists u : utxo, In u l /\ uid u = i.
Proof. rewrite in_map_iff. split; intros [u [A B]]; exists u; auto. Qed.


(* ------------------------------------------------------------------ statements in plain list terms *)
Lemma sound_plain fpb target txos r :
  sound fpb target txos r ->
  (NoDup txos -> NoDup r) /\ (NoDup (map uid txos) -> NoDup (map uid r)) /\ incl r txos /\
  (r <> [] -> target <= sum_eff fpb r).
Proof.
  intros [S T]. split; [intro; eapply submset_NoDup; eauto|]. split; [|split; [apply submset_incl; assumption | assumption]].
  intro N. apply (NoDup_map_on uid txos r N); [apply submset_incl; assumption|].
  eapply submset_NoDup; [eassumption|]. eapply NoDup_map_inv; eassumption.
Qed.

Theorem select_sound_plain fpb shuffle (shuffle_perm : forall l, Permutation l (shuffle l)) target coc :
  0 <= coc -> forall s txos,
  let r := select fpb shuffle target coc s txos in
  (NoDup txos -> NoDup r) /\ (NoDup (map uid txos) -> NoDup (map uid r)) /\ incl r txos /\
  (r <> [] -> target <= sum_eff fpb r).
Proof. intros Hc s txos. apply sound_plain. apply select_sound; assumption. Qed.

Lemma NoDup_app_uid {A} (a b : list A) :
  NoDup a -> NoDup b -> (forall x, In x a -> In x b -> False) -> NoDup (a ++ b).
Proof.
  induction a as [|x a IH]; simpl; intros Na Nb H; [assumption|].
  apply NoDup_cons_iff in Na. destruct Na as [Nx Na]. constructor.
  - rewrite in_app_iff. intros [H1|H1]; [contradiction | eapply H; eauto].
  - apply IH; auto. intros y Hy; apply H; right; assumption.
Qed.

(* ------------------------------------------------------------------ Transaction.create *)
Lemma mem_id_app i a b : mem_id i (a ++ b) = mem_id i a || mem_id i b.
Proof. unfold mem_id. apply existsb_app. Qed.
Lemma set_reserved_app flag a b w : set_reserved flag (a ++ b) w = set_reserved flag b (set_reserved flag a w).
Proof.
  unfold set_reserved. rewrite map_map. apply map_ext. intros [u f]; simpl. rewrite mem_id_app.
  destruct (mem_id (uid u) a); simpl; [destruct (mem_id (uid u) b); reflexivity | reflexivity].
Qed.
Lemma reserve_app a b w : reserve (a ++ b) w = reserve b (reserve a w).
Proof. unfold reserve. rewrite map_app. apply set_reserved_app. Qed.
Lemma reserve_nil w : reserve [] w = w.
Proof. unfold reserve, set_reserved. simpl. rewrite <- (map_id w) at 2. apply map_ext. intros [u f]; reflexivity. Qed.

Lemma base_small n_in n_out : 0 <= n_in <= 252 -> 0 <= n_out <= 252 -> base_size n_in n_out = 10.
Proof.
  intros H1 H2. unfold base_size, compact_size.
  destruct (n_in <? 253) eqn:A; [|lia]. destruct (n_out <? 253) eqn:B; [|lia]. reflexivity.
Qed.

Section CreateP.
  Variables fpb fpnc : Z.
  Variable shuffle : list utxo -> list utxo.
  Hypothesis shuffle_perm : forall l, Permutation l (shuffle l).
  Hypothesis fpb_nonneg : 0 <= fpb.
  Notation eff := (eff fpb).
  Notation sum_eff := (sum_eff fpb).

  Lemma choose_from_sound s free amount :
    let r := choose_from fpb shuffle s free amount in
    submset r free /\ (r <> [] -> amount <= sum_eff r).
  Proof.
    assert (Hfee : 0 <= CHANGE_EST_SIZE * fpb) by (unfold CHANGE_EST_SIZE; lia).
    unfold choose_from.
    destruct s; try (apply select_sound; assumption).
    pose proof (sqlite_sound fpb free (amount + CHANGE_EST_SIZE * fpb) (Z.min (Z.max (amount / 10) 1) 1)) as H.
    destruct H as [H1 [H2 _]]; [lia|]. split; [assumption|]. intro Hn. specialize (H2 Hn). lia.
  Qed.

  Lemma choose_from_plain s free amount :
    let r := choose_from fpb shuffle s free amount in
    (NoDup (map uid free) -> NoDup (map uid r)) /\ incl r free /\ (r <> [] -> amount <= sum_eff r).
  Proof.
    pose proof (choose_from_sound s free amount) as H. simpl in *.
    apply (sound_plain fpb amount) in H. tauto.
  Qed.

  Lemma sum_eff_amount l : sum_eff l = sum_amount l - zlen l * in_fee fpb.
  Proof.
    unfold zlen. induction l as [|u l IH]; [reflexivity|].
    cbn [sum_eff sum_amount length]. rewrite IH. unfold eff. rewrite Nat2Z.inj_succ. lia.
  Qed.
  Lemma sum_in_eff_split l : sum_in_eff fpb l = sum_iamount l - sum_inp_fee fpb l.
  Proof. induction l as [|i l IH]; simpl; lia. Qed.
  Lemma sum_out_total_split l : sum_out_total fpb fpnc l = sum_oamount l + sum_out_fee fpb fpnc l.
  Proof. induction l as [|o l IH]; simpl; lia. Qed.
  Lemma zlen_app {A} (a b : list A) : zlen (a ++ b) = zlen a + zlen b.
  Proof. unfold zlen. rewrite app_length. lia. Qed.
  Lemma zlen_nonneg {A} (a : list A) : 0 <= zlen a.
  Proof. unfold zlen. lia. Qed.

  Variable strat : strategy.
  Variable pre : list inp.
  Variable outs : list outp.
  Variable w0 : wallet.
  Hypothesis w0_nodup : NoDup (ids_of w0).

  Notation rounds := (rounds fpb shuffle strat pre outs).
  Notation cost0 := (cost0 fpb fpnc pre outs).
  Notation payment0 := (payment0 fpb pre).

  Definition good_added (added : list utxo) : Prop :=
    (forall u, In u added -> In (u, false) w0) /\ NoDup (map uid added).

  Lemma good_nil : good_added [].
  Proof. split; [intros u [] | constructor]. Qed.

  Lemma selection_step added amount :
    good_added added ->
    let sel := spendable fpb shuffle strat (reserve added w0) amount in
    good_added (added ++ sel) /\ (sel <> [] -> amount <= sum_eff sel).
  Proof.
    intros [G1 G2] sel. unfold sel, spendable.
    pose proof (choose_from_plain strat (unreserved (reserve added w0)) amount) as [C1 [C2 C3]].
    assert (Hnd : NoDup (map uid (unreserved (reserve added w0)))).
    { apply NoDup_unreserved. unfold reserve. rewrite ids_set_reserved. assumption. }
    specialize (C1 Hnd). split; [|assumption].
    assert (Hfree : forall u, In u (choose_from fpb shuffle strat (unreserved (reserve added w0)) amount) ->
                              In (u, false) w0 /\ ~ In (uid u) (map uid added)).
    { intros u Hu. apply C2 in Hu. apply in_unreserved in Hu. unfold reserve in Hu. apply in_set_reserved in Hu.
      destruct Hu as [Hu|[Hu _]]; [assumption | discriminate]. }
    split.
    - intros u Hu. apply in_app_iff in Hu. destruct Hu as [Hu|Hu]; [apply G1; assumption | apply Hfree; assumption].
    - rewrite map_app. apply NoDup_app_uid; [assumption | assumption|].
      intros x Hx1 Hx2. apply in_map_uid in Hx2. destruct Hx2 as [u [Hu E]]. subst x. apply (Hfree u Hu). assumption.
  Qed.

  (* shape of every outcome of the loop *)
  Lemma rounds_shape : forall k added payment cost,
    good_added added ->
    match rounds k (reserve added w0) added payment cost with
    | Ok added' ch w' => good_added added' /\ w' = reserve added' w0 /\ exists ext, added' = added ++ ext
    | Refused w' => exists added1 deficit,
        good_added added1 /\ 0 < deficit /\ spendable fpb shuffle strat (reserve added1 w0) deficit = [] /\
        w' = release (map iid pre ++ map uid added1) (reserve added1 w0)
    end.
  Proof.
    induction k as [|k IH]; intros added payment cost G; cbn [C03.rounds].
    - split; [assumption|]. split; [reflexivity|]. exists []. rewrite app_nil_r. reflexivity.
    - assert (Tail : forall added1 payment1, good_added added1 -> (exists e, added1 = added ++ e) ->
        match (let coc := cost_of_change fpb pre outs (zlen added1) in
               let change_amount := payment1 - cost - coc in
               if (payment1 >? cost) && (change_amount >? DUST) then Ok added1 (Some change_amount) (reserve added1 w0)
               else if nonempty outs then Ok added1 None (reserve added1 w0)
               else rounds k (reserve added1 w0) added1 payment1 (cost + coc + 1)) with
        | Ok added' ch w' => good_added added' /\ w' = reserve added' w0 /\ exists ext, added' = added ++ ext
        | Refused w' => exists added2 deficit,
            good_added added2 /\ 0 < deficit /\ spendable fpb shuffle strat (reserve added2 w0) deficit = [] /\
            w' = release (map iid pre ++ map uid added2) (reserve added2 w0)
        end).
      { intros added1 payment1 G1 [e He]. cbv zeta.
        destruct ((payment1 >? cost) && _); [split; [assumption|]; split; [reflexivity | exists e; assumption]|].
        destruct (nonempty outs); [split; [assumption|]; split; [reflexivity | exists e; assumption]|].
        specialize (IH added1 payment1 (cost + cost_of_change fpb pre outs (zlen added1) + 1) G1).
        destruct (rounds k _ _ _ _); [|assumption].
        destruct IH as [I1 [I2 [e2 I3]]]. split; [assumption|]. split; [assumption|].
        exists (e ++ e2). rewrite I3, He, app_assoc. reflexivity. }
      destruct (payment <? cost) eqn:Hpc.
      + pose proof (selection_step added (cost - payment) G) as [S1 S2].
        destruct (nonempty (spendable fpb shuffle strat (reserve added w0) (cost - payment))) eqn:Hne.
        * rewrite <- reserve_app. apply Tail; [assumption | eexists; reflexivity].
        * apply nonempty_false in Hne. exists added, (cost - payment). repeat split; try assumption; try apply G. lia.
      + apply Tail; [assumption | exists []; rewrite app_nil_r; reflexivity].
  Qed.

  (* after release_tx nothing the build touched is reserved and nothing else changed *)
  Lemma release_reserve added :
    good_added added ->
    release (map iid pre ++ map uid added) (reserve added w0) = release (map iid pre) w0.
  Proof.
    intros [G1 G2]. unfold release, reserve, set_reserved. rewrite map_map.
    apply map_ext_in. intros [u f] He. simpl.
    destruct (mem_id (uid u) (map uid added)) eqn:M; simpl; rewrite mem_id_app.
    - rewrite M. rewrite orb_true_r.
      apply mem_id_true in M. apply in_map_uid in M. destruct M as [u2 [Hu2 E]].
      apply G1 in Hu2. destruct (ids_unique w0 u2 false u f w0_nodup Hu2 He E) as [_ <-].
      destruct (mem_id (uid u) (map iid pre)); reflexivity.
    - rewrite M. rewrite orb_false_r. reflexivity.
  Qed.

  (* ---- the arithmetic of the balancing loop *)
  Definition CC : Z := (10 + CHANGE_EST_SIZE) * fpb.      (* cost_of_change while both counts fit one byte *)

  Lemma coc_small n_added :
    0 <= n_added -> zlen pre + n_added <= 252 -> zlen outs <= 252 ->
    cost_of_change fpb pre outs n_added = CC.
  Proof.
    intros H0 H1 H2. unfold cost_of_change, CC. rewrite base_small; [lia | | ]; pose proof (zlen_nonneg pre); pose proof (zlen_nonneg outs); lia.
  Qed.

  Lemma coc_nonneg n : 0 <= cost_of_change fpb pre outs n.
  Proof.
    unfold cost_of_change, base_size, compact_size, CHANGE_EST_SIZE.
    destruct (_ <? 253); destruct (_ <? 253); repeat (destruct (_ <=? _)); nia.
  Qed.

  Lemma fee_identity added ch :
    zlen pre + zlen added <= 252 -> zlen outs + change_count ch <= 252 -> zlen outs <= 252 ->
    tx_fee pre outs added ch - required_fee fpb fpnc pre outs added ch =
    (payment0 + sum_eff added) - cost0 - change_value ch - change_count ch * (P2PKH_SIZE * fpb).
  Proof.
    intros H1 H2 H3. unfold tx_fee, required_fee, C03.cost0, C03.payment0.
    pose proof (zlen_nonneg pre); pose proof (zlen_nonneg outs); pose proof (zlen_nonneg added).
    assert (0 <= change_count ch <= 1) by (destruct ch; simpl; lia).
    rewrite !base_small by lia.
    rewrite sum_eff_amount, sum_in_eff_split, sum_out_total_split. lia.
  Qed.

  Definition entry_ok (k : nat) (payment cost : Z) : Prop :=
    cost - cost0 = (5 - Z.of_nat k) * (CC + 1) /\
    (k = 5%nat \/ cost - (CC + 1) <= payment <= cost + DUST - 1).

  Lemma rounds_fee : forall k added payment cost added' ch w',
    good_added added -> payment = payment0 + sum_eff added -> (k <= 5)%nat -> entry_ok k payment cost ->
    rounds k (reserve added w0) added payment cost = Ok added' ch w' ->
    zlen pre + zlen added' <= 252 -> zlen outs <= 251 ->
    let fee := tx_fee pre outs added' ch in
    let req := required_fee fpb fpnc pre outs added' ch in
    req <= fee <= req + 5 * CC + DUST + 4.
  Proof.
    assert (HCC : 0 <= CC) by (unfold CC, CHANGE_EST_SIZE; lia).
    induction k as [|k IH]; intros added payment cost added' ch w' G Hpay Hk [E1 E2] Hr Hin Hout; cbn [C03.rounds] in Hr.
    - inversion Hr; subst. cbv zeta.
      pose proof (fee_identity added' None Hin ltac:(simpl; lia) ltac:(lia)) as F. cbn [change_value change_count] in F.
      destruct E2 as [E2|E2]; [discriminate|]. unfold DUST in *. lia.
    - (* the state after the optional selection *)
      assert (Hm : 0 <= (5 - Z.of_nat (S k)) * (CC + 1) <= 4 * (CC + 1)) by nia.
      assert (Tail : forall added1 payment1, good_added added1 -> payment1 = payment0 + sum_eff added1 -> cost <= payment1 ->
        (let coc := cost_of_change fpb pre outs (zlen added1) in
         let change_amount := payment1 - cost - coc in
         if (payment1 >? cost) && (change_amount >? DUST) then Ok added1 (Some change_amount) (reserve added1 w0)
         else if nonempty outs then Ok added1 None (reserve added1 w0)
         else rounds k (reserve added1 w0) added1 payment1 (cost + coc + 1)) = Ok added' ch w' ->
        let fee := tx_fee pre outs added' ch in
        let req := required_fee fpb fpnc pre outs added' ch in
        req <= fee <= req + 5 * CC + DUST + 4).
      { intros added1 payment1 G1 Hp1 Hge Hres. cbv zeta in Hres.
        assert (Hlen1 : zlen added1 <= zlen added').
        { destruct ((payment1 >? cost) && _); [inversion Hres; subst; lia|].
          destruct (nonempty outs); [inversion Hres; subst; lia|].
          pose proof (rounds_shape k added1 payment1 (cost + cost_of_change fpb pre outs (zlen added1) + 1) G1) as Sh.
          rewrite Hres in Sh. destruct Sh as [_ [_ [e ->]]]. rewrite zlen_app. pose proof (zlen_nonneg e). lia. }
        rewrite coc_small in Hres by (pose proof (zlen_nonneg added1); lia).
        destruct ((payment1 >? cost) && (payment1 - cost - CC >? DUST)) eqn:Hch.
        - inversion Hres; subst. cbv zeta.
          pose proof (fee_identity added' (Some (payment0 + sum_eff added' - cost - CC)) Hin ltac:(simpl; lia) ltac:(lia)) as F.
          cbn [change_value change_count] in F. unfold CC, CHANGE_EST_SIZE, P2PKH_SIZE, DUST in *. lia.
        - assert (Hsmall : payment1 - cost <= CC + DUST).
          { apply andb_false_iff in Hch. unfold DUST in *. destruct Hch; lia. }
          destruct (nonempty outs).
          + inversion Hres; subst. cbv zeta.
            pose proof (fee_identity added' None Hin ltac:(simpl; lia) ltac:(lia)) as F. cbn [change_value change_count] in F.
            unfold DUST in *. lia.
          + apply (IH added1 payment1 (cost + CC + 1) added' ch w'); try assumption; try lia.
            split; [lia|]. right. unfold DUST in *. lia. }
      destruct (payment <? cost) eqn:Hpc.
      + pose proof (selection_step added (cost - payment) G) as [S1 S2].
        destruct (nonempty (spendable fpb shuffle strat (reserve added w0) (cost - payment))) eqn:Hne; [|discriminate].
        apply nonempty_true in Hne. specialize (S2 Hne).
        rewrite <- reserve_app in Hr. apply Tail in Hr; try assumption.
        * rewrite sum_eff_app. lia.
        * lia.
      + apply Tail in Hr; try assumption. lia.
  Qed.

End CreateP.

Lemma release_after_reserve ids w : release ids (set_reserved true ids w) = release ids w.
Proof.
  unfold release, set_reserved. rewrite map_map. apply map_ext. intros [u f]; simpl.
  destruct (mem_id (uid u) ids) eqn:M; simpl; rewrite M; reflexivity.
Qed.

Section CreateT.
  Variables fpb fpnc : Z.
  Variable shuffle : list utxo -> list utxo.
  Hypothesis shuffle_perm : forall l, Permutation l (shuffle l).
  Hypothesis fpb_nonneg : 0 <= fpb.
  Variable strat : strategy.
  Variable pre : list inp.
  Variable outs : list outp.
  Variable w0 : wallet.
  Hypothesis w0_nodup : NoDup (ids_of w0).
  Notation eff := (eff fpb).
  Notation sum_eff := (sum_eff fpb).
  Notation cost0 := (cost0 fpb fpnc pre outs).
  Notation payment0 := (payment0 fpb pre).
  Notation create := (create fpb fpnc shuffle strat pre outs).

  (* the wallet once the pre-chosen inputs are reserved *)
  Definition w1 : wallet := set_reserved true (map iid pre) w0.

  Lemma w1_nodup : NoDup (ids_of w1).
  Proof. unfold w1. rewrite ids_set_reserved. assumption. Qed.

  Lemma w1_free u : In u (unreserved w1) <-> In u (unreserved w0) /\ ~ In (uid u) (map iid pre).
  Proof.
    rewrite !in_unreserved. unfold w1. rewrite in_set_reserved. split.
    - intros [H|[H _]]; [assumption | discriminate].
    - intro H. left. assumption.
  Qed.

  Theorem create_ok added ch w' :
    create w0 = Ok added ch w' ->
    NoDup (map uid added) /\
    (forall u, In u added -> In u (unreserved w0) /\ ~ In (uid u) (map iid pre)) /\
    (NoDup (map iid pre) -> NoDup (map iid pre ++ map uid added)) /\
    w' = reserve added w1 /\
    (zlen pre + zlen added <= 252 -> zlen outs <= 251 ->
     required_fee fpb fpnc pre outs added ch <= tx_fee pre outs added ch
       <= required_fee fpb fpnc pre outs added ch + 5 * CC fpb + DUST + 4).
  Proof.
    unfold C03.create. fold w1. intro H. rewrite <- (reserve_nil w1) in H.
    pose proof (rounds_shape fpb shuffle shuffle_perm fpb_nonneg strat pre outs w1 w1_nodup 5 [] payment0 cost0 (good_nil w1)) as Sh.
    rewrite H in Sh. destruct Sh as [[G1 G2] [Hw _]].
    assert (Hfree : forall u, In u added -> In u (unreserved w0) /\ ~ In (uid u) (map iid pre)).
    { intros u Hu. apply w1_free. apply in_unreserved. apply G1; assumption. }
    split; [assumption|]. split; [assumption|]. split; [|split; [assumption|]].
    - intro Hp. apply NoDup_app_uid; [assumption | assumption|].
      intros x Hx1 Hx2. apply in_map_uid in Hx2. destruct Hx2 as [u [Hu E]]. subst x. apply (Hfree u Hu). assumption.
    - intros Hin Hout.
      apply (rounds_fee fpb fpnc shuffle shuffle_perm fpb_nonneg strat pre outs w1 w1_nodup 5 [] payment0 cost0 added ch w' (good_nil w1));
        try assumption; try (simpl; lia).
      split; [simpl; lia | left; reflexivity].
  Qed.

  Theorem create_refused w' :
    create w0 = Refused w' ->
    w' = release (map iid pre) w0 /\
    exists held deficit, NoDup (map uid held) /\
      (forall u, In u held -> In u (unreserved w0) /\ ~ In (uid u) (map iid pre)) /\
      0 < deficit /\ spendable fpb shuffle strat (reserve held w1) deficit = [].
  Proof.
    unfold C03.create. fold w1. intro H. rewrite <- (reserve_nil w1) in H.
    pose proof (rounds_shape fpb shuffle shuffle_perm fpb_nonneg strat pre outs w1 w1_nodup 5 [] payment0 cost0 (good_nil w1)) as Sh.
    rewrite H in Sh. destruct Sh as [added1 [deficit [G [Hd [Hs Hw]]]]].
    split.
    - rewrite Hw. rewrite (release_reserve pre w1 w1_nodup added1 G). unfold w1. apply release_after_reserve.
    - exists added1, deficit. destruct G as [G1 G2]. repeat split; try assumption;
        apply (proj1 (w1_free u)); apply in_unreserved; apply G1; assumption.
  Qed.

  (* with requested outputs the loop body runs once: the exact selection, the exact change rule and the
     exact condition for a refusal *)
  Theorem create_with_outputs :
    outs <> [] ->
    let deficit := cost0 - payment0 in
    let sel := if payment0 <? cost0 then spendable fpb shuffle strat w1 deficit else [] in
    let surplus := payment0 + sum_eff sel - cost0 in
    let coc := cost_of_change fpb pre outs (zlen sel) in
    match create w0 with
    | Refused w' => 0 < deficit /\ sel = [] /\ w' = release (map iid pre) w0
    | Ok added ch w' =>
        added = sel /\ (0 < deficit -> sel <> []) /\ w' = reserve sel w1 /\ 0 <= surplus /\
        match ch with
        | Some c => c = surplus - coc /\ DUST < c
        | None => surplus - coc <= DUST
        end
    end.
  Proof.
    intros Hne. cbv zeta.
    pose proof (create_refused) as CR.
    unfold C03.create in *. fold w1 in *. cbn [C03.rounds].
    assert (Hno : nonempty outs = true) by (destruct outs; [congruence | reflexivity]).
    destruct (payment0 <? cost0) eqn:Hpc.
    - pose proof (selection_step fpb shuffle shuffle_perm fpb_nonneg strat w1 w1_nodup [] (cost0 - payment0) (good_nil w1)) as [_ S2].
      rewrite reserve_nil in S2.
      destruct (nonempty (spendable fpb shuffle strat w1 (cost0 - payment0))) eqn:Hs.
      + apply nonempty_true in Hs. specialize (S2 Hs). simpl app. unfold DUST in *.
        pose proof (coc_nonneg fpb fpb_nonneg pre outs (zlen (spendable fpb shuffle strat w1 (cost0 - payment0)))) as Hcoc.
        destruct ((_ >? cost0) && _) eqn:Hch.
        * apply andb_prop in Hch. destruct Hch as [H1 H2].
          split; [reflexivity|]. split; [intros _; assumption|]. split; [reflexivity|]. split; [lia|]. split; [reflexivity | lia].
        * rewrite Hno. apply andb_false_iff in Hch.
          split; [reflexivity|]. split; [intros _; assumption|]. split; [reflexivity|]. split; [lia|]. destruct Hch; lia.
      + apply nonempty_false in Hs. split; [lia|]. split; [assumption|].
        specialize (CR (release (map iid pre ++ map uid []) w1)). cbn [C03.rounds] in CR. rewrite Hpc in CR.
        assert (Hs' : nonempty (spendable fpb shuffle strat w1 (cost0 - payment0)) = false) by (rewrite Hs; reflexivity).
        rewrite Hs' in CR. destruct (CR eq_refl) as [E _]. exact E.
    - simpl sum_eff. change (zlen (@nil utxo)) with 0. unfold DUST in *.
      pose proof (coc_nonneg fpb fpb_nonneg pre outs 0) as Hcoc.
      replace (payment0 + 0) with payment0 by lia.
      destruct ((payment0 >? cost0) && _) eqn:Hch.
      + apply andb_prop in Hch. destruct Hch as [H1 H2].
        split; [reflexivity|]. split; [intros; lia|]. split; [rewrite reserve_nil; reflexivity|]. split; [lia|]. split; [reflexivity | lia].
      + rewrite Hno. apply andb_false_iff in Hch.
        split; [reflexivity|]. split; [intros; lia|]. split; [rewrite reserve_nil; reflexivity|]. split; [lia|]. destruct Hch; lia.
  Qed.

  Theorem create_total w : (exists a c w', C03.create fpb fpnc shuffle strat pre outs w = Ok a c w') \/
                           (exists w', C03.create fpb fpnc shuffle strat pre outs w = Refused w').
  Proof. destruct (C03.create fpb fpnc shuffle strat pre outs w); [left | right]; eauto. Qed.

  (* ---- create with signing: any failure, for lack of funds or while signing, leaves the wallet as it was
     with the transaction's own inputs released *)
  Variable can_sign : list N -> bool.

  Theorem create_signed_failure w' :
    (create_signed fpb fpnc shuffle strat pre outs can_sign w0 = Insufficient w' \/
     create_signed fpb fpnc shuffle strat pre outs can_sign w0 = SignFails w') ->
    w' = release (map iid pre) w0.
  Proof.
    unfold create_signed. destruct (create w0) as [added ch w2|w2] eqn:C.
    - destruct (can_sign _); intros [H|H]; try discriminate. inversion H; subst w'. clear H.
      destruct (create_ok added ch w2 C) as [Hnd [Hfree [_ [Hw _]]]]. subst w2.
      assert (G : good_added w1 added).
      { split; [|assumption]. intros u Hu. apply in_unreserved. apply w1_free. apply Hfree; assumption. }
      rewrite (release_reserve pre w1 w1_nodup added G). unfold w1. apply release_after_reserve.
    - intros [H|H]; try discriminate. inversion H; subst w'. apply (create_refused w2 C).
  Qed.

  Theorem create_signed_built added ch w' :
    create_signed fpb fpnc shuffle strat pre outs can_sign w0 = Built added ch w' ->
    create w0 = Ok added ch w' /\ can_sign (map iid pre ++ map uid added) = true.
  Proof.
    unfold create_signed. destruct (create w0) as [a c w2|w2]; [|discriminate].
    destruct (can_sign _) eqn:S; [|discriminate]. intro H; inversion H; subst. auto.
  Qed.

  Theorem create_signed_total :
    (exists a c w', create_signed fpb fpnc shuffle strat pre outs can_sign w0 = Built a c w') \/
    (exists w', create_signed fpb fpnc shuffle strat pre outs can_sign w0 = Insufficient w') \/
    (exists w', create_signed fpb fpnc shuffle strat pre outs can_sign w0 = SignFails w').
  Proof. destruct (create_signed fpb fpnc shuffle strat pre outs can_sign w0); eauto. Qed.
End CreateT.


(* ------------------------------------------------------------------ what an empty answer of the ledger means *)
Theorem choose_from_complete fpb shuffle (shuffle_perm : forall l, Permutation l (shuffle l)) :
  0 <= fpb -> forall s free d,
  0 < d -> (forall u, In u free -> 0 < eff fpb u) -> (N.of_nat (length free) < MAXIMUM_TRIES)%N ->
  let fee := CHANGE_EST_SIZE * fpb in
  let r := choose_from fpb shuffle s free d in
  match s with
  | Standard | PreferConfirmed => r = [] <-> sum_eff fpb free < d
  | OnlyConfirmed => r = [] <-> sum_eff fpb (filter (fun u => uheight u >? 0) free) < d
  | ClosestMatch => r = [] <-> forall u, In u free -> eff fpb u < d + fee
  | RandomDraw => r = [] <-> sum_eff fpb free < d + fee
  | BranchAndBound => (r <> [] -> d <= sum_eff fpb r <= d + fee) /\ (d <= sum_eff fpb free <= d + fee -> r <> [])
  | Sqlite => (forall u, In u free -> utype0 u = true -> uamount u < SQ_REACH) ->
              (r = [] <-> sum_eff fpb (filter utype0 free) < d + fee)
  end.
Proof.
  intros Hfpb s free d Hd Hpos Hlen. cbv zeta.
  assert (Hfee : 0 <= CHANGE_EST_SIZE * fpb) by (unfold CHANGE_EST_SIZE; lia).
  destruct s; unfold choose_from.
  - intro Hreach. replace (Z.min (Z.max (d / 10) 1) 1) with 1 by lia.
    apply sqlite_complete_partial; try assumption; try lia.
  - exact (select_complete fpb shuffle shuffle_perm d (CHANGE_EST_SIZE * fpb) Hfee Hd PreferConfirmed free Hpos Hlen).
  - exact (select_complete fpb shuffle shuffle_perm d (CHANGE_EST_SIZE * fpb) Hfee Hd OnlyConfirmed free Hpos Hlen).
  - exact (select_complete fpb shuffle shuffle_perm d (CHANGE_EST_SIZE * fpb) Hfee Hd Standard free Hpos Hlen).
  - exact (select_complete fpb shuffle shuffle_perm d (CHANGE_EST_SIZE * fpb) Hfee Hd BranchAndBound free Hpos Hlen).
  - exact (select_complete fpb shuffle shuffle_perm d (CHANGE_EST_SIZE * fpb) Hfee Hd ClosestMatch free Hpos Hlen).
  - exact (select_complete fpb shuffle shuffle_perm d (CHANGE_EST_SIZE * fpb) Hfee Hd RandomDraw free Hpos Hlen).
Qed.

Theorem sqlite_sound_plain fpb rows a floor :
  0 <= floor ->
  let r := sqlite_select fpb rows a floor in
  (NoDup rows -> NoDup r) /\ (NoDup (map uid rows) -> NoDup (map uid r)) /\ incl r rows /\
  (r <> [] -> a <= sum_eff fpb r) /\ (forall u, In u r -> utype0 u = true).
Proof.
  intros Hf. cbv zeta. pose proof (sqlite_sound fpb rows a floor Hf) as [S1 [S2 S3]].
  pose proof (sound_plain fpb a rows (sqlite_select fpb rows a floor) (conj S1 S2)) as [P1 [P2 [P3 P4]]].
  repeat split; assumption.
Qed.

(* ------------------------------------------------------------------ non-vacuity material *)
Definition ex_u (i : N) (amount : Z) : utxo := mkU i amount 5 true true i.
Definition ex_wallet : wallet :=
  [(ex_u 1 100000000, false); (ex_u 2 100000000, false); (ex_u 3 300000000, false);
   (ex_u 4 500000000, false); (ex_u 5 1000000000, false)].
Definition ex_id (l : list utxo) : list utxo := l.
Lemma ex_id_perm l : Permutation l (ex_id l).
Proof. apply Permutation_refl. Qed.

Lemma release_not_reserved ids w i : In i ids -> ~ In i (reserved_ids (release ids w)).
Proof.
  intros Hi Hr. apply in_reserved_ids in Hr. destruct Hr as [u [Hu E]]. unfold release in Hu.
  apply in_set_reserved in Hu. destruct Hu as [[_ Hn]|[Hf _]]; [subst; contradiction | discriminate].
Qed.

Theorem release_on_failure fpb fpnc shuffle (shuffle_perm : forall l, Permutation l (shuffle l)) :
  0 <= fpb -> forall strat pre outs w0, NoDup (map (fun e : utxo * bool => uid (fst e)) w0) -> forall w',
  create fpb fpnc shuffle strat pre outs w0 = Refused w' ->
  w' = release (map iid pre) w0 /\ (forall i, In i (map iid pre) -> ~ In i (reserved_ids w')) /\
  (forall i, In i (reserved_ids w') -> In i (reserved_ids w0)).
Proof.
  intros Hf strat pre outs w0 Hn w' H.
  destruct (create_refused fpb fpnc shuffle shuffle_perm Hf strat pre outs w0 Hn w' H) as [E _]. subst w'.
  split; [reflexivity|]. split; [intros i Hi; apply release_not_reserved; assumption|].
  intros i Hi. apply in_reserved_ids in Hi. destruct Hi as [u [Hu E]]. apply in_reserved_ids. exists u. split; [|assumption].
  unfold release in Hu. apply in_set_reserved in Hu. destruct Hu as [[Hu _]|[Hu _]]; [assumption | discriminate].
Qed.

Theorem release_on_any_failure fpb fpnc shuffle (shuffle_perm : forall l, Permutation l (shuffle l)) :
  0 <= fpb -> forall strat pre outs can_sign w0, NoDup (map (fun e : utxo * bool => uid (fst e)) w0) -> forall w',
  (create_signed fpb fpnc shuffle strat pre outs can_sign w0 = Insufficient w' \/
   create_signed fpb fpnc shuffle strat pre outs can_sign w0 = SignFails w') ->
  w' = release (map iid pre) w0 /\ (forall i, In i (map iid pre) -> ~ In i (reserved_ids w')) /\
  (forall i, In i (reserved_ids w') -> In i (reserved_ids w0)).
Proof.
  intros Hf strat pre outs can_sign w0 Hn w' H.
  pose proof (create_signed_failure fpb fpnc shuffle shuffle_perm Hf strat pre outs w0 Hn can_sign w' H) as E. subst w'.
  split; [reflexivity|]. split; [intros i Hi; apply release_not_reserved; assumption|].
  intros i Hi. apply in_reserved_ids in Hi. destruct Hi as [u [Hu E]]. apply in_reserved_ids. exists u. split; [|assumption].
  unfold release in Hu. apply in_set_reserved in Hu. destruct Hu as [[Hu _]|[Hu _]]; [assumption | discriminate].
Qed.

Theorem select_complete_five fpb shuffle (shuffle_perm : forall l, Permutation l (shuffle l)) :
  0 <= fpb -> forall s free d,
  0 < d -> (forall u, In u free -> 0 < eff fpb u) -> (N.of_nat (length free) < MAXIMUM_TRIES)%N ->
  let fee := CHANGE_EST_SIZE * fpb in
  let r := choose_from fpb shuffle s free d in
  match s with
  | Standard | PreferConfirmed => r = [] <-> sum_eff fpb free < d
  | OnlyConfirmed => r = [] <-> sum_eff fpb (filter (fun u => uheight u >? 0) free) < d
  | ClosestMatch => r = [] <-> forall u, In u free -> eff fpb u < d + fee
  | RandomDraw => r = [] <-> sum_eff fpb free < d + fee
  | BranchAndBound | Sqlite => True
  end.
Proof.
  intros Hf s free d Hd Hp Hl. pose proof (choose_from_complete fpb shuffle shuffle_perm Hf s free d Hd Hp Hl) as H.
  destruct s; try exact H; exact I.
Qed.

Theorem bnb_complete_partial fpb shuffle (shuffle_perm : forall l, Permutation l (shuffle l)) :
  0 <= fpb -> forall free d,
  0 < d -> (forall u, In u free -> 0 < eff fpb u) -> (N.of_nat (length free) < MAXIMUM_TRIES)%N ->
  let fee := CHANGE_EST_SIZE * fpb in
  let r := choose_from fpb shuffle BranchAndBound free d in
  (r <> [] -> d <= sum_eff fpb r <= d + fee) /\ (d <= sum_eff fpb free <= d + fee -> r <> []).
Proof.
  intros Hf free d Hd Hp Hl. exact (choose_from_complete fpb shuffle shuffle_perm Hf BranchAndBound free d Hd Hp Hl).
Qed.

Theorem sqlite_ledger_complete_partial fpb shuffle (shuffle_perm : forall l, Permutation l (shuffle l)) :
  0 <= fpb -> forall free d,
  0 < d -> (forall u, In u free -> 0 < eff fpb u) -> (N.of_nat (length free) < MAXIMUM_TRIES)%N ->
  (forall u, In u free -> utype0 u = true -> uamount u < 92233720369) ->
  (choose_from fpb shuffle Sqlite free d = [] <-> sum_eff fpb (filter utype0 free) < d + CHANGE_EST_SIZE * fpb).
Proof.
  intros Hf free d Hd Hp Hl. exact (choose_from_complete fpb shuffle shuffle_perm Hf Sqlite free d Hd Hp Hl).
Qed.

(* the windows really stop short: one confirmed output of 2 000 000 LBC, asked for 1 LBC *)
Lemma sqlite_reach_is_real :
  sqlite_select 50 [ex_u 1 200000000000000] 100002300 1 = [] /\ 100002300 <= sum_eff 50 [ex_u 1 200000000000000].
Proof. vm_compute. split; [reflexivity | discriminate]. Qed.

Lemma ex_pay :
  match create 50 0 ex_id Standard [] [mkO 300000000 34 None] ex_wallet with
  | Ok added ch w' => map uid added = [4%N] /\ ch = Some 199987600 /\ reserved_ids w' = [4%N]
  | Refused _ => False
  end.
Proof. vm_compute. repeat split. Qed.
Lemma ex_exact :
  match create 50 0 ex_id Standard [] [mkO 299990400 34 None] ex_wallet with
  | Ok added ch w' => map uid added = [3%N] /\ ch = None
  | Refused _ => False
  end.
Proof. vm_compute. repeat split. Qed.
Lemma ex_refuse :
  create 50 0 ex_id Standard [] [mkO 100000000000 34 None] ex_wallet = Refused ex_wallet.
Proof. vm_compute. reflexivity. Qed.
Lemma ex_positive : forall u, In u (unreserved ex_wallet) -> 0 < eff 50 u.
Proof. intros u H. vm_compute in H. repeat (destruct H as [<-|H]; [vm_compute; reflexivity|]). destruct H. Qed.
Lemma ex_nodup : NoDup (map (fun e : utxo * bool => uid (fst e)) ex_wallet).
Proof. vm_compute. repeat constructor; simpl; intuition discriminate. Qed.

(* txos[len(current_selection)] in branch_and_bound is never out of range: in every state that satisfies the
   loop invariant (the initial state does, every iteration preserves it: bnb_loop_result) the branch that
   reads it is only taken while undecided outputs are left *)
Lemma bnb_index_in_range fpb target coc txos cv ca done rest :
  state_inv fpb txos cv ca done rest ->
  (cv + ca <? target) || (cv >? target + coc) = false -> (cv >=? target) = false -> rest <> [].
Proof.
  intros [_ [Ica _]] H1 H2 ->. simpl in Ica. apply orb_false_elim in H1. destruct H1 as [H1 _]. lia.
Qed.

(* ------------------------------------------------------------------ the repaired defect, machine-checked *)
(* before `fix: Transaction.create reserves the pre-chosen inputs before funding` a pre-chosen input that is
   an unreserved wallet output could be selected again: outpoint 1 ends up twice in the transaction *)
Definition dup_wallet : wallet := [(ex_u 1 11400, false); (ex_u 2 100007400, false)].
Lemma create_old_refuted :
  match create_old 50 0 ex_id Standard [mkI 1 11400 148] [] dup_wallet with
  | Ok added _ _ => In 1%N (map iid [mkI 1 11400 148]) /\ In 1%N (map uid added)
  | Refused _ => False
  end.
Proof. vm_compute. split; left; reflexivity. Qed.
Lemma create_repaired_ex :
  match create 50 0 ex_id Standard [mkI 1 11400 148] [] dup_wallet with
  | Ok added ch w' => map uid added = [2%N] /\ reserved_ids w' = [1%N; 2%N]
  | Refused _ => False
  end.
Proof. vm_compute. split; reflexivity. Qed.
