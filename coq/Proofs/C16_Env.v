(* C16 proofs, part (a): envelope round trips and rejection. *)
From Coq Require Import NArith List Bool Lia.
From Coq.Strings Require Import Byte.
From LV Require Import Lib.Bytes Model.C16_Env.
Import ListNotations.

Lemma skipn_skipn' {A} (m n : nat) (l : list A) : skipn n (skipn m l) = skipn (m + n) l.
Proof.
  revert l. induction m as [|m IH]; intro l; [reflexivity|].
  destruct l as [|x l]; [destruct n; reflexivity|]. cbn [skipn Nat.add]. apply IH.
Qed.

Lemma env_roundtrip e : env_wf e -> env_decode (env_encode e) = EnvOk e.
Proof.
  destruct e as [p | h s p]; intro W; cbn [env_encode env_decode].
  - reflexivity.
  - destruct W as [Hh Hs].
    change (byte_eqb x01 x00) with false. change (byte_eqb x01 x01) with true. cbn iota.
    rewrite (firstn_app_exact' 20 h (s ++ p)) by (symmetry; exact Hh).
    rewrite (skipn_app_exact' 20 h (s ++ p)) by (symmetry; exact Hh).
    rewrite (firstn_app_exact' 64 s p) by (symmetry; exact Hs).
    replace 84%nat with (length (h ++ s)) by (rewrite app_length; lia).
    rewrite app_assoc. rewrite skipn_app_exact. reflexivity.
Qed.

Lemma env_rejects_version b r : b <> x00 -> b <> x01 -> env_decode (b :: r) = EnvVersion.
Proof.
  intros H0 H1. cbn [env_decode].
  apply byte_eqb_neq in H0. apply byte_eqb_neq in H1. rewrite H0, H1. reflexivity.
Qed.

Lemma env_decode_empty : env_decode [] = EnvEmpty.
Proof. reflexivity. Qed.

(* acceptance is decided by the first byte alone *)
Lemma env_accepts_iff d : (exists e, env_decode d = EnvOk e) <-> (exists r, d = x00 :: r \/ d = x01 :: r).
Proof.
  split.
  - intros [e H]. destruct d as [|b r]; [discriminate|]. cbn [env_decode] in H. exists r.
    destruct (byte_eqb b x00) eqn:E0.
    + apply byte_eqb_eq in E0. left. congruence.
    + destruct (byte_eqb b x01) eqn:E1; [|discriminate]. apply byte_eqb_eq in E1. right. congruence.
  - intros [r [-> | ->]]; cbn [env_decode].
    + eexists. reflexivity.
    + change (byte_eqb x01 x00) with false. change (byte_eqb x01 x01) with true. eexists. reflexivity.
Qed.

(* the other direction: whatever decodes to a well-formed envelope is exactly its encoding *)
Lemma env_decode_encode d e : env_decode d = EnvOk e -> env_wf e -> env_encode e = d.
Proof.
  destruct d as [|b r]; [discriminate|]. cbn [env_decode].
  destruct (byte_eqb b x00) eqn:E0.
  - intros H _. apply byte_eqb_eq in E0. inversion H. subst. reflexivity.
  - destruct (byte_eqb b x01) eqn:E1; [|discriminate].
    intros H W. apply byte_eqb_eq in E1. subst b.
    assert (He : e = Signed (firstn 20 r) (firstn 64 (skipn 20 r)) (skipn 84 r)) by congruence.
    subst e. clear H W. cbn [env_encode]. f_equal.
    replace (skipn 84 r) with (skipn 64 (skipn 20 r)) by (rewrite skipn_skipn'; reflexivity).
    rewrite (firstn_skipn 64 (skipn 20 r)). apply firstn_skipn.
Qed.

Lemma env_encode_inj e1 e2 : env_wf e1 -> env_wf e2 -> env_encode e1 = env_encode e2 -> e1 = e2.
Proof.
  intros W1 W2 H. pose proof (env_roundtrip e1 W1) as R1. rewrite H, (env_roundtrip e2 W2) in R1. congruence.
Qed.

(* the payload survives whatever the envelope *)
Lemma env_payload_roundtrip e : env_wf e ->
  match env_decode (env_encode e) with EnvOk e' => env_payload e' = env_payload e | _ => False end.
Proof. intro W. rewrite env_roundtrip by exact W. reflexivity. Qed.

(* Claim.from_bytes picks the current decoder exactly when the envelope is accepted *)
Lemma claim_format_v2_iff d : claim_format d = FmtV2 <-> exists e, env_decode d = EnvOk e.
Proof.
  destruct d as [|b r]; cbn [claim_format env_decode].
  - split; [discriminate | intros [e H]; discriminate].
  - destruct (byte_eqb b x00) eqn:E0; cbn [orb].
    + split; [eexists; reflexivity | reflexivity].
    + destruct (byte_eqb b x01) eqn:E1.
      * split; [eexists; reflexivity | reflexivity].
      * split; [destruct (byte_eqb b x7b); discriminate | intros [e H]; discriminate].
Qed.

Lemma claim_format_encode e : claim_format (env_encode e) = FmtV2.
Proof. destruct e; reflexivity. Qed.

Lemma purchase_roundtrip p : purchase_decode (purchase_encode p) = Some p.
Proof. reflexivity. Qed.

Lemma purchase_rejects d : (forall r, d <> x50 :: r) -> purchase_decode d = None.
Proof.
  intro H. destruct d as [|b r]; [reflexivity|]. cbn [purchase_decode].
  destruct (byte_eqb b x50) eqn:E; [|reflexivity]. apply byte_eqb_eq in E. subst. exfalso. apply (H r). reflexivity.
Qed.

Lemma purchase_decode_encode d p : purchase_decode d = Some p -> purchase_encode p = d.
Proof.
  destruct d as [|b r]; [discriminate|]. cbn [purchase_decode].
  destruct (byte_eqb b x50) eqn:E; [|discriminate]. apply byte_eqb_eq in E. intro H. inversion H. subst. reflexivity.
Qed.

Lemma ex_env_wf : env_wf (Signed (repeat x07 20) (repeat x05 64) [x0a; x00]).
Proof. split; reflexivity. Qed.
